(* Correctness of the connected-component computation of Model/Graph.v (model of
   src/utils/connected_components_computer.rs) for every view that is consistent with a
   well-formed framework.
   Main results (end of file):
     view_of_af_ok   : compact_af F n -> view_ok (view_of_af F) F
     view_of_fw_ok   : reachable store f -> view_ok (view_of_fw f) (af_of f)
     all_ccs_ok      : view_ok g F -> exists ccs, all_ccs g = Some ccs /\ decomp_ok F ccs
     merged_cc_ok    : view_ok g F -> (forall a, In a al -> In a (args F)) ->
                       exists s' c, merged_cc_of g (cc_new g) al = Some (s', c) /\ ... /\
                         exists rest, remaining_ccs g s' = Some rest /\ decomp_ok F (c :: rest)
   [decomp_ok] is the decomposition predicate of Proofs/Decomp.v. *)
From Coq Require Import List Arith Bool Lia Permutation ZifyBool.
From Crusta Require Import Spec.AF Spec.SemFacts Model.Store Model.Graph Model.Solvers.
From Crusta Require Import Proofs.StoreBase Proofs.Decomp Proofs.EncSpec Proofs.StoreProofs.
Import ListNotations.

(* ------------------------------------------------------------------ *)
(** * Views consistent with a framework *)

(* [g] presents the well-formed framework [F]: same live arguments (as a set; the order and
   multiplicity of [g_ids] are irrelevant for the component computation), every live id is at most
   [g_maxid] (and there is no live id when [g_maxid = None]; the converse is NOT required: a store
   whose arguments were all removed has [g_maxid = Some _] and no live id), the three attack
   iterators enumerate exactly the attacks of F (in any order, with any multiplicity). *)
Record view_ok (g : gview) (F : af) : Prop := {
  v_wf : wf F;
  v_ids : forall a, In a (g_ids g) <-> In a (args F);
  v_max : match g_maxid g with
          | None => g_ids g = []
          | Some m => forall a, In a (g_ids g) -> a <= m
          end;
  v_from : forall a b, In b (g_from g a) <-> att F a b;
  v_to : forall a b, In b (g_to g a) <-> att F b a;
  v_atts : forall a b, In (a, b) (g_atts g) <-> att F a b }.

(* ------------------------------------------------------------------ *)
(** * List facts *)

Lemma nth_repeat_false : forall n x, nth x (repeat false n) false = false.
Proof. induction n as [|n IH]; intros [|x]; cbn [repeat nth]; auto. Qed.

Lemma pop_last_spec {A} (l : list A) :
  match pop_last l with None => l = [] | Some (x, r) => l = r ++ [x] end.
Proof.
  unfold pop_last. destruct (rev l) as [|x r] eqn:E.
  - apply (f_equal (@rev A)) in E. rewrite rev_involutive in E. exact E.
  - rewrite <- (rev_involutive l), E. reflexivity.
Qed.

Lemma bounded_nodup_length : forall (l : list nat) n,
  NoDup l -> (forall x, In x l -> x < n) -> length l <= n.
Proof.
  intros l n Hnd Hlt. rewrite <- (seq_length n 0). apply NoDup_incl_length; [exact Hnd|].
  intros x Hx. apply in_seq. specialize (Hlt x Hx). lia.
Qed.

Lemma index_of_Some : forall l a i, index_of l a = Some i -> i < length l /\ nth i l 0 = a.
Proof.
  intros l a i H. unfold index_of in H. destruct (position_Some _ _ _ 0 H) as [H1 H2].
  apply Nat.eqb_eq in H2. split; [exact H1 | symmetry; exact H2].
Qed.

Lemma index_of_In : forall l a, In a l -> exists i, index_of l a = Some i.
Proof.
  intros l a Hin. unfold index_of. destruct (position (Nat.eqb a) l) as [i|] eqn:E; [exists i; reflexivity|].
  pose proof (position_None _ _ E a Hin) as H. rewrite Nat.eqb_refl in H. discriminate.
Qed.

Lemma index_of_nth : forall l i, NoDup l -> i < length l -> index_of l (nth i l 0) = Some i.
Proof.
  intros l i Hnd Hi. destruct (index_of_In l (nth i l 0) (nth_In l 0 Hi)) as [j Hj].
  destruct (index_of_Some _ _ _ Hj) as [Hjl Hjn].
  apply (proj1 (NoDup_nth l 0) Hnd) in Hjn; [|exact Hjl | exact Hi]. subst j. exact Hj.
Qed.

(* marking *)
Definition marked (l : list bool) (a : nat) : Prop := nth_bool l a = true.

Lemma marked_set : forall l b x, b < length l ->
  (marked (set_nth b true l) x <-> marked l x \/ x = b).
Proof.
  intros l b x Hb. unfold marked, nth_bool. destruct (Nat.eq_dec x b) as [->|Hne].
  - rewrite nth_set_nth_eq by exact Hb. tauto.
  - rewrite nth_set_nth_neq by (intros E; apply Hne; symmetry; exact E).
    split; [tauto|]. intros [H|H]; [exact H | contradiction].
Qed.

Lemma marked_repeat : forall n x, ~ marked (repeat false n) x.
Proof. intros n x. unfold marked, nth_bool. rewrite nth_repeat_false. discriminate. Qed.

(* ------------------------------------------------------------------ *)
(** * Connectedness (undirected paths along attacks) *)

Inductive conn (F : af) : nat -> nat -> Prop :=
| conn_refl : forall x, conn F x x
| conn_step : forall x y z, conn F x y -> (att F y z \/ att F z y) -> conn F x z.

Lemma conn_trans : forall F x y z, conn F x y -> conn F y z -> conn F x z.
Proof.
  intros F x y z Hxy Hyz. induction Hyz as [y|y u v Hyu IH Huv]; [exact Hxy|].
  apply (conn_step F x u v); [apply IH; exact Hxy | exact Huv].
Qed.

Lemma conn_sym : forall F x y, conn F x y -> conn F y x.
Proof.
  intros F x y H. induction H as [x|x u v Hxu IH Huv]; [apply conn_refl|].
  apply (conn_trans F v u x); [|exact IH].
  apply (conn_step F v v u); [apply conn_refl | tauto].
Qed.

(* ------------------------------------------------------------------ *)
(** * The extraction of one component *)

Definition ea_step (comp : list nat) (acc : option (list (nat * nat))) (p : nat * nat) :=
  match acc with
  | None => None
  | Some l =>
      match index_of comp (fst p) with
      | None => Some l
      | Some i => match index_of comp (snd p) with
                  | Some j => Some (l ++ [(i, j)])
                  | None => None
                  end
      end
  end.

Lemma extract_atts_fold : forall comp all, extract_atts comp all = fold_left (ea_step comp) all (Some []).
Proof. reflexivity. Qed.

Lemma extract_atts_spec ids : forall all acc,
  (forall a b, In (a, b) all -> In a ids -> In b ids) ->
  exists l, fold_left (ea_step ids) all (Some acc) = Some (acc ++ l) /\
    forall i j, In (i, j) l <->
      exists a b, In (a, b) all /\ index_of ids a = Some i /\ index_of ids b = Some j.
Proof.
  induction all as [|[a b] r IH]; intros acc Hcl.
  - exists []. split; [cbn [fold_left]; rewrite app_nil_r; reflexivity|].
    intros i j. split; [intros []|]. intros [a [b [[] _]]].
  - assert (Hr : forall a0 b0, In (a0, b0) r -> In a0 ids -> In b0 ids).
    { intros a0 b0 H. apply Hcl. right. exact H. }
    cbn [fold_left ea_step fst snd].
    destruct (index_of ids a) as [i|] eqn:Ea.
    + assert (Hb : In b ids).
      { apply (Hcl a b); [left; reflexivity|]. destruct (index_of_Some _ _ _ Ea) as [H1 H2].
        rewrite <- H2. apply nth_In. exact H1. }
      destruct (index_of_In ids b Hb) as [j Eb]. rewrite Eb.
      destruct (IH (acc ++ [(i, j)]) Hr) as [l [Hl Hspec]].
      exists ((i, j) :: l). split.
      * rewrite Hl, <- app_assoc. reflexivity.
      * intros i' j'. split.
        -- intros [E|Hin].
           ++ injection E as <- <-. exists a, b. split; [left; reflexivity|]. split; assumption.
           ++ apply Hspec in Hin. destruct Hin as [a' [b' [H1 H2]]]. exists a', b'.
              split; [right; exact H1 | exact H2].
        -- intros [a' [b' [[E|Hin] [H1 H2]]]].
           ++ injection E as <- <-. left. congruence.
           ++ right. apply Hspec. exists a', b'. split; [exact Hin|]. split; assumption.
    + destruct (IH acc Hr) as [l [Hl Hspec]]. exists l. split; [exact Hl|].
      intros i' j'. rewrite Hspec. split.
      * intros [a' [b' [H1 H2]]]. exists a', b'. split; [right; exact H1 | exact H2].
      * intros [a' [b' [[E|Hin] [H1 H2]]]].
        -- injection E as <- <-. congruence.
        -- exists a', b'. split; [exact Hin|]. split; assumption.
Qed.

(* ------------------------------------------------------------------ *)
Section Comp.
Variable g : gview.
Variable F : af.
Hypothesis Hv : view_ok g F.

(* the length of the [in_cc] vector *)
Definition cc_size : nat := S (match g_maxid g with Some m => m | None => 0 end).
Notation N := cc_size.

Definition adj (x y : nat) : Prop := att F x y \/ att F y x.

Lemma arg_lt_N : forall a, In a (args F) -> a < N.
Proof.
  intros a Ha. apply (v_ids _ _ Hv) in Ha. pose proof (v_max _ _ Hv) as Hm. unfold cc_size.
  destruct (g_maxid g) as [m|].
  - specialize (Hm a Ha). lia.
  - rewrite Hm in Ha. destruct Ha.
Qed.

Lemma has_id_spec : forall i, has_id g i = true <-> In i (args F).
Proof. intros i. unfold has_id. rewrite memb_In. apply (v_ids _ _ Hv). Qed.

Lemma nbr_spec : forall x y, In y (neighbours g x) <-> adj x y.
Proof.
  intros x y. unfold neighbours, adj. rewrite in_app_iff, (v_from _ _ Hv), (v_to _ _ Hv). tauto.
Qed.

Lemma adj_sym : forall x y, adj x y -> adj y x.
Proof. unfold adj. tauto. Qed.

Lemma adj_args : forall x y, adj x y -> In x (args F) /\ In y (args F).
Proof.
  intros x y [H|H]; destruct (proj2 (v_wf _ _ Hv) _ _ H) as [H1 H2]; split; assumption.
Qed.

(* ---------------- next_arg ---------------- *)
(* [next_arg] is the smallest live unmarked id, or the vector length when there is none *)
Record next_ok (s : ccstate) : Prop := {
  n_le : next_arg s <= length (in_cc s);
  n_lo : forall a, a < next_arg s -> In a (args F) -> marked (in_cc s) a;
  n_hi : next_arg s < length (in_cc s) ->
         In (next_arg s) (args F) /\ ~ marked (in_cc s) (next_arg s) }.

Lemma update_next_fuel_spec : forall fuel s,
  next_arg s <= length (in_cc s) ->
  length (in_cc s) - next_arg s < fuel ->
  (forall a, a < next_arg s -> In a (args F) -> marked (in_cc s) a) ->
  in_cc (update_next_fuel fuel g s) = in_cc s /\ next_ok (update_next_fuel fuel g s).
Proof.
  induction fuel as [|f IH]; intros s Hle Hf Hlo; [lia|].
  cbn [update_next_fuel].
  destruct (Nat.ltb (next_arg s) (length (in_cc s)) &&
            (nth_bool (in_cc s) (next_arg s) || negb (has_id g (next_arg s)))) eqn:E.
  - apply andb_true_iff in E. destruct E as [E1 E2]. apply Nat.ltb_lt in E1.
    specialize (IH {| in_cc := in_cc s; next_arg := S (next_arg s) |}).
    cbn [in_cc next_arg] in IH. apply IH; [lia | lia |].
    intros a Ha Hin. destruct (Nat.eq_dec a (next_arg s)) as [->|Hne].
    + apply orb_true_iff in E2. destruct E2 as [E2|E2]; [exact E2|].
      apply negb_true_iff in E2. apply has_id_spec in Hin. congruence.
    + apply Hlo; [lia | exact Hin].
  - split; [reflexivity|]. constructor; [exact Hle | exact Hlo |].
    intros Hlt. apply andb_false_iff in E. destruct E as [E|E].
    + apply Nat.ltb_ge in E. lia.
    + apply orb_false_iff in E. destruct E as [E1 E2]. apply negb_false_iff in E2.
      apply has_id_spec in E2. split; [exact E2|]. unfold marked. rewrite E1. discriminate.
Qed.

Lemma update_next_spec : forall s,
  next_arg s <= length (in_cc s) ->
  (forall a, a < next_arg s -> In a (args F) -> marked (in_cc s) a) ->
  in_cc (update_next g s) = in_cc s /\ next_ok (update_next g s).
Proof. intros s H1 H2. unfold update_next. apply update_next_fuel_spec; [exact H1 | lia | exact H2]. Qed.

(* ---------------- one visit, one neighbour list ---------------- *)
Lemma visit_spec : forall d b,
  In b (args F) -> length (in_cc (d_s d)) = N -> next_ok (d_s d) ->
  length (in_cc (d_s (dfs_visit g d b))) = N /\ next_ok (d_s (dfs_visit g d b)) /\
  ((marked (in_cc (d_s d)) b /\ dfs_visit g d b = d) \/
   (~ marked (in_cc (d_s d)) b /\
    d_current (dfs_visit g d b) = d_current d ++ [b] /\
    d_stack (dfs_visit g d b) = d_stack d ++ [b] /\
    forall x, marked (in_cc (d_s (dfs_visit g d b))) x <-> marked (in_cc (d_s d)) x \/ x = b)).
Proof.
  intros d b Hb Hlen Hn. unfold dfs_visit.
  destruct (nth_bool (in_cc (d_s d)) b) eqn:E.
  - split; [exact Hlen|]. split; [exact Hn|]. left. split; [exact E | reflexivity].
  - assert (HbN : b < length (in_cc (d_s d))) by (rewrite Hlen; apply arg_lt_N; exact Hb).
    assert (Hnm : ~ marked (in_cc (d_s d)) b) by (unfold marked; rewrite E; discriminate).
    cbn [next_arg].
    set (s1 := {| in_cc := set_nth b true (in_cc (d_s d)); next_arg := next_arg (d_s d) |}).
    assert (Hs2 : forall s2, s2 = (if Nat.eqb (next_arg (d_s d)) b then update_next g s1 else s1) ->
              in_cc s2 = in_cc s1 /\ next_ok s2).
    { intros s2 ->. destruct (Nat.eqb (next_arg (d_s d)) b) eqn:Eb.
      - apply update_next_spec; cbn [s1 in_cc next_arg].
        + rewrite length_set_nth. exact (n_le _ Hn).
        + intros a Ha Hin. apply marked_set; [exact HbN|]. left. exact (n_lo _ Hn a Ha Hin).
      - split; [reflexivity|]. apply Nat.eqb_neq in Eb. constructor; cbn [s1 in_cc next_arg].
        + rewrite length_set_nth. exact (n_le _ Hn).
        + intros a Ha Hin. apply marked_set; [exact HbN|]. left. exact (n_lo _ Hn a Ha Hin).
        + rewrite length_set_nth. intros Hlt. destruct (n_hi _ Hn Hlt) as [H1 H2].
          split; [exact H1|]. intros Hm. apply marked_set in Hm; [|exact HbN].
          destruct Hm as [Hm|Hm]; [exact (H2 Hm) | exact (Eb Hm)]. }
    destruct (Hs2 _ eq_refl) as [Hin Hok]. cbn [d_s d_current d_stack].
    split; [rewrite Hin; cbn [s1 in_cc]; rewrite length_set_nth; exact Hlen|].
    split; [exact Hok|]. right. split; [exact Hnm|]. split; [reflexivity|]. split; [reflexivity|].
    intros x. rewrite Hin. cbn [s1 in_cc]. apply marked_set. exact HbN.
Qed.

Lemma visit_fold_spec : forall l d,
  (forall b, In b l -> In b (args F)) -> length (in_cc (d_s d)) = N -> next_ok (d_s d) ->
  length (in_cc (d_s (fold_left (dfs_visit g) l d))) = N /\
  next_ok (d_s (fold_left (dfs_visit g) l d)) /\
  exists new,
    d_current (fold_left (dfs_visit g) l d) = d_current d ++ new /\
    d_stack (fold_left (dfs_visit g) l d) = d_stack d ++ new /\
    NoDup new /\
    (forall x, In x new -> In x l /\ ~ marked (in_cc (d_s d)) x) /\
    (forall x, marked (in_cc (d_s (fold_left (dfs_visit g) l d))) x <->
               marked (in_cc (d_s d)) x \/ In x new) /\
    (forall x, In x l -> marked (in_cc (d_s (fold_left (dfs_visit g) l d))) x).
Proof.
  induction l as [|b r IH]; intros d Hl Hlen Hn.
  - cbn [fold_left]. split; [exact Hlen|]. split; [exact Hn|]. exists [].
    rewrite !app_nil_r. split; [reflexivity|]. split; [reflexivity|]. split; [constructor|].
    split; [intros x []|]. split; [intros x; cbn [In]; tauto | intros x []].
  - cbn [fold_left].
    destruct (visit_spec d b (Hl b (or_introl eq_refl)) Hlen Hn) as [Hlen1 [Hn1 Hcase]].
    assert (Hr : forall b0, In b0 r -> In b0 (args F)) by (intros b0 H; apply Hl; right; exact H).
    destruct (IH (dfs_visit g d b) Hr Hlen1 Hn1) as [Hlen2 [Hn2 [new [Hc [Hs [Hnd [Hnew [Hm Hall]]]]]]]].
    split; [exact Hlen2|]. split; [exact Hn2|].
    destruct Hcase as [[Hmb Heq]|[Hnmb [Hc1 [Hs1 Hm1]]]].
    + rewrite Heq in *. exists new. split; [exact Hc|]. split; [exact Hs|]. split; [exact Hnd|].
      split; [intros x Hx; destruct (Hnew x Hx); split; [right|]; assumption|].
      split; [exact Hm|]. intros x [<-|Hx]; [apply Hm; left; exact Hmb | apply Hall; exact Hx].
    + exists (b :: new).
      split; [rewrite Hc, Hc1, <- app_assoc; reflexivity|].
      split; [rewrite Hs, Hs1, <- app_assoc; reflexivity|].
      split.
      { constructor; [|exact Hnd]. intros Hin. destruct (Hnew b Hin) as [_ H]. apply H.
        apply Hm1. right. reflexivity. }
      split.
      { intros x [<-|Hx]; [split; [left; reflexivity | exact Hnmb]|].
        destruct (Hnew x Hx) as [H1 H2]. split; [right; exact H1|].
        intros H. apply H2. apply Hm1. left. exact H. }
      split.
      { intros x. rewrite Hm, Hm1. cbn [In]. split; [intros [[H|H]|H] | intros [H|[H|H]]]; auto. }
      intros x [<-|Hx]; [apply Hm; left; apply Hm1; right; reflexivity | apply Hall; exact Hx].
Qed.

(* ---------------- the DFS loop ---------------- *)
(* [l0]: the marking before the component was started; [a]: its first argument *)
Record dfs_inv (l0 : list bool) (a : nat) (d : dfs) : Prop := {
  di_len : length (in_cc (d_s d)) = N;
  di_next : next_ok (d_s d);
  di_marked : forall x, marked (in_cc (d_s d)) x <-> marked l0 x \/ In x (d_current d);
  di_nodup : NoDup (d_current d);
  di_fresh : forall x, In x (d_current d) -> In x (args F) /\ ~ marked l0 x;
  di_root : In a (d_current d);
  di_stack : incl (d_stack d) (d_current d);
  di_closed : forall x y, In x (d_current d) -> ~ In x (d_stack d) -> adj x y ->
              marked (in_cc (d_s d)) y;
  di_hd : exists tl, d_current d = a :: tl;
  di_conn : forall x, In x (d_current d) -> conn F a x }.

Lemma dfs_inv_length : forall l0 a d, dfs_inv l0 a d -> length (d_current d) <= N.
Proof.
  intros l0 a d H. apply bounded_nodup_length; [exact (di_nodup _ _ _ H)|].
  intros x Hx. apply arg_lt_N. exact (proj1 (di_fresh _ _ _ H x Hx)).
Qed.

Lemma dfs_loop_spec l0 a0 : forall fuel d,
  dfs_inv l0 a0 d -> N - length (d_current d) + length (d_stack d) <= fuel ->
  dfs_inv l0 a0 (dfs_loop fuel g d) /\ d_stack (dfs_loop fuel g d) = [].
Proof.
  induction fuel as [|f IH]; intros d Hinv Hfuel.
  - cbn [dfs_loop]. split; [exact Hinv|]. destruct (d_stack d); [reflexivity | cbn [length] in Hfuel; lia].
  - cbn [dfs_loop]. pose proof (pop_last_spec (d_stack d)) as Hpop.
    destruct (pop_last (d_stack d)) as [[a rest]|]; [|split; [exact Hinv | exact Hpop]].
    set (d1 := {| d_s := d_s d; d_current := d_current d; d_stack := rest |}).
    assert (Ha : In a (d_current d)).
    { apply (di_stack _ _ _ Hinv). rewrite Hpop. apply in_or_app. right. left. reflexivity. }
    assert (Hnb : forall b, In b (neighbours g a) -> In b (args F)).
    { intros b Hb. apply nbr_spec in Hb. exact (proj2 (adj_args _ _ Hb)). }
    destruct (visit_fold_spec (neighbours g a) d1 Hnb (di_len _ _ _ Hinv) (di_next _ _ _ Hinv))
      as [Hlen [Hn [new [Hc [Hs [Hnd [Hnew [Hm Hall]]]]]]]].
    cbn [d1 d_s d_current d_stack] in Hc, Hs, Hnew, Hm.
    set (d' := fold_left (dfs_visit g) (neighbours g a) d1) in *.
    assert (Hinv' : dfs_inv l0 a0 d').
    { constructor.
      - exact Hlen.
      - exact Hn.
      - intros x. rewrite Hm, Hc, (di_marked _ _ _ Hinv), in_app_iff. tauto.
      - rewrite Hc. apply NoDup_app_intro; [exact (di_nodup _ _ _ Hinv) | exact Hnd |].
        intros x H1 H2. destruct (Hnew x H2) as [_ H]. apply H.
        apply (di_marked _ _ _ Hinv). right. exact H1.
      - intros x Hx. rewrite Hc in Hx. apply in_app_or in Hx. destruct Hx as [Hx|Hx].
        + exact (di_fresh _ _ _ Hinv x Hx).
        + destruct (Hnew x Hx) as [H1 H2]. split; [apply Hnb; exact H1|].
          intros H. apply H2. apply (di_marked _ _ _ Hinv). left. exact H.
      - rewrite Hc. apply in_or_app. left. exact (di_root _ _ _ Hinv).
      - rewrite Hc, Hs. intros x Hx. apply in_app_or in Hx. apply in_or_app.
        destruct Hx as [Hx|Hx]; [left | right; exact Hx].
        apply (di_stack _ _ _ Hinv). rewrite Hpop. apply in_or_app. left. exact Hx.
      - intros x y Hx Hns Hxy. rewrite Hc in Hx. rewrite Hs in Hns.
        apply in_app_or in Hx. destruct Hx as [Hx|Hx]; [|exfalso; apply Hns; apply in_or_app; right; exact Hx].
        destruct (Nat.eq_dec x a) as [->|Hne].
        + apply Hall. apply nbr_spec. exact Hxy.
        + apply Hm. left. apply (di_closed _ _ _ Hinv x y Hx); [|exact Hxy].
          rewrite Hpop. intros Hin. apply in_app_or in Hin. destruct Hin as [Hin|[Hin|[]]].
          * apply Hns. apply in_or_app. left. exact Hin.
          * apply Hne. symmetry. exact Hin.
      - destruct (di_hd _ _ _ Hinv) as [tl Htl]. exists (tl ++ new). rewrite Hc, Htl. reflexivity.
      - intros x Hx. rewrite Hc in Hx. apply in_app_or in Hx. destruct Hx as [Hx|Hx].
        + exact (di_conn _ _ _ Hinv x Hx).
        + apply (conn_step F a0 a x); [exact (di_conn _ _ _ Hinv a Ha)|].
          apply nbr_spec. exact (proj1 (Hnew x Hx)). }
    apply IH; [exact Hinv'|].
    pose proof (dfs_inv_length _ _ _ Hinv') as Hle. rewrite Hc, app_length in Hle.
    rewrite Hc, Hs, !app_length. rewrite Hpop, app_length in Hfuel. cbn [length] in Hfuel. lia.
Qed.

(* ---------------- one component ---------------- *)
(* the state between two component computations *)
Record st_ok (s : ccstate) : Prop := {
  so_len : length (in_cc s) = N;
  so_next : next_ok s;
  so_args : forall x, marked (in_cc s) x -> In x (args F);
  so_closed : forall x y, marked (in_cc s) x -> adj x y -> marked (in_cc s) y }.

(* [ids]: duplicate-free set of arguments not marked in [l0], closed under attacks (both directions) *)
Record cc_ok (l0 : list bool) (ids : list nat) : Prop := {
  co_nodup : NoDup ids;
  co_fresh : forall x, In x ids -> In x (args F) /\ ~ marked l0 x;
  co_closed : forall x y, In x ids -> adj x y -> In y ids }.

Lemma find_cc_spec : forall s a,
  st_ok s -> In a (args F) -> ~ marked (in_cc s) a ->
  st_ok (fst (find_cc g s a)) /\ cc_ok (in_cc s) (snd (find_cc g s a)) /\
  In a (snd (find_cc g s a)) /\
  (forall x, marked (in_cc (fst (find_cc g s a))) x <->
             marked (in_cc s) x \/ In x (snd (find_cc g s a))) /\
  (exists tl, snd (find_cc g s a) = a :: tl) /\
  (forall x, In x (snd (find_cc g s a)) -> conn F a x).
Proof.
  intros s a Hs Ha Hna. unfold find_cc. cbn [fst snd].
  set (s0 := {| in_cc := set_nth a true (in_cc s); next_arg := next_arg s |}).
  assert (HaN : a < length (in_cc s)) by (rewrite (so_len _ Hs); apply arg_lt_N; exact Ha).
  destruct (update_next_spec s0) as [Hin Hnext].
  { cbn [s0 in_cc next_arg]. rewrite length_set_nth. exact (n_le _ (so_next _ Hs)). }
  { cbn [s0 in_cc next_arg]. intros x Hx Hxin. apply marked_set; [exact HaN|]. left.
    exact (n_lo _ (so_next _ Hs) x Hx Hxin). }
  set (d0 := {| d_s := update_next g s0; d_current := [a]; d_stack := [a] |}).
  assert (Hinv0 : dfs_inv (in_cc s) a d0).
  { constructor; cbn [d0 d_s d_current d_stack].
    - rewrite Hin. cbn [s0 in_cc]. rewrite length_set_nth. exact (so_len _ Hs).
    - exact Hnext.
    - intros x. rewrite Hin. cbn [s0 in_cc In]. rewrite marked_set by exact HaN.
      split; intros [H|H]; auto. destruct H as [H|[]]. auto.
    - constructor; [intros [] | constructor].
    - intros x [<-|[]]. split; assumption.
    - left. reflexivity.
    - apply incl_refl.
    - intros x y Hx Hnx. contradiction.
    - exists []. reflexivity.
    - intros x [<-|[]]. apply conn_refl. }
  destruct (dfs_loop_spec (in_cc s) a (S (length (in_cc s))) d0 Hinv0) as [Hinv Hstack].
  { cbn [d0 d_current d_stack length]. rewrite (so_len _ Hs). lia. }
  set (d := dfs_loop (S (length (in_cc s))) g d0) in *.
  split; [|split; [|split; [|split; [|split]]]].
  - constructor.
    + exact (di_len _ _ _ Hinv).
    + exact (di_next _ _ _ Hinv).
    + intros x Hx. apply (di_marked _ _ _ Hinv) in Hx. destruct Hx as [Hx|Hx].
      * exact (so_args _ Hs x Hx).
      * exact (proj1 (di_fresh _ _ _ Hinv x Hx)).
    + intros x y Hx Hxy. apply (di_marked _ _ _ Hinv) in Hx. destruct Hx as [Hx|Hx].
      * apply (di_marked _ _ _ Hinv). left. exact (so_closed _ Hs x y Hx Hxy).
      * apply (di_closed _ _ _ Hinv x y Hx); [|exact Hxy]. rewrite Hstack. intros [].
  - constructor.
    + exact (di_nodup _ _ _ Hinv).
    + exact (di_fresh _ _ _ Hinv).
    + intros x y Hx Hxy.
      assert (Hy : marked (in_cc (d_s d)) y).
      { apply (di_closed _ _ _ Hinv x y Hx); [|exact Hxy]. rewrite Hstack. intros []. }
      apply (di_marked _ _ _ Hinv) in Hy. destruct Hy as [Hy|Hy]; [|exact Hy]. exfalso.
      apply (proj2 (di_fresh _ _ _ Hinv x Hx)).
      exact (so_closed _ Hs y x Hy (adj_sym _ _ Hxy)).
  - exact (di_root _ _ _ Hinv).
  - exact (di_marked _ _ _ Hinv).
  - exact (di_hd _ _ _ Hinv).
  - exact (di_conn _ _ _ Hinv).
Qed.

(* ---------------- extraction ---------------- *)
Definition comp_good (c : comp) : Prop :=
  args (c_af c) = seq 0 (length (c_ids c)) /\
  atts_ok (length (c_ids c)) (atts (c_af c)) /\
  forall i j, i < length (c_ids c) -> j < length (c_ids c) ->
    (att (c_af c) i j <-> att F (cc_global c i) (cc_global c j)).

Lemma extract_cc_spec : forall ids,
  NoDup ids -> (forall x y, In x ids -> att F x y -> In y ids) ->
  exists c, extract_cc g ids = Some c /\ c_ids c = ids /\ comp_good c.
Proof.
  intros ids Hnd Hcl. unfold extract_cc. rewrite extract_atts_fold.
  destruct (extract_atts_spec ids (g_atts g) []) as [l [Hl Hspec]].
  { intros a b Hab Ha. apply (v_atts _ _ Hv) in Hab. exact (Hcl a b Ha Hab). }
  rewrite Hl. cbn [app]. eexists. split; [reflexivity|]. cbn [c_ids]. split; [reflexivity|].
  unfold comp_good, cc_global. cbn [c_ids c_af args atts]. split; [reflexivity|]. split.
  - intros i j Hij. apply Hspec in Hij. destruct Hij as [a [b [_ [H1 H2]]]].
    split; [exact (proj1 (index_of_Some _ _ _ H1)) | exact (proj1 (index_of_Some _ _ _ H2))].
  - intros i j Hi Hj. unfold att. cbn [atts]. rewrite Hspec. split.
    + intros [a [b [Hab [H1 H2]]]]. apply (v_atts _ _ Hv) in Hab.
      rewrite (proj2 (index_of_Some _ _ _ H1)), (proj2 (index_of_Some _ _ _ H2)). exact Hab.
    + intros Hab. exists (nth i ids 0), (nth j ids 0).
      split; [apply (v_atts _ _ Hv); exact Hab|].
      split; apply index_of_nth; assumption.
Qed.

Lemma extract_cc_ok : forall l0 ids, cc_ok l0 ids ->
  exists c, extract_cc g ids = Some c /\ c_ids c = ids /\ comp_good c.
Proof.
  intros l0 ids H. apply extract_cc_spec; [exact (co_nodup _ _ H)|].
  intros x y Hx Hxy. apply (co_closed _ _ H x y Hx). left. exact Hxy.
Qed.

(* ---------------- the list of the remaining components ---------------- *)
(* [ccs] partitions the arguments not marked in [l0] into closed sets, correctly extracted *)
Record part_ok (l0 : list bool) (ccs : list comp) : Prop := {
  p_good : forall c, In c ccs -> comp_good c;
  p_closed : forall c, In c ccs -> forall x y, In x (c_ids c) -> adj x y -> In y (c_ids c);
  p_nodup : NoDup (concat (map c_ids ccs));
  p_cover : forall x, In x (concat (map c_ids ccs)) <-> In x (args F) /\ ~ marked l0 x }.

Lemma part_ok_cons : forall l0 l1 c rest,
  cc_ok l0 (c_ids c) -> comp_good c ->
  (forall x, marked l1 x <-> marked l0 x \/ In x (c_ids c)) ->
  part_ok l1 rest -> part_ok l0 (c :: rest).
Proof.
  intros l0 l1 c rest Hc Hg Hm Hrest. constructor.
  - intros c' [<-|Hc']; [exact Hg | exact (p_good _ _ Hrest c' Hc')].
  - intros c' [<-|Hc']; [exact (co_closed _ _ Hc) | exact (p_closed _ _ Hrest c' Hc')].
  - cbn [map concat]. apply NoDup_app_intro; [exact (co_nodup _ _ Hc) | exact (p_nodup _ _ Hrest) |].
    intros x H1 H2. apply (p_cover _ _ Hrest) in H2. apply (proj2 H2). apply Hm. right. exact H1.
  - intros x. cbn [map concat]. rewrite in_app_iff, (p_cover _ _ Hrest). split.
    + intros [H|[H1 H2]]; [exact (co_fresh _ _ Hc x H)|]. split; [exact H1|].
      intros H. apply H2. apply Hm. left. exact H.
    + intros [H1 H2]. destruct (nth_bool l1 x) eqn:E.
      * apply Hm in E. destruct E as [E|E]; [contradiction | left; exact E].
      * right. split; [exact H1|]. unfold marked. rewrite E. discriminate.
Qed.

Lemma all_ccs_fuel_spec : forall fuel s,
  st_ok s -> N - next_arg s < fuel ->
  exists ccs, all_ccs_fuel fuel g s = Some ccs /\ part_ok (in_cc s) ccs.
Proof.
  induction fuel as [|f IH]; intros s Hs Hfuel; [lia|].
  cbn [all_ccs_fuel]. unfold next_cc.
  assert (Hdone : (forall x, In x (args F) -> marked (in_cc s) x) -> part_ok (in_cc s) []).
  { intros H. constructor; cbn [map concat].
    - intros c [].
    - intros c [].
    - constructor.
    - intros x. split; [intros [] | intros [H1 H2]; exact (H2 (H x H1))]. }
  destruct (g_ids g) as [|i0 ids0] eqn:Eg.
  { exists []. split; [reflexivity|]. apply Hdone. intros x Hx. apply (v_ids _ _ Hv) in Hx.
    rewrite Eg in Hx. destruct Hx. }
  destruct (Nat.eqb (next_arg s) (length (in_cc s))) eqn:E.
  { exists []. split; [reflexivity|]. apply Hdone. intros x Hx. apply Nat.eqb_eq in E.
    apply (n_lo _ (so_next _ Hs)); [|exact Hx]. rewrite E, (so_len _ Hs). apply arg_lt_N. exact Hx. }
  apply Nat.eqb_neq in E. pose proof (n_le _ (so_next _ Hs)) as Hle.
  assert (Hlt : next_arg s < length (in_cc s)) by lia.
  destruct (n_hi _ (so_next _ Hs) Hlt) as [Ha Hna].
  destruct (find_cc_spec s (next_arg s) Hs Ha Hna) as [Hs' [Hcc [Hin [Hm _]]]].
  destruct (find_cc g s (next_arg s)) as [s' ids]. cbn [fst snd] in Hs', Hcc, Hin, Hm.
  destruct (extract_cc_ok _ _ Hcc) as [c [Hc [Hids Hgood]]]. rewrite Hc.
  assert (Hnext : next_arg s < next_arg s').
  { destruct (Nat.lt_ge_cases (next_arg s) (next_arg s')) as [H|H]; [exact H|]. exfalso.
    assert (Hlt' : next_arg s' < length (in_cc s')) by (rewrite (so_len _ Hs'), <- (so_len _ Hs); lia).
    destruct (n_hi _ (so_next _ Hs') Hlt') as [H1 H2].
    destruct (Nat.eq_dec (next_arg s') (next_arg s)) as [Heq|Hne].
    - apply H2. rewrite Heq. apply Hm. right. exact Hin.
    - apply H2. apply Hm. left. apply (n_lo _ (so_next _ Hs)); [lia | exact H1]. }
  destruct (IH s' Hs') as [rest [Hrest Hpart]]; [rewrite (so_len _ Hs) in Hlt; lia|].
  rewrite Hrest. exists (c :: rest). split; [reflexivity|].
  apply (part_ok_cons _ (in_cc s')); rewrite ?Hids; assumption.
Qed.

Lemma remaining_ccs_spec : forall s, st_ok s ->
  exists ccs, remaining_ccs g s = Some ccs /\ part_ok (in_cc s) ccs.
Proof.
  intros s Hs. unfold remaining_ccs. apply all_ccs_fuel_spec; [exact Hs|]. rewrite (so_len _ Hs). lia.
Qed.

Lemma part_ok_decomp : forall l0 ccs,
  (forall x, ~ marked l0 x) -> part_ok l0 ccs -> decomp_ok F ccs.
Proof.
  intros l0 ccs Hnone H. constructor.
  - intros c Hc. destruct (p_good _ _ H c Hc) as [H1 [H2 _]]. split; assumption.
  - exact (p_nodup _ _ H).
  - intros a. rewrite (p_cover _ _ H). split; [intros Ha; split; [exact Ha | apply Hnone] | tauto].
  - intros c Hc. exact (proj2 (proj2 (p_good _ _ H c Hc))).
  - intros a b Hab. destruct (proj2 (v_wf _ _ Hv) a b Hab) as [Ha _].
    assert (Hin : In a (concat (map c_ids ccs))) by (apply (p_cover _ _ H); split; [exact Ha | apply Hnone]).
    apply in_concat in Hin. destruct Hin as [l [Hl Hal]]. apply in_map_iff in Hl.
    destruct Hl as [c [<- Hc]]. exists c. split; [exact Hc|]. split; [exact Hal|].
    apply (p_closed _ _ H c Hc a b Hal). left. exact Hab.
Qed.

(* ---------------- the fresh state ---------------- *)
Lemma cc_new_spec : st_ok (cc_new g) /\ forall x, ~ marked (in_cc (cc_new g)) x.
Proof.
  unfold cc_new. fold cc_size.
  destruct (update_next_spec {| in_cc := repeat false N; next_arg := 0 |}) as [Hin Hn].
  { cbn [in_cc next_arg]. lia. }
  { cbn [next_arg]. intros a Ha. lia. }
  cbn [in_cc] in Hin.
  assert (Hnone : forall x, ~ marked (in_cc (update_next g {| in_cc := repeat false N; next_arg := 0 |})) x).
  { intros x. rewrite Hin. apply marked_repeat. }
  split; [|exact Hnone]. constructor.
  - rewrite Hin. apply repeat_length.
  - exact Hn.
  - intros x Hx. exfalso. exact (Hnone x Hx).
  - intros x y Hx. exfalso. exact (Hnone x Hx).
Qed.

(** (T1) the component iterator never panics and returns a valid decomposition *)
Theorem all_ccs_ok_sec : exists ccs, all_ccs g = Some ccs /\ decomp_ok F ccs.
Proof.
  destruct cc_new_spec as [Hs Hnone]. unfold all_ccs.
  destruct (remaining_ccs_spec _ Hs) as [ccs [H1 H2]]. exists ccs. split; [exact H1|].
  exact (part_ok_decomp _ _ Hnone H2).
Qed.

(* ---------------- the components of the iterator are connected ---------------- *)
Lemma extract_cc_ids : forall ids c, extract_cc g ids = Some c -> c_ids c = ids.
Proof.
  intros ids c H. unfold extract_cc in H. destruct (extract_atts ids (g_atts g)); [|discriminate].
  injection H as <-. reflexivity.
Qed.

Definition connected_cc (c : comp) : Prop :=
  exists a tl, c_ids c = a :: tl /\ forall x, In x (c_ids c) -> conn F a x.

Lemma all_ccs_fuel_conn : forall fuel s ccs, st_ok s -> all_ccs_fuel fuel g s = Some ccs ->
  forall c, In c ccs -> connected_cc c.
Proof.
  induction fuel as [|f IH]; intros s ccs Hs H c Hc.
  - cbn [all_ccs_fuel] in H. injection H as <-. destruct Hc.
  - cbn [all_ccs_fuel] in H. unfold next_cc in H.
    destruct (g_ids g) as [|i0 ids0]; [injection H as <-; destruct Hc|].
    destruct (Nat.eqb (next_arg s) (length (in_cc s))) eqn:E; [injection H as <-; destruct Hc|].
    apply Nat.eqb_neq in E. pose proof (n_le _ (so_next _ Hs)) as Hle.
    assert (Hlt : next_arg s < length (in_cc s)) by lia.
    destruct (n_hi _ (so_next _ Hs) Hlt) as [Ha Hna].
    destruct (find_cc_spec s (next_arg s) Hs Ha Hna) as [Hs' [_ [_ [_ [Hhd Hconn]]]]].
    destruct (find_cc g s (next_arg s)) as [s' ids]. cbn [fst snd] in Hs', Hhd, Hconn.
    destruct (extract_cc g ids) as [c0|] eqn:Ec; [|discriminate].
    destruct (all_ccs_fuel f g s') as [rest|] eqn:Er; [|discriminate].
    injection H as <-. destruct Hc as [<-|Hc].
    + apply extract_cc_ids in Ec. destruct Hhd as [tl Htl]. exists (next_arg s), tl.
      rewrite Ec. split; [exact Htl | exact Hconn].
    + exact (IH s' rest Hs' Er c Hc).
Qed.

Lemma closed_conn : forall l x y,
  (forall u v, In u l -> adj u v -> In v l) -> In x l -> conn F x y -> In y l.
Proof.
  intros l x y Hcl Hx H. induction H as [x|x u v Hxu IH Huv]; [exact Hx|].
  apply (Hcl u v); [apply IH; exact Hx | exact Huv].
Qed.

(** the components returned by the iterator are exactly the connectivity classes *)
Theorem all_ccs_classes_sec : forall ccs, all_ccs g = Some ccs ->
  forall c, In c ccs ->
    c_ids c <> [] /\ forall x y, In x (c_ids c) -> (In y (c_ids c) <-> conn F x y).
Proof.
  intros ccs H c Hc. destruct cc_new_spec as [Hs Hnone]. unfold all_ccs in H.
  destruct (remaining_ccs_spec _ Hs) as [ccs' [H1 Hpart]]. rewrite H in H1. injection H1 as <-.
  destruct (all_ccs_fuel_conn _ _ _ Hs H c Hc) as [a [tl [Hids Hconn]]].
  split; [rewrite Hids; discriminate|]. intros x y Hx. split.
  - intros Hy. apply (conn_trans F x a y); [apply conn_sym; exact (Hconn x Hx) | exact (Hconn y Hy)].
  - apply closed_conn; [exact (p_closed _ _ Hpart c Hc) | exact Hx].
Qed.

(* ---------------- merged components ---------------- *)
Definition merge_step (acc : ccstate * list nat) (a : nat) : ccstate * list nat :=
  let '(s0, l) := acc in
  if nth_bool (in_cc s0) a then acc
  else let '(s1, c) := find_cc g s0 a in (s1, l ++ c).

Lemma merge_fold_spec l0 : forall al s l,
  (forall a, In a al -> In a (args F) /\ ~ marked l0 a) ->
  st_ok s -> cc_ok l0 l -> (forall x, marked (in_cc s) x <-> marked l0 x \/ In x l) ->
  st_ok (fst (fold_left merge_step al (s, l))) /\
  cc_ok l0 (snd (fold_left merge_step al (s, l))) /\
  (forall x, marked (in_cc (fst (fold_left merge_step al (s, l)))) x <->
             marked l0 x \/ In x (snd (fold_left merge_step al (s, l)))) /\
  (forall a, In a al -> In a (snd (fold_left merge_step al (s, l)))) /\
  (forall x, In x l -> In x (snd (fold_left merge_step al (s, l)))) /\
  (forall x, In x (snd (fold_left merge_step al (s, l))) ->
             In x l \/ exists a, In a al /\ conn F a x).
Proof.
  induction al as [|a r IH]; intros s l Hal Hs Hl Hm.
  - cbn [fold_left fst snd]. split; [exact Hs|]. split; [exact Hl|]. split; [exact Hm|].
    split; [intros a []|]. split; [auto | intros x Hx; left; exact Hx].
  - assert (Hr : forall a0, In a0 r -> In a0 (args F) /\ ~ marked l0 a0) by (intros a0 H; apply Hal; right; exact H).
    destruct (Hal a (or_introl eq_refl)) as [Ha Hna0].
    cbn [fold_left].
    assert (Hstep : merge_step (s, l) a =
              if nth_bool (in_cc s) a then (s, l)
              else let '(s1, c) := find_cc g s a in (s1, l ++ c)) by reflexivity.
    rewrite Hstep. clear Hstep.
    destruct (nth_bool (in_cc s) a) eqn:E.
    + destruct (IH s l Hr Hs Hl Hm) as [H1 [H2 [H3 [H4 [H5 H6]]]]].
      split; [exact H1|]. split; [exact H2|]. split; [exact H3|]. split; [|split; [exact H5|]].
      * intros a' [<-|Ha']; [|exact (H4 a' Ha')]. apply H5.
        apply Hm in E. destruct E as [E|E]; [contradiction | exact E].
      * intros x Hx. destruct (H6 x Hx) as [H|[a' [Ha' Hc']]]; [left; exact H|].
        right. exists a'. split; [right; exact Ha' | exact Hc'].
    + assert (Hna : ~ marked (in_cc s) a) by (unfold marked; rewrite E; discriminate).
      destruct (find_cc_spec s a Hs Ha Hna) as [Hs1 [Hcc [Hin [Hm1 [_ Hconn1]]]]].
      destruct (find_cc g s a) as [s1 c]. cbn [fst snd] in Hs1, Hcc, Hin, Hm1.
      assert (Hl' : cc_ok l0 (l ++ c)).
      { constructor.
        - apply NoDup_app_intro; [exact (co_nodup _ _ Hl) | exact (co_nodup _ _ Hcc) |].
          intros x H1 H2. apply (proj2 (co_fresh _ _ Hcc x H2)). apply Hm. right. exact H1.
        - intros x Hx. apply in_app_or in Hx. destruct Hx as [Hx|Hx]; [exact (co_fresh _ _ Hl x Hx)|].
          destruct (co_fresh _ _ Hcc x Hx) as [H1 H2]. split; [exact H1|].
          intros H. apply H2. apply Hm. left. exact H.
        - intros x y Hx Hxy. apply in_app_or in Hx. apply in_or_app. destruct Hx as [Hx|Hx].
          + left. exact (co_closed _ _ Hl x y Hx Hxy).
          + right. exact (co_closed _ _ Hcc x y Hx Hxy). }
      assert (Hm' : forall x, marked (in_cc s1) x <-> marked l0 x \/ In x (l ++ c)).
      { intros x. rewrite Hm1, Hm, in_app_iff. tauto. }
      destruct (IH s1 (l ++ c) Hr Hs1 Hl' Hm') as [H1 [H2 [H3 [H4 [H5 H6]]]]].
      split; [exact H1|]. split; [exact H2|]. split; [exact H3|]. split; [|split].
      * intros a' [<-|Ha']; [|exact (H4 a' Ha')]. apply H5. apply in_or_app. right. exact Hin.
      * intros x Hx. apply H5. apply in_or_app. left. exact Hx.
      * intros x Hx. destruct (H6 x Hx) as [H|[a' [Ha' Hc']]].
        -- apply in_app_or in H. destruct H as [H|H]; [left; exact H|].
           right. exists a. split; [left; reflexivity | exact (Hconn1 x H)].
        -- right. exists a'. split; [right; exact Ha' | exact Hc'].
Qed.

(** (T2) merging the components of the listed arguments, then iterating over the rest *)
Theorem merged_cc_ok_sec : forall al,
  (forall a, In a al -> In a (args F)) ->
  exists s' c, merged_cc_of g (cc_new g) al = Some (s', c) /\
    (forall a, In a al -> In a (c_ids c)) /\
    (forall x, In x (c_ids c) -> exists a, In a al /\ conn F a x) /\
    exists rest, remaining_ccs g s' = Some rest /\ decomp_ok F (c :: rest).
Proof.
  intros al Hal. destruct cc_new_spec as [Hs Hnone]. unfold merged_cc_of.
  assert (Hex : existsb (fun a => nth_bool (in_cc (cc_new g)) a) al = false).
  { destruct (existsb _ al) eqn:E; [|reflexivity]. apply existsb_exists in E.
    destruct E as [a [_ Ha]]. exfalso. exact (Hnone a Ha). }
  rewrite Hex.
  change (fold_left _ al (cc_new g, [])) with (fold_left merge_step al (cc_new g, [])).
  destruct (merge_fold_spec (in_cc (cc_new g)) al (cc_new g) []) as [Hs' [Hcc [Hm [Hin [_ Hconn]]]]].
  - intros a Ha. split; [exact (Hal a Ha) | apply Hnone].
  - exact Hs.
  - constructor; [constructor | intros x [] | intros x y []].
  - intros x. cbn [In]. tauto.
  - destruct (fold_left merge_step al (cc_new g, [])) as [s' ids].
    cbn [fst snd] in Hs', Hcc, Hm, Hin, Hconn.
    destruct (extract_cc_ok _ _ Hcc) as [c [Hc [Hids Hgood]]]. rewrite Hc.
    exists s', c. split; [reflexivity|]. split; [rewrite Hids; exact Hin|].
    split; [rewrite Hids; intros x Hx; destruct (Hconn x Hx) as [[]|H]; exact H|].
    destruct (remaining_ccs_spec s' Hs') as [rest [Hrest Hpart]]. exists rest. split; [exact Hrest|].
    apply (part_ok_decomp (in_cc (cc_new g))); [exact Hnone|].
    apply (part_ok_cons _ (in_cc s')); rewrite ?Hids; assumption.
Qed.

End Comp.

(* ------------------------------------------------------------------ *)
(** * The two kinds of views used by the solvers are consistent *)

(* a compact framework (ids 0..n-1), as built by the readers and by the component extraction *)
Theorem view_of_af_ok : forall F n, compact_af F n -> view_ok (view_of_af F) F.
Proof.
  intros F n [Hargs Hok]. unfold view_of_af. rewrite Hargs, seq_length.
  constructor; cbn [g_maxid g_ids g_from g_to g_atts].
  - split; [rewrite Hargs; apply seq_NoDup|]. intros a b Hab. rewrite Hargs.
    destruct (Hok a b Hab) as [H1 H2]. split; apply in_seq; lia.
  - intros a. rewrite Hargs. reflexivity.
  - destruct n as [|k]; [reflexivity|]. intros a Ha. apply in_seq in Ha. lia.
  - intros a b. apply in_attacked.
  - intros a b. apply in_attackers.
  - intros a b. reflexivity.
Qed.

(* every component of a valid decomposition is compact, so its own view is consistent (the
   solvers recurse on [view_of_af (c_af c)]) *)
Corollary comp_view_ok : forall F ccs c, decomp_ok F ccs -> In c ccs ->
  view_ok (view_of_af (c_af c)) (c_af c).
Proof.
  intros F ccs c Hd Hc. apply (view_of_af_ok _ (length (c_ids c))). exact (d_compact _ _ Hd c Hc).
Qed.

(* the framework a store denotes *)
Definition af_of {L} (f : fw L) : af := {| args := live_ids L f; atts := iter_attacks L f |}.

Section StoreView.
Variable L : Type.
Variable leqb : L -> L -> bool.
Hypothesis leqb_spec : forall x y, leqb x y = true <-> x = y.

(* every store reachable from [new_with_labels ls] by any update history (C12's [reachable]) *)
Theorem view_of_fw_ok : forall f : fw L,
  (exists ls os, f = run_ops L leqb (fw_new_with_labels L leqb ls) os) ->
  view_ok (view_of_fw f) (af_of f).
Proof.
  intros f Hr.
  pose proof (observations L leqb leqb_spec f Hr) as [_ [_ [_ [Hfrom [Hto _]]]]].
  pose proof (spec_wellformed L leqb leqb_spec f Hr) as Hwf. cbv zeta in Hwf.
  destruct Hwf as [_ [Hsorted [Hlt [Hends _]]]].
  unfold Store.abs in Hfrom, Hto, Hsorted, Hlt, Hends. cbn [live rel next_id] in *.
  fold (live_ids L f) in Hsorted, Hlt, Hends.
  unfold view_of_fw, af_of. constructor; cbn [g_maxid g_ids g_from g_to g_atts args atts].
  - split; cbn [args atts].
    + apply Sorted.StronglySorted_Sorted in Hsorted. revert Hsorted.
      generalize (live_ids L f). intros l Hl.
      induction l as [|x r IH]; [constructor|].
      assert (Hss : StronglySorted lt (x :: r)).
      { apply Sorted.Sorted_StronglySorted; [intros a b c; apply Nat.lt_trans | exact Hl]. }
      inversion Hss as [|? ? Hr' Hall]; subst. constructor.
      * intros Hin. rewrite Forall_forall in Hall. specialize (Hall x Hin). lia.
      * apply IH. apply Sorted.StronglySorted_Sorted. exact Hr'.
    + exact Hends.
  - intros a. reflexivity.
  - unfold max_argument_id, ls_max_id.
    destruct (slots (ls f)) as [|o r] eqn:E.
    + unfold live_ids, iter_args, ls_iter. rewrite E. reflexivity.
    + intros a Ha. specialize (Hlt a Ha). cbn [length] in *. lia.
  - intros a b. unfold att. cbn [atts]. rewrite in_map_iff. split.
    + intros [[x y] [E Hin]]. cbn [snd] in E. subst y.
      apply (Permutation_in _ (Hfrom a)) in Hin. apply filter_In in Hin.
      destruct Hin as [Hin Hx]. cbn [fst] in Hx. apply Nat.eqb_eq in Hx. subst x. exact Hin.
    + intros Hin. exists (a, b). split; [reflexivity|].
      apply (Permutation_in _ (Permutation_sym (Hfrom a))). apply filter_In.
      split; [exact Hin | cbn [fst]; apply Nat.eqb_refl].
  - intros a b. unfold att. cbn [atts]. rewrite in_map_iff. split.
    + intros [[x y] [E Hin]]. cbn [fst] in E. subst x.
      apply (Permutation_in _ (Hto a)) in Hin. apply filter_In in Hin.
      destruct Hin as [Hin Hy]. cbn [snd] in Hy. apply Nat.eqb_eq in Hy. subst y. exact Hin.
    + intros Hin. exists (b, a). split; [reflexivity|].
      apply (Permutation_in _ (Permutation_sym (Hto a))). apply filter_In.
      split; [exact Hin | cbn [snd]; apply Nat.eqb_refl].
  - intros a b. reflexivity.
Qed.
End StoreView.

(* ------------------------------------------------------------------ *)
(** * Main theorems *)

(** (T1) For every view consistent with a well-formed framework, the component iterator
    ([iter_connected_components]) never panics ([None]), the fuels of [update_next], [dfs_loop] and
    [all_ccs_fuel] suffice, and the result is a valid decomposition: components are pairwise
    disjoint duplicate-free lists covering exactly the arguments, no attack crosses two components,
    and each extracted compact framework has attack (i,j) iff F has attack (ids[i], ids[j]). *)
Theorem all_ccs_ok : forall g F, view_ok g F ->
  exists ccs, all_ccs g = Some ccs /\ decomp_ok F ccs.
Proof. exact all_ccs_ok_sec. Qed.

(** (T2) On a fresh computer, [merged_connected_components_of al] never panics when the listed
    ids are arguments ([al] may be empty, may contain duplicates or several arguments of one
    component); the merged component contains every listed argument, and followed by the
    components the iterator still returns afterwards it is again a valid decomposition. *)
Theorem merged_cc_ok : forall g F al, view_ok g F ->
  (forall a, In a al -> In a (args F)) ->
  exists s' c, merged_cc_of g (cc_new g) al = Some (s', c) /\
    (forall a, In a al -> In a (c_ids c)) /\
    exists rest, remaining_ccs g s' = Some rest /\ decomp_ok F (c :: rest).
Proof.
  intros g F al Hv Hal. destruct (merged_cc_ok_sec g F Hv al Hal) as [s' [c [H1 [H2 [_ H3]]]]].
  exists s', c. split; [exact H1|]. split; [exact H2 | exact H3].
Qed.

(** the components of the iterator are nonempty and are exactly the connectivity classes of F
    (so the decomposition of T1 is the finest one) *)
Theorem all_ccs_classes : forall g F ccs, view_ok g F -> all_ccs g = Some ccs ->
  forall c, In c ccs ->
    c_ids c <> [] /\ forall x y, In x (c_ids c) -> (In y (c_ids c) <-> conn F x y).
Proof. intros g F ccs Hv. exact (all_ccs_classes_sec g F Hv ccs). Qed.

(** the merged component contains nothing but the classes of the listed arguments *)
Theorem merged_cc_exact : forall g F al s' c, view_ok g F ->
  (forall a, In a al -> In a (args F)) ->
  merged_cc_of g (cc_new g) al = Some (s', c) ->
  forall x, In x (c_ids c) <-> exists a, In a al /\ conn F a x.
Proof.
  intros g F al s' c Hv Hal H x.
  destruct (merged_cc_ok_sec g F Hv al Hal) as [s1 [c1 [H1 [H2 [H3 [rest [_ Hd]]]]]]].
  rewrite H in H1. injection H1 as <- <-. split; [apply H3|].
  intros [a [Ha Hax]]. apply (closed_conn F (c_ids c) a x); [|exact (H2 a Ha) | exact Hax].
  intros u v Hu Huv.
  assert (Hex : exists c', In c' (c :: rest) /\ In u (c_ids c') /\ In v (c_ids c')).
  { destruct Huv as [Huv|Huv]; destruct (d_nocross _ _ Hd _ _ Huv) as [c' [Hc' [Hx1 Hx2]]];
      exists c'; (split; [exact Hc'|]); split; assumption. }
  destruct Hex as [c' [Hc' [Hu' Hv']]].
  rewrite (comps_disjoint (c :: rest) c c' u (d_nodup _ _ Hd) (or_introl eq_refl) Hc' Hu Hu').
  exact Hv'.
Qed.

(* instances *)
Corollary all_ccs_compact_ok : forall F n, compact_af F n ->
  exists ccs, all_ccs (view_of_af F) = Some ccs /\ decomp_ok F ccs.
Proof. intros F n H. exact (all_ccs_ok _ _ (view_of_af_ok F n H)). Qed.

Corollary merged_cc_compact_ok : forall F n al, compact_af F n ->
  (forall a, In a al -> a < n) ->
  exists s' c, merged_cc_of (view_of_af F) (cc_new (view_of_af F)) al = Some (s', c) /\
    (forall a, In a al -> In a (c_ids c)) /\
    exists rest, remaining_ccs (view_of_af F) s' = Some rest /\ decomp_ok F (c :: rest).
Proof.
  intros F n al H Hal. apply (merged_cc_ok _ _ al (view_of_af_ok F n H)).
  intros a Ha. rewrite (proj1 H). apply in_seq. specialize (Hal a Ha). lia.
Qed.

Corollary all_ccs_store_ok : forall L (leqb : L -> L -> bool),
  (forall x y, leqb x y = true <-> x = y) ->
  forall f : fw L, (exists ls os, f = run_ops L leqb (fw_new_with_labels L leqb ls) os) ->
  exists ccs, all_ccs (view_of_fw f) = Some ccs /\ decomp_ok (af_of f) ccs.
Proof. intros L leqb Hl f Hr. exact (all_ccs_ok _ _ (view_of_fw_ok L leqb Hl f Hr)). Qed.

Corollary merged_cc_store_ok : forall L (leqb : L -> L -> bool),
  (forall x y, leqb x y = true <-> x = y) ->
  forall (f : fw L) al, (exists ls os, f = run_ops L leqb (fw_new_with_labels L leqb ls) os) ->
  (forall a, In a al -> In a (live_ids L f)) ->
  exists s' c, merged_cc_of (view_of_fw f) (cc_new (view_of_fw f)) al = Some (s', c) /\
    (forall a, In a al -> In a (c_ids c)) /\
    exists rest, remaining_ccs (view_of_fw f) s' = Some rest /\ decomp_ok (af_of f) (c :: rest).
Proof.
  intros L leqb Hl f al Hr Hal.
  exact (merged_cc_ok _ _ al (view_of_fw_ok L leqb Hl f Hr) Hal).
Qed.

(* ------------------------------------------------------------------ *)
(** * Translating arguments into a component (cc_local / locals of Model/Solvers.v) *)

Lemma cc_local_Some : forall c a i, NoDup (c_ids c) ->
  (cc_local c a = Some i <-> i < length (c_ids c) /\ cc_global c i = a).
Proof.
  intros c a i Hnd. unfold cc_local, cc_global. split.
  - apply index_of_Some.
  - intros [Hi <-]. apply index_of_nth; assumption.
Qed.

Lemma cc_local_None : forall c a, cc_local c a = None <-> ~ In a (c_ids c).
Proof.
  intros c a. unfold cc_local. split.
  - intros H Hin. destruct (index_of_In _ _ Hin) as [i Hi]. congruence.
  - intros H. destruct (index_of (c_ids c) a) as [i|] eqn:E; [|reflexivity]. exfalso. apply H.
    destruct (index_of_Some _ _ _ E) as [H1 H2]. rewrite <- H2. apply nth_In. exact H1.
Qed.

Lemma locals_ok : forall c al, (forall a, In a al -> In a (c_ids c)) ->
  exists l, locals c al = Some l /\ map (cc_global c) l = al /\
            forall i, In i l -> i < length (c_ids c).
Proof.
  intros c al. induction al as [|a r IH]; intros Hal.
  - exists []. split; [reflexivity|]. split; [reflexivity | intros i []].
  - destruct IH as [l [Hl [Hmap Hlt]]]; [intros a0 H; apply Hal; right; exact H|].
    destruct (index_of_In _ _ (Hal a (or_introl eq_refl))) as [i Hi].
    exists (i :: l). unfold locals in *. cbn [fold_right]. rewrite Hl. unfold cc_local. rewrite Hi.
    destruct (index_of_Some _ _ _ Hi) as [H1 H2].
    split; [reflexivity|]. split; [cbn [map]; unfold cc_global at 1; rewrite H2, Hmap; reflexivity|].
    intros j [<-|Hj]; [exact H1 | exact (Hlt j Hj)].
Qed.

(** (T2') as used by the solvers: the merged component also translates the query arguments *)
Corollary merged_locals_ok : forall g F al, view_ok g F ->
  (forall a, In a al -> In a (args F)) ->
  exists s' c l, merged_cc_of g (cc_new g) al = Some (s', c) /\
    locals c al = Some l /\ map (cc_global c) l = al /\
    (forall i, In i l -> i < length (c_ids c)) /\
    exists rest, remaining_ccs g s' = Some rest /\ decomp_ok F (c :: rest).
Proof.
  intros g F al Hv Hal. destruct (merged_cc_ok g F al Hv Hal) as [s' [c [H1 [H2 H3]]]].
  destruct (locals_ok c al H2) as [l [Hl [Hmap Hlt]]]. exists s', c, l.
  split; [exact H1|]. split; [exact Hl|]. split; [exact Hmap|]. split; [exact Hlt | exact H3].
Qed.

(* ------------------------------------------------------------------ *)
(** * The hypotheses are satisfiable; the statements on concrete inputs *)

(* a hand-built view with sparse ids (2,5,7,9 live below max id 11), a self-attack, a duplicate
   attack and an isolated argument *)
Example cp_example_fw : af := {| args := [2; 5; 7; 9]; atts := [(9, 2); (5, 5); (2, 9); (9, 2)] |}.
Example cp_example_view : gview :=
  {| g_maxid := Some 11; g_ids := [2; 5; 7; 9];
     g_from := attacked cp_example_fw; g_to := attackers cp_example_fw;
     g_atts := atts cp_example_fw |}.

Example cp_example_view_ok : view_ok cp_example_view cp_example_fw.
Proof.
  constructor; cbn [cp_example_view g_maxid g_ids g_from g_to g_atts].
  - split.
    + unfold cp_example_fw. cbn [args]. repeat constructor; cbn [In]; intros H;
        repeat (destruct H as [H|H]; [discriminate|]); exact H.
    + intros a b H. unfold cp_example_fw in *. cbn [args atts In] in *.
      repeat (destruct H as [H|H]; [injection H as <- <-; tauto|]). destruct H.
  - intros a. reflexivity.
  - intros a H. cbn [In] in H. repeat (destruct H as [<-|H]; [lia|]). destruct H.
  - intros a b. apply in_attacked.
  - intros a b. apply in_attackers.
  - intros a b. reflexivity.
Qed.

Example cp_example_all :
  all_ccs cp_example_view =
  Some [ {| c_ids := [2; 9]; c_af := {| args := [0; 1]; atts := [(1, 0); (0, 1); (1, 0)] |} |};
         {| c_ids := [5]; c_af := {| args := [0]; atts := [(0, 0)] |} |};
         {| c_ids := [7]; c_af := {| args := [0]; atts := [] |} |} ].
Proof. reflexivity. Qed.

Example cp_example_merged :
  exists s',
    merged_cc_of cp_example_view (cc_new cp_example_view) [7; 9; 7] =
      Some (s', {| c_ids := [7; 9; 2];
                   c_af := {| args := [0; 1; 2]; atts := [(1, 2); (2, 1); (1, 2)] |} |}) /\
    remaining_ccs cp_example_view s' =
      Some [ {| c_ids := [5]; c_af := {| args := [0]; atts := [(0, 0)] |} |} ].
Proof. eexists. split; reflexivity. Qed.

Example cp_example_compact : compact_af {| args := seq 0 3; atts := [(0, 1); (2, 2)] |} 3.
Proof.
  split; [reflexivity|]. intros a b H. cbn [In] in H.
  repeat (destruct H as [H|H]; [injection H as <- <-; lia|]). destruct H.
Qed.

(* ------------------------------------------------------------------ *)
Print Assumptions view_of_af_ok.
Print Assumptions view_of_fw_ok.
Print Assumptions comp_view_ok.
Print Assumptions all_ccs_ok.
Print Assumptions merged_cc_ok.
Print Assumptions all_ccs_classes.
Print Assumptions merged_cc_exact.
Print Assumptions merged_locals_ok.
Print Assumptions all_ccs_compact_ok.
Print Assumptions merged_cc_compact_ok.
Print Assumptions all_ccs_store_ok.
Print Assumptions merged_cc_store_ok.
