(* Whole-framework theorems about the public entry points of the grounded, complete and stable
   solvers of Model/Solvers.v: the per-component theorems of SolverCc.v / SolverThms.v are lifted
   through the decomposition into connected components (Proofs/Decomp.v), for every valid SAT
   oracle, every threshold >= 1 and every view [g] of a well-formed framework [F].

   Facts about the graph algorithms (connected components, grounded extension) are taken as
   hypotheses of the Section [Whole]; after the section closes they are explicit premises of each
   theorem that uses them:
     Hcc     : the component iterator returns a decomposition of F
     Hmerged : the merged component of a non-empty list of arguments of F, followed by the
               remaining components, is a decomposition of F containing the listed arguments
     Hgr     : [grounded g] is the grounded extension of F, without duplicates
     Hgr_cc  : [grounded] is correct on the compact framework of a component
   Results are lists of GLOBAL ids. *)
From Crusta Require Import Spec.AF Sat.Cnf Sat.Prog Model.Encoders Model.Graph Model.Solvers.
From Crusta Require Import Spec.SemFacts Spec.Theory Spec.Invariance Proofs.Decomp.
From Crusta Require Import Proofs.ProgLaws Proofs.EncSpec Proofs.EncBase Proofs.EncAll
  Proofs.SolverBasics Proofs.SolverCc Proofs.SolverThms.
From Coq Require Import ZifyBool.
Import ListNotations.
Open Scope prog_scope.

Notation wpT := (wp (fun _ => True) (fun _ => True) (fun _ => True)).

(* ------------------------------------------------------------------------------------------ *)
(** * List helpers *)

Lemma position_some : forall (A : Type) (p : A -> bool) (l : list A) i d,
  position p l = Some i -> i < length l /\ p (nth i l d) = true.
Proof.
  intros A p. induction l as [|x r IH]; intros i d H; cbn [position] in H; [discriminate|].
  destruct (p x) eqn:Hp.
  - injection H as <-. cbn [length nth]. split; [lia|exact Hp].
  - destruct (position p r) as [j|] eqn:Hj; [|discriminate]. cbn [option_map] in H.
    injection H as <-. destruct (IH j d eq_refl) as [H1 H2]. cbn [length nth]. split; [lia|exact H2].
Qed.

Lemma position_in : forall (A : Type) (p : A -> bool) (l : list A) x,
  In x l -> p x = true -> exists i, position p l = Some i.
Proof.
  intros A p. induction l as [|y r IH]; intros x Hin Hp; [destruct Hin|]. cbn [position].
  destruct (p y) eqn:Hpy; [eexists; reflexivity|].
  destruct Hin as [->|Hin]; [congruence|]. destruct (IH x Hin Hp) as [i ->]. eexists; reflexivity.
Qed.

Lemma index_of_some : forall l a i, index_of l a = Some i -> i < length l /\ nth i l 0 = a.
Proof.
  intros l a i H. unfold index_of in H. destruct (position_some _ _ l i 0 H) as [H1 H2].
  apply Nat.eqb_eq in H2. split; [exact H1|now symmetry].
Qed.

Lemma index_of_in : forall l a, In a l -> exists i, index_of l a = Some i.
Proof. intros l a H. apply (position_in _ _ l a H). apply Nat.eqb_refl. Qed.

Lemma index_of_nth : forall l i, NoDup l -> i < length l -> index_of l (nth i l 0) = Some i.
Proof.
  intros l i Hnd Hi. destruct (index_of_in l (nth i l 0) (nth_In l 0 Hi)) as [j Hj].
  rewrite Hj. f_equal. destruct (index_of_some _ _ _ Hj) as [Hjl E].
  apply (proj1 (NoDup_nth l 0) Hnd); assumption.
Qed.

Lemma in_filter_map : forall (A B : Type) (f : A -> option B) l y,
  In y (Encoders.filter_map f l) <-> exists x, In x l /\ f x = Some y.
Proof.
  intros A B f. induction l as [|x r IH]; intros y; cbn [Encoders.filter_map].
  - split; [intros []|intros [x [[] _]]].
  - destruct (f x) as [z|] eqn:Hz.
    + cbn [In]. rewrite IH. split.
      * intros [->|[x' [H1 H2]]]; [exists x; split; [now left|exact Hz]|exists x'; split; [now right|exact H2]].
      * intros [x' [[->|H1] H2]]; [left; congruence|right; now exists x'].
    + rewrite IH. split.
      * intros [x' [H1 H2]]. exists x'. split; [now right|exact H2].
      * intros [x' [[->|H1] H2]]; [congruence|now exists x'].
Qed.

Lemma Forall2_combine : forall (A B : Type) (P : A -> B -> Prop) l l',
  Forall2 P l l' -> forall x y, In (x, y) (combine l l') -> P x y.
Proof.
  intros A B P l l' H. induction H as [|a b l l' Hab H IH]; intros x y Hin; [destruct Hin|].
  cbn [combine In] in Hin. destruct Hin as [E|Hin]; [injection E as <- <-; exact Hab|now apply IH].
Qed.

Lemma Forall2_in_l : forall (A B : Type) (P : A -> B -> Prop) l l',
  Forall2 P l l' -> forall x, In x l -> exists y, In (x, y) (combine l l') /\ P x y.
Proof.
  intros A B P l l' H. induction H as [|a b l l' Hab H IH]; intros x Hin; [destruct Hin|].
  destruct Hin as [<-|Hin].
  - exists b. split; [now left|exact Hab].
  - destruct (IH x Hin) as [y [H1 H2]]. exists y. split; [now right|exact H2].
Qed.

Lemma Forall2_impl : forall (A B : Type) (P Q : A -> B -> Prop) l l',
  (forall x y, In x l -> P x y -> Q x y) -> Forall2 P l l' -> Forall2 Q l l'.
Proof.
  intros A B P Q l l' HPQ H. induction H as [|a b l l' Hab H IH]; constructor.
  - apply HPQ; [now left|exact Hab].
  - apply IH. intros x y Hx. apply HPQ. now right.
Qed.

Lemma Forall2_map_r : forall (A B C : Type) (P : A -> C -> Prop) (f : B -> C) l l',
  Forall2 (fun x y => P x (f y)) l l' -> Forall2 P l (map f l').
Proof. intros A B C P f l l' H. induction H; cbn [map]; constructor; assumption. Qed.

Lemma Forall2_map_same : forall (A B : Type) (P : A -> B -> Prop) (f : A -> B) l,
  (forall x, In x l -> P x (f x)) -> Forall2 P l (map f l).
Proof.
  intros A B P f. induction l as [|x r IH]; intros H; cbn [map]; constructor.
  - apply H. now left.
  - apply IH. intros y Hy. apply H. now right.
Qed.

(* ------------------------------------------------------------------------------------------ *)
(** * Local ids of listed arguments *)

(* the local ids (in component [c]) of the listed arguments lying in [c] *)
Definition la_of (c : comp) (al : list nat) : list nat := Encoders.filter_map (cc_local c) al.

Lemma in_la_of : forall c al i,
  In i (la_of c al) -> i < length (c_ids c) /\ In (cc_global c i) al.
Proof.
  intros c al i H. apply in_filter_map in H. destruct H as [a [Ha Hl]].
  unfold cc_local in Hl. apply index_of_some in Hl. destruct Hl as [H1 H2].
  split; [exact H1|]. unfold cc_global. now rewrite H2.
Qed.

Lemma la_of_intro : forall c al i,
  NoDup (c_ids c) -> i < length (c_ids c) -> In (cc_global c i) al -> In i (la_of c al).
Proof.
  intros c al i Hnd Hi Hin. apply in_filter_map. exists (cc_global c i). split; [exact Hin|].
  unfold cc_local, cc_global. now apply index_of_nth.
Qed.

Lemma la_of_local : forall c al a,
  In a al -> In a (c_ids c) -> exists i, In i (la_of c al) /\ cc_global c i = a.
Proof.
  intros c al a Hal Hc. destruct (index_of_in _ _ Hc) as [i Hi]. exists i. split.
  - apply in_filter_map. exists a. split; [exact Hal|exact Hi].
  - apply index_of_some in Hi. unfold cc_global. tauto.
Qed.

(* when every listed argument lies in [c], [locals] succeeds *)
Lemma locals_some : forall c al, (forall a, In a al -> In a (c_ids c)) ->
  exists la, locals c al = Some la /\ map (cc_global c) la = al /\
             forall i, In i la -> i < length (c_ids c).
Proof.
  intros c. induction al as [|a r IH]; intros H.
  - exists []. split; [reflexivity|]. split; [reflexivity|]. intros i [].
  - destruct IH as [la [H1 [H2 H3]]]; [intros x Hx; apply H; now right|].
    destruct (index_of_in (c_ids c) a (H a (or_introl eq_refl))) as [i Hi].
    exists (i :: la). cbn [locals fold_right]. fold (locals c r). rewrite H1. unfold cc_local. rewrite Hi.
    split; [reflexivity|]. apply index_of_some in Hi. destruct Hi as [Hi1 Hi2]. split.
    + cbn [map]. unfold cc_global at 1. now rewrite Hi2, H2.
    + intros j [<-|Hj]; [exact Hi1|now apply H3].
Qed.

(* ------------------------------------------------------------------------------------------ *)
(** * Assignments to extensions *)

Lemma a2e_NoDup : forall e n m, NoDup (assignment_to_extension n e m).
Proof. intros e n m. rewrite (a2e_ext e n). unfold ext_of. apply NoDup_filter, seq_NoDup. Qed.

Lemma a2e_incl : forall e n m, incl (assignment_to_extension n e m) (seq 0 n).
Proof. intros e n m a. rewrite (a2e_ext e n). unfold ext_of. intros H. apply filter_In in H. tauto. Qed.

(* ------------------------------------------------------------------------------------------ *)
(** * Gluing a list of local sets, one per component *)

Fixpoint glue (ccs : list comp) (Ls : list (list nat)) : list nat :=
  match ccs, Ls with
  | c :: r, L :: Ls' => lift c L ++ glue r Ls'
  | _, _ => []
  end.

Lemma in_glue : forall ccs Ls x,
  In x (glue ccs Ls) <-> exists c S, In (c, S) (combine ccs Ls) /\ In x (lift c S).
Proof.
  induction ccs as [|c r IH]; intros Ls x.
  - cbn [glue combine]. split; [intros []|intros [c [S [[] _]]]].
  - destruct Ls as [|L Ls'].
    + cbn [glue combine]. split; [intros []|intros [c' [S [[] _]]]].
    + cbn [glue combine]. rewrite in_app_iff, IH. split.
      * intros [H|[c' [S [H1 H2]]]]; [exists c, L; split; [now left|exact H]|].
        exists c', S. split; [now right|exact H2].
      * intros [c' [S [[E|H1] H2]]]; [injection E as <- <-; now left|right; now exists c', S].
Qed.

Lemma glue_map : forall (f : comp -> list nat) l,
  glue l (map f l) = flat_map (fun c => lift c (f c)) l.
Proof. intros f. induction l as [|c r IH]; cbn [glue map flat_map]; [reflexivity|now rewrite IH]. Qed.

Lemma in_lift : forall c S x, In x (lift c S) <-> exists i, In i S /\ cc_global c i = x.
Proof.
  intros c S x. unfold lift. rewrite in_map_iff. split; intros [i [H1 H2]]; exists i; tauto.
Qed.

(* two entries for the same non-empty component coincide *)
Lemma combine_unique : forall (ccs : list comp) (Ls : list (list nat)) c S S' x,
  NoDup (concat (map c_ids ccs)) -> In x (c_ids c) ->
  In (c, S) (combine ccs Ls) -> In (c, S') (combine ccs Ls) -> S = S'.
Proof.
  induction ccs as [|c1 r IH]; intros Ls c S S' x Hnd Hx H1 H2; [destruct H1|].
  destruct Ls as [|L Ls']; [destruct H1|]. cbn [combine In] in H1, H2.
  cbn [map concat] in Hnd. destruct (NoDup_app_inv _ _ _ Hnd) as [_ [Hr Hdis]].
  assert (Hin : forall T, In (c, T) (combine r Ls') -> In x (concat (map c_ids r))).
  { intros T HT. apply in_combine_l in HT. apply in_concat. exists (c_ids c).
    split; [now apply in_map|exact Hx]. }
  destruct H1 as [E1|H1]; destruct H2 as [E2|H2].
  - congruence.
  - injection E1 as -> _. exfalso. exact (Hdis x Hx (Hin S' H2)).
  - injection E2 as -> _. exfalso. exact (Hdis x Hx (Hin S H1)).
  - exact (IH Ls' c S S' x Hr Hx H1 H2).
Qed.

Lemma lift_NoDup : forall c S,
  NoDup (c_ids c) -> NoDup S -> incl S (seq 0 (length (c_ids c))) -> NoDup (lift c S).
Proof.
  intros c S Hc HS Hi. unfold lift. apply NoDup_map_inj_on; [exact HS|].
  intros i j Hii Hj E. apply Hi in Hii. apply Hi in Hj. apply in_seq in Hii. apply in_seq in Hj.
  unfold cc_global in E. apply (proj1 (NoDup_nth (c_ids c) 0) Hc); [lia|lia|exact E].
Qed.

Lemma lift_incl : forall c S, incl S (seq 0 (length (c_ids c))) -> incl (lift c S) (c_ids c).
Proof.
  intros c S Hi x Hx. apply in_lift in Hx. destruct Hx as [i [H1 <-]].
  apply Hi in H1. apply in_seq in H1. unfold cc_global. apply nth_In. lia.
Qed.

Definition local_set (c : comp) (S : list nat) : Prop :=
  NoDup S /\ incl S (seq 0 (length (c_ids c))).

Lemma glue_incl : forall ccs Ls, Forall2 local_set ccs Ls ->
  incl (glue ccs Ls) (concat (map c_ids ccs)).
Proof.
  intros ccs Ls H. induction H as [|c L ccs Ls [_ Hc] H IH]; cbn [glue map concat]; [intros x []|].
  intros x Hx. apply in_app_iff in Hx. apply in_app_iff. destruct Hx as [Hx|Hx].
  - left. now apply (lift_incl c L Hc).
  - right. now apply IH.
Qed.

Lemma glue_NoDup : forall ccs Ls,
  NoDup (concat (map c_ids ccs)) -> Forall2 local_set ccs Ls -> NoDup (glue ccs Ls).
Proof.
  intros ccs Ls Hnd H. induction H as [|c L ccs Ls [Hn Hc] H IH]; cbn [glue]; [constructor|].
  cbn [map concat] in Hnd. destruct (NoDup_app_inv _ _ _ Hnd) as [H1 [H2 Hdis]].
  apply NoDup_app_intro.
  - now apply lift_NoDup.
  - now apply IH.
  - intros x Hx Hx'. apply (Hdis x); [now apply (lift_incl c L Hc)|now apply (glue_incl ccs Ls H)].
Qed.

(* ------------------------------------------------------------------------------------------ *)
(** * Gluing over a decomposition *)

Section Glue.
  Variable F : af.
  Variable ccs : list comp.
  Hypothesis Hok : decomp_ok F ccs.

  Lemma comp_compact : forall c, In c ccs -> compact_af (c_af c) (length (c_ids c)).
  Proof. intros c Hc. exact (d_compact _ _ Hok c Hc). Qed.

  Lemma ext_local_set : forall s c S, In c ccs -> NoDup S -> ext s (c_af c) S -> local_set c S.
  Proof. intros s c S Hc Hn HS. split; [exact Hn|exact (comp_ext_incl F ccs Hok s c S Hc HS)]. Qed.

  (* one extension per component, glued, is an extension of the whole framework *)
  Theorem glue_ext : forall s Ls,
    Forall2 (fun c S => ext s (c_af c) S) ccs Ls -> ext s F (glue ccs Ls).
  Proof.
    intros s Ls Hall. apply (ext_decomp F ccs Hok). split.
    - intros x Hx. apply in_glue in Hx. destruct Hx as [c [S [Hin Hx]]].
      pose proof (Forall2_combine _ _ _ _ _ Hall c S Hin) as HS. cbv beta in HS.
      pose proof (in_combine_l _ _ _ _ Hin) as Hc.
      apply (d_cover _ _ Hok). apply in_concat. exists (c_ids c). split; [now apply in_map|].
      apply (lift_incl c S); [|exact Hx]. exact (comp_ext_incl F ccs Hok s c S Hc HS).
    - intros c Hc. destruct (Forall2_in_l _ _ _ _ _ Hall c Hc) as [S [Hin HS]].
      apply (ext_seteq s (c_af c) S); [|exact HS].
      pose proof (comp_ext_incl F ccs Hok s c S Hc HS) as Hincl.
      intros i. unfold comp_local. rewrite filter_In, memb_In, in_seq. split.
      + intros Hi. split; [apply Hincl in Hi; apply in_seq in Hi; lia|].
        apply in_glue. exists c, S. split; [exact Hin|]. apply in_lift. now exists i.
      + intros [Hi Hx]. apply in_glue in Hx. destruct Hx as [c' [S' [Hin' Hx]]].
        apply in_lift in Hx. destruct Hx as [j [Hj E]].
        pose proof (in_combine_l _ _ _ _ Hin') as Hc'.
        pose proof (Forall2_combine _ _ _ _ _ Hall c' S' Hin') as HS'. cbv beta in HS'.
        assert (Hjlt : j < length (c_ids c')).
        { apply (comp_ext_incl F ccs Hok s c' S' Hc' HS') in Hj. apply in_seq in Hj. lia. }
        assert (Hcc' : c' = c).
        { apply (comps_disjoint ccs c' c (cc_global c i) (d_nodup _ _ Hok) Hc' Hc).
          - rewrite <- E. apply (cc_global_in c' j Hjlt).
          - apply (cc_global_in c i). lia. }
        subst c'. unfold cc_global in E.
        apply (proj1 (NoDup_nth (c_ids c) 0) (comp_ids_NoDup F ccs Hok c Hc)) in E; [|exact Hjlt|lia].
        subst j.
        rewrite (combine_unique ccs Ls c S S' (cc_global c i) (d_nodup _ _ Hok)
                   (cc_global_in c i ltac:(lia)) Hin Hin'). exact Hj.
  Qed.

  Lemma glue_in_args : forall Ls, Forall2 local_set ccs Ls -> incl (glue ccs Ls) (args F).
  Proof.
    intros Ls H x Hx. apply (d_cover _ _ Hok). now apply (glue_incl ccs Ls H).
  Qed.

  Lemma glue_nodup : forall Ls, Forall2 local_set ccs Ls -> NoDup (glue ccs Ls).
  Proof. intros Ls H. apply glue_NoDup; [exact (d_nodup _ _ Hok)|exact H]. Qed.

  (* a component without extension: the framework has none *)
  Lemma comp_no_ext : forall s c, In c ccs -> (forall S, ~ ext s (c_af c) S) -> forall S, ~ ext s F S.
  Proof. intros s c Hc Hno S HS. exact (Hno _ (ext_project F ccs Hok s S c HS Hc)). Qed.

  (* an element of a glued list comes from the local set of its component *)
  Lemma glue_elim : forall (P : comp -> list nat -> Prop) Ls x,
    Forall2 P ccs Ls -> In x (glue ccs Ls) ->
    exists c S i, In c ccs /\ In (c, S) (combine ccs Ls) /\ P c S /\ In i S /\ cc_global c i = x.
  Proof.
    intros P Ls x Hall Hx. apply in_glue in Hx. destruct Hx as [c [S [Hin Hx]]].
    apply in_lift in Hx. destruct Hx as [i [Hi E]]. exists c, S, i.
    split; [exact (in_combine_l _ _ _ _ Hin)|]. split; [exact Hin|].
    split; [exact (Forall2_combine _ _ _ _ _ Hall c S Hin)|]. split; assumption.
  Qed.

  (* a listed argument accepted by an extension is accepted locally by the projection *)
  Lemma project_meets : forall s S al a,
    ext s F S -> In a al -> In a S ->
    exists c, In c ccs /\ ext s (c_af c) (comp_local c S) /\ meets (la_of c al) (comp_local c S) = true.
  Proof.
    intros s S al a HS Hal HaS.
    pose proof (proj1 (d_cover _ _ Hok a) (ext_incl s F S HS a HaS)) as Hc.
    apply in_concat in Hc. destruct Hc as [l [Hl Hal']]. apply in_map_iff in Hl.
    destruct Hl as [c [<- Hc]]. exists c. split; [exact Hc|].
    split; [exact (ext_project F ccs Hok s S c HS Hc)|].
    destruct (la_of_local c al a Hal Hal') as [i [Hi E]].
    apply meets_spec. exists i. split; [exact Hi|]. unfold comp_local. apply filter_In. split.
    - apply in_la_of in Hi. apply in_seq. lia.
    - apply memb_In. now rewrite E.
  Qed.

  (* a local hit is a global hit *)
  Lemma local_meets_global : forall c S al X,
    meets (la_of c al) S = true -> incl (lift c S) X -> exists a, In a al /\ In a X.
  Proof.
    intros c S al X Hm Hincl. apply meets_spec in Hm. destruct Hm as [i [Hi HiS]].
    apply in_la_of in Hi. destruct Hi as [_ Hi]. exists (cc_global c i). split; [exact Hi|].
    apply Hincl. apply in_lift. now exists i.
  Qed.

  (* a local hit of the projection is a global hit of the extension *)
  Lemma project_meets_inv : forall c S al,
    meets (la_of c al) (comp_local c S) = true -> exists a, In a al /\ In a S.
  Proof.
    intros c S al Hm. apply meets_spec in Hm. destruct Hm as [i [Hi HiS]].
    apply in_la_of in Hi. destruct Hi as [_ Hi]. exists (cc_global c i). split; [exact Hi|].
    unfold comp_local in HiS. apply filter_In in HiS. apply memb_In. tauto.
  Qed.
End Glue.
