(* Whole-framework theorems about the public entry points of the grounded, complete and stable
   solvers of Model/Solvers.v: the per-component theorems of SolverCc.v / SolverThms.v are lifted
   through the decomposition into connected components (Proofs/Decomp.v), for every valid SAT
   oracle, every threshold >= 1 and every view [g] of a well-formed framework [F].

   Facts about the graph algorithms (connected components, grounded extension) are taken as
   hypotheses of the Section [Whole]; after the section closes they are explicit premises of each
   theorem that uses them:
     Hcc     : the component iterator returns a decomposition of F
     Hmerged : the merged component of a non-empty list of arguments of F, followed by the
               remaining components, is a decomposition of F containing the listed arguments
     Hgr     : [grounded g] is the grounded extension of F, without duplicates
     Hgr_cc  : [grounded] is correct on the compact framework of every component of every
               decomposition of F (instance of: grounded is correct on compact frameworks)
   Results are lists of GLOBAL ids. *)
From Crusta Require Import Spec.AF Sat.Cnf Sat.Prog Model.Encoders Model.Graph Model.Solvers.
From Crusta Require Import Spec.SemFacts Spec.Theory Spec.Invariance Proofs.Decomp.
From Crusta Require Import Proofs.ProgLaws Proofs.EncSpec Proofs.EncBase Proofs.EncAll
  Proofs.SolverBasics Proofs.SolverCc Proofs.SolverThms.
From Coq Require Import ZifyBool.
Import ListNotations.
Open Scope prog_scope.

Notation wpT := (wp (fun _ => True) (fun _ => True) (fun _ => True)).

(* ------------------------------------------------------------------------------------------ *)
(** * List helpers *)

Lemma position_some : forall (A : Type) (p : A -> bool) (l : list A) i d,
  position p l = Some i -> i < length l /\ p (nth i l d) = true.
Proof.
  intros A p. induction l as [|x r IH]; intros i d H; cbn [position] in H; [discriminate|].
  destruct (p x) eqn:Hp.
  - injection H as <-. cbn [length nth]. split; [lia|exact Hp].
  - destruct (position p r) as [j|] eqn:Hj; [|discriminate]. cbn [option_map] in H.
    injection H as <-. destruct (IH j d eq_refl) as [H1 H2]. cbn [length nth]. split; [lia|exact H2].
Qed.

Lemma position_in : forall (A : Type) (p : A -> bool) (l : list A) x,
  In x l -> p x = true -> exists i, position p l = Some i.
Proof.
  intros A p. induction l as [|y r IH]; intros x Hin Hp; [destruct Hin|]. cbn [position].
  destruct (p y) eqn:Hpy; [eexists; reflexivity|].
  destruct Hin as [->|Hin]; [congruence|]. destruct (IH x Hin Hp) as [i ->]. eexists; reflexivity.
Qed.

Lemma index_of_some : forall l a i, index_of l a = Some i -> i < length l /\ nth i l 0 = a.
Proof.
  intros l a i H. unfold index_of in H. destruct (position_some _ _ l i 0 H) as [H1 H2].
  apply Nat.eqb_eq in H2. split; [exact H1|now symmetry].
Qed.

Lemma index_of_in : forall l a, In a l -> exists i, index_of l a = Some i.
Proof. intros l a H. apply (position_in _ _ l a H). apply Nat.eqb_refl. Qed.

Lemma index_of_nth : forall l i, NoDup l -> i < length l -> index_of l (nth i l 0) = Some i.
Proof.
  intros l i Hnd Hi. destruct (index_of_in l (nth i l 0) (nth_In l 0 Hi)) as [j Hj].
  rewrite Hj. f_equal. destruct (index_of_some _ _ _ Hj) as [Hjl E].
  apply (proj1 (NoDup_nth l 0) Hnd); assumption.
Qed.

Lemma in_filter_map : forall (A B : Type) (f : A -> option B) l y,
  In y (Encoders.filter_map f l) <-> exists x, In x l /\ f x = Some y.
Proof.
  intros A B f. induction l as [|x r IH]; intros y; cbn [Encoders.filter_map].
  - split; [intros []|intros [x [[] _]]].
  - destruct (f x) as [z|] eqn:Hz.
    + cbn [In]. rewrite IH. split.
      * intros [->|[x' [H1 H2]]]; [exists x; split; [now left|exact Hz]|exists x'; split; [now right|exact H2]].
      * intros [x' [[->|H1] H2]]; [left; congruence|right; now exists x'].
    + rewrite IH. split.
      * intros [x' [H1 H2]]. exists x'. split; [now right|exact H2].
      * intros [x' [[->|H1] H2]]; [congruence|now exists x'].
Qed.

Lemma Forall2_combine : forall (A B : Type) (P : A -> B -> Prop) l l',
  Forall2 P l l' -> forall x y, In (x, y) (combine l l') -> P x y.
Proof.
  intros A B P l l' H. induction H as [|a b l l' Hab H IH]; intros x y Hin; [destruct Hin|].
  cbn [combine In] in Hin. destruct Hin as [E|Hin]; [injection E as <- <-; exact Hab|now apply IH].
Qed.

Lemma Forall2_in_l : forall (A B : Type) (P : A -> B -> Prop) l l',
  Forall2 P l l' -> forall x, In x l -> exists y, In (x, y) (combine l l') /\ P x y.
Proof.
  intros A B P l l' H. induction H as [|a b l l' Hab H IH]; intros x Hin; [destruct Hin|].
  destruct Hin as [<-|Hin].
  - exists b. split; [now left|exact Hab].
  - destruct (IH x Hin) as [y [H1 H2]]. exists y. split; [now right|exact H2].
Qed.

Lemma Forall2_impl : forall (A B : Type) (P Q : A -> B -> Prop) l l',
  (forall x y, In x l -> P x y -> Q x y) -> Forall2 P l l' -> Forall2 Q l l'.
Proof.
  intros A B P Q l l' HPQ H. induction H as [|a b l l' Hab H IH]; constructor.
  - apply HPQ; [now left|exact Hab].
  - apply IH. intros x y Hx. apply HPQ. now right.
Qed.

Lemma Forall2_map_r : forall (A B C : Type) (P : A -> C -> Prop) (f : B -> C) l l',
  Forall2 (fun x y => P x (f y)) l l' -> Forall2 P l (map f l').
Proof. intros A B C P f l l' H. induction H; cbn [map]; constructor; assumption. Qed.

Lemma Forall2_map_same : forall (A B : Type) (P : A -> B -> Prop) (f : A -> B) l,
  (forall x, In x l -> P x (f x)) -> Forall2 P l (map f l).
Proof.
  intros A B P f. induction l as [|x r IH]; intros H; cbn [map]; constructor.
  - apply H. now left.
  - apply IH. intros y Hy. apply H. now right.
Qed.

(* ------------------------------------------------------------------------------------------ *)
(** * Local ids of listed arguments *)

(* the local ids (in component [c]) of the listed arguments lying in [c] *)
Definition la_of (c : comp) (al : list nat) : list nat := Encoders.filter_map (cc_local c) al.

Lemma in_la_of : forall c al i,
  In i (la_of c al) -> i < length (c_ids c) /\ In (cc_global c i) al.
Proof.
  intros c al i H. apply in_filter_map in H. destruct H as [a [Ha Hl]].
  unfold cc_local in Hl. apply index_of_some in Hl. destruct Hl as [H1 H2].
  split; [exact H1|]. unfold cc_global. now rewrite H2.
Qed.

Lemma la_of_intro : forall c al i,
  NoDup (c_ids c) -> i < length (c_ids c) -> In (cc_global c i) al -> In i (la_of c al).
Proof.
  intros c al i Hnd Hi Hin. apply in_filter_map. exists (cc_global c i). split; [exact Hin|].
  unfold cc_local, cc_global. now apply index_of_nth.
Qed.

Lemma la_of_local : forall c al a,
  In a al -> In a (c_ids c) -> exists i, In i (la_of c al) /\ cc_global c i = a.
Proof.
  intros c al a Hal Hc. destruct (index_of_in _ _ Hc) as [i Hi]. exists i. split.
  - apply in_filter_map. exists a. split; [exact Hal|exact Hi].
  - apply index_of_some in Hi. unfold cc_global. tauto.
Qed.

(* when every listed argument lies in [c], [locals] succeeds *)
Lemma locals_some : forall c al, (forall a, In a al -> In a (c_ids c)) ->
  exists la, locals c al = Some la /\ map (cc_global c) la = al /\
             forall i, In i la -> i < length (c_ids c).
Proof.
  intros c. induction al as [|a r IH]; intros H.
  - exists []. split; [reflexivity|]. split; [reflexivity|]. intros i [].
  - destruct IH as [la [H1 [H2 H3]]]; [intros x Hx; apply H; now right|].
    destruct (index_of_in (c_ids c) a (H a (or_introl eq_refl))) as [i Hi].
    exists (i :: la). cbn [locals fold_right]. fold (locals c r). rewrite H1. unfold cc_local. rewrite Hi.
    split; [reflexivity|]. apply index_of_some in Hi. destruct Hi as [Hi1 Hi2]. split.
    + cbn [map]. unfold cc_global at 1. now rewrite Hi2, H2.
    + intros j [<-|Hj]; [exact Hi1|now apply H3].
Qed.

(* ------------------------------------------------------------------------------------------ *)
(** * Assignments to extensions *)

Lemma a2e_NoDup : forall e n m, NoDup (assignment_to_extension n e m).
Proof. intros e n m. rewrite (a2e_ext e n). unfold ext_of. apply NoDup_filter, seq_NoDup. Qed.

Lemma a2e_incl : forall e n m, incl (assignment_to_extension n e m) (seq 0 n).
Proof. intros e n m a. rewrite (a2e_ext e n). unfold ext_of. intros H. apply filter_In in H. tauto. Qed.

(* ------------------------------------------------------------------------------------------ *)
(** * Gluing a list of local sets, one per component *)

Fixpoint glue (ccs : list comp) (Ls : list (list nat)) : list nat :=
  match ccs, Ls with
  | c :: r, L :: Ls' => lift c L ++ glue r Ls'
  | _, _ => []
  end.

Lemma in_glue : forall ccs Ls x,
  In x (glue ccs Ls) <-> exists c S, In (c, S) (combine ccs Ls) /\ In x (lift c S).
Proof.
  induction ccs as [|c r IH]; intros Ls x.
  - cbn [glue combine]. split; [intros []|intros [c [S [[] _]]]].
  - destruct Ls as [|L Ls'].
    + cbn [glue combine]. split; [intros []|intros [c' [S [[] _]]]].
    + cbn [glue combine]. rewrite in_app_iff, IH. split.
      * intros [H|[c' [S [H1 H2]]]]; [exists c, L; split; [now left|exact H]|].
        exists c', S. split; [now right|exact H2].
      * intros [c' [S [[E|H1] H2]]]; [injection E as <- <-; now left|right; now exists c', S].
Qed.

Lemma glue_map : forall (f : comp -> list nat) l,
  glue l (map f l) = flat_map (fun c => lift c (f c)) l.
Proof. intros f. induction l as [|c r IH]; cbn [glue map flat_map]; [reflexivity|now rewrite IH]. Qed.

Lemma in_lift : forall c S x, In x (lift c S) <-> exists i, In i S /\ cc_global c i = x.
Proof.
  intros c S x. unfold lift. rewrite in_map_iff. split; intros [i [H1 H2]]; exists i; tauto.
Qed.

(* two entries for the same non-empty component coincide *)
Lemma combine_unique : forall (ccs : list comp) (Ls : list (list nat)) c S S' x,
  NoDup (concat (map c_ids ccs)) -> In x (c_ids c) ->
  In (c, S) (combine ccs Ls) -> In (c, S') (combine ccs Ls) -> S = S'.
Proof.
  induction ccs as [|c1 r IH]; intros Ls c S S' x Hnd Hx H1 H2; [destruct H1|].
  destruct Ls as [|L Ls']; [destruct H1|]. cbn [combine In] in H1, H2.
  cbn [map concat] in Hnd. destruct (NoDup_app_inv _ _ _ Hnd) as [_ [Hr Hdis]].
  assert (Hin : forall T, In (c, T) (combine r Ls') -> In x (concat (map c_ids r))).
  { intros T HT. apply in_combine_l in HT. apply in_concat. exists (c_ids c).
    split; [now apply in_map|exact Hx]. }
  destruct H1 as [E1|H1]; destruct H2 as [E2|H2].
  - congruence.
  - injection E1 as -> _. exfalso. exact (Hdis x Hx (Hin S' H2)).
  - injection E2 as -> _. exfalso. exact (Hdis x Hx (Hin S H1)).
  - exact (IH Ls' c S S' x Hr Hx H1 H2).
Qed.

Lemma lift_NoDup : forall c S,
  NoDup (c_ids c) -> NoDup S -> incl S (seq 0 (length (c_ids c))) -> NoDup (lift c S).
Proof.
  intros c S Hc HS Hi. unfold lift. apply NoDup_map_inj_on; [exact HS|].
  intros i j Hii Hj E. apply Hi in Hii. apply Hi in Hj. apply in_seq in Hii. apply in_seq in Hj.
  unfold cc_global in E. apply (proj1 (NoDup_nth (c_ids c) 0) Hc); [lia|lia|exact E].
Qed.

Lemma lift_incl : forall c S, incl S (seq 0 (length (c_ids c))) -> incl (lift c S) (c_ids c).
Proof.
  intros c S Hi x Hx. apply in_lift in Hx. destruct Hx as [i [H1 <-]].
  apply Hi in H1. apply in_seq in H1. unfold cc_global. apply nth_In. lia.
Qed.

Definition local_set (c : comp) (S : list nat) : Prop :=
  NoDup S /\ incl S (seq 0 (length (c_ids c))).

Lemma glue_incl : forall ccs Ls, Forall2 local_set ccs Ls ->
  incl (glue ccs Ls) (concat (map c_ids ccs)).
Proof.
  intros ccs Ls H. induction H as [|c L ccs Ls [_ Hc] H IH]; cbn [glue map concat]; [intros x []|].
  intros x Hx. apply in_app_iff in Hx. apply in_app_iff. destruct Hx as [Hx|Hx].
  - left. now apply (lift_incl c L Hc).
  - right. now apply IH.
Qed.

Lemma glue_NoDup : forall ccs Ls,
  NoDup (concat (map c_ids ccs)) -> Forall2 local_set ccs Ls -> NoDup (glue ccs Ls).
Proof.
  intros ccs Ls Hnd H. induction H as [|c L ccs Ls [Hn Hc] H IH]; cbn [glue]; [constructor|].
  cbn [map concat] in Hnd. destruct (NoDup_app_inv _ _ _ Hnd) as [H1 [H2 Hdis]].
  apply NoDup_app_intro.
  - now apply lift_NoDup.
  - now apply IH.
  - intros x Hx Hx'. apply (Hdis x); [now apply (lift_incl c L Hc)|now apply (glue_incl ccs Ls H)].
Qed.

(* ------------------------------------------------------------------------------------------ *)
(** * Gluing over a decomposition *)

Section Glue.
  Variable F : af.
  Variable ccs : list comp.
  Hypothesis Hok : decomp_ok F ccs.

  Lemma comp_compact : forall c, In c ccs -> compact_af (c_af c) (length (c_ids c)).
  Proof. intros c Hc. exact (d_compact _ _ Hok c Hc). Qed.

  Lemma ext_local_set : forall s c S, In c ccs -> NoDup S -> ext s (c_af c) S -> local_set c S.
  Proof. intros s c S Hc Hn HS. split; [exact Hn|exact (comp_ext_incl F ccs Hok s c S Hc HS)]. Qed.

  (* one extension per component, glued, is an extension of the whole framework *)
  Theorem glue_ext : forall s Ls,
    Forall2 (fun c S => ext s (c_af c) S) ccs Ls -> ext s F (glue ccs Ls).
  Proof.
    intros s Ls Hall. apply (ext_decomp F ccs Hok). split.
    - intros x Hx. apply in_glue in Hx. destruct Hx as [c [S [Hin Hx]]].
      pose proof (Forall2_combine _ _ _ _ _ Hall c S Hin) as HS. cbv beta in HS.
      pose proof (in_combine_l _ _ _ _ Hin) as Hc.
      apply (d_cover _ _ Hok). apply in_concat. exists (c_ids c). split; [now apply in_map|].
      apply (lift_incl c S); [|exact Hx]. exact (comp_ext_incl F ccs Hok s c S Hc HS).
    - intros c Hc. destruct (Forall2_in_l _ _ _ _ _ Hall c Hc) as [S [Hin HS]].
      apply (ext_seteq s (c_af c) S); [|exact HS].
      pose proof (comp_ext_incl F ccs Hok s c S Hc HS) as Hincl.
      intros i. unfold comp_local. rewrite filter_In, memb_In, in_seq. split.
      + intros Hi. split; [apply Hincl in Hi; apply in_seq in Hi; lia|].
        apply in_glue. exists c, S. split; [exact Hin|]. apply in_lift. now exists i.
      + intros [Hi Hx]. apply in_glue in Hx. destruct Hx as [c' [S' [Hin' Hx]]].
        apply in_lift in Hx. destruct Hx as [j [Hj E]].
        pose proof (in_combine_l _ _ _ _ Hin') as Hc'.
        pose proof (Forall2_combine _ _ _ _ _ Hall c' S' Hin') as HS'. cbv beta in HS'.
        assert (Hjlt : j < length (c_ids c')).
        { apply (comp_ext_incl F ccs Hok s c' S' Hc' HS') in Hj. apply in_seq in Hj. lia. }
        assert (Hcc' : c' = c).
        { apply (comps_disjoint ccs c' c (cc_global c i) (d_nodup _ _ Hok) Hc' Hc).
          - rewrite <- E. apply (cc_global_in c' j Hjlt).
          - apply (cc_global_in c i). lia. }
        subst c'. unfold cc_global in E.
        apply (proj1 (NoDup_nth (c_ids c) 0) (comp_ids_NoDup F ccs Hok c Hc)) in E; [|exact Hjlt|lia].
        subst j.
        rewrite (combine_unique ccs Ls c S S' (cc_global c i) (d_nodup _ _ Hok)
                   (cc_global_in c i ltac:(lia)) Hin Hin'). exact Hj.
  Qed.

  Lemma glue_in_args : forall Ls, Forall2 local_set ccs Ls -> incl (glue ccs Ls) (args F).
  Proof.
    intros Ls H x Hx. apply (d_cover _ _ Hok). now apply (glue_incl ccs Ls H).
  Qed.

  Lemma glue_nodup : forall Ls, Forall2 local_set ccs Ls -> NoDup (glue ccs Ls).
  Proof. intros Ls H. apply glue_NoDup; [exact (d_nodup _ _ Hok)|exact H]. Qed.

  (* a component without extension: the framework has none *)
  Lemma comp_no_ext : forall s c, In c ccs -> (forall S, ~ ext s (c_af c) S) -> forall S, ~ ext s F S.
  Proof. intros s c Hc Hno S HS. exact (Hno _ (ext_project F ccs Hok s S c HS Hc)). Qed.

  (* an element of a glued list comes from the local set of its component *)
  Lemma glue_elim : forall (P : comp -> list nat -> Prop) Ls x,
    Forall2 P ccs Ls -> In x (glue ccs Ls) ->
    exists c S i, In c ccs /\ In (c, S) (combine ccs Ls) /\ P c S /\ In i S /\ cc_global c i = x.
  Proof.
    intros P Ls x Hall Hx. apply in_glue in Hx. destruct Hx as [c [S [Hin Hx]]].
    apply in_lift in Hx. destruct Hx as [i [Hi E]]. exists c, S, i.
    split; [exact (in_combine_l _ _ _ _ Hin)|]. split; [exact Hin|].
    split; [exact (Forall2_combine _ _ _ _ _ Hall c S Hin)|]. split; assumption.
  Qed.

  (* a listed argument accepted by an extension is accepted locally by the projection *)
  Lemma project_meets : forall s S al a,
    ext s F S -> In a al -> In a S ->
    exists c, In c ccs /\ ext s (c_af c) (comp_local c S) /\ meets (la_of c al) (comp_local c S) = true.
  Proof.
    intros s S al a HS Hal HaS.
    pose proof (proj1 (d_cover _ _ Hok a) (ext_incl s F S HS a HaS)) as Hc.
    apply in_concat in Hc. destruct Hc as [l [Hl Hal']]. apply in_map_iff in Hl.
    destruct Hl as [c [<- Hc]]. exists c. split; [exact Hc|].
    split; [exact (ext_project F ccs Hok s S c HS Hc)|].
    destruct (la_of_local c al a Hal Hal') as [i [Hi E]].
    apply meets_spec. exists i. split; [exact Hi|]. unfold comp_local. apply filter_In. split.
    - apply in_la_of in Hi. apply in_seq. lia.
    - apply memb_In. now rewrite E.
  Qed.

  (* a local hit is a global hit *)
  Lemma local_meets_global : forall c S al X,
    meets (la_of c al) S = true -> incl (lift c S) X -> exists a, In a al /\ In a X.
  Proof.
    intros c S al X Hm Hincl. apply meets_spec in Hm. destruct Hm as [i [Hi HiS]].
    apply in_la_of in Hi. destruct Hi as [_ Hi]. exists (cc_global c i). split; [exact Hi|].
    apply Hincl. apply in_lift. now exists i.
  Qed.

  (* a local hit of the projection is a global hit of the extension *)
  Lemma project_meets_inv : forall c S al,
    meets (la_of c al) (comp_local c S) = true -> exists a, In a al /\ In a S.
  Proof.
    intros c S al Hm. apply meets_spec in Hm. destruct Hm as [i [Hi HiS]].
    apply in_la_of in Hi. destruct Hi as [_ Hi]. exists (cc_global c i). split; [exact Hi|].
    unfold comp_local in HiS. apply filter_In in HiS. apply memb_In. tauto.
  Qed.
End Glue.

(* ------------------------------------------------------------------------------------------ *)
(** * The loops of the stable solver over a list of compact components *)

Definition comp_ok (c : comp) : Prop := compact_af (c_af c) (length (c_ids c)).

Lemma st_a2e_eq : forall c m, comp_ok c ->
  st_a2e c m = lift c (assignment_to_extension (length (c_ids c)) StDefault m).
Proof. intros c m [Ha _]. unfold st_a2e. now rewrite Ha, seq_length. Qed.

(* what the acceptance loop knows about a processed component: R = (local extension, accepted) *)
Definition acc_ok (al : list nat) (pol : bool) (c : comp) (R : list nat * bool) : Prop :=
  st (c_af c) (fst R) /\ NoDup (fst R) /\
  (if pol then (snd R = true -> meets (la_of c al) (fst R) = true) /\
               (snd R = false -> forall S, st (c_af c) S -> meets (la_of c al) S = false)
   else snd R = false /\ meets (la_of c al) (fst R) = false).

Section Loops.
Variable oracle : nat -> cnf -> list lit -> answer.
Variable thr : nat.
Hypothesis Hthr : 1 <= thr.
Hypothesis Hvalid : valid_oracle oracle.

Lemma st_se_loop_spec : forall l merged s,
  (forall c, In c l -> comp_ok c) ->
  wpT (st_se_loop oracle thr l merged)
    (fun r _ => match r with
                | Some L => exists Ls, Forall2 (fun c S => st (c_af c) S /\ NoDup S) l Ls /\
                                       L = merged ++ glue l Ls
                | None => exists c, In c l /\ forall S, ~ st (c_af c) S
                end) s.
Proof.
  induction l as [|c r IH]; intros merged s Hl; cbn [st_se_loop].
  - rewrite wp_ret. exists []. split; [constructor|]. cbn [glue]. now rewrite app_nil_r.
  - rewrite wp_bind.
    eapply wp_mono;
      [|apply (st_cc_spec oracle thr Hthr Hvalid c (length (c_ids c)) (Hl c (or_introl eq_refl)) [] false s);
        intros a []].
    intros [[m acc]|] s' Hpost; cbn [st_cc_post] in Hpost.
    + eapply wp_mono; [|apply IH; intros c' Hc'; apply Hl; now right].
      intros [L|] s'' H; cbv beta in H.
      * destruct H as [Ls [HLs ->]].
        exists (assignment_to_extension (length (c_ids c)) StDefault m :: Ls). split.
        -- constructor; [split; [tauto|apply a2e_NoDup]|exact HLs].
        -- cbn [glue]. rewrite (st_a2e_eq c m (Hl c (or_introl eq_refl))), app_assoc. reflexivity.
      * destruct H as [c' [Hc' Hno]]. exists c'. split; [now right|exact Hno].
    + rewrite wp_ret. exists c. split; [now left|]. intros S HS. specialize (Hpost S HS). discriminate.
Qed.

Lemma st_accept_loop_spec : forall al pol sou l merged found s,
  (forall c, In c l -> comp_ok c) ->
  wpT (st_accept_loop oracle thr al pol sou l merged found)
    (fun r _ =>
       (exists Rs, Forall2 (acc_ok al pol) l Rs /\
                   r = if found || existsb snd Rs
                       then (negb sou, Some (merged ++ glue l (map fst Rs)))
                       else (sou, None))
       \/ (r = (sou, None) /\
           exists c, In c l /\ st_cc_post c (length (c_ids c)) (la_of c al) pol None)) s.
Proof.
  intros al pol sou. induction l as [|c r IH]; intros merged found s Hl; cbn [st_accept_loop].
  - assert (HQ : forall x : bool * option (list nat),
               x = (if found then (negb sou, Some merged) else (sou, None)) ->
               (exists Rs, Forall2 (acc_ok al pol) [] Rs /\
                   x = if found || existsb snd Rs
                       then (negb sou, Some (merged ++ glue [] (map fst Rs)))
                       else (sou, None))
               \/ (x = (sou, None) /\
                   exists c, In c [] /\ st_cc_post c (length (c_ids c)) (la_of c al) pol None)).
    { intros x ->. left. exists []. split; [constructor|]. cbn [existsb map glue].
      now rewrite orb_false_r, app_nil_r. }
    destruct found; rewrite wp_ret; now apply HQ.
  - rewrite wp_bind. fold (la_of c al).
    eapply wp_mono;
      [|apply (st_cc_spec oracle thr Hthr Hvalid c (length (c_ids c)) (Hl c (or_introl eq_refl))
                 (la_of c al) pol s); intros a Ha; exact (proj1 (in_la_of c al a Ha))].
    intros [[m acc]|] s' Hpost.
    + eapply wp_mono; [|apply IH; intros c' Hc'; apply Hl; now right].
      intros x s'' [[Rs [HRs ->]]|[-> [c' [Hc' Hno]]]].
      * left. exists ((assignment_to_extension (length (c_ids c)) StDefault m, acc) :: Rs). split.
        -- constructor; [|exact HRs]. unfold acc_ok. cbn [fst snd]. cbn [st_cc_post] in Hpost.
           split; [tauto|]. split; [apply a2e_NoDup|tauto].
        -- cbn [existsb map glue fst snd].
           rewrite (st_a2e_eq c m (Hl c (or_introl eq_refl))), <- app_assoc.
           replace (found || (acc || existsb snd Rs)) with (acc || found || existsb snd Rs)
             by (destruct acc, found; reflexivity).
           reflexivity.
      * right. split; [reflexivity|]. exists c'. split; [now right|exact Hno].
    + rewrite wp_ret. right. split; [reflexivity|]. exists c. split; [now left|exact Hpost].
Qed.

End Loops.

(* ------------------------------------------------------------------------------------------ *)
(** * Pure consequences of the loop postconditions over a decomposition *)

Lemma Forall2_in_r : forall (A B : Type) (P : A -> B -> Prop) l l',
  Forall2 P l l' -> forall y, In y l' -> exists x, In (x, y) (combine l l') /\ P x y.
Proof.
  intros A B P l l' H. induction H as [|a b l l' Hab H IH]; intros y Hin; [destruct Hin|].
  destruct Hin as [<-|Hin].
  - exists a. split; [now left|exact Hab].
  - destruct (IH y Hin) as [x [H1 H2]]. exists x. split; [now right|exact H2].
Qed.

Lemma in_combine_map_r : forall (A B C : Type) (f : B -> C) (l : list A) (l' : list B) x y,
  In (x, y) (combine l l') -> In (x, f y) (combine l (map f l')).
Proof.
  intros A B C f. induction l as [|a r IH]; intros l' x y H; [destruct H|].
  destruct l' as [|b r']; [destruct H|]. cbn [map combine In] in *.
  destruct H as [E|H]; [left; injection E as <- <-; reflexivity|right; now apply IH].
Qed.

Lemma existsb_false_elim : forall (A : Type) (f : A -> bool) l x,
  existsb f l = false -> In x l -> f x = false.
Proof.
  intros A f l x H Hin. destruct (f x) eqn:E; [|reflexivity].
  rewrite <- H. symmetry. apply existsb_exists. now exists x.
Qed.

Section Glue2.
  Variable F : af.
  Variable ccs : list comp.
  Hypothesis Hok : decomp_ok F ccs.

  Lemma glue_ext_full : forall s Ls,
    Forall2 (fun c S => ext s (c_af c) S /\ NoDup S) ccs Ls ->
    ext s F (glue ccs Ls) /\ NoDup (glue ccs Ls) /\ incl (glue ccs Ls) (args F).
  Proof.
    intros s Ls H.
    assert (Hloc : Forall2 local_set ccs Ls).
    { eapply Forall2_impl; [|exact H]. intros c S Hc [H1 H2]. exact (ext_local_set F ccs Hok s c S Hc H2 H1). }
    split; [|split].
    - apply (glue_ext F ccs Hok s). eapply Forall2_impl; [|exact H]. intros c S _ [H1 _]. exact H1.
    - exact (glue_nodup F ccs Hok Ls Hloc).
    - exact (glue_in_args F ccs Hok Ls Hloc).
  Qed.

  Lemma acc_glue_st : forall al pol Rs, Forall2 (acc_ok al pol) ccs Rs ->
    st F (glue ccs (map fst Rs)) /\ NoDup (glue ccs (map fst Rs)) /\
    incl (glue ccs (map fst Rs)) (args F).
  Proof.
    intros al pol Rs H. apply (glue_ext_full ST). apply Forall2_map_r.
    eapply Forall2_impl; [|exact H]. intros c R _ [H1 [H2 _]]. split; assumption.
  Qed.

  (* credulous loop: some processed component accepted a listed argument *)
  Lemma acc_found : forall al Rs, Forall2 (acc_ok al true) ccs Rs -> existsb snd Rs = true ->
    exists a, In a al /\ In a (glue ccs (map fst Rs)).
  Proof.
    intros al Rs H Hex. apply existsb_exists in Hex. destruct Hex as [R [HR Hacc]].
    destruct (Forall2_in_r _ _ _ _ _ H R HR) as [c [Hin [_ [_ [Hm _]]]]].
    apply (local_meets_global c (fst R) al); [now apply Hm|].
    intros x Hx. apply in_glue. exists c, (fst R). split; [|exact Hx].
    now apply in_combine_map_r.
  Qed.

  (* credulous loop: no component accepted a listed argument *)
  Lemma acc_not_found : forall al Rs, Forall2 (acc_ok al true) ccs Rs -> existsb snd Rs = false ->
    ~ cred ST F al.
  Proof.
    intros al Rs H Hex [S [HS [a [Ha HaS]]]].
    destruct (project_meets F ccs Hok ST S al a HS Ha HaS) as [c [Hc [HSc Hm]]].
    destruct (Forall2_in_l _ _ _ _ _ H c Hc) as [R [Hin [_ [_ [_ Hno]]]]].
    pose proof (existsb_false_elim _ snd Rs R Hex (in_combine_r _ _ _ _ Hin)) as Hacc.
    rewrite (Hno Hacc _ HSc) in Hm. discriminate.
  Qed.

  (* skeptical loop: the glued extension avoids every listed argument *)
  Lemma acc_avoids : forall al Rs, Forall2 (acc_ok al false) ccs Rs ->
    forall a, In a al -> ~ In a (glue ccs (map fst Rs)).
  Proof.
    intros al Rs H a Ha Hin.
    assert (H' : Forall2 (fun c S => st (c_af c) S /\ meets (la_of c al) S = false) ccs (map fst Rs)).
    { apply Forall2_map_r. eapply Forall2_impl; [|exact H]. intros c R _ [H1 [_ [_ H2]]]. split; assumption. }
    destruct (glue_elim ccs _ _ a H' Hin) as [c [S [i [Hc [_ [[HS Hm] [Hi E]]]]]]].
    pose proof (comp_ext_incl F ccs Hok ST c S Hc HS i Hi) as Hlt. apply in_seq in Hlt.
    apply (proj1 (meets_false _ _) Hm i); [|exact Hi].
    apply la_of_intro; [exact (comp_ids_NoDup F ccs Hok c Hc)|lia|now rewrite E].
  Qed.

  (* skeptical loop: a component all of whose stable extensions accept a listed argument *)
  Lemma comp_skep : forall al c, In c ccs ->
    (forall S, st (c_af c) S -> meets (la_of c al) S = true) -> skep ST F al.
  Proof.
    intros al c Hc H S HS. apply (project_meets_inv c S al).
    apply H. exact (ext_project F ccs Hok ST S c HS Hc).
  Qed.
End Glue2.

(* ------------------------------------------------------------------------------------------ *)
(** * Helpers for the complete solver *)

Lemma wp_bind_assoc : forall QA QP QF A B C (m : M A) (f : A -> M B) (k : B -> M C) Q s,
  wp QA QP QF (bind m (fun a => bind (f a) k)) Q s <-> wp QA QP QF (bind (bind m f) k) Q s.
Proof. intros. unfold wp, bind. destruct (m s); reflexivity. Qed.

(* a credulous CO query about arguments of the merged component is local to it: every other
   component has a complete extension *)
Lemma co_merged_local : forall F c rest la,
  decomp_ok F (c :: rest) -> (forall i, In i la -> i < length (c_ids c)) ->
  (cred CO F (map (cc_global c) la) <-> cred CO (c_af c) la).
Proof.
  intros F c rest la Hok Hla. apply (cred_comp F (c :: rest) Hok CO c la).
  - now left.
  - intros i Hi. apply in_seq. specialize (Hla i Hi). lia.
  - intros c' Hc'. apply (co_exists (c_af c')). exact (comp_af_wf F (c :: rest) Hok c' Hc').
Qed.

Lemma on_done_bind : forall A B (m : M A) (k : A -> M B) (Q : A -> Prop) (R : B -> Prop),
  on_done m Q -> (forall a, Q a -> on_done (k a) R) -> on_done (bind m k) R.
Proof.
  intros A B m k Q R Hm Hk s. unfold bind. specialize (Hm s).
  destruct (m s) as [a s'| | |]; try exact I. exact (Hk a Hm s').
Qed.

Lemma on_done_ret : forall A (a : A) (Q : A -> Prop), Q a -> on_done (ret a) Q.
Proof. intros A a Q H s. exact H. Qed.

(* what the public dispatcher [run_query] promises, per kind of query *)
Definition se_outcome (s : sem) (F : af) (o : outcome) : Prop :=
  match o with
  | OExt (Some L) => ext s F L /\ NoDup L /\ incl L (args F)
  | OExt None => forall S, ~ ext s F S
  | OAcc _ _ => False
  end.
Definition dc_outcome (s : sem) (F : af) (al : list nat) (cert : bool) (o : outcome) : Prop :=
  match o with
  | OAcc b c =>
      (b = true <-> cred s F al) /\
      match c with
      | Some L => cert = true /\ b = true /\ ext s F L /\ incl L (args F) /\ exists a, In a al /\ In a L
      | None => cert = true -> b = false
      end
  | OExt _ => False
  end.
Definition ds_outcome (s : sem) (F : af) (al : list nat) (cert : bool) (o : outcome) : Prop :=
  match o with
  | OAcc b c =>
      (b = true <-> skep s F al) /\
      match c with
      | Some L => cert = true /\ b = false /\ ext s F L /\ incl L (args F) /\ forall a, In a al -> ~ In a L
      | None => cert = true -> b = true
      end
  | OExt _ => False
  end.

(* ------------------------------------------------------------------------------------------ *)
(** * The whole-framework theorems *)

Section Whole.
Variable oracle : nat -> cnf -> list lit -> answer.
Variable thr : nat.
Hypothesis Hthr : 1 <= thr.
Hypothesis Hvalid : valid_oracle oracle.
Variable F : af.
Variable g : gview.
Hypothesis Hwf : wf F.

(* facts about the graph algorithms, proved elsewhere *)
Hypothesis Hcc : exists ccs, all_ccs g = Some ccs /\ decomp_ok F ccs.
Hypothesis Hmerged : forall al, al <> [] -> (forall a, In a al -> In a (args F)) ->
  exists s' c rest,
    merged_cc_of g (cc_new g) al = Some (s', c) /\ (forall a, In a al -> In a (c_ids c)) /\
    remaining_ccs g s' = Some rest /\ decomp_ok F (c :: rest).
Hypothesis Hgr : gr F (grounded g) /\ NoDup (grounded g).
Hypothesis Hgr_cc : forall ccs c, decomp_ok F ccs -> In c ccs ->
  gr (c_af c) (grounded (view_of_af (c_af c))).

(* ---------------------------------------------------------------- (G1) GR *)
Theorem gr_se_whole : gr F (gr_se g) /\ NoDup (gr_se g) /\ incl (gr_se g) (args F).
Proof using Hgr.
  unfold gr_se. destruct Hgr as [H1 H2]. split; [exact H1|split; [exact H2|]].
  exact (ext_incl GR F _ H1).
Qed.

Lemma gr_meets_cred : forall al, meets al (grounded g) = true <-> cred GR F al.
Proof using Hwf Hgr.
  intros al. destruct Hgr as [H1 _]. rewrite meets_spec. split.
  - intros [a [Ha Hg]]. exists (grounded g). split; [exact H1|now exists a].
  - intros [S [HS [a [Ha HaS]]]]. exists a. split; [exact Ha|].
    apply (gr_unique2 F S (grounded g) Hwf HS H1 a). exact HaS.
Qed.

Lemma gr_meets_skep : forall al, meets al (grounded g) = true <-> skep GR F al.
Proof using Hwf Hgr.
  intros al. destruct Hgr as [H1 _]. rewrite meets_spec. split.
  - intros [a [Ha Hg]] S HS. exists a. split; [exact Ha|].
    apply (gr_unique2 F (grounded g) S Hwf H1 HS a). exact Hg.
  - intros H. exact (H (grounded g) H1).
Qed.

Theorem gr_dc_whole : forall al b cert, gr_dc g al = (b, cert) ->
  (b = true <-> cred GR F al) /\
  match cert with
  | Some e => b = true /\ gr F e /\ NoDup e /\ incl e (args F) /\ exists a, In a al /\ In a e
  | None => b = false
  end.
Proof using Hwf Hgr.
  intros al b cert H. unfold gr_dc in H. cbv zeta in H.
  destruct (meets al (grounded g)) eqn:Hm; injection H as <- <-.
  - split; [split; [intros _; now apply gr_meets_cred|reflexivity]|].
    destruct gr_se_whole as [H1 [H2 H3]]. split; [reflexivity|]. split; [exact H1|].
    split; [exact H2|]. split; [exact H3|]. now apply meets_spec.
  - split; [|reflexivity]. split; [discriminate|]. intros Hc. apply gr_meets_cred in Hc. congruence.
Qed.

Theorem gr_ds_whole : forall al b cert, gr_ds g al = (b, cert) ->
  (b = true <-> skep GR F al) /\
  match cert with
  | Some e => b = false /\ gr F e /\ NoDup e /\ incl e (args F) /\ forall a, In a al -> ~ In a e
  | None => b = true
  end.
Proof using Hwf Hgr.
  intros al b cert H. unfold gr_ds in H. cbv zeta in H.
  destruct (meets al (grounded g)) eqn:Hm; injection H as <- <-.
  - split; [|reflexivity]. split; [intros _; now apply gr_meets_skep|reflexivity].
  - split; [split; [discriminate|intros Hc; apply gr_meets_skep in Hc; congruence]|].
    destruct gr_se_whole as [H1 [H2 H3]]. split; [reflexivity|]. split; [exact H1|].
    split; [exact H2|]. split; [exact H3|]. now apply meets_false.
Qed.

(* ---------------------------------------------------------------- (G2) ST, single extension *)
Theorem st_se_whole :
  on_done (st_se oracle thr g)
    (fun r => match r with
              | Some L => st F L /\ NoDup L /\ incl L (args F)
              | None => forall S, ~ st F S
              end).
Proof using Hthr Hvalid Hcc.
  destruct Hcc as [ccs [Hall Hok]]. apply wpT_on_done. intros s.
  unfold st_se, ccs_m. rewrite Hall, wp_bind, wp_ret.
  eapply wp_mono;
    [|apply (st_se_loop_spec oracle thr Hthr Hvalid ccs [] s);
      intros c Hc; exact (comp_compact F ccs Hok c Hc)].
  intros [L|] s' H; cbv beta in H.
  - destruct H as [Ls [HLs ->]]. cbn [app]. exact (glue_ext_full F ccs Hok ST Ls HLs).
  - destruct H as [c [Hc Hno]]. exact (comp_no_ext F ccs Hok ST c Hc Hno).
Qed.

(* ---------------------------------------------------------------- (G3) ST, acceptance *)
Theorem st_dc_whole : forall al,
  on_done (st_dc oracle thr g al)
    (fun r => match r with
              | (true, Some L) => st F L /\ NoDup L /\ incl L (args F) /\
                                  (exists a, In a al /\ In a L) /\ cred ST F al
              | (false, None) => ~ cred ST F al
              | _ => False
              end).
Proof using Hthr Hvalid Hcc.
  intros al. destruct Hcc as [ccs [Hall Hok]]. apply wpT_on_done. intros s.
  unfold st_dc, st_accept, ccs_m. rewrite Hall, wp_bind, wp_ret. cbn [negb].
  eapply wp_mono;
    [|apply (st_accept_loop_spec oracle thr Hthr Hvalid al true false ccs [] false s);
      intros c Hc; exact (comp_compact F ccs Hok c Hc)].
  intros r s' [[Rs [HRs ->]]|[-> [c [Hc Hno]]]].
  - cbn [orb negb app]. destruct (existsb snd Rs) eqn:Hex.
    + destruct (acc_glue_st F ccs Hok al true Rs HRs) as [H1 [H2 H3]].
      pose proof (acc_found ccs al Rs HRs Hex) as H4.
      split; [exact H1|]. split; [exact H2|]. split; [exact H3|]. split; [exact H4|].
      exists (glue ccs (map fst Rs)). split; [exact H1|exact H4].
    + exact (acc_not_found F ccs Hok al Rs HRs Hex).
  - cbn [st_cc_post] in Hno. intros [S [HS _]]. exact (comp_no_ext F ccs Hok ST c Hc Hno S HS).
Qed.

Theorem st_ds_whole : forall al,
  on_done (st_ds oracle thr g al)
    (fun r => match r with
              | (false, Some L) => st F L /\ NoDup L /\ incl L (args F) /\
                                   (forall a, In a al -> ~ In a L) /\ ~ skep ST F al
              | (true, None) => skep ST F al
              | _ => False
              end).
Proof using Hthr Hvalid Hcc.
  intros al. destruct Hcc as [ccs [Hall Hok]]. apply wpT_on_done. intros s.
  unfold st_ds, st_accept, ccs_m. rewrite Hall, wp_bind, wp_ret. cbn [negb].
  eapply wp_mono;
    [|apply (st_accept_loop_spec oracle thr Hthr Hvalid al false true ccs [] true s);
      intros c Hc; exact (comp_compact F ccs Hok c Hc)].
  intros r s' [[Rs [HRs ->]]|[-> [c [Hc Hno]]]].
  - cbn [orb negb app].
    destruct (acc_glue_st F ccs Hok al false Rs HRs) as [H1 [H2 H3]].
    pose proof (acc_avoids F ccs Hok al Rs HRs) as H4.
    split; [exact H1|]. split; [exact H2|]. split; [exact H3|]. split; [exact H4|].
    intros Hsk. destruct (Hsk _ H1) as [a [Ha HaL]]. exact (H4 a Ha HaL).
  - cbn [st_cc_post] in Hno. exact (comp_skep F ccs Hok al c Hc Hno).
Qed.

(* ---------------------------------------------------------------- (G4) CO, credulous *)
Theorem co_dc_whole : forall e al,
  enc_base e = BCo -> al <> [] -> (forall a, In a al -> In a (args F)) ->
  on_done (co_dc oracle thr e g al) (fun b => b = true <-> cred CO F al).
Proof using Hthr Hvalid Hmerged.
  intros e al He Hne Hal. destruct (Hmerged al Hne Hal) as [s0 [c [rest [Hm [Hin [Hrem Hok]]]]]].
  destruct (locals_some c al Hin) as [la [Hl [Hmap Hlt]]].
  pose proof (comp_compact F (c :: rest) Hok c (or_introl eq_refl)) as HF.
  apply wpT_on_done. intros s. unfold co_dc, merged_m, locals_m.
  rewrite wp_bind, wp_new_solver, Hm, wp_bind, wp_ret. cbv zeta. cbn [snd]. rewrite Hl.
  rewrite wp_bind_assoc, wp_bind.
  eapply wp_mono;
    [|apply (cred_query_spec oracle thr Hthr Hvalid e (c_af c) (length (c_ids c)) HF la Hlt true
               (st_new s)); [apply cls_new|apply sb_new]].
  intros r s'' Hr. rewrite wp_ret. rewrite He in Hr. cbn [basep] in Hr.
  rewrite <- Hmap, (co_merged_local F c rest la Hok Hlt).
  destruct r as [m|].
  - split; [intros _|reflexivity]. destruct Hr as [H1 H2]. apply meets_spec in H2.
    destruct H2 as [a [Ha HaS]]. exists (assignment_to_extension (length (c_ids c)) e m).
    split; [exact H1|exists a; split; assumption].
  - split; [discriminate|]. intros [S [HS [a [Ha HaS]]]]. specialize (Hr S HS).
    pose proof (proj1 (meets_false la S) Hr a Ha). contradiction.
Qed.

(* the shape of a completed run of the certificate variant, before any gluing argument *)
Lemma co_dc_cert_shape : forall e al s0 c rest la,
  enc_base e = BCo ->
  merged_cc_of g (cc_new g) al = Some (s0, c) -> remaining_ccs g s0 = Some rest ->
  locals c al = Some la -> comp_ok c -> (forall i, In i la -> i < length (c_ids c)) ->
  on_done (co_dc_cert oracle thr e g al)
    (fun r => match r with
              | (true, Some L) =>
                  exists X, L = glue (c :: rest)
                                  (X :: map (fun oc => grounded (view_of_af (c_af oc))) rest) /\
                            co (c_af c) X /\ NoDup X /\ meets la X = true
              | (false, None) => forall S, co (c_af c) S -> meets la S = false
              | _ => False
              end).
Proof using Hthr Hvalid.
  intros e al s0 c rest la He Hm Hrem Hl HF Hlt.
  apply wpT_on_done. intros s. unfold co_dc_cert, merged_m, locals_m, remaining_m.
  rewrite Hm, wp_bind, wp_ret. cbv zeta. cbn [snd fst]. rewrite wp_bind, wp_new_solver, Hl, Hrem.
  rewrite wp_bind_assoc, wp_bind.
  eapply wp_mono;
    [|apply (cred_query_spec oracle thr Hthr Hvalid e (c_af c) (length (c_ids c)) HF la Hlt false
               (st_new s)); [apply cls_new|apply sb_new]].
  intros r s'' Hr. rewrite He in Hr. cbn [basep] in Hr. destruct r as [m|].
  - rewrite wp_bind, !wp_ret. rewrite (proj1 HF), seq_length.
    rewrite <- (glue_map (fun oc => grounded (view_of_af (c_af oc))) rest).
    exists (assignment_to_extension (length (c_ids c)) e m). destruct Hr as [H1 H2].
    split; [reflexivity|]. split; [exact H1|]. split; [apply a2e_NoDup|exact H2].
  - rewrite wp_ret. exact Hr.
Qed.

Theorem co_dc_cert_whole : forall e al,
  enc_base e = BCo -> al <> [] -> (forall a, In a al -> In a (args F)) ->
  on_done (co_dc_cert oracle thr e g al)
    (fun r => match r with
              | (true, Some L) => co F L /\ incl L (args F) /\
                                  (exists a, In a al /\ In a L) /\ cred CO F al
              | (false, None) => ~ cred CO F al
              | _ => False
              end).
Proof using Hthr Hvalid Hmerged Hgr_cc.
  intros e al He Hne Hal. destruct (Hmerged al Hne Hal) as [s0 [c [rest [Hm [Hin [Hrem Hok]]]]]].
  destruct (locals_some c al Hin) as [la [Hl [Hmap Hlt]]].
  pose proof (comp_compact F (c :: rest) Hok c (or_introl eq_refl)) as HF.
  intros s. pose proof (co_dc_cert_shape e al s0 c rest la He Hm Hrem Hl HF Hlt s) as H.
  destruct (co_dc_cert oracle thr e g al s) as [[[|] [L|]] s'| | |]; try exact I; try exact H.
  - destruct H as [X [-> [H1 [_ H2]]]].
    set (L := glue (c :: rest) (X :: map (fun oc => grounded (view_of_af (c_af oc))) rest)).
    assert (HL : co F L).
    { apply (glue_ext F (c :: rest) Hok CO). constructor; [exact H1|].
      apply Forall2_map_same. intros oc Hoc.
      assert (Hoc' : In oc (c :: rest)) by (right; exact Hoc).
      apply (gr_co (c_af oc)); [exact (comp_af_wf F (c :: rest) Hok oc Hoc')|].
      exact (Hgr_cc (c :: rest) oc Hok Hoc'). }
    assert (Hmeet : exists a, In a al /\ In a L).
    { apply meets_spec in H2. destruct H2 as [i [Hi HiX]]. exists (cc_global c i). split.
      - rewrite <- Hmap. apply in_map. exact Hi.
      - unfold L. cbn [glue]. apply in_or_app. left. apply in_lift. exists i. split; [exact HiX|reflexivity]. }
    split; [exact HL|]. split; [exact (co_incl F L HL)|]. split; [exact Hmeet|].
    exists L. split; [exact HL|exact Hmeet].
  - rewrite <- Hmap, (co_merged_local F c rest la Hok Hlt).
    intros [S [HS [a [Ha HaS]]]]. specialize (H S HS).
    pose proof (proj1 (meets_false la S) H a Ha). contradiction.
Qed.

(* ---------------------------------------------------------------- (G5) no duplicates *)
(* every list returned by the GR and ST entry points is duplicate-free and made of arguments of F:
   this is part of the theorems above.  For the CO certificate (model of the merged component
   followed by the grounded extensions of the other components) it needs that [grounded] returns a
   duplicate-free list on a component: *)
Hypothesis Hgr_cc_nd : forall ccs c, decomp_ok F ccs -> In c ccs ->
  NoDup (grounded (view_of_af (c_af c))).

Theorem co_dc_cert_nodup : forall e al,
  enc_base e = BCo -> al <> [] -> (forall a, In a al -> In a (args F)) ->
  on_done (co_dc_cert oracle thr e g al)
    (fun r => match snd r with Some L => NoDup L /\ incl L (args F) | None => True end).
Proof using Hthr Hvalid Hmerged Hgr_cc Hgr_cc_nd.
  intros e al He Hne Hal. destruct (Hmerged al Hne Hal) as [s0 [c [rest [Hm [Hin [Hrem Hok]]]]]].
  destruct (locals_some c al Hin) as [la [Hl [Hmap Hlt]]].
  pose proof (comp_compact F (c :: rest) Hok c (or_introl eq_refl)) as HF.
  intros s. pose proof (co_dc_cert_shape e al s0 c rest la He Hm Hrem Hl HF Hlt s) as H.
  destruct (co_dc_cert oracle thr e g al s) as [[[|] [L|]] s'| | |]; cbn [snd]; try exact I;
    [|destruct H].
  destruct H as [X [-> [H1 [H2 _]]]].
  assert (H : Forall2 (fun c S => ext CO (c_af c) S /\ NoDup S) (c :: rest)
                (X :: map (fun oc => grounded (view_of_af (c_af oc))) rest)).
  { constructor; [split; [exact H1|exact H2]|]. apply Forall2_map_same. intros oc Hoc.
    assert (Hoc' : In oc (c :: rest)) by (right; exact Hoc).
    split.
    - apply (gr_co (c_af oc)); [exact (comp_af_wf F (c :: rest) Hok oc Hoc')|].
      exact (Hgr_cc (c :: rest) oc Hok Hoc').
    - exact (Hgr_cc_nd (c :: rest) oc Hok Hoc'). }
  destruct (glue_ext_full F (c :: rest) Hok CO _ H) as [_ [H3 H4]]. split; assumption.
Qed.

(* ---------------------------------------------------------------- the dispatcher *)
Theorem run_query_se_whole : forall fuel s cert e al, s = GR \/ s = ST ->
  on_done (run_query oracle thr fuel s QSE cert e g al) (se_outcome s F).
Proof using Hthr Hvalid Hcc Hgr.
  intros fuel s cert e al [-> | ->]; unfold run_query; cbv zeta.
  - apply on_done_ret. exact gr_se_whole.
  - apply (on_done_bind _ _ _ _ _ _ st_se_whole). intros r H. apply on_done_ret. exact H.
Qed.

Theorem run_query_dc_whole : forall fuel s cert e al,
  s = GR \/ s = ST \/
  (s = CO /\ enc_base e = BCo /\ al <> [] /\ forall a, In a al -> In a (args F)) ->
  on_done (run_query oracle thr fuel s QDC cert e g al) (dc_outcome s F al cert).
Proof using Hthr Hvalid Hwf Hcc Hmerged Hgr Hgr_cc.
  intros fuel s cert e al [-> | [-> | [-> [He [Hne Hal]]]]]; unfold run_query; cbv zeta.
  - (* GR *)
    destruct (gr_dc g al) as [b c] eqn:E. destruct (gr_dc_whole al b c E) as [H1 H2].
    destruct cert; apply (on_done_bind _ _ _ _ (fun r => r = (b, c)));
      try (apply on_done_ret; reflexivity); intros r ->; apply on_done_ret; cbn [dc_outcome fst snd];
      (split; [exact H1|]).
    + destruct c as [L|]; [|intros _; exact H2].
      destruct H2 as [Hb [Hg [_ [Hi Hm]]]]. split; [reflexivity|]. split; [exact Hb|].
      split; [exact Hg|]. split; [exact Hi|exact Hm].
    + discriminate.
  - (* ST *)
    destruct cert; apply (on_done_bind _ _ _ _ _ _ (st_dc_whole al));
      intros [[|] [L|]] H; try (destruct H; fail); apply on_done_ret; cbn [dc_outcome fst snd].
    + destruct H as [H1 [_ [H3 [H4 H5]]]]. split; [split; [intros _; exact H5|reflexivity]|].
      split; [reflexivity|]. split; [reflexivity|]. split; [exact H1|]. split; [exact H3|exact H4].
    + split; [split; [discriminate|intros Hc; destruct (H Hc)]|]. reflexivity.
    + destruct H as [_ [_ [_ [_ H5]]]]. split; [split; [intros _; exact H5|reflexivity]|]. discriminate.
    + split; [split; [discriminate|intros Hc; destruct (H Hc)]|]. discriminate.
  - (* CO *)
    destruct cert.
    + apply (on_done_bind _ _ _ _ _ _ (co_dc_cert_whole e al He Hne Hal)).
      intros [[|] [L|]] H; try (destruct H; fail); apply on_done_ret; cbn [dc_outcome fst snd].
      * destruct H as [H1 [H2 [H3 H4]]]. split; [split; [intros _; exact H4|reflexivity]|].
        split; [reflexivity|]. split; [reflexivity|]. split; [exact H1|]. split; [exact H2|exact H3].
      * split; [split; [discriminate|intros Hc; destruct (H Hc)]|]. reflexivity.
    + apply (on_done_bind _ _ _ _ _ _ (co_dc_whole e al He Hne Hal)).
      intros b H. apply on_done_ret. cbn [dc_outcome]. split; [exact H|discriminate].
Qed.

Theorem run_query_ds_whole : forall fuel s cert e al, s = GR \/ s = ST ->
  on_done (run_query oracle thr fuel s QDS cert e g al) (ds_outcome s F al cert).
Proof using Hthr Hvalid Hwf Hcc Hgr.
  intros fuel s cert e al [-> | ->]; unfold run_query; cbv zeta.
  - (* GR *)
    destruct (gr_ds g al) as [b c] eqn:E. destruct (gr_ds_whole al b c E) as [H1 H2].
    destruct cert; apply (on_done_bind _ _ _ _ (fun r => r = (b, c)));
      try (apply on_done_ret; reflexivity); intros r ->; apply on_done_ret; cbn [ds_outcome fst snd];
      (split; [exact H1|]).
    + destruct c as [L|]; [|intros _; exact H2].
      destruct H2 as [Hb [Hg [_ [Hi Hm]]]]. split; [reflexivity|]. split; [exact Hb|].
      split; [exact Hg|]. split; [exact Hi|exact Hm].
    + discriminate.
  - (* ST *)
    destruct cert; apply (on_done_bind _ _ _ _ _ _ (st_ds_whole al));
      intros [[|] [L|]] H; try (destruct H; fail); apply on_done_ret; cbn [ds_outcome fst snd].
    + split; [split; [intros _; exact H|reflexivity]|]. reflexivity.
    + destruct H as [H1 [_ [H3 [H4 H5]]]]. split; [split; [discriminate|intros Hc; destruct (H5 Hc)]|].
      split; [reflexivity|]. split; [reflexivity|]. split; [exact H1|]. split; [exact H3|exact H4].
    + split; [split; [intros _; exact H|reflexivity]|]. discriminate.
    + destruct H as [_ [_ [_ [_ H5]]]]. split; [split; [discriminate|intros Hc; destruct (H5 Hc)]|].
      discriminate.
Qed.

Lemma on_done_true : forall A (m : M A), on_done m (fun _ => True).
Proof. intros A m s. destruct (m s); exact I. Qed.

(* every certificate returned through the dispatcher is duplicate-free *)
Theorem run_query_cert_nodup : forall fuel s q cert e al,
  q = QDC \/ q = QDS ->
  s = GR \/ s = ST \/
  (s = CO /\ q = QDC /\ enc_base e = BCo /\ al <> [] /\ forall a, In a al -> In a (args F)) ->
  on_done (run_query oracle thr fuel s q cert e g al)
    (fun o => match o with OAcc _ (Some L) => NoDup L | _ => True end).
Proof using Hthr Hvalid Hwf Hcc Hmerged Hgr Hgr_cc Hgr_cc_nd.
  intros fuel s q cert e al Hq [-> | [-> | [-> [-> [He [Hne Hal]]]]]];
    [destruct Hq as [-> | ->] ..|]; unfold run_query; cbv zeta.
  - destruct (gr_dc g al) as [b c] eqn:E. destruct (gr_dc_whole al b c E) as [_ H2].
    destruct cert; apply (on_done_bind _ _ _ _ (fun r => r = (b, c)));
      try (apply on_done_ret; reflexivity); intros r ->; apply on_done_ret; cbn [fst snd];
      try exact I. destruct c; [tauto|exact I].
  - destruct (gr_ds g al) as [b c] eqn:E. destruct (gr_ds_whole al b c E) as [_ H2].
    destruct cert; apply (on_done_bind _ _ _ _ (fun r => r = (b, c)));
      try (apply on_done_ret; reflexivity); intros r ->; apply on_done_ret; cbn [fst snd];
      try exact I. destruct c; [tauto|exact I].
  - destruct cert; apply (on_done_bind _ _ _ _ _ _ (st_dc_whole al));
      intros [[|] [L|]] H; cbv beta iota in H; apply on_done_ret; cbn [fst snd]; try exact I; tauto.
  - destruct cert; apply (on_done_bind _ _ _ _ _ _ (st_ds_whole al));
      intros [[|] [L|]] H; cbv beta iota in H; apply on_done_ret; cbn [fst snd]; try exact I; tauto.
  - destruct cert.
    + apply (on_done_bind _ _ _ _ _ _ (co_dc_cert_nodup e al He Hne Hal)).
      intros [b [L|]] H; cbn [snd] in H; apply on_done_ret; cbn [fst snd]; [tauto|exact I].
    + apply (on_done_bind _ _ _ _ _ _ (on_done_true _ (co_dc oracle thr e g al))).
      intros b _. apply on_done_ret. exact I.
Qed.

End Whole.

(* ------------------------------------------------------------------------------------------ *)
Print Assumptions glue_ext.
Print Assumptions gr_se_whole.
Print Assumptions gr_dc_whole.
Print Assumptions gr_ds_whole.
Print Assumptions st_se_whole.
Print Assumptions st_dc_whole.
Print Assumptions st_ds_whole.
Print Assumptions co_dc_whole.
Print Assumptions co_dc_cert_whole.
Print Assumptions co_dc_cert_nodup.
Print Assumptions run_query_se_whole.
Print Assumptions run_query_dc_whole.
Print Assumptions run_query_ds_whole.
Print Assumptions run_query_cert_nodup.
