(* Generic facts for the proofs about Model/Dynamic.v: a state-free Hoare predicate for the SAT
   program monad, table lookups, the allocator. *)
From Crusta Require Import Model.Dynamic Proofs.StoreBase.
From Coq Require Import Lia ZifyBool.

(* ---------------------------------------------------------------- the monad *)
(* every value a program returns (whatever the SAT side does) satisfies Q *)
Definition okm {A} (m : Prog.M A) (Q : A -> Prop) : Prop :=
  forall s a s', m s = Done a s' -> Q a.

Lemma okm_ret {A} (a : A) (Q : A -> Prop) : Q a -> okm (ret a) Q.
Proof. intros H s b s' E. unfold ret in E. injection E as <- _. exact H. Qed.

Lemma okm_bind {A B} (m : Prog.M A) (k : A -> Prog.M B) (P : A -> Prop) (Q : B -> Prop) :
  okm m P -> (forall a, P a -> okm (k a) Q) -> okm (bind m k) Q.
Proof.
  intros Hm Hk s b s' E. unfold bind in E. destruct (m s) as [a s1| | |] eqn:Em; try discriminate.
  exact (Hk a (Hm _ _ _ Em) _ _ _ E).
Qed.

Lemma okm_any {A} (m : Prog.M A) : okm m (fun _ => True).
Proof. intros s a s' _. exact I. Qed.

Lemma okm_bind_any {A B} (m : Prog.M A) (k : A -> Prog.M B) (Q : B -> Prop) :
  (forall a, okm (k a) Q) -> okm (bind m k) Q.
Proof. intros H. apply (okm_bind m k (fun _ => True)); [apply okm_any|intros a _; apply H]. Qed.

Lemma okm_panic {A} (Q : A -> Prop) : okm panic Q.
Proof. intros s a s' E. discriminate E. Qed.
Lemma okm_oof {A} (Q : A -> Prop) : okm out_of_fuel Q.
Proof. intros s a s' E. discriminate E. Qed.

Lemma okm_weaken {A} (m : Prog.M A) (P Q : A -> Prop) : okm m P -> (forall a, P a -> Q a) -> okm m Q.
Proof. intros H HPQ s a s' E. apply HPQ. exact (H _ _ _ E). Qed.

Lemma okm_opt_m {A} (o : option A) (Q : A -> Prop) : (forall a, o = Some a -> Q a) -> okm (opt_m o) Q.
Proof. intros H. destruct o as [a|]; cbn [opt_m]; [apply okm_ret; auto|apply okm_panic]. Qed.

Lemma okm_unwrap_ok {A} (r : A * result) (Q : A -> Prop) :
  (forall a, r = (a, ROk) -> Q a) -> okm (unwrap_ok r) Q.
Proof.
  intros H. destruct r as [a [| |]]; cbn [unwrap_ok]; [apply okm_ret; auto|apply okm_panic|apply okm_panic].
Qed.

Lemma okm_fold_m {A B} (f : A -> B -> Prog.M A) (I : A -> Prop) (l : list B) :
  (forall a x, I a -> okm (f a x) I) -> forall a, I a -> okm (fold_m f l a) I.
Proof.
  intros Hf. induction l as [|x r IH]; intros a Ha; cbn [fold_m].
  - apply okm_ret; assumption.
  - apply (okm_bind _ _ I); [apply Hf; assumption|intros a' Ha'; apply IH; assumption].
Qed.

(* the same, when only elements of the list satisfying R are fed *)
Lemma okm_fold_m_in {A B} (f : A -> B -> Prog.M A) (I : A -> Prop) (l : list B) :
  (forall a x, In x l -> I a -> okm (f a x) I) -> forall a, I a -> okm (fold_m f l a) I.
Proof.
  induction l as [|x r IH]; intros Hf a Ha; cbn [fold_m].
  - apply okm_ret; assumption.
  - apply (okm_bind _ _ I); [apply Hf; [left; reflexivity|assumption]|].
    intros a' Ha'. apply IH; [|assumption]. intros a0 y Hy. apply Hf. right; assumption.
Qed.

(* inversion of a bind that returned *)
Lemma bind_Done {A B} (m : Prog.M A) (k : A -> Prog.M B) s b s2 :
  bind m k s = Done b s2 -> exists a s1, m s = Done a s1 /\ k a s1 = Done b s2.
Proof.
  unfold bind. destruct (m s) as [a s1| | |] eqn:E; try discriminate. intros H. exists a, s1. auto.
Qed.

(* ---------------------------------------------------------------- lists and tables *)
Lemma nth_error_set_nth_eq {A} (i : nat) (x : A) (l : list A) :
  i < length l -> nth_error (set_nth i x l) i = Some x.
Proof.
  revert i; induction l as [|y r IH]; intros [|i] H; cbn [set_nth nth_error length] in *; try lia; auto.
  apply IH. lia.
Qed.
Lemma nth_error_set_nth_neq {A} (i j : nat) (x : A) (l : list A) :
  i <> j -> nth_error (set_nth i x l) j = nth_error l j.
Proof.
  revert i j; induction l as [|y r IH]; intros [|i] [|j] H; cbn [set_nth nth_error]; try reflexivity; try lia.
  apply IH. lia.
Qed.
Lemma nth_error_app_l {A} (l1 l2 : list A) i : i < length l1 -> nth_error (l1 ++ l2) i = nth_error l1 i.
Proof. intros H. apply nth_error_app1. exact H. Qed.
Lemma nth_error_snoc {A} (l : list A) x : nth_error (l ++ [x]) (length l) = Some x.
Proof. rewrite nth_error_app2 by lia. rewrite Nat.sub_diag. reflexivity. Qed.

Lemma tbl_var_set_eq t id o : id < length t -> tbl_var (set_nth id o t) id = o.
Proof. intros H. unfold tbl_var. rewrite nth_error_set_nth_eq by assumption. destruct o; reflexivity. Qed.
Lemma tbl_var_set_neq t i j o : i <> j -> tbl_var (set_nth i o t) j = tbl_var t j.
Proof. intros H. unfold tbl_var. rewrite nth_error_set_nth_neq by assumption. reflexivity. Qed.
Lemma tbl_var_lt t id v : tbl_var t id = Some v -> id < length t.
Proof.
  unfold tbl_var. destruct (nth_error t id) eqn:E; [|discriminate]. intros _.
  apply nth_error_Some. congruence.
Qed.
Lemma tbl_var_snoc_old t o id : id < length t -> tbl_var (t ++ [o]) id = tbl_var t id.
Proof. intros H. unfold tbl_var. rewrite nth_error_app1 by assumption. reflexivity. Qed.
Lemma tbl_var_snoc_new t o : tbl_var (t ++ [o]) (length t) = o.
Proof. unfold tbl_var. rewrite nth_error_snoc. destruct o; reflexivity. Qed.
Lemma tbl_var_snoc_beyond t o id : length t < id -> tbl_var (t ++ [o]) id = None.
Proof.
  intros H. unfold tbl_var. replace (nth_error (t ++ [o]) id) with (@None (option nat)); [reflexivity|].
  symmetry. apply nth_error_None. rewrite app_length. cbn [length]. lia.
Qed.

(* ---------------------------------------------------------------- the allocator *)
Lemma alloc_var_spec vars nv t vars' v :
  alloc_var vars nv t = (vars', v) ->
  nv < v /\ length vars <= v /\ length vars' = S v /\
  nth_error vars' v = Some t /\
  (forall i, i < length vars -> nth_error vars' i = nth_error vars i) /\
  (forall i, length vars <= i -> i < v -> nth_error vars' i = Some VIgnored).
Proof.
  unfold alloc_var. intros E. apply pair_equal_spec in E. destruct E as [<- <-].
  set (pad := repeat VIgnored (S nv - length vars)).
  assert (Hl : length (vars ++ pad) = length vars + (S nv - length vars))
    by (rewrite app_length; unfold pad; rewrite repeat_length; reflexivity).
  repeat split.
  - lia.
  - lia.
  - rewrite app_length. cbn [length]. lia.
  - apply nth_error_snoc.
  - intros i Hi. rewrite nth_error_app1 by lia. rewrite nth_error_app1 by assumption. reflexivity.
  - intros i H1 H2. rewrite nth_error_app1 by lia. rewrite nth_error_app2 by assumption.
    unfold pad. apply nth_error_repeat. lia.
Qed.

(* bind of unwrap_ok: the continuation only runs on (a, ROk) *)
Lemma okm_unwrap_ok' {A B} (r : A * result) (k : A -> Prog.M B) (Q : B -> Prop) :
  (forall a, r = (a, ROk) -> okm (k a) Q) -> okm (bind (unwrap_ok r) k) Q.
Proof.
  intros H. destruct r as [a [| |]]; cbn [unwrap_ok].
  - intros s b s' E. unfold bind, ret in E. exact (H a eq_refl _ _ _ E).
  - intros s b s' E. discriminate E.
  - intros s b s' E. discriminate E.
Qed.
