(* C08 / C09 for the recompute-from-scratch wrapper (kind [KDummy sm] of Model/Dynamic.v): the full
   functional theorem.  In every state reachable by any history of updates and queries the wrapper
   answers a supported query on a known argument exactly as the semantics of the framework built by
   the whole history demands, never panics, leaves the solver state untouched, and makes at most
   the SAT calls of the static solver.  Corollary of DynProofs.dummy_framework (the wrapper's
   framework IS the specification store of the history) and SolverTop.run_query_store (the view of
   a reachable store is a good view). *)
From Crusta Require Import Spec.AF Sat.Cnf Sat.Prog Model.Store Model.Encoders Model.Graph Model.Solvers Model.Dynamic.
From Crusta Require Import Proofs.StoreBase Proofs.StoreProofs Proofs.DynDefs Proofs.DynBase Proofs.DynProofs.
From Crusta Require Import Proofs.SolverBasics Proofs.MaxExtPref Proofs.TopBase Proofs.TopMax Proofs.SolverTop.
From Crusta Require Proofs.GroundedProofs.
From Coq Require Import Lia.
Import ListNotations.
Open Scope prog_scope.

Section DummyTop.
Variable L : Type.
Variable leqb : L -> L -> bool.
Hypothesis leqb_spec : forall x y, leqb x y = true <-> x = y.

Notation reach := (reach L leqb).
Notation fresh := (fresh_fw L leqb).
Notation run_ops := (run_ops L leqb).
Notation af_of := (GroundedProofs.af_of L).

Lemma history_reachable os : GroundedProofs.reachable L leqb (run_ops fresh os).
Proof. exists [], os. reflexivity. Qed.

(* an argument the store knows by its label is an argument of the framework the store denotes *)
Lemma get_argument_arg os l id :
  get_argument L leqb (run_ops fresh os) l = Some id -> In id (args (af_of (run_ops fresh os))).
Proof.
  intros H. pose proof (DynProofs.fresh_inv L leqb leqb_spec os) as Hinv.
  pose proof (find_label_Some L leqb leqb_spec _ l id Hinv H) as Hn.
  cbn [GroundedProofs.af_of args]. unfold live_ids, iter_args, ls_iter.
  apply (live_ids_spec L _ id Hinv). rewrite Hn. discriminate.
Qed.

(* the pairs the wrapper serves: an acceptance query that is an entry point of the static solver
   of semantics sm, with the default (aux_var, complete-based) encoder admissible for sm *)
Definition dummy_supported (sm : sem) (q : query) : Prop :=
  q <> QSE /\ supported sm q /\ enc_ok sm AuxCo.

Lemma dummy_supported_cases sm q :
  dummy_supported sm q <->
  match sm, q with
  | _, QSE => False
  | CO, QDS | PR, QDC => False         (* no entry point in run_query *)
  | STG, _ => False                    (* aux_var complete encoder not admissible for stage *)
  | _, _ => True
  end.
Proof.
  unfold dummy_supported, supported, enc_ok, pr_enc.
  destruct sm, q; cbn [enc_base]; split; intros H; try tauto; try (destruct H as (H1 & H2 & H3); congruence);
    try (split; [discriminate|split; [exact I|]]; try reflexivity; try exact I; auto).
Qed.

Theorem dummy_query_correct : forall sm s os, reach (KDummy sm) s os ->
  forall oracle thr fuel q cert l id ps,
  valid_oracle oracle -> 1 <= thr -> dummy_supported sm q ->
  get_argument L leqb (run_ops fresh os) l = Some id ->
  let F := af_of (run_ops fresh os) in
  let comps := query_comps sm q cert (view_of_fw (run_ops fresh os)) [id] in
  run_ok (dyn_query oracle L leqb thr fuel s q cert l ps) (calls ps)
         (total_bound sm AuxCo comps) (fuel_ok sm AuxCo comps fuel)
         (fun r => fst r = s /\ acc_spec sm (qpol q) cert F [id] (snd r)).
Proof.
  intros sm s os Hr oracle thr fuel q cert l id ps Hv Ht (Hq & Hs & He) Hget F comps.
  pose proof (DynProofs.reach_frame_inv L leqb _ s os Hr) as [Hk _ _ _].
  pose proof (DynProofs.dummy_framework L leqb sm s os Hr) as Haf.
  assert (Hal : al_ok sm q F [id]).
  { unfold al_ok. destruct q; [exact I| |]; destruct sm; try exact I;
      intros a [<-|[]]; exact (get_argument_arg os l id Hget). }
  pose proof (run_query_store L leqb leqb_spec (run_ops fresh os) (history_reachable os)
                oracle thr sm q AuxCo [id] fuel cert ps Hv Ht Hs He Hal) as R.
  fold F comps in R.
  assert (E : dyn_query oracle L leqb thr fuel s q cert l ps =
              bind (run_query oracle thr fuel sm q cert AuxCo (view_of_fw (run_ops fresh os)) [id])
                   (fun o => bind (outcome_answer o) (fun a => ret (s, a))) ps).
  { unfold dyn_query. rewrite Hk, Haf. destruct q; [congruence| |];
      unfold bind at 1; cbn [opt_m]; rewrite Hget; reflexivity. }
  rewrite E. unfold bind at 1.
  destruct (run_query oracle thr fuel sm q cert AuxCo (view_of_fw (run_ops fresh os)) [id] ps)
    as [o ps'|ps'|ps'|ps']; cbn [run_ok] in R |- *; try exact R.
  destruct R as [Ro Rc].
  destruct o as [r|b c]; [destruct q; cbn [outcome_spec] in Ro; try contradiction; congruence|].
  unfold bind, outcome_answer, ret. cbn [run_ok fst snd]. split; [|exact Rc]. split; [reflexivity|].
  destruct q; [congruence|exact Ro|exact Ro].
Qed.

(* spelled out (the form re-exported by Properties/C08dummy.v) *)
Theorem dummy_query_functional : forall sm s os, reach (KDummy sm) s os ->
  forall oracle thr fuel q cert l id ps,
  valid_oracle oracle -> 1 <= thr ->
  q <> QSE -> supported sm q -> enc_ok sm AuxCo ->
  get_argument L leqb (run_ops fresh os) l = Some id ->
  let F := af_of (run_ops fresh os) in
  let comps := query_comps sm q cert (view_of_fw (run_ops fresh os)) [id] in
  let K := total_bound sm AuxCo comps in
  match dyn_query oracle L leqb thr fuel s q cert l ps with
  | Done (s', (b, c)) ps' =>
      s' = s /\
      (b = true <-> if qpol q then cred sm F [id] else skep sm F [id]) /\
      match c with
      | Some E => cert = true /\ b = qpol q /\ ext sm F E /\ NoDup E /\ incl E (args F) /\
                  (if qpol q then In id E else ~ In id E)
      | None => cert = true -> b = negb (qpol q)
      end /\
      calls ps' <= calls ps + K
  | Abort ps' => calls ps' <= calls ps + K
  | Panic _ => False
  | OutOfFuel ps' =>
      calls ps' <= calls ps + K /\ ~ (forall c, In c comps -> 2 * comp_bound sm AuxCo c + 4 <= fuel)
  end.
Proof.
  intros sm s os Hr oracle thr fuel q cert l id ps Hv Ht Hq Hs He Hget F comps K.
  pose proof (dummy_query_correct sm s os Hr oracle thr fuel q cert l id ps Hv Ht
                (conj Hq (conj Hs He)) Hget) as R.
  cbv zeta in R. fold F comps K in R.
  destruct (dyn_query oracle L leqb thr fuel s q cert l ps) as [[s' [b c]] ps'|ps'|ps'|ps'];
    cbn [run_ok] in R; try exact R.
  destruct R as [[R1 [R2 R3]] R4]. cbn [fst snd] in R1, R2, R3.
  split; [exact R1|]. split; [exact R2|]. split; [|exact R4].
  destruct c as [E|]; [|exact R3].
  destruct R3 as (C1 & C2 & C3 & C4 & C5 & C6). repeat (split; try assumption).
  - destruct (qpol q).
    + destruct C6 as [a [[<-|[]] Ha]]. exact Ha.
    + apply C6. left; reflexivity.
Qed.

(* C09 "stays usable": whatever happened before (any updates, valid or not, any earlier queries
   that returned), a supported query on a known argument never panics; with enough fuel and a SAT
   backend that always decides it returns an answer *)
Theorem dummy_query_never_panics : forall sm s os, reach (KDummy sm) s os ->
  forall oracle thr fuel q cert l id ps,
  valid_oracle oracle -> 1 <= thr ->
  q <> QSE -> supported sm q -> enc_ok sm AuxCo ->
  get_argument L leqb (run_ops fresh os) l = Some id ->
  match dyn_query oracle L leqb thr fuel s q cert l ps with
  | Panic _ => False
  | _ => True
  end.
Proof.
  intros sm s os Hr oracle thr fuel q cert l id ps Hv Ht Hq Hs He Hget.
  pose proof (dummy_query_correct sm s os Hr oracle thr fuel q cert l id ps Hv Ht
                (conj Hq (conj Hs He)) Hget) as R.
  cbv zeta in R.
  destruct (dyn_query oracle L leqb thr fuel s q cert l ps); cbn [run_ok] in R; tauto.
Qed.

Theorem dummy_query_terminates : forall sm s os, reach (KDummy sm) s os ->
  forall oracle thr fuel q cert l id ps,
  valid_oracle oracle -> 1 <= thr ->
  q <> QSE -> supported sm q -> enc_ok sm AuxCo ->
  get_argument L leqb (run_ops fresh os) l = Some id ->
  2 * total_bound sm AuxCo (query_comps sm q cert (view_of_fw (run_ops fresh os)) [id]) + 4 <= fuel ->
  match dyn_query oracle L leqb thr fuel s q cert l ps with
  | Panic _ | OutOfFuel _ => False
  | _ => True
  end.
Proof.
  intros sm s os Hr oracle thr fuel q cert l id ps Hv Ht Hq Hs He Hget Hf.
  pose proof (dummy_query_correct sm s os Hr oracle thr fuel q cert l id ps Hv Ht
                (conj Hq (conj Hs He)) Hget) as R.
  cbv zeta in R.
  destruct (dyn_query oracle L leqb thr fuel s q cert l ps); cbn [run_ok] in R; try tauto.
  destruct R as [_ R]. apply R. apply fuel_ok_sum. exact Hf.
Qed.

End DummyTop.

Print Assumptions dummy_supported_cases.
Print Assumptions dummy_query_correct.
Print Assumptions dummy_query_functional.
Print Assumptions dummy_query_never_panics.
Print Assumptions dummy_query_terminates.
