(* The MaximalExtensionComputer of Model/Solvers.v (preferred and ideal flavours), for every valid
   SAT oracle: refinement lemmas (what a valid answer means for the session "base clauses ++
   selector-guarded blocking clauses") and the invariant of [compute_next]'s state machine,
   including the ghost lists used to count SAT calls.  Abstract in the base clause set [C0] (the
   encoder's clauses, or those clauses plus the remains of a finished computer), in the set of
   "relevant" preferred extensions [rel] and in the allowed arguments (ideal flavour). *)
From Crusta Require Import Spec.AF Spec.SemFacts Spec.Theory Sat.Cnf Sat.Prog.
From Crusta Require Import Model.Encoders Model.Graph Model.Solvers.
From Crusta Require Import Proofs.ProgLaws Proofs.EncSpec Proofs.EncBase Proofs.EncAll Proofs.SolverBasics.
From Coq Require Import ZifyBool.
Import ListNotations.
Open Scope prog_scope.

(* ------------------------------------------------------------------------------------------ *)
(** * Lists as sets: decidable inclusion, separated lists, counting *)

Lemma incl_dec_b (S B : list nat) : {incl S B} + {~ incl S B}.
Proof.
  destruct (subsetb S B) eqn:E.
  - left. now apply subsetb_incl.
  - right. intros H. apply subsetb_incl in H. congruence.
Qed.

Lemma below_some_dec (S : list nat) (Bs : list (list nat)) :
  {exists B, In B Bs /\ incl S B} + {forall B, In B Bs -> ~ incl S B}.
Proof.
  destruct (existsb (subsetb S) Bs) eqn:E.
  - left. apply existsb_exists in E. destruct E as [B [HB Hs]]. exists B. split; [exact HB|].
    now apply subsetb_incl.
  - right. intros B HB Hi. apply subsetb_incl in Hi.
    assert (existsb (subsetb S) Bs = true) by (apply existsb_exists; now exists B). congruence.
Qed.

(* pairwise different as sets *)
Fixpoint sepl (l : list (list nat)) : Prop :=
  match l with
  | [] => True
  | X :: r => (forall T, In T r -> ~ seteq X T) /\ sepl r
  end.

Lemma sepl_canon_NoDup U l : (forall S, In S l -> incl S U) -> sepl l -> NoDup (map (canon U) l).
Proof.
  induction l as [|S r IH]; cbn [map sepl]; intros Hin Hs; [constructor|].
  destruct Hs as [Hne Hs]. constructor.
  - intros Hc. apply in_map_iff in Hc. destruct Hc as [T [HT HTr]].
    apply (Hne T HTr).
    apply seteq_trans with (canon U S).
    + apply seteq_sym, canon_seteq. apply Hin. now left.
    + rewrite <- HT. apply canon_seteq. apply Hin. now right.
  - apply IH; [|exact Hs]. intros T HT. apply Hin. now right.
Qed.

Lemma sepl_length_le U (pb : list nat -> bool) l :
  (forall S, In S l -> incl S U) ->
  (forall S, In S l -> pb (canon U S) = true) ->
  sepl l -> length l <= length (filter pb (powerset U)).
Proof.
  intros Hin Hp Hs. rewrite <- (map_length (canon U) l).
  apply NoDup_incl_length; [now apply sepl_canon_NoDup|].
  intros X HX. apply in_map_iff in HX. destruct HX as [S [<- HS]].
  apply filter_In. split; [apply canon_in_powerset|now apply Hp].
Qed.

Lemma sepl_base_le b F l :
  (forall S, In S l -> basep b F S) -> sepl l -> length l <= length (all_base b F).
Proof.
  intros Hb Hs. unfold all_base. apply sepl_length_le; [| |exact Hs].
  - intros S HS. apply (basep_incl b F S). now apply Hb.
  - intros S HS. apply baseb_basep. apply (basep_seteq b F S).
    + apply seteq_sym, canon_seteq. apply (basep_incl b F S). now apply Hb.
    + now apply Hb.
Qed.

Lemma sepl_pr_le F l :
  (forall S, In S l -> pr F S) -> sepl l -> length l <= length (all_exts PR F).
Proof.
  intros Hb Hs. rewrite all_exts_eq. apply sepl_length_le; [| |exact Hs].
  - intros S HS. apply (ext_incl PR F S). now apply Hb.
  - intros S HS. apply (extb_ext PR). apply (ext_seteq PR F S).
    + apply seteq_sym, canon_seteq. apply (ext_incl PR F S). now apply Hb.
    + now apply Hb.
Qed.

Lemma compact_wf F n : compact_af F n -> wf F.
Proof.
  intros [Ha Hok]. split.
  - rewrite Ha. apply seq_NoDup.
  - intros a b Hab. rewrite Ha, !in_seq. specialize (Hok a b Hab). lia.
Qed.

(* ------------------------------------------------------------------------------------------ *)
(** * split_in_extension on a compact component *)

Section Split.
Variable e : enc.
Variable n : nat.

Definition ids_n : list nat := filter (fun i => Nat.ltb i n) (seq 0 n).
Definition in_lits (cur : list nat) : list lit :=
  map (arg_to_lit e) (filter (fun i => memb i cur) ids_n).
Definition out_lits (cur : list nat) : list lit :=
  map (arg_to_lit e) (filter (fun i => negb (memb i cur)) ids_n).

Lemma in_ids_n i : In i ids_n <-> i < n.
Proof. unfold ids_n. rewrite filter_In, in_seq. split; [intros [_ H]; now apply Nat.ltb_lt|intros H; split; [lia|now apply Nat.ltb_lt]]. Qed.

Lemma split_size cur : (forall a, In a cur -> a < n) ->
  fold_left (fun acc a => Nat.max acc (S a)) cur n = n.
Proof.
  induction cur as [|a cur IH]; cbn [fold_left]; intros H; [reflexivity|].
  replace (Nat.max n (S a)) with n by (specialize (H a (or_introl eq_refl)); lia).
  apply IH. intros b Hb. apply H. now right.
Qed.

Lemma split_eq cur : (forall a, In a cur -> a < n) ->
  split_in_extension e n (fun i => Nat.ltb i n) cur = (in_lits cur, out_lits cur).
Proof. intros H. unfold split_in_extension. rewrite (split_size cur H). reflexivity. Qed.

Lemma in_lits_true (v : val) cur :
  forallb (vtrue v) (in_lits cur) = true <-> forall a, In a cur -> a < n -> v (arg_var e a) = true.
Proof.
  unfold in_lits. rewrite forallb_forall. split.
  - intros H a Ha Hn. rewrite <- (vtrue_arg e). apply H. apply in_map. apply filter_In.
    split; [now apply in_ids_n|now apply memb_spec].
  - intros H l Hl. apply in_map_iff in Hl. destruct Hl as [a [<- Ha]]. apply filter_In in Ha.
    destruct Ha as [Ha1 Ha2]. rewrite (vtrue_arg e). apply H; [now apply memb_spec|now apply in_ids_n].
Qed.

Lemma out_lits_sat (v : val) B :
  vsat_clause v (out_lits B) = true <-> ~ incl (ext_of e n v) B.
Proof.
  unfold out_lits. rewrite vsat_exists. split.
  - intros [l [Hl Ht]] Hi. apply in_map_iff in Hl. destruct Hl as [a [<- Ha]].
    apply filter_In in Ha. destruct Ha as [Ha1 Ha2]. rewrite (vtrue_arg e) in Ht.
    apply Bool.negb_true_iff, memb_false in Ha2. apply Ha2, Hi. apply in_ext_of.
    split; [now apply in_ids_n|exact Ht].
  - intros Hni. destruct (forallb (fun a => memb a B) (ext_of e n v)) eqn:E.
    + exfalso. apply Hni. intros a Ha. rewrite forallb_forall in E. now apply memb_spec, E.
    + apply forallb_false_exists in E. destruct E as [a [Ha Hm]]. apply in_ext_of in Ha.
      exists (arg_to_lit e a). split.
      * apply in_map. apply filter_In. split; [now apply in_ids_n|now rewrite Hm].
      * rewrite (vtrue_arg e). tauto.
Qed.

End Split.

(* ------------------------------------------------------------------------------------------ *)
(** * The computer on one encoded component *)

Section Core.
Variable oracle : nat -> cnf -> list lit -> answer.
Hypothesis Hvalid : valid_oracle oracle.
Variable e : enc.
Variable F : af.
Variable n : nat.
Hypothesis HF : compact_af F n.

Notation base := (basep (enc_base e) F).
Notation a2e := (assignment_to_extension n e).

(* the base clause set and the selector *)
Variable C0 : cnf.
Variable selv : nat.
Hypothesis Hsound0 : forall v : val, vmodels v C0 = true -> base (ext_of e n v).
Hypothesis Hcomplete0 : forall S, base S ->
  exists v : val, vmodels v C0 = true /\ forall a, a < n -> (v (arg_var e a) = true <-> In a S).
Hypothesis Hfresh : bounded C0 (selv - 1).
Hypothesis Hselpos : 0 < selv.
Hypothesis Hargs : forall a, a < n -> arg_var e a < selv.
Hypothesis Hbase_adm : forall S, base S -> adm F S.
Hypothesis Hpr_base : forall P, pr F P -> base P.

(* the flavour: which arguments may be used, and the assumptions that say so *)
Variable fl : flavour.
Variable allowedb : nat -> bool.
Definition fl_ok : Prop :=
  match fl with
  | FPref => forall a, allowedb a = true
  | FIdeal forb => forall v : val, forallb (vtrue v) forb = true <->
                                   forall a, a < n -> v (arg_var e a) = true -> allowedb a = true
  | FRange => False
  end.
Hypothesis Hfl : fl_ok.

Definition allowed (S : list nat) : Prop := forall a, In a S -> allowedb a = true.
Definition cand (S : list nat) : Prop := base S /\ allowed S.
Definition maxc (S : list nat) : Prop := cand S /\ forall T, cand T -> incl S T -> incl T S.

Let Hwf : wf F := compact_wf F n HF.

Lemma base_lt S a : base S -> In a S -> a < n.
Proof. intros HS Ha. apply (compact_in_args F n a HF). exact (basep_incl _ F S HS a Ha). Qed.

Lemma a2e_ext_of m : a2e m = ext_of e n (val_of m).
Proof. apply all_a2e. Qed.

(* ---------- blocking clauses ---------- *)
Definition bclause (B : list nat) : clause := out_lits e n B ++ [zlit selv].

Lemma bclause_sat (v : val) B : v selv = false ->
  (vsat_clause v (bclause B) = true <-> ~ incl (ext_of e n v) B).
Proof.
  intros Hs. unfold bclause. rewrite vsat_app, Bool.orb_true_iff, vsat_single.
  rewrite (vtrue_zlit _ _ Hselpos), Hs, out_lits_sat. split; [intros [H|H]; [exact H|discriminate]|tauto].
Qed.

Lemma bclause_sel (v : val) B : v selv = true -> vsat_clause v (bclause B) = true.
Proof.
  intros Hs. unfold bclause. rewrite vsat_app, vsat_single, (vtrue_zlit _ _ Hselpos), Hs.
  apply Bool.orb_true_r.
Qed.

(* the semantic content of an assumption list: selector off, [cur] in, only allowed arguments *)
Definition asm_ok (asm : list lit) (cur : list nat) : Prop :=
  forall v : val, forallb (vtrue v) asm = true <->
    (v selv = false /\ (forall a, In a cur -> a < n -> v (arg_var e a) = true) /\
     forall a, a < n -> v (arg_var e a) = true -> allowedb a = true).

Lemma vtrue_nsel (v : val) : vtrue v (negate (zlit selv)) = negb (v selv).
Proof. change (negate (zlit selv)) with (znlit selv). apply vtrue_znlit. Qed.

Lemma asm_increase cur :
  asm_ok (match fl with
          | FIdeal forb => in_lits e n cur ++ [negate (zlit selv)] ++ forb
          | _ => in_lits e n cur ++ [negate (zlit selv)]
          end ++ []) cur.
Proof.
  intros v. rewrite app_nil_r. unfold fl_ok in Hfl. destruct fl as [| |forb].
  - rewrite forallb_app, Bool.andb_true_iff, in_lits_true. cbn [forallb].
    rewrite Bool.andb_true_r, vtrue_nsel, Bool.negb_true_iff. split.
    + intros [H1 H2]. split; [exact H2|split; [exact H1|]]. intros a _ _. apply Hfl.
    + intros [H1 [H2 _]]. now split.
  - contradiction.
  - rewrite !forallb_app, !Bool.andb_true_iff, in_lits_true. cbn [forallb].
    rewrite Bool.andb_true_r, vtrue_nsel, Bool.negb_true_iff, (Hfl v). tauto.
Qed.

Lemma asm_search : (forall a, allowedb a = true) -> asm_ok ([negate (zlit selv)] ++ []) [].
Proof.
  intros Hall v. cbn [app forallb]. rewrite Bool.andb_true_r, vtrue_nsel, Bool.negb_true_iff.
  split; [intros H; split; [exact H|split; [intros a []|intros a _ _; apply Hall]]|tauto].
Qed.

(* ---------- refinement: what a valid answer means ---------- *)
Lemma sat_refines s Bs asm cur m :
  cls s = C0 ++ map bclause Bs -> asm_ok asm cur -> (forall a, In a cur -> a < n) ->
  answer_of oracle s asm = Sat m ->
  cand (a2e m) /\ incl cur (a2e m) /\ forall B, In B Bs -> ~ incl (a2e m) B.
Proof.
  intros Hc Hasm Hcur Ha.
  destruct (sat_assumptions oracle Hvalid s asm m Ha) as [Has Hm].
  apply Hasm in Has. destruct Has as [Hsel [Hin Hall]].
  rewrite Hc, vmodels_app in Hm. apply andb_prop in Hm. destruct Hm as [Hm0 HmG].
  rewrite a2e_ext_of. split; [split|split].
  - now apply Hsound0.
  - intros a Ha'. apply in_ext_of in Ha'. now apply Hall.
  - intros a Ha'. apply in_ext_of. split; [now apply Hcur|apply Hin; [exact Ha'|now apply Hcur]].
  - intros B HB. apply (bclause_sat _ B Hsel).
    rewrite vmodels_map in HmG. now apply HmG.
Qed.

Lemma unsat_refines s Bs asm cur :
  cls s = C0 ++ map bclause Bs -> asm_ok asm cur ->
  answer_of oracle s asm = Unsat ->
  forall S, cand S -> incl cur S -> exists B, In B Bs /\ incl S B.
Proof.
  intros Hc Hasm Ha S [HS Hal] Hinc.
  destruct (below_some_dec S Bs) as [Hex|Hno]; [exact Hex|exfalso].
  destruct (Hcomplete0 S HS) as [v [Hv Hvs]].
  assert (Hsel : upd v selv false selv = false) by apply upd_same.
  assert (Harg : forall a, a < n -> upd v selv false (arg_var e a) = v (arg_var e a)).
  { intros a Han. apply upd_other. specialize (Hargs a Han). lia. }
  assert (Hext : forall a, In a (ext_of e n (upd v selv false)) <-> In a S).
  { intros a. rewrite in_ext_of. split.
    - intros [Han Ht]. rewrite Harg in Ht by exact Han. now apply Hvs.
    - intros HaS. pose proof (base_lt S a HS HaS) as Han. split; [exact Han|].
      rewrite Harg by exact Han. now apply Hvs. }
  apply (unsat_elim oracle Hvalid s asm (upd v selv false) Ha).
  - rewrite Hc, vmodels_app. apply andb_true_intro. split.
    + rewrite (vmodels_upd v selv false C0 (selv - 1) Hfresh); [exact Hv|lia].
    + apply vmodels_map. intros B HB. apply (bclause_sat _ B Hsel).
      intros Hi. apply (Hno B HB). intros a HaS. apply Hi. now apply Hext.
  - apply Hasm. split; [exact Hsel|split].
    + intros a Hac Han. rewrite Harg by exact Han. apply Hvs; [exact Han|now apply Hinc].
    + intros a Han Ht. rewrite Harg in Ht by exact Han. apply Hal. now apply Hvs.
Qed.


(* ------------------------------------------------------------------------------------------ *)
(** * The state machine of [compute_next] *)

Definition gr0 : list nat := grounded (view_of_af F).
Hypothesis Hgr0 : cand gr0.
Hypothesis Hgr0nd : NoDup gr0.

Lemma a2e_NoDup m : NoDup (a2e m).
Proof. rewrite a2e_ext_of. unfold ext_of. apply NoDup_filter, seq_NoDup. Qed.

Definition kk (cur : list nat) (m : option assignment) (stt : mstate) : computer :=
  {| c_e := e; c_n := n; c_has := fun i => Nat.ltb i n; c_g := view_of_af F;
     c_a2e := assignment_to_extension n e; c_cur := cur; c_model := m; c_state := stt;
     c_sel := zlit selv; c_fl := fl; c_addl := [] |}.

(* ghost state: the blocked sets (one per guarded clause, in order), the sets that have been
   [current] (the grounded start and every satisfiable answer), the maximal sets reached *)
Record ghost := { gBs : list (list nat); gSs : list (list nat); gPs : list (list nat) }.

Definition dead (rel : list nat -> Prop) (Bs : list (list nat)) : Prop :=
  forall B P, In B Bs -> pr F P -> rel P -> ~ incl P B.

Lemma dead_app rel Bs Bs' : dead rel Bs -> dead rel Bs' -> dead rel (Bs ++ Bs').
Proof. intros H1 H2 B P HB. apply in_app_or in HB. destruct HB; [now apply H1|now apply H2]. Qed.
Lemma dead_nil rel : dead rel [].
Proof. intros B P []. Qed.
Lemma dead_weaken (rel rel' : list nat -> Prop) Bs :
  (forall P, rel' P -> rel P) -> dead rel Bs -> dead rel' Bs.
Proof. intros H Hd B P HB HP HR. apply (Hd B P HB HP). now apply H. Qed.

Variable c0 : nat.      (* the call counter when the computer was created *)
Definition pot (g : ghost) (stt : mstate) : nat :=
  length (gSs g) + length (gPs g) + match stt with MNone => 1 | _ => 0 end.
(* every step but the first (which installs the grounded start) costs one SAT call *)
Definition cst (stt : mstate) : nat := match stt with MInit => 0 | _ => 1 end.

Definition kinv (rel : list nat -> Prop) (k : computer) (s : Prog.st) (g : ghost) : Prop :=
  k = kk (c_cur k) (c_model k) (c_state k) /\ NoDup (c_cur k) /\ sess_bounded s /\
  cls s = C0 ++ map bclause (gBs g) /\
  calls s + cst (c_state k) <= c0 + pot g (c_state k) /\
  (forall S, In S (gSs g) -> base S) /\ sepl (gSs g) /\
  (forall P, In P (gPs g) -> maxc P /\ In P (gBs g)) /\ sepl (gPs g) /\
  match c_state k with
  | MInit => gBs g = [] /\ gSs g = [] /\ gPs g = []
  | MIntermediate =>
      cand (c_cur k) /\ (forall B, In B (gBs g) -> ~ incl (c_cur k) B) /\
      (forall S, In S (gSs g) -> In S (gBs g) \/ S = c_cur k) /\ dead rel (gBs g)
  | MMaximal =>
      exists Bs0, gBs g = Bs0 ++ [c_cur k] /\ maxc (c_cur k) /\
                  (forall S, In S (gSs g) -> In S (gBs g)) /\ dead rel Bs0
  | MJustDiscarded => (forall S, In S (gSs g) -> In S (gBs g)) /\ dead rel (gBs g)
  | MNone => dead rel (gBs g) /\ forall S, base S -> exists B, In B (gBs g) /\ incl S B
  end.

Lemma kinv_weaken (rel rel' : list nat -> Prop) k s g :
  (forall P, rel' P -> rel P) -> kinv rel k s g -> kinv rel' k s g.
Proof.
  intros H (H1 & H1' & H1'' & H2 & H3 & H4 & H5 & H6 & H7 & H8). repeat (split; [assumption|]).
  destruct (c_state k).
  - destruct H8 as (Bs0 & Ha & Hb & Hc & Hd). exists Bs0. repeat (split; [assumption|]).
    now apply (dead_weaken rel).
  - destruct H8 as (Ha & Hb & Hc & Hd). repeat (split; [assumption|]). now apply (dead_weaken rel).
  - destruct H8 as (Ha & Hd). split; [assumption|]. now apply (dead_weaken rel).
  - destruct H8 as (Hd & Ha). split; [|assumption]. now apply (dead_weaken rel).
  - exact H8.
Qed.

Definition next_ok (st st' : mstate) : Prop :=
  match st with
  | MInit => st' = MIntermediate
  | MIntermediate => st' = MIntermediate \/ st' = MMaximal
  | MMaximal | MJustDiscarded => st' = MIntermediate \/ st' = MNone
  | MNone => False
  end.

Lemma not_incl_not_seteq (S T : list nat) : ~ incl S T -> ~ seteq S T.
Proof. intros H E. apply H. now apply seteq_incl1. Qed.

Lemma allowed_all S : (forall a, allowedb a = true) -> allowed S.
Proof. intros H a _. apply H. Qed.

Lemma cls_add_block s Bs B :
  cls s = C0 ++ map bclause Bs -> cls (st_add s (bclause B)) = C0 ++ map bclause (Bs ++ [B]).
Proof. intros H. rewrite cls_add, H, map_app, <- app_assoc. reflexivity. Qed.

Section Steps.
Variables QA QP QF : Prog.st -> Prop.
Notation wpx := (wp QA QP QF).

(* new_search on a session whose blocked sets are dead *)
Lemma new_search_spec rel cur m stt s Bs Ss Ps (Q : computer -> Prog.st -> Prop) :
  fl = FPref -> NoDup cur -> sess_bounded s ->
  cls s = C0 ++ map bclause Bs ->
  calls s + 1 <= c0 + length Ss + length Ps ->
  (forall S, In S Ss -> base S) -> sepl Ss ->
  (forall P, In P Ps -> maxc P /\ In P Bs) -> sepl Ps ->
  (forall S, In S Ss -> In S Bs) -> dead rel Bs ->
  (forall s', calls s' <= c0 + length Ss + length Ps -> QA s') ->
  (forall k' s' g', kinv rel k' s' g' ->
      (c_state k' = MIntermediate \/ c_state k' = MNone) ->
      pot g' (c_state k') = length Ss + length Ps + 1 -> Q k' s') ->
  wpx (new_search oracle (kk cur m stt)) Q s.
Proof.
  intros Hfp Hnd Hsb Hc Hcalls HSs HsepS HPs HsepP HSB Hdead HA HQ.
  assert (Hall : forall a, allowedb a = true) by (unfold fl_ok in Hfl; now rewrite Hfp in Hfl).
  unfold new_search, solve_c. cbn [c_sel c_addl kk]. rewrite !wp_bind, wp_solve.
  pose proof (asm_search Hall) as Hasm.
  destruct (answer_of oracle s ([negate (zlit selv)] ++ [])) as [m'| |] eqn:Ha.
  - rewrite !wp_ret. cbn [option_map c_a2e kk].
    destruct (sat_refines s Bs _ [] m' Hc Hasm (fun a (H : In a []) => match H with end) Ha)
      as ([Hb Hal] & _ & Hnb).
    apply (HQ _ _ {| gBs := Bs; gSs := a2e m' :: Ss; gPs := Ps |}).
    + unfold kinv. cbn [with_cur kk c_cur c_model c_state gBs gSs gPs pot length].
      split; [reflexivity|]. split; [first [apply a2e_NoDup|exact Hnd]|]. split; [first [now apply sb_solved|unfold s1; now apply sb_solved, sb_add]|]. split; [now rewrite cls_solved|]. split; [cbn; lia|].
      split; [intros S [<-|HS]; [exact Hb|now apply HSs]|].
      split; [split; [|exact HsepS]; intros T HT; apply not_incl_not_seteq, Hnb, HSB, HT|].
      split; [exact HPs|]. split; [exact HsepP|].
      split; [split; assumption|]. split; [exact Hnb|]. split; [|exact Hdead].
      intros S [<-|HS]; [now right|left; now apply HSB].
    + left. reflexivity.
    + unfold pot. cbn [with_state with_cur kk c_state c_g gSs gPs length]. lia.
  - rewrite !wp_ret. cbn [option_map].
    pose proof (unsat_refines s Bs _ [] Hc Hasm Ha) as Hun.
    apply (HQ _ _ {| gBs := Bs; gSs := Ss; gPs := Ps |}).
    + unfold kinv. cbn [with_state with_cur kk c_cur c_model c_state gBs gSs gPs pot].
      split; [reflexivity|]. split; [first [apply a2e_NoDup|exact Hnd]|]. split; [first [now apply sb_solved|unfold s1; now apply sb_solved, sb_add]|]. split; [now rewrite cls_solved|]. split; [cbn; lia|].
      split; [exact HSs|]. split; [exact HsepS|]. split; [exact HPs|]. split; [exact HsepP|].
      split; [exact Hdead|].
      intros S HS. apply Hun; [split; [exact HS|now apply allowed_all]|intros a []].
    + right. reflexivity.
    + unfold pot. cbn [with_state with_cur kk c_state c_g gSs gPs length]. lia.
  - apply HA. cbn. lia.
Qed.

Lemma compute_next_spec rel k s g (Q : computer -> Prog.st -> Prop) :
  kinv rel k s g ->
  (c_state k = MMaximal \/ c_state k = MJustDiscarded -> fl = FPref) ->
  (c_state k = MMaximal -> dead rel [c_cur k]) ->
  c_state k <> MNone ->
  (forall s', calls s' <= c0 + pot g (c_state k) -> QA s') ->
  (forall k' s' g', kinv rel k' s' g' -> next_ok (c_state k) (c_state k') ->
      pot g' (c_state k') = pot g (c_state k) + 1 -> Q k' s') ->
  wpx (compute_next oracle k) Q s.
Proof.
  intros (Hk & Hnd & Hsb & Hc & Hcalls & HSs & HsepS & HPs & HsepP & Hst) Hfp Hdm Hnn HA HQ.
  destruct g as [Bs Ss Ps]. cbn [gBs gSs gPs] in *.
  rewrite Hk. unfold compute_next. cbn [c_state kk].
  destruct (c_state k) eqn:Est; unfold pot, cst in *; cbn [gSs gPs] in *.
  - (* MMaximal *)
    destruct Hst as (Bs0 & HBs & Hmax & HSB & Hdead).
    specialize (Hfp (or_introl eq_refl)). specialize (Hdm eq_refl).
    assert (Hcur : forall a, In a (c_cur k) -> a < n).
    { intros a Ha. destruct Hmax as [[Hb _] _]. exact (base_lt _ a Hb Ha). }
    unfold discard_maximal. cbn [c_fl kk]. rewrite Hfp. cbn [c_e c_n c_has c_cur c_sel kk].
    rewrite (split_eq e n _ Hcur). cbn [snd]. change (out_lits e n (c_cur k) ++ [zlit selv]) with (bclause (c_cur k)).
    rewrite wp_bind, wp_add_clause.
    apply (new_search_spec rel _ _ _ _ (Bs ++ [c_cur k]) Ss Ps); try assumption.
    + now apply sb_add.
    + now apply cls_add_block.
    + cbn. lia.
    + intros P HP. destruct (HPs P HP) as [H1 H2]. split; [exact H1|apply in_or_app; now left].
    + intros S HS. apply in_or_app. left. now apply HSB.
    + rewrite HBs, <- app_assoc. apply dead_app; [exact Hdead|]. apply dead_app; exact Hdm.
    + intros s' Hs'. apply HA. lia.
    + intros k' s' g' Hi Hn Hp. apply (HQ k' s' g' Hi); [exact Hn|unfold pot in *; lia].
  - (* MIntermediate *)
    destruct Hst as ([Hb Hal] & Hnb & HSB & Hdead).
    assert (Hcur : forall a, In a (c_cur k) -> a < n) by (intros a Ha; exact (base_lt _ a Hb Ha)).
    pose proof (asm_increase (c_cur k)) as Hasm.
    set (s1 := st_add s (bclause (c_cur k))).
    assert (Hc1 : cls s1 = C0 ++ map bclause (Bs ++ [c_cur k])) by now apply cls_add_block.
    assert (Hstep : forall asm, asm_ok (asm ++ []) (c_cur k) ->
              wpx (r <- solve_c oracle (kk (c_cur k) (c_model k) MIntermediate) asm ;;
                   ret match r with
                       | Some (m, e0) => with_cur (kk (c_cur k) (c_model k) MIntermediate) e0 (Some m) MIntermediate
                       | None => with_state (kk (c_cur k) (c_model k) MIntermediate) MMaximal
                       end) Q s1).
    { intros asm Hasm'. unfold solve_c. cbn [c_addl kk]. rewrite !wp_bind, wp_solve.
      destruct (answer_of oracle s1 (asm ++ [])) as [m'| |] eqn:Ha.
      - rewrite !wp_ret. cbn [option_map c_a2e kk].
        destruct (sat_refines s1 _ _ _ m' Hc1 Hasm' Hcur Ha) as ([Hb' Hal'] & Hinc & Hnb').
        apply (HQ _ _ {| gBs := Bs ++ [c_cur k]; gSs := a2e m' :: Ss; gPs := Ps |}).
        + unfold kinv. cbn [with_cur kk c_cur c_model c_state gBs gSs gPs pot length].
          split; [reflexivity|]. split; [first [apply a2e_NoDup|exact Hnd]|]. split; [first [now apply sb_solved|unfold s1; now apply sb_solved, sb_add]|]. split; [now rewrite cls_solved|]. split; [cbn; unfold s1; cbn; lia|].
          split; [intros S [<-|HS]; [exact Hb'|now apply HSs]|].
          split; [split; [|exact HsepS]|].
          { intros T HT. apply not_incl_not_seteq, Hnb'. apply in_or_app.
            destruct (HSB T HT) as [H| ->]; [now left|right; now left]. }
          split; [intros P HP; destruct (HPs P HP) as [H1 H2]; split; [exact H1|apply in_or_app; now left]|].
          split; [exact HsepP|].
          split; [split; assumption|]. split; [exact Hnb'|]. split.
          { intros S [<-|HS]; [now right|left]. apply in_or_app.
            destruct (HSB S HS) as [H| ->]; [now left|right; now left]. }
          apply dead_app; [exact Hdead|].
          intros B P [<-|[]] HP HR HPc.
          assert (H1 : incl (c_cur k) P) by (apply (proj2 HP); [now apply Hbase_adm|exact HPc]).
          assert (H2 : incl (a2e m') P).
          { apply (proj2 HP); [now apply Hbase_adm|]. exact (incl_tran HPc Hinc). }
          apply (Hnb' (c_cur k)); [apply in_or_app; right; now left|]. exact (incl_tran H2 HPc).
        + cbn [with_cur kk c_state]. now left.
        + unfold pot. cbn [with_state with_cur kk c_state c_g gSs gPs length]. lia.
      - rewrite !wp_ret. cbn [option_map].
        pose proof (unsat_refines s1 _ _ _ Hc1 Hasm' Ha) as Hun.
        apply (HQ _ _ {| gBs := Bs ++ [c_cur k]; gSs := Ss; gPs := c_cur k :: Ps |}).
        + unfold kinv. cbn [with_state with_cur kk c_cur c_model c_state gBs gSs gPs pot length].
          assert (Hmax : maxc (c_cur k)).
          { split; [split; assumption|]. intros T HT HcT.
            destruct (Hun T HT HcT) as [B [HB HTB]]. apply in_app_or in HB.
            destruct HB as [HB|[<-|[]]]; [|exact HTB]. exfalso. apply (Hnb B HB). exact (incl_tran HcT HTB). }
          split; [reflexivity|]. split; [first [apply a2e_NoDup|exact Hnd]|]. split; [first [now apply sb_solved|unfold s1; now apply sb_solved, sb_add]|]. split; [now rewrite cls_solved|]. split; [cbn; unfold s1; cbn; lia|].
          split; [exact HSs|]. split; [exact HsepS|].
          split.
          { intros P [<-|HP]; [split; [exact Hmax|apply in_or_app; right; now left]|].
            destruct (HPs P HP) as [H1 H2]. split; [exact H1|apply in_or_app; now left]. }
          split; [split; [|exact HsepP]|].
          { intros T HT. apply not_incl_not_seteq, Hnb. now apply HPs. }
          exists Bs. split; [reflexivity|]. split; [exact Hmax|]. split; [|exact Hdead].
          intros S HS. apply in_or_app. destruct (HSB S HS) as [H| ->]; [now left|right; now left].
        + cbn [with_state with_cur kk c_state]. now right.
        + unfold pot. cbn [with_state with_cur kk c_state c_g gSs gPs length]. lia.
      - apply HA. cbn. unfold s1. cbn. lia. }
    unfold increase_assumptions. cbn [c_fl c_e c_n c_has c_cur c_sel kk].
    unfold fl_ok in Hfl.
    destruct fl as [| |forb] eqn:Efl; [|contradiction|];
      rewrite (split_eq e n _ Hcur); rewrite !wp_bind, wp_add_clause, wp_ret;
      change (out_lits e n (c_cur k) ++ [zlit selv]) with (bclause (c_cur k)); fold s1;
      apply Hstep; exact Hasm.
  - (* MJustDiscarded *)
    destruct Hst as (HSB & Hdead). specialize (Hfp (or_intror eq_refl)).
    apply (new_search_spec rel _ _ _ _ Bs Ss Ps); try assumption.
    + cbn in Hcalls. lia.
    + intros s' Hs'. apply HA. lia.
    + intros k' s' g' Hi Hn Hp. apply (HQ k' s' g' Hi); [exact Hn|unfold pot in *; lia].
  - congruence.
  - (* MInit *)
    destruct Hst as (-> & -> & ->). rewrite wp_ret.
    apply (HQ _ _ {| gBs := []; gSs := [gr0]; gPs := [] |}).
    + unfold kinv. cbn [with_cur kk c_cur c_model c_state gBs gSs gPs pot length c_g].
      split; [reflexivity|]. split; [exact Hgr0nd|]. split; [exact Hsb|]. split; [exact Hc|]. split; [cbn in Hcalls |- *; lia|].
      split; [intros S [<-|[]]; exact (proj1 Hgr0)|]. split; [split; [intros T []|exact I]|].
      split; [intros P []|]. split; [exact I|].
      split; [exact Hgr0|]. split; [intros B []|]. split; [|apply dead_nil].
      intros S [<-|[]]. now right.
    + cbn [with_cur kk c_state c_g]. reflexivity.
    + unfold pot. cbn [with_state with_cur kk c_state c_g gSs gPs length]. lia.
Qed.

(* discard_current_search on an intermediate set below which no relevant extension lies *)
Lemma discard_current_spec rel k s g (Q : computer -> Prog.st -> Prop) :
  kinv rel k s g -> c_state k = MIntermediate -> fl = FPref -> dead rel [c_cur k] ->
  (forall k' s' g', kinv rel k' s' g' -> c_state k' = MJustDiscarded -> c_cur k' = c_cur k ->
      pot g' MJustDiscarded = pot g MIntermediate -> Q k' s') ->
  wpx (discard_current_search k) Q s.
Proof.
  intros (Hk & Hnd & Hsb & Hc & Hcalls & HSs & HsepS & HPs & HsepP & Hst) Est Hfp Hdm HQ.
  destruct g as [Bs Ss Ps]. cbn [gBs gSs gPs] in *. rewrite Est in *.
  destruct Hst as ([Hb Hal] & Hnb & HSB & Hdead).
  assert (Hcur : forall a, In a (c_cur k) -> a < n) by (intros a Ha; exact (base_lt _ a Hb Ha)).
  rewrite Hk. unfold discard_current_search, discard_current. cbn [c_fl kk]. rewrite Hfp.
  cbn [c_e c_n c_has c_cur c_sel kk]. rewrite (split_eq e n _ Hcur). cbn [snd].
  change (out_lits e n (c_cur k) ++ [zlit selv]) with (bclause (c_cur k)).
  rewrite wp_bind, wp_add_clause, wp_ret.
  apply (HQ _ _ {| gBs := Bs ++ [c_cur k]; gSs := Ss; gPs := Ps |}).
  - unfold kinv. cbn [with_state with_cur kk c_cur c_model c_state gBs gSs gPs pot].
    split; [reflexivity|]. split; [exact Hnd|]. split; [now apply sb_add|]. split; [now apply cls_add_block|]. split; [cbn in *; lia|].
    split; [exact HSs|]. split; [exact HsepS|].
    split; [intros P HP; destruct (HPs P HP) as [H1 H2]; split; [exact H1|apply in_or_app; now left]|].
    split; [exact HsepP|]. split.
    + intros S HS. apply in_or_app. destruct (HSB S HS) as [H| ->]; [now left|right; now left].
    + apply dead_app; assumption.
  - reflexivity.
  - reflexivity.
  - reflexivity.
Qed.

End Steps.

(* the potential is bounded by the number of candidate sets *)
Lemma pot_bound rel k s g :
  kinv rel k s g ->
  length (gSs g) <= length (all_base (enc_base e) F) /\
  (forall P, In P (gPs g) -> maxc P) /\ sepl (gPs g).
Proof.
  intros (Hk & Hnd & Hsb & Hc & Hcalls & HSs & HsepS & HPs & HsepP & Hst). split; [|split].
  - now apply sepl_base_le.
  - intros P HP. now apply HPs.
  - exact HsepP.
Qed.

Lemma kinv_max rel k s g : kinv rel k s g -> c_state k = MMaximal ->
  maxc (c_cur k) /\ NoDup (c_cur k).
Proof.
  intros (Hk & Hnd & Hsb & Hc & Hcalls & HSs & HsepS & HPs & HsepP & Hst) Est. rewrite Est in Hst.
  destruct Hst as (Bs0 & _ & Hmax & _). now split.
Qed.

Lemma maxc_base P : maxc P -> base P.
Proof. intros [[H _] _]. exact H. Qed.

(* with every argument allowed, the maximal candidates are the preferred extensions *)
Lemma maxc_pr P : (forall a, allowedb a = true) -> maxc P -> pr F P.
Proof.
  intros Hall [[Hb _] Hmax]. split; [now apply Hbase_adm|].
  intros S HS HPS. destruct (adm_extends_pr F S Hwf HS) as [P' [HP' HSP']].
  assert (incl P' P).
  { apply Hmax; [split; [now apply Hpr_base|now apply allowed_all]|]. exact (incl_tran HPS HSP'). }
  exact (incl_tran HSP' H).
Qed.


(* ------------------------------------------------------------------------------------------ *)
(** * The loops: compute_maximal, the preferred counter-example loop *)

Section Loops.
Variable Bnd : nat.               (* bound on the number of SAT calls *)
Variable FuelShort : Prop.        (* "the fuel given at the start was below what the bound asks for" *)
Hypothesis HBnd : forall Ss Ps,
  (forall S, In S Ss -> base S) -> sepl Ss -> (forall P, In P Ps -> maxc P) -> sepl Ps ->
  length Ss + length Ps + 1 <= Bnd.

Definition QAb (s' : Prog.st) : Prop := calls s' + 1 <= c0 + Bnd.
Definition QPb (s' : Prog.st) : Prop := False.
Definition QFb (s' : Prog.st) : Prop := calls s' + 1 <= c0 + Bnd /\ FuelShort.
Notation wpb := (wp QAb QPb QFb).

Lemma pot_le rel k s g : kinv rel k s g ->
  pot g (c_state k) <= Bnd /\ (c_state k <> MNone -> pot g (c_state k) + 1 <= Bnd) /\
  calls s + 1 <= c0 + Bnd.
Proof.
  intros (Hk & Hnd & Hsb & Hc & Hcalls & HSs & HsepS & HPs & HsepP & Hst).
  assert (H : length (gSs g) + length (gPs g) + 1 <= Bnd).
  { apply HBnd; try assumption. intros P HP. now apply HPs. }
  unfold pot, cst in *. destruct (c_state k); repeat split; try lia; intros Hn; try lia; congruence.
Qed.

Lemma compute_maximal_spec rel fuel : forall k s g (Q : list nat -> Prog.st -> Prop),
  kinv rel k s g ->
  (c_state k = MInit \/ c_state k = MIntermediate \/ c_state k = MMaximal) ->
  (Bnd <= fuel + pot g (c_state k) \/ FuelShort) ->
  (forall k' s' g', kinv rel k' s' g' -> c_state k' = MMaximal ->
     Q (c_cur k') (st_add s' [zlit selv])) ->
  wpb (compute_maximal oracle fuel k) Q s.
Proof.
  induction fuel as [|f IH]; intros k s g Q Hi Hst Hfuel HQ; cbn [compute_maximal].
  - rewrite wp_out_of_fuel. destruct (pot_le rel k s g Hi) as (H1 & H2 & H3). split; [exact H3|].
    destruct Hfuel as [Hfuel|Hfs]; [exfalso|exact Hfs].
    assert (c_state k <> MNone) by (destruct Hst as [H|[H|H]]; rewrite H; discriminate).
    specialize (H2 H). lia.
  - destruct (c_state k) eqn:Est.
    + (* MMaximal: drop and return *)
      unfold drop. destruct Hi as (Hk & Hi'). rewrite Hk at 1. cbn [c_sel kk].
      rewrite wp_bind, wp_add_clause, wp_ret. apply (HQ k s g); [exact (conj Hk Hi')|exact Est].
    + rewrite wp_bind. destruct (pot_le rel k s g Hi) as (H1 & H2 & H3).
      apply (compute_next_spec QAb QPb QFb rel k s g); try assumption; rewrite Est; try discriminate.
      * intros [H|H]; discriminate.
      * intros s' Hs'. unfold QAb. rewrite Est in H2. specialize (H2 ltac:(discriminate)). lia.
      * intros k' s' g' Hi' Hn Hp. apply (IH k' s' g' Q Hi'); [|destruct Hfuel as [Hf|Hf]; [left; lia|now right]|exact HQ].
        cbn [next_ok] in Hn. destruct Hn as [Hn|Hn]; rewrite Hn; tauto.
    + destruct Hst as [H|[H|H]]; discriminate.
    + destruct Hst as [H|[H|H]]; discriminate.
    + rewrite wp_bind. destruct (pot_le rel k s g Hi) as (H1 & H2 & H3).
      apply (compute_next_spec QAb QPb QFb rel k s g); try assumption; rewrite Est; try discriminate.
      * intros [H|H]; discriminate.
      * intros s' Hs'. unfold QAb. rewrite Est in H2. specialize (H2 ltac:(discriminate)). lia.
      * intros k' s' g' Hi' Hn Hp. apply (IH k' s' g' Q Hi'); [|destruct Hfuel as [Hf|Hf]; [left; lia|now right]|exact HQ].
        cbn [next_ok] in Hn. rewrite Hn; tauto.
Qed.

(* ---------- the skeptical counter-example loop of the preferred solver ---------- *)
Section DsLoop.
Variable la : list nat.
Variable shortcut : bool.
Hypothesis Hfp : fl = FPref.

Definition avoids_la (P : list nat) : Prop := meets la P = false.

Definition attacks_all (cur : list nat) : bool :=
  forallb (fun a => existsb (fun b => memb b cur) (attackers F a)) la.

Definition ds_post (r : bool * option (list nat)) : Prop :=
  match r with
  | (true, None) => forall P, pr F P -> meets la P = true
  | (false, Some ce) =>
      base ce /\ NoDup ce /\ meets la ce = false /\
      (pr F ce \/ (shortcut = true /\ attacks_all ce = true))
  | _ => False
  end.

Lemma meets_incl (S T : list nat) : incl S T -> meets la S = true -> meets la T = true.
Proof.
  intros Hi Hm. apply meets_spec in Hm. destruct Hm as [a [Ha HaS]]. apply meets_spec.
  exists a. split; [exact Ha|now apply Hi].
Qed.

Lemma dead_meets cur : adm F cur -> meets la cur = true -> dead avoids_la [cur].
Proof.
  intros Ha Hm B P [<-|[]] HP Hav HPc. unfold avoids_la in Hav.
  assert (incl cur P) by (apply (proj2 HP); assumption).
  rewrite (meets_incl cur P H Hm) in Hav. discriminate.
Qed.

Lemma pr_ds_loop_spec fuel : forall k s g,
  kinv avoids_la k s g ->
  (c_state k = MInit \/ c_state k = MIntermediate \/ c_state k = MMaximal \/ c_state k = MJustDiscarded) ->
  (c_state k = MMaximal -> meets la (c_cur k) = true) ->
  (Bnd <= fuel + pot g (c_state k) \/ FuelShort) ->
  wpb (pr_ds_loop oracle fuel F la shortcut k) (fun r s' => ds_post r /\ calls s' + 1 <= c0 + Bnd) s.
Proof.
  assert (Hall : forall a, allowedb a = true) by (unfold fl_ok in Hfl; now rewrite Hfp in Hfl).
  induction fuel as [|f IH]; intros k s g Hi Hst Hmm Hfuel; cbn [pr_ds_loop].
  - rewrite wp_out_of_fuel. destruct (pot_le _ k s g Hi) as (H1 & H2 & H3). split; [exact H3|].
    destruct Hfuel as [Hfuel|Hfs]; [exfalso|exact Hfs].
    assert (c_state k <> MNone) by (destruct Hst as [H|[H|[H|H]]]; rewrite H; discriminate).
    specialize (H2 H). lia.
  - rewrite wp_bind. destruct (pot_le _ k s g Hi) as (H1 & H2 & H3).
    assert (Hnn : c_state k <> MNone) by (destruct Hst as [H|[H|[H|H]]]; rewrite H; discriminate).
    apply (compute_next_spec QAb QPb QFb avoids_la k s g _ Hi).
    + intros _. exact Hfp.
    + intros Hmx. apply dead_meets; [|now apply Hmm].
      destruct Hi as (_ & _ & _ & _ & _ & _ & _ & _ & _ & Hm). rewrite Hmx in Hm.
      destruct Hm as (Bs0 & _ & Hmax & _). apply Hbase_adm. now apply maxc_base.
    + exact Hnn.
    + intros s' Hs'. unfold QAb. specialize (H2 Hnn). lia.
    + intros k' s' g' Hi' Hn Hp.
      assert (Hfuel' : Bnd <= f + pot g' (c_state k') \/ FuelShort)
        by (destruct Hfuel as [Hf|Hf]; [left; lia|now right]).
      assert (Hk' : k' = kk (c_cur k') (c_model k') (c_state k')) by exact (proj1 Hi').
      assert (Hdrop : forall r, ds_post r ->
                wpb (drop k';;; ret r) (fun r s'0 => ds_post r /\ calls s'0 + 1 <= c0 + Bnd) s').
      { intros r Hr. unfold drop. rewrite wp_bind, wp_add_clause, wp_ret. split; [exact Hr|].
        destruct (pot_le _ k' s' g' Hi') as (_ & _ & H3'). cbn. exact H3'. }
      assert (Hnx : c_state k' = MIntermediate \/ c_state k' = MMaximal \/ c_state k' = MNone).
      { destruct (c_state k); cbn [next_ok] in Hn; tauto. }
      destruct (c_state k') eqn:Est'.
      * (* MMaximal *)
        destruct (meets la (c_cur k')) eqn:Hmeet; cbn [negb].
        -- apply (IH k' s' g' Hi'); rewrite Est'; try tauto.
        -- apply Hdrop. cbn [ds_post].
           destruct Hi' as (_ & Hnd' & _ & _ & _ & _ & _ & _ & _ & Hm). rewrite Est' in Hm.
           destruct Hm as (Bs0 & _ & Hmax & _). split; [now apply maxc_base|]. split; [exact Hnd'|].
           split; [exact Hmeet|]. left. now apply maxc_pr.
      * (* MIntermediate *)
        pose proof Hi' as (_ & Hnd' & _ & _ & _ & _ & _ & _ & _ & Hm). rewrite Est' in Hm.
        destruct Hm as ([Hb' _] & _).
        destruct (meets la (c_cur k')) eqn:Hmeet.
        -- rewrite wp_bind.
           apply (discard_current_spec QAb QPb QFb avoids_la k' s' g' _ Hi' Est' Hfp).
           ++ apply dead_meets; [now apply Hbase_adm|exact Hmeet].
           ++ intros k2 s2 g2 Hi2 Est2 Hcur2 Hp2. apply (IH k2 s2 g2 Hi2); rewrite Est2; try tauto.
              ** discriminate.
              ** destruct Hfuel' as [Hf|Hf]; [left; lia|now right].
        -- fold (attacks_all (c_cur k')).
           destruct (shortcut && attacks_all (c_cur k')) eqn:Esc.
           ++ apply Hdrop. cbn [ds_post]. split; [exact Hb'|]. split; [exact Hnd'|].
              split; [exact Hmeet|]. right. now apply andb_prop in Esc.
           ++ apply (IH k' s' g' Hi'); rewrite Est'; try tauto. discriminate.
      * destruct Hnx as [H|[H|H]]; discriminate.
      * (* MNone *)
        apply Hdrop. cbn [ds_post]. intros P HP.
        destruct (meets la P) eqn:HmP; [reflexivity|exfalso].
        destruct Hi' as (_ & _ & _ & _ & _ & _ & _ & _ & _ & Hm). rewrite Est' in Hm.
        destruct Hm as (Hdead & Hcov). destruct (Hcov P (Hpr_base P HP)) as [B [HB HPB]].
        exact (Hdead B P HB HP HmP HPB).
      * destruct Hnx as [H|[H|H]]; discriminate.
Qed.

End DsLoop.
(* ---------- the enumeration of the preferred extensions used by the ideal solver ---------- *)
Section EnumLoop.
Hypothesis Hfp : fl = FPref.
Variable ngr : nat.

Definition inall_ok (found : list (list nat)) (in_all : list bool) : Prop :=
  length in_all = n /\
  forall a, a < n -> (nth_bool in_all a = true <-> forall Q, In Q found -> In a Q).
Definition rel_found (found : list (list nat)) (P : list nat) : Prop :=
  forall Q, In Q found -> ~ seteq P Q.
Definition enum_inv (found : list (list nat)) (in_all : list bool) (n_in_all n_pref : nat) : Prop :=
  inall_ok found in_all /\ n_pref = length found /\ (forall Q, In Q found -> pr F Q) /\
  (found <> [] -> n_in_all = length (id_single in_all)).
Definition enum_post (found : list (list nat)) (r : list bool * nat * nat) : Prop :=
  enum_inv found (fst (fst r)) (snd (fst r)) (snd r) /\
  ((found <> [] /\ snd (fst r) = ngr) \/
   forall P, pr F P -> exists Q, In Q found /\ seteq P Q).

Lemma nth_bool_map_seq (f : nat -> bool) a : a < n -> nth_bool (map f (seq 0 n)) a = f a.
Proof.
  intros Ha. unfold nth_bool.
  rewrite (nth_indep (map f (seq 0 n)) false (f 0)) by (now rewrite map_length, seq_length).
  rewrite map_nth, seq_nth by exact Ha. reflexivity.
Qed.

Lemma dead_seen found cur : adm F cur -> In cur found -> dead (rel_found found) [cur].
Proof.
  intros Ha Hin B P [<-|[]] HP HR HPc. apply (HR cur Hin).
  apply seteq_incl_both; [exact HPc|]. apply (proj2 HP); assumption.
Qed.

Lemma same_set_length (l l' : list nat) :
  NoDup l -> NoDup l' -> (forall a, In a l <-> In a l') -> length l = length l'.
Proof.
  intros H1 H2 H. apply Nat.le_antisymm; apply NoDup_incl_length; try assumption;
    intros a Ha; now apply H.
Qed.

Lemma enum_step found in_all cur :
  inall_ok found in_all -> pr F cur -> NoDup cur ->
  let kept := filter (fun a => nth_bool in_all a) cur in
  let new_in_all := map (fun i => memb i kept) (seq 0 n) in
  inall_ok (cur :: found) new_in_all /\ length kept = length (id_single new_in_all).
Proof.
  intros [Hlen Hin] Hpr Hnd kept nia.
  assert (Hlt : forall a, In a cur -> a < n).
  { intros a Ha. apply (compact_in_args F n a HF). exact (proj1 (pr_adm F cur Hpr) a Ha). }
  assert (Hk : forall a, In a kept <-> In a cur /\ nth_bool in_all a = true)
    by (intros a; unfold kept; now rewrite filter_In).
  assert (Hn : forall a, a < n -> nth_bool nia a = memb a kept)
    by (intros a Ha; unfold nia; now rewrite nth_bool_map_seq).
  split; [split|].
  - unfold nia. now rewrite map_length, seq_length.
  - intros a Ha. rewrite (Hn a Ha), memb_spec, Hk, (Hin a Ha). split.
    + intros [H1 H2] Q [<-|HQ]; [exact H1|now apply H2].
    + intros H. split; [apply H; now left|]. intros Q HQ. apply H. now right.
  - apply same_set_length.
    + unfold kept. now apply NoDup_filter.
    + unfold id_single. apply NoDup_filter, seq_NoDup.
    + intros a. unfold id_single. rewrite filter_In, in_seq.
      replace (length nia) with n by (unfold nia; now rewrite map_length, seq_length). split.
      * intros Ha. assert (a < n) by (apply Hlt; now apply Hk). split; [lia|].
        rewrite Hn by assumption. now apply memb_spec.
      * intros [Ha1 Ha2]. rewrite Hn in Ha2 by lia. now apply memb_spec.
Qed.

Lemma seen_dec found P :
  {exists Q, In Q found /\ seteq P Q} + {rel_found found P}.
Proof.
  destruct (existsb (seteqb P) found) eqn:E.
  - left. apply existsb_exists in E. destruct E as [Q [HQ HE]]. exists Q. split; [exact HQ|].
    now apply seteqb_seteq.
  - right. intros Q HQ HE. apply seteqb_seteq in HE.
    assert (existsb (seteqb P) found = true) by (apply existsb_exists; now exists Q). congruence.
Qed.

Lemma id_enum_loop_spec fuel : forall k s g found in_all n_in_all n_pref
    (Q : list bool * nat * nat -> Prog.st -> Prop),
  kinv (rel_found found) k s g ->
  (c_state k = MInit \/ c_state k = MIntermediate \/ c_state k = MMaximal \/ c_state k = MJustDiscarded) ->
  (c_state k = MMaximal -> In (c_cur k) found) ->
  enum_inv found in_all n_in_all n_pref ->
  (Bnd <= fuel + pot g (c_state k) \/ FuelShort) ->
  (forall k' s' g' found' r, kinv (rel_found found') k' s' g' -> enum_post found' r ->
     Q r (st_add s' [zlit selv])) ->
  wpb (id_enum_loop oracle fuel n ngr k in_all n_in_all n_pref) Q s.
Proof.
  assert (Hall : forall a, allowedb a = true) by (unfold fl_ok in Hfl; now rewrite Hfp in Hfl).
  induction fuel as [|f IH]; intros k s g found in_all n_in_all n_pref Q Hi Hst Hmm Hinv Hfuel HQ;
    cbn [id_enum_loop].
  - rewrite wp_out_of_fuel. destruct (pot_le _ k s g Hi) as (H1 & H2 & H3). split; [exact H3|].
    destruct Hfuel as [Hfuel|Hfs]; [exfalso|exact Hfs].
    assert (c_state k <> MNone) by (destruct Hst as [H|[H|[H|H]]]; rewrite H; discriminate).
    specialize (H2 H). lia.
  - rewrite wp_bind. destruct (pot_le _ k s g Hi) as (H1 & H2 & H3).
    assert (Hnn : c_state k <> MNone) by (destruct Hst as [H|[H|[H|H]]]; rewrite H; discriminate).
    apply (compute_next_spec QAb QPb QFb (rel_found found) k s g _ Hi).
    + intros _. exact Hfp.
    + intros Hmx. apply dead_seen; [|now apply Hmm].
      destruct (kinv_max _ _ _ _ Hi Hmx) as [Hmax _]. apply Hbase_adm. now apply maxc_base.
    + exact Hnn.
    + intros s' Hs'. unfold QAb. specialize (H2 Hnn). lia.
    + intros k' s' g' Hi' Hn Hp.
      assert (Hfuel' : Bnd <= f + pot g' (c_state k') \/ FuelShort)
        by (destruct Hfuel as [Hf|Hf]; [left; lia|now right]).
      assert (Hk' : k' = kk (c_cur k') (c_model k') (c_state k')) by exact (proj1 Hi').
      assert (Hdrop : forall found' r, kinv (rel_found found') k' s' g' -> enum_post found' r ->
                wpb (drop k';;; ret r) Q s').
      { intros found' r Hi'' Hr. unfold drop. rewrite Hk' at 1. cbn [c_sel kk].
        rewrite wp_bind, wp_add_clause, wp_ret. now apply (HQ k' s' g' found' r). }
      assert (Hnx : c_state k' = MIntermediate \/ c_state k' = MMaximal \/ c_state k' = MNone).
      { destruct (c_state k); cbn [next_ok] in Hn; tauto. }
      destruct (c_state k') eqn:Est'.
      * (* MMaximal: one more preferred extension *)
        destruct (kinv_max _ _ _ _ Hi' Est') as [Hmax Hnd'].
        assert (Hpr : pr F (c_cur k')) by now apply maxc_pr.
        destruct Hinv as (Hok & Hnp & Hfpr & Hcnt).
        destruct (enum_step found in_all (c_cur k') Hok Hpr Hnd') as [Hok' Hlen'].
        cbv zeta in Hok', Hlen'.
        set (kept := filter (fun a => nth_bool in_all a) (c_cur k')) in *.
        set (nia := map (fun i => memb i kept) (seq 0 n)) in *.
        assert (Hi2 : kinv (rel_found (c_cur k' :: found)) k' s' g').
        { apply (kinv_weaken (rel_found found)); [|exact Hi']. intros P HP Q0 HQ0. apply HP. now right. }
        assert (Hinv' : enum_inv (c_cur k' :: found) nia (length kept) (S n_pref)).
        { split; [exact Hok'|]. split; [cbn; now rewrite Hnp|]. split.
          - intros Q0 [<-|HQ0]; [exact Hpr|now apply Hfpr].
          - intros _. exact Hlen'. }
        destruct (Nat.eqb (length kept) ngr) eqn:Eex.
        -- apply (Hdrop (c_cur k' :: found)); [exact Hi2|]. split; [exact Hinv'|]. left.
           split; [discriminate|]. cbn [fst snd]. now apply Nat.eqb_eq.
        -- apply (IH k' s' g' (c_cur k' :: found) nia (length kept) (S n_pref) Q Hi2);
             rewrite ?Est'; try tauto.
           intros _. now left.
      * (* MIntermediate *)
        apply (IH k' s' g' found in_all n_in_all n_pref Q Hi'); rewrite ?Est'; try tauto. discriminate.
      * destruct Hnx as [H|[H|H]]; discriminate.
      * (* MNone: every preferred extension has been seen *)
        apply (Hdrop found); [exact Hi'|]. split; [exact Hinv|]. right. intros P HP.
        destruct (seen_dec found P) as [Hs|Hr]; [exact Hs|exfalso].
        destruct Hi' as (_ & _ & _ & _ & _ & _ & _ & _ & _ & Hm). rewrite Est' in Hm.
        destruct Hm as (Hdead & Hcov). destruct (Hcov P (Hpr_base P HP)) as [B [HB HPB]].
        exact (Hdead B P HB HP Hr HPB).
      * destruct Hnx as [H|[H|H]]; discriminate.
Qed.

End EnumLoop.
End Loops.

End Core.
