(* Set-level view of the store operations, as needed by the clause-set invariant of the dynamic
   encoder (Proofs/DynInv.v): the attackers / targets of an argument as SETS, and how every store
   operation changes the attack relation.  Derived from the store invariant and the refinement to
   the set-level specification (Proofs/StoreProofs.v). *)
From Crusta Require Import Model.Dynamic Proofs.StoreBase Proofs.StoreProofs Proofs.DynDefs Proofs.DynBase
  Proofs.DynProofs.
From Coq Require Import Lia ZifyBool.

Section DynStore.
Variable L : Type.
Variable leqb : L -> L -> bool.
Hypothesis leqb_spec : forall x y, leqb x y = true <-> x = y.

Notation fw := (fw L).
Notation Inv := (Inv L).
Notation get_argument := (get_argument L leqb).
Notation iter_attacks := (iter_attacks L).
Notation has := (has_argument_with_id L).

(* the attackers of an argument, read through the index vector, are the attacks with that target *)
Lemma iter_to_spec (f : fw) a p : Inv f ->
  (In p (iter_attacks_to L f a) <-> In p (iter_attacks f) /\ snd p = a).
Proof.
  intros Hinv. unfold iter_attacks_to, Store.iter_attacks. rewrite In_fs_map_nth, In_fs_nth. split.
  - intros (k & Hk & Hp). split; [exists k; exact Hp|]. exact (proj2 (inv_to L f Hinv a k Hk) p Hp).
  - intros ((k & Hp) & Hs). destruct p as [x y]. cbn [snd] in Hs. subst y.
    exists k. split; [exact (proj2 (proj2 (proj2 (inv_live L f Hinv k x a Hp))))|exact Hp].
Qed.
Lemma iter_from_spec (f : fw) a p : Inv f ->
  (In p (iter_attacks_from L f a) <-> In p (iter_attacks f) /\ fst p = a).
Proof.
  intros Hinv. unfold iter_attacks_from, Store.iter_attacks. rewrite In_fs_map_nth, In_fs_nth. split.
  - intros (k & Hk & Hp). split; [exists k; exact Hp|]. exact (proj2 (inv_from L f Hinv a k Hk) p Hp).
  - intros ((k & Hp) & Hs). destruct p as [x y]. cbn [fst] in Hs. subst x.
    exists k. split; [exact (proj1 (proj2 (proj2 (inv_live L f Hinv k a y Hp))))|exact Hp].
Qed.

Lemma attackers_spec (f : fw) a b : Inv f ->
  (In b (map fst (iter_attacks_to L f a)) <-> In (b, a) (iter_attacks f)).
Proof.
  intros Hinv. rewrite in_map_iff. split.
  - intros ([x y] & <- & Hin). apply (iter_to_spec f a _ Hinv) in Hin. cbn [fst snd] in *.
    destruct Hin as [Hin ->]. exact Hin.
  - intros Hin. exists (b, a). split; [reflexivity|]. apply (iter_to_spec f a _ Hinv). auto.
Qed.
Lemma targets_spec (f : fw) a b : Inv f ->
  (In b (map snd (iter_attacks_from L f a)) <-> In (a, b) (iter_attacks f)).
Proof.
  intros Hinv. rewrite in_map_iff. split.
  - intros ([x y] & <- & Hin). apply (iter_from_spec f a _ Hinv) in Hin. cbn [fst snd] in *.
    destruct Hin as [Hin ->]. exact Hin.
  - intros Hin. exists (a, b). split; [reflexivity|]. apply (iter_from_spec f a _ Hinv). auto.
Qed.

Lemma attack_live (f : fw) a b : Inv f -> In (a, b) (iter_attacks f) -> has f a = true /\ has f b = true.
Proof.
  intros Hinv Hin. apply In_fs_nth in Hin. destruct Hin as (k & Hk).
  destruct (inv_live L f Hinv k a b Hk) as (Ha & Hb & _). split; apply (has_arg_nth L); assumption.
Qed.

Lemma has_live_ids (f : fw) a : Inv f -> (has f a = true <-> In a (live_ids L f)).
Proof.
  intros Hinv. rewrite (has_arg_nth L). unfold live_ids, iter_args, ls_iter. apply (live_ids_spec L f a Hinv).
Qed.

Lemma has_lt (f : fw) a : has f a = true -> a < length (slots (ls f)).
Proof.
  intros H. apply (has_arg_nth L) in H.
  destruct (Nat.lt_ge_cases a (length (slots (ls f)))) as [Hlt|Hge]; [exact Hlt|].
  rewrite nth_overflow in H by exact Hge. congruence.
Qed.

(* ---------------------------------------------------------------- new_argument (fresh label) *)
Lemma new_argument_attacks (f : fw) l : iter_attacks (Store.new_argument L leqb f l) = iter_attacks f.
Proof. unfold Store.new_argument, Store.iter_attacks. destruct (Nat.ltb _ _); reflexivity. Qed.

Lemma new_argument_has (f : fw) l id : get_argument f l = None ->
  (has (Store.new_argument L leqb f l) id = true <-> id = length (slots (ls f)) \/ has f id = true).
Proof.
  intros Hg. destruct (new_argument_fresh_slots L leqb f l Hg) as [Hs _].
  rewrite !(has_arg_nth L), Hs.
  destruct (Nat.lt_trichotomy id (length (slots (ls f)))) as [Hlt|[->|Hgt]].
  - rewrite app_nth1 by exact Hlt. split; [auto|]. intros [->|H]; [lia|exact H].
  - rewrite app_nth2, Nat.sub_diag by lia. cbn [nth]. split; [auto|]. intros _. discriminate.
  - rewrite nth_overflow by (rewrite app_length; cbn [length]; lia).
    split; [congruence|]. intros [->|H]; [lia|]. rewrite nth_overflow in H by lia. congruence.
Qed.

(* ---------------------------------------------------------------- remove_argument *)
Lemma remove_argument_attacks (f f' : fw) l id : Inv f ->
  get_argument f l = Some id -> Store.remove_argument L leqb f l = (f', ROk) ->
  iter_attacks f' = filter (fun p => negb (Nat.eqb (fst p) id) && negb (Nat.eqb (snd p) id)) (iter_attacks f).
Proof.
  intros Hinv Hg Hr. pose proof (step_ok L leqb leqb_spec f (OpRemArg l) Hinv) as (_ & _ & Habs & _).
  cbn [Store.step] in Habs. rewrite Hr in Habs. cbn [fst Store.s_step] in Habs.
  unfold Store.get_argument in Hg. rewrite (find_label_sfind L leqb f l Hinv) in Hg.
  rewrite Hg in Habs. cbn [fst] in Habs.
  apply (f_equal (@rel L)) in Habs. cbn [rel Store.abs] in Habs. exact Habs.
Qed.

Lemma remove_argument_has (f f' : fw) l id :
  get_argument f l = Some id -> Store.remove_argument L leqb f l = (f', ROk) ->
  forall a, has f' a = true <-> a <> id /\ has f a = true.
Proof.
  intros Hg Hr a. pose proof (remove_argument_slots L leqb f f' l id Hg Hr) as Hs.
  rewrite !(has_arg_nth L), Hs. destruct (Nat.eq_dec a id) as [->|Hne].
  - destruct (Nat.lt_ge_cases id (length (slots (ls f)))) as [Hlt|Hge].
    + rewrite nth_set_nth_eq by exact Hlt. split; [congruence|tauto].
    + rewrite nth_overflow by (rewrite length_set_nth; exact Hge). split; [congruence|tauto].
  - rewrite nth_set_nth_neq by congruence. tauto.
Qed.

(* ---------------------------------------------------------------- new_attack / remove_attack *)
Lemma in_rel_has (s : sstore L) p : s_has_att L s p = true -> In p (rel s).
Proof.
  unfold s_has_att. rewrite existsb_exists. intros (q & Hq & He).
  apply (pair_eqb_eq p q) in He. subst q. exact Hq.
Qed.

Lemma new_attack_attacks (f f' : fw) la lb : Inv f ->
  Store.new_attack L leqb f la lb = (f', ROk) ->
  exists x y, get_argument f la = Some x /\ get_argument f lb = Some y /\
    forall p, In p (iter_attacks f') <-> In p (iter_attacks f) \/ p = (x, y).
Proof.
  intros Hinv Hr. pose proof (step_ok L leqb leqb_spec f (OpNewAtt la lb) Hinv) as (_ & Hres & Habs & _).
  cbn [Store.step] in Habs, Hres. rewrite Hr in Habs, Hres. cbn [fst snd Store.s_step] in Habs, Hres.
  unfold Store.get_argument. rewrite !(find_label_sfind L leqb f _ Hinv).
  destruct (s_find L leqb (abs L f) la) as [x|]; [|discriminate Hres].
  destruct (s_find L leqb (abs L f) lb) as [y|]; [|discriminate Hres].
  exists x, y. split; [reflexivity|]. split; [reflexivity|].
  destruct (s_has_att L (abs L f) (x, y)) eqn:Eh; cbn [fst] in Habs;
    apply (f_equal (@rel L)) in Habs; cbn [rel Store.abs] in Habs; intros p; rewrite Habs.
  - apply in_rel_has in Eh. cbn [rel Store.abs] in Eh. split; [auto|]. intros [H| ->]; assumption.
  - rewrite in_app_iff. cbn [In]. split; [intros [H|[<-|[]]]; auto|intros [H| ->]; auto].
Qed.

Lemma remove_attack_attacks (f f' : fw) la lb : Inv f ->
  Store.remove_attack L leqb f la lb = (f', ROk) ->
  exists x y, get_argument f la = Some x /\ get_argument f lb = Some y /\
    forall p, In p (iter_attacks f') <-> In p (iter_attacks f) /\ p <> (x, y).
Proof.
  intros Hinv Hr. pose proof (step_ok L leqb leqb_spec f (OpRemAtt la lb) Hinv) as (_ & Hres & Habs & _).
  cbn [Store.step] in Habs, Hres. rewrite Hr in Habs, Hres. cbn [fst snd Store.s_step] in Habs, Hres.
  unfold Store.get_argument. rewrite !(find_label_sfind L leqb f _ Hinv).
  destruct (s_find L leqb (abs L f) la) as [x|]; [|discriminate Hres].
  destruct (s_find L leqb (abs L f) lb) as [y|]; [|discriminate Hres].
  exists x, y. split; [reflexivity|]. split; [reflexivity|].
  destruct (s_has_att L (abs L f) (x, y)) eqn:Eh; cbn [fst snd] in Habs, Hres; [|discriminate Hres].
  apply (f_equal (@rel L)) in Habs; cbn [rel Store.abs] in Habs. intros p. rewrite Habs, filter_In.
  split; intros [H1 H2]; (split; [exact H1|]).
  - intros ->. apply negb_true_iff in H2. rewrite (proj2 (pair_eqb_eq (x, y) (x, y)) eq_refl) in H2. discriminate.
  - apply negb_true_iff. destruct (pair_eqb p (x, y)) eqn:E; [|reflexivity].
    apply (pair_eqb_eq p (x, y)) in E. contradiction.
Qed.

(* the label of the target is still found after an attack update (labels are untouched) *)
Lemma new_attack_get (f : fw) la lb l : get_argument (fst (Store.new_attack L leqb f la lb)) l = get_argument f l.
Proof. unfold Store.get_argument. rewrite (new_attack_ls L leqb). reflexivity. Qed.
Lemma remove_attack_get (f : fw) la lb l : get_argument (fst (Store.remove_attack L leqb f la lb)) l = get_argument f l.
Proof. unfold Store.get_argument. rewrite (remove_attack_ls L leqb). reflexivity. Qed.
Lemma new_attack_has (f : fw) la lb a : has (fst (Store.new_attack L leqb f la lb)) a = has f a.
Proof. unfold has_argument_with_id. rewrite (new_attack_ls L leqb). reflexivity. Qed.
Lemma remove_attack_has (f : fw) la lb a : has (fst (Store.remove_attack L leqb f la lb)) a = has f a.
Proof. unfold has_argument_with_id. rewrite (remove_attack_ls L leqb). reflexivity. Qed.

End DynStore.
