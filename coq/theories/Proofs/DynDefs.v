(* Definitions used by the statements of Properties/C08.v and C09.v (no lemma lives here):
   reachable solver states, the framework a solver answers for, the table invariant of the
   dynamic encoder, soundness of cached results. *)
From Crusta Require Export Model.Dynamic.

Section Defs.
Variable L : Type.
Variable leqb : L -> L -> bool.

Notation fw := (fw L).
Notation dsolver := (dsolver L).
Notation dbuf := (dbuf L).
Notation devent := (devent L).

(* what one buffered event does to a framework when it is replayed *)
Definition ev_apply (af : fw) (ev : devent) : fw :=
  match ev with
  | DNewArg _ l => Store.new_argument L leqb af l
  | DRemArg _ l => fst (Store.remove_argument L leqb af l)
  | DNewAtt _ a b => fst (Store.new_attack L leqb af a b)
  | DRemAtt _ a b => fst (Store.remove_attack L leqb af a b)
  | _ => af
  end.
Definition is_update_ev (ev : devent) : bool :=
  match ev with DCred _ _ _ _ | DSkep _ _ _ _ => false | _ => true end.
(* the events not yet replayed on the solver's own framework *)
Definition pending (b : dbuf) : list devent := skipn (b_next L b) (b_buffer L b).

(* the framework the caller has built so far, as the solver sees it at update time: the shadow
   framework of the buffered encoders, the framework itself for the recompute wrapper *)
Definition spec_fw (s : dsolver) : fw :=
  match s_kind L s with KDummy _ => s_af L s | _ => b_shadow L (s_buf L s) end.
(* the solver's own framework, once the pending events are replayed, is the shadow framework *)
Definition synced (s : dsolver) : Prop :=
  match s_kind L s with
  | KDummy _ => True
  | _ => fold_left ev_apply (pending (s_buf L s)) (s_af L s) = b_shadow L (s_buf L s)
  end.

(* states reachable from a fresh solver of kind k by any interleaving of updates (valid, redundant
   or invalid) and queries that returned; [os] is the list of ALL updates requested so far.  The
   SAT side is unconstrained: any oracle, any session state, any fuel, any threshold. *)
Inductive reach (k : dkind) : dsolver -> list (op L) -> Prop :=
| reach_new : forall ps ps' s, dyn_new L leqb k ps = Done s ps' -> reach k s []
| reach_update : forall s os o, reach k s os -> reach k (fst (dyn_update L leqb s o)) (os ++ [o])
| reach_query : forall s os oracle thr fuel q cert l ps ps' s' a,
    reach k s os ->
    dyn_query oracle L leqb thr fuel s q cert l ps = Done (s', a) ps' ->
    reach k s' os.

Definition fresh_fw : fw := fw_new_with_labels L leqb [].

(* ---- the three classes of updates, decided on the set-level specification state *)
Inductive uclass := UValid | URedundant | UInvalid.
Definition classify (s : sstore L) (o : op L) : uclass :=
  match o with
  | OpNewArg l => match s_find L leqb s l with Some _ => URedundant | None => UValid end
  | OpRemArg l => match s_find L leqb s l with Some _ => UValid | None => UInvalid end
  | OpNewAtt a b =>
      match s_find L leqb s a, s_find L leqb s b with
      | Some x, Some y => if s_has_att L s (x, y) then URedundant else UValid
      | _, _ => UInvalid
      end
  | OpRemAtt a b =>
      match s_find L leqb s a, s_find L leqb s b with
      | Some x, Some y => if s_has_att L s (x, y) then UValid else UInvalid
      | _, _ => UInvalid
      end
  end.

(* ---- the variable tables of the standard dynamic encoder *)
Record tables_ok (af : fw) (e : denc) : Prop := {
  t_len_v : length (e_a2v e) = length (slots (ls af));
  t_len_s : length (e_a2s e) = length (slots (ls af));
  (* the variable recorded for an argument is typed as that argument's variable *)
  t_arg : forall id v, tbl_var (e_a2v e) id = Some v -> nth_error (e_vars e) v = Some (VArg id);
  (* its attacker-disjunction variable is the next one (CO, PR) *)
  t_disj : e_sem e <> DST ->
           forall id v, tbl_var (e_a2v e) id = Some v -> nth_error (e_vars e) (S v) = Some (VDisj id);
  (* the current selector of an argument is typed as that argument's selector *)
  t_sel : forall id sv, tbl_var (e_a2s e) id = Some sv -> nth_error (e_vars e) sv = Some (VSel id);
  (* exactly the live arguments have a variable; only live arguments have a selector *)
  t_live : forall id, has_argument_with_id L af id = true <-> tbl_var (e_a2v e) id <> None;
  t_sel_live : forall id, tbl_var (e_a2s e) id <> None -> tbl_var (e_a2v e) id <> None;
  (* the assumptions are exactly the current selectors, each once *)
  t_assum : forall x, In x (e_assum e) <-> exists id sv, tbl_var (e_a2s e) id = Some sv /\ x = zlit sv;
  t_assum_nd : NoDup (e_assum e) }.

(* ---- cached results *)
(* a cached "refused" entry with a stored extension: no refused label names a member of it *)
Definition refused_sound (af : fw) (ev : devent) : Prop :=
  match ev with
  | DSkep _ _ refused (Some ext) | DCred _ _ refused (Some ext) =>
      forall l id, lmem L leqb l refused = true -> get_argument L leqb af l = Some id -> ~ In id ext
  | _ => True
  end.
(* the maximal suffix of computation events (what the cache scans) *)
Fixpoint trailing_rev (rev_buffer : list devent) : list devent :=
  match rev_buffer with
  | ev :: r => if is_update_ev ev then [] else ev :: trailing_rev r
  | [] => []
  end.
Definition trailing (b : dbuf) : list devent := trailing_rev (rev (b_buffer L b)).

End Defs.
