(* Corollaries of SolverTop.run_query_correct for Properties/C11.v and C06.v:
   Part C11: statuses computed by [run_query] are invariant under the presentation of the
             framework (same arguments and attacks: any order, any repetitions; the query list in
             any order, with repetitions), under injective renaming, and under adding / removing
             an unrelated part (with the ST corner);
   Part C06: a sequence of queries threaded through one program state on one solver object:
             every completed answer satisfies its specification, whatever came before. *)
From Crusta Require Import Spec.AF Spec.SemFacts Spec.Theory Spec.Invariance.
From Crusta Require Import Sat.Cnf Sat.Prog Model.Encoders Model.Graph Model.Solvers.
From Crusta Require Import Proofs.ProgLaws Proofs.SolverBasics Proofs.TopBase Proofs.TopMax Proofs.SolverTop.
From Coq Require Import Lia.
Import ListNotations.
Open Scope prog_scope.

(* the status the semantics assigns to an acceptance query *)
Definition sem_status (s : sem) (q : query) (F : af) (al : list nat) : Prop :=
  if qpol q then cred s F al else skep s F al.

Lemma done_status : forall oracle thr g F s q e al fuel cert st0 b c t,
  query_ok oracle thr g F s q e al -> q <> QSE ->
  run_query oracle thr fuel s q cert e g al st0 = Done (OAcc b c) t ->
  (b = true <-> sem_status s q F al).
Proof.
  intros oracle thr g F s q e al fuel cert st0 b c t H Hq E.
  pose proof (run_query_top oracle thr g F s q e al fuel cert st0 H) as R.
  rewrite E in R. destruct R as [R _]. unfold sem_status.
  destruct q; [congruence| |]; cbn [outcome_spec] in R; destruct R as [R _]; exact R.
Qed.

Lemma bool_iff_eq : forall (b1 b2 : bool) (P1 P2 : Prop),
  (b1 = true <-> P1) -> (b2 = true <-> P2) -> (P1 <-> P2) -> b1 = b2.
Proof.
  intros b1 b2 P1 P2 H1 H2 H. assert (Hb : b1 = true <-> b2 = true) by (rewrite H1, H2; exact H).
  destruct b1, b2; try reflexivity; [symmetry; now apply Hb|now apply Hb].
Qed.

(* two completed runs on two presentations whose semantic statuses agree return the same status *)
Lemma status_transfer :
  forall o1 o2 thr1 thr2 g1 g2 F1 F2 s q e1 e2 al1 al2 fuel1 fuel2 cert1 cert2 st1 st2 b1 c1 t1 b2 c2 t2,
  query_ok o1 thr1 g1 F1 s q e1 al1 -> query_ok o2 thr2 g2 F2 s q e2 al2 -> q <> QSE ->
  (sem_status s q F1 al1 <-> sem_status s q F2 al2) ->
  run_query o1 thr1 fuel1 s q cert1 e1 g1 al1 st1 = Done (OAcc b1 c1) t1 ->
  run_query o2 thr2 fuel2 s q cert2 e2 g2 al2 st2 = Done (OAcc b2 c2) t2 ->
  b1 = b2.
Proof.
  intros o1 o2 thr1 thr2 g1 g2 F1 F2 s q e1 e2 al1 al2 fuel1 fuel2 cert1 cert2 st1 st2 b1 c1 t1 b2 c2 t2
         H1 H2 Hq Hsem E1 E2.
  exact (bool_iff_eq b1 b2 _ _ (done_status _ _ _ _ _ _ _ _ _ _ _ _ _ _ H1 Hq E1)
                     (done_status _ _ _ _ _ _ _ _ _ _ _ _ _ _ H2 Hq E2) Hsem).
Qed.

(* ------------------------------------------------------------------------------------------ *)
(** * C11: presentation *)

(* a good view of a framework is a good view of every other presentation of it: [view_good] only
   speaks about membership in the argument list and in the attack list *)
Lemma view_good_equiv : forall g F F', view_good g F -> af_equiv F F' -> wf F' -> view_good g F'.
Proof.
  intros g F F' [H1 H2] [HA HT] Hwf. split.
  - destruct H1 as (N & I1 & Mx & Co & Fr). split; [exact N|]. split; [|split; [|split; [exact Co|]]].
    + intros a. rewrite I1. apply HA.
    + intros a Ha. apply Mx. apply HA. exact Ha.
    + intros a b. rewrite Fr. apply HT.
  - destruct H2 as [W I1 Mx Fr To At]. constructor.
    + exact Hwf.
    + intros a. rewrite I1. apply HA.
    + exact Mx.
    + intros a b. rewrite Fr. apply HT.
    + intros a b. rewrite To. apply HT.
    + intros a b. rewrite At. apply HT.
Qed.

Lemma cred_same_members : forall s F A A', (forall a, In a A <-> In a A') -> (cred s F A <-> cred s F A').
Proof.
  intros s F A A' H. unfold cred. split; intros [S [HS [a [Ha HaS]]]]; exists S; (split; [exact HS|]);
    exists a; (split; [apply H; exact Ha|exact HaS]).
Qed.
Lemma skep_same_members : forall s F A A', (forall a, In a A <-> In a A') -> (skep s F A <-> skep s F A').
Proof.
  intros s F A A' H. unfold skep. split; intros Hs S HS; destruct (Hs S HS) as [a [Ha HaS]];
    exists a; (split; [apply H; exact Ha|exact HaS]).
Qed.

Lemma sem_status_presentation : forall s q F F' al al',
  af_equiv F F' -> (forall a, In a al <-> In a al') ->
  (sem_status s q F al <-> sem_status s q F' al').
Proof.
  intros s q F F' al al' HF Hal. unfold sem_status. destruct (qpol q).
  - rewrite (cred_af_equiv s F F' al HF). apply cred_same_members. exact Hal.
  - rewrite (skep_af_equiv s F F' al HF). apply skep_same_members. exact Hal.
Qed.

Lemma al_ok_presentation : forall s q F F' al al',
  af_equiv F F' -> (forall a, In a al <-> In a al') -> al_ok s q F al -> al_ok s q F' al'.
Proof.
  intros s q F F' al al' [HA _] Hal H. unfold al_ok in *.
  destruct q; [exact I| |]; destruct s; try exact I; intros a Ha; apply HA, H, Hal, Ha.
Qed.

Theorem solver_presentation_invariant :
  forall o1 o2 thr1 thr2 g g' F F' s q e1 e2 al al' fuel1 fuel2 cert1 cert2 st1 st2 b1 c1 t1 b2 c2 t2,
  valid_oracle o1 -> valid_oracle o2 -> 1 <= thr1 -> 1 <= thr2 ->
  view_good g F -> view_good g' F' ->
  af_equiv F F' -> (forall a, In a al <-> In a al') ->
  q <> QSE -> supported s q -> enc_ok s e1 -> enc_ok s e2 -> al_ok s q F al ->
  run_query o1 thr1 fuel1 s q cert1 e1 g al st1 = Done (OAcc b1 c1) t1 ->
  run_query o2 thr2 fuel2 s q cert2 e2 g' al' st2 = Done (OAcc b2 c2) t2 ->
  b1 = b2.
Proof.
  intros o1 o2 thr1 thr2 g g' F F' s q e1 e2 al al' fuel1 fuel2 cert1 cert2 st1 st2 b1 c1 t1 b2 c2 t2
         Hv1 Hv2 Ht1 Ht2 Hg Hg' HF Hal Hq Hs He1 He2 Ha E1 E2.
  apply (status_transfer o1 o2 thr1 thr2 g g' F F' s q e1 e2 al al' fuel1 fuel2 cert1 cert2
           st1 st2 b1 c1 t1 b2 c2 t2); try assumption.
  - unfold query_ok. tauto.
  - pose proof (al_ok_presentation s q F F' al al' HF Hal Ha). unfold query_ok. tauto.
  - apply sem_status_presentation; assumption.
Qed.

(* ------------------------------------------------------------------------------------------ *)
(** * C11: renaming *)

Lemma al_ok_incl : forall s q F al, incl al (args F) -> al_ok s q F al.
Proof. intros s q F al H. unfold al_ok. destruct q; [exact I| |]; destruct s; try exact I; exact H. Qed.

Theorem solver_renaming_invariant :
  forall o1 o2 thr1 thr2 g g' F f s q e1 e2 al fuel1 fuel2 cert1 cert2 st1 st2 b1 c1 t1 b2 c2 t2,
  valid_oracle o1 -> valid_oracle o2 -> 1 <= thr1 -> 1 <= thr2 ->
  view_good g F -> view_good g' (rename f F) ->
  inj_on f (args F) -> incl al (args F) ->
  q <> QSE -> supported s q -> enc_ok s e1 -> enc_ok s e2 ->
  run_query o1 thr1 fuel1 s q cert1 e1 g al st1 = Done (OAcc b1 c1) t1 ->
  run_query o2 thr2 fuel2 s q cert2 e2 g' (map f al) st2 = Done (OAcc b2 c2) t2 ->
  b1 = b2.
Proof.
  intros o1 o2 thr1 thr2 g g' F f s q e1 e2 al fuel1 fuel2 cert1 cert2 st1 st2 b1 c1 t1 b2 c2 t2
         Hv1 Hv2 Ht1 Ht2 Hg Hg' Hinj Hal Hq Hs He1 He2 E1 E2.
  pose proof (vg_wf g F Hg) as Hwf.
  apply (status_transfer o1 o2 thr1 thr2 g g' F (rename f F) s q e1 e2 al (map f al) fuel1 fuel2
           cert1 cert2 st1 st2 b1 c1 t1 b2 c2 t2); try assumption.
  - pose proof (al_ok_incl s q F al Hal). unfold query_ok. tauto.
  - assert (Hal' : incl (map f al) (args (rename f F))).
    { unfold rename. cbn [args]. apply incl_map. exact Hal. }
    pose proof (al_ok_incl s q _ _ Hal'). unfold query_ok. tauto.
  - unfold sem_status. destruct (qpol q); symmetry.
    + exact (cred_rename f F Hwf Hinj s al Hal).
    + exact (skep_rename f F Hwf Hinj s al Hal).
Qed.

(* ------------------------------------------------------------------------------------------ *)
(** * C11: locality *)

Theorem solver_locality :
  forall o1 o2 thr1 thr2 g g' F G s q e1 e2 al fuel1 fuel2 cert1 cert2 st1 st2 b1 c1 t1 b2 c2 t2,
  valid_oracle o1 -> valid_oracle o2 -> 1 <= thr1 -> 1 <= thr2 ->
  view_good g F -> view_good g' (disjoint_union F G) ->
  wf G -> (forall a, In a (args F) -> ~ In a (args G)) ->
  (s = ST -> exists S2, st G S2) ->
  incl al (args F) ->
  q <> QSE -> supported s q -> enc_ok s e1 -> enc_ok s e2 ->
  run_query o1 thr1 fuel1 s q cert1 e1 g al st1 = Done (OAcc b1 c1) t1 ->
  run_query o2 thr2 fuel2 s q cert2 e2 g' al st2 = Done (OAcc b2 c2) t2 ->
  b1 = b2.
Proof.
  intros o1 o2 thr1 thr2 g g' F G s q e1 e2 al fuel1 fuel2 cert1 cert2 st1 st2 b1 c1 t1 b2 c2 t2
         Hv1 Hv2 Ht1 Ht2 Hg Hg' HwG Hdis Hst Hal Hq Hs He1 He2 E1 E2.
  pose proof (vg_wf g F Hg) as Hwf.
  assert (Hex : exists S2, ext s G S2).
  { destruct s; try (apply ext_exists; [exact HwG|discriminate]). exact (Hst eq_refl). }
  apply (status_transfer o1 o2 thr1 thr2 g g' F (disjoint_union F G) s q e1 e2 al al fuel1 fuel2
           cert1 cert2 st1 st2 b1 c1 t1 b2 c2 t2); try assumption.
  - pose proof (al_ok_incl s q F al Hal). unfold query_ok. tauto.
  - assert (Hal' : incl al (args (disjoint_union F G))).
    { unfold disjoint_union. cbn [args]. intros a Ha. apply in_or_app. left. exact (Hal a Ha). }
    pose proof (al_ok_incl s q _ _ Hal'). unfold query_ok. tauto.
  - unfold sem_status. destruct (qpol q); symmetry.
    + exact (cred_union_left F G Hwf HwG Hdis s al Hex Hal).
    + exact (skep_union_left F G Hwf HwG Hdis s al Hex Hal).
Qed.

(* the ST corner: with an unrelated part that has no stable extension, every completed stable
   query on the union answers NO for credulous and YES for skeptical acceptance *)
Theorem solver_locality_stable_corner :
  forall o thr g' F G q e al fuel cert st0 b c t,
  valid_oracle o -> 1 <= thr ->
  view_good g' (disjoint_union F G) ->
  wf F -> wf G -> (forall a, In a (args F) -> ~ In a (args G)) ->
  (forall S2, ~ st G S2) ->
  q <> QSE ->
  run_query o thr fuel ST q cert e g' al st0 = Done (OAcc b c) t ->
  b = negb (qpol q).
Proof.
  intros o thr g' F G q e al fuel cert st0 b c t Hv Ht Hg' HwF HwG Hdis Hno Hq E.
  assert (Hok : query_ok o thr g' (disjoint_union F G) ST q e al).
  { unfold query_ok. split; [exact Hv|]. split; [exact Ht|]. split; [exact Hg'|].
    split; [destruct q; exact I|]. split; [exact I|]. unfold al_ok. destruct q; exact I. }
  pose proof (done_status _ _ _ _ _ _ _ _ _ _ _ _ _ _ Hok Hq E) as H.
  destruct (st_union_corner F G HwF HwG Hdis al Hno) as [Hsk Hcr].
  unfold sem_status in H. destruct (qpol q); cbn [negb].
  - destruct b; [|reflexivity]. exfalso. apply Hcr. apply H. reflexivity.
  - apply H. exact Hsk.
Qed.

(* ------------------------------------------------------------------------------------------ *)
(** * C06: sequences of queries on one solver object *)

(* one query put to a static solver object: the solver type and the encoder are the object's, the
   kind of query, certificate flag, argument list (and the fuel of the model's loops) the call's *)
Record qcall := { qc_sem : sem; qc_enc : enc; qc_kind : query; qc_cert : bool; qc_args : list nat;
                  qc_fuel : nat }.

(* the queries of the list are run one after the other, each on the same framework view [g], in
   ONE thread of program state (so that the k-th query starts in the state the first k-1 left
   behind); the result lists the outcomes in order.  [run_query] returns no new view: the framework
   cannot be modified by a query. *)
Section Seq.
Variable oracle : nat -> cnf -> list lit -> answer.
Variable thr : nat.
Variable g : gview.

Definition run_call (x : qcall) : M outcome :=
  run_query oracle thr (qc_fuel x) (qc_sem x) (qc_kind x) (qc_cert x) (qc_enc x) g (qc_args x).

Fixpoint run_calls (qs : list qcall) : M (list outcome) :=
  match qs with
  | [] => ret []
  | x :: r => o <- run_call x ;; os <- run_calls r ;; ret (o :: os)
  end.
End Seq.

Definition qcall_ok (F : af) (x : qcall) : Prop :=
  supported (qc_sem x) (qc_kind x) /\ enc_ok (qc_sem x) (qc_enc x) /\
  al_ok (qc_sem x) (qc_kind x) F (qc_args x).

Definition calls_bound (g : gview) (qs : list qcall) : nat :=
  fold_right (fun x n => total_bound (qc_sem x) (qc_enc x)
                           (query_comps (qc_sem x) (qc_kind x) (qc_cert x) g (qc_args x)) + n) 0 qs.

Section SeqProofs.
Variable oracle : nat -> cnf -> list lit -> answer.
Variable thr : nat.
Variable g : gview.
Variable F : af.
Hypothesis Hvalid : valid_oracle oracle.
Hypothesis Hthr : 1 <= thr.
Hypothesis Hvg : view_good g F.

(* every outcome of a completed sequence satisfies the specification of its query; the sequence
   never panics; the calls add up *)
Theorem run_calls_correct : forall qs st0, Forall (qcall_ok F) qs ->
  match run_calls oracle thr g qs st0 with
  | Done os st' =>
      Forall2 (fun x o => outcome_spec (qc_sem x) (qc_kind x) (qc_cert x) F (qc_args x) o) qs os /\
      calls st' <= calls st0 + calls_bound g qs
  | Abort st' | OutOfFuel st' => calls st' <= calls st0 + calls_bound g qs
  | Panic _ => False
  end.
Proof.
  induction qs as [|x r IH]; intros st0 Hok; cbn [run_calls calls_bound fold_right].
  - unfold ret. split; [constructor|lia].
  - inversion Hok as [|x' r' Hx Hr]; subst x' r'. destruct Hx as (Hs & He & Ha).
    pose proof (run_query_correct oracle thr Hthr Hvalid F g Hvg (qc_fuel x) (qc_sem x) (qc_kind x)
                  (qc_cert x) (qc_enc x) (qc_args x) st0 Hs He Ha) as R.
    unfold bind at 1. unfold run_call at 1.
    destruct (run_query oracle thr (qc_fuel x) (qc_sem x) (qc_kind x) (qc_cert x) (qc_enc x) g (qc_args x) st0)
      as [o s1|s1|s1|s1]; cbn [run_ok] in R; try (fold (calls_bound g r); lia); try exact R.
    destruct R as [Ro Rc]. specialize (IH s1 Hr). fold (calls_bound g r). unfold bind at 1.
    destruct (run_calls oracle thr g r s1) as [os s2|s2|s2|s2]; try lia; try exact IH.
    destruct IH as [IH1 IH2]. unfold ret. split; [constructor; assumption|lia].
Qed.

(* the status of the k-th answer is the semantic status of the k-th query *)
Theorem run_calls_status : forall qs st0 os st' k x b c, Forall (qcall_ok F) qs ->
  run_calls oracle thr g qs st0 = Done os st' ->
  nth_error qs k = Some x -> nth_error os k = Some (OAcc b c) ->
  qc_kind x <> QSE /\ (b = true <-> sem_status (qc_sem x) (qc_kind x) F (qc_args x)).
Proof.
  intros qs st0 os st' k x b c Hok E Hx Ho.
  pose proof (run_calls_correct qs st0 Hok) as R. rewrite E in R. destruct R as [R _].
  clear E. revert k Hx Ho. induction R as [|y o qs' os' Hy R IH]; intros k Hx Ho.
  - destruct k; discriminate.
  - inversion Hok as [|y' r' _ Hr]; subst y' r'. destruct k as [|k]; cbn [nth_error] in Hx, Ho.
    + injection Hx as ->. injection Ho as ->. unfold sem_status.
      destruct (qc_kind x); cbn [outcome_spec] in Hy; [contradiction| |];
        (split; [discriminate|]); destruct Hy as [Hy _]; exact Hy.
    + exact (IH Hr k Hx Ho).
Qed.

End SeqProofs.

(* order, repetition and history do not matter: the k1-th answer of one sequence and the k2-th answer
   of another sequence (other oracle, threshold, start state, other view of the same framework)
   carry the same status when the two queries ask the same question (solver type, kind, arguments;
   encoder, certificate flag and fuel may differ) *)
Theorem query_sequence_independent :
  forall o1 o2 thr1 thr2 g1 g2 F qs1 qs2 st1 st2 os1 os2 t1 t2 k1 k2 x1 x2 b1 c1 b2 c2,
  valid_oracle o1 -> valid_oracle o2 -> 1 <= thr1 -> 1 <= thr2 ->
  view_good g1 F -> view_good g2 F ->
  Forall (qcall_ok F) qs1 -> Forall (qcall_ok F) qs2 ->
  run_calls o1 thr1 g1 qs1 st1 = Done os1 t1 ->
  run_calls o2 thr2 g2 qs2 st2 = Done os2 t2 ->
  nth_error qs1 k1 = Some x1 -> nth_error qs2 k2 = Some x2 ->
  qc_sem x1 = qc_sem x2 -> qc_kind x1 = qc_kind x2 -> qc_args x1 = qc_args x2 ->
  nth_error os1 k1 = Some (OAcc b1 c1) -> nth_error os2 k2 = Some (OAcc b2 c2) ->
  b1 = b2.
Proof.
  intros o1 o2 thr1 thr2 g1 g2 F qs1 qs2 st1 st2 os1 os2 t1 t2 k1 k2 x1 x2 b1 c1 b2 c2
         Hv1 Hv2 Ht1 Ht2 Hg1 Hg2 Hok1 Hok2 E1 E2 Hx1 Hx2 Es Ek Ea Ho1 Ho2.
  destruct (run_calls_status o1 thr1 g1 F Hv1 Ht1 Hg1 qs1 st1 os1 t1 k1 x1 b1 c1 Hok1 E1 Hx1 Ho1) as [_ H1].
  destruct (run_calls_status o2 thr2 g2 F Hv2 Ht2 Hg2 qs2 st2 os2 t2 k2 x2 b2 c2 Hok2 E2 Hx2 Ho2) as [_ H2].
  rewrite Es, Ek, Ea in H1. exact (bool_iff_eq b1 b2 _ _ H1 H2 (iff_refl _)).
Qed.

(* in particular: the same status as the same query put alone to a fresh object *)
Corollary query_sequence_vs_alone :
  forall o1 o2 thr1 thr2 g1 g2 F qs st1 st2 os t1 t2 k x b1 c1 b2 c2 fuel cert e,
  valid_oracle o1 -> valid_oracle o2 -> 1 <= thr1 -> 1 <= thr2 ->
  view_good g1 F -> view_good g2 F ->
  Forall (qcall_ok F) qs -> enc_ok (qc_sem x) e ->
  run_calls o1 thr1 g1 qs st1 = Done os t1 ->
  nth_error qs k = Some x -> nth_error os k = Some (OAcc b1 c1) ->
  run_query o2 thr2 fuel (qc_sem x) (qc_kind x) cert e g2 (qc_args x) st2 = Done (OAcc b2 c2) t2 ->
  b1 = b2.
Proof.
  intros o1 o2 thr1 thr2 g1 g2 F qs st1 st2 os t1 t2 k x b1 c1 b2 c2 fuel cert e
         Hv1 Hv2 Ht1 Ht2 Hg1 Hg2 Hok He E1 Hx Ho E2.
  destruct (run_calls_status o1 thr1 g1 F Hv1 Ht1 Hg1 qs st1 os t1 k x b1 c1 Hok E1 Hx Ho) as [Hq H1].
  assert (Hxo : qcall_ok F x).
  { rewrite Forall_forall in Hok. apply Hok. exact (nth_error_In qs k Hx). }
  destruct Hxo as (Hs & _ & Ha).
  assert (Hok2 : query_ok o2 thr2 g2 F (qc_sem x) (qc_kind x) e (qc_args x)) by (unfold query_ok; tauto).
  exact (bool_iff_eq b1 b2 _ _ H1 (done_status _ _ _ _ _ _ _ _ _ _ _ _ _ _ Hok2 Hq E2) (iff_refl _)).
Qed.

Print Assumptions view_good_equiv.
Print Assumptions solver_presentation_invariant.
Print Assumptions solver_renaming_invariant.
Print Assumptions solver_locality.
Print Assumptions solver_locality_stable_corner.
Print Assumptions run_calls_correct.
Print Assumptions run_calls_status.
Print Assumptions query_sequence_independent.
Print Assumptions query_sequence_vs_alone.
