(* Soundness of the third rule of the polynomial oracle of the equivalence reducer
   (checks/C19.py grounded_classes_verdict; executable form in Proofs/PolyClassesDefs.v):
     1. the closure of an admissible set under "add what is defended" is a complete extension
        that contains it (the least one);
     2. a complete extension that contains one member of a class and not another refutes
        "the members of the class belong to exactly the same complete extensions";
     3. the members of the grounded extension belong to every complete extension, the arguments
        it defeats to none.
   Specification layer only (Spec/AF.v, Spec/SemFacts.v, Spec/Theory.v). *)
From Coq Require Import List Arith Bool Lia.
From Crusta Require Import Spec.AF Spec.SemFacts Spec.Theory.
From Crusta Require Import Proofs.PolyOracleDefs Proofs.PolyOracle Proofs.PolyClassesDefs.
Import ListNotations.

(* ------------------------------------------------------------------ *)
(** * 1. The closure of an admissible set *)

(* S contains every argument it defends *)
Definition closed (F : af) (S : list nat) : Prop :=
  forall a, In a (args F) -> defends F S a -> In a S.

(* invariant of the loop: the first component is admissible, the second is what it attacks *)
Definition acc_inv (F : af) (st : list nat * list nat) : Prop :=
  adm F (fst st) /\
  forall x, In x (snd st) <-> exists b, In b (fst st) /\ att F b x.

Lemma acc_inv_init : forall F E, adm F E -> acc_inv F (E, hit F E).
Proof.
  intros F E H. split; cbn [fst snd]; [exact H | intros x; apply in_hit].
Qed.

Lemma acc_fire_defends : forall F G D a, acc_inv F (G, D) ->
  subsetb (attackers F a) D = true -> defends F G a.
Proof.
  intros F G D a [_ HD] E. cbn [fst snd] in HD. apply subsetb_incl in E.
  intros b Hb. apply HD. apply E. apply in_attackers. exact Hb.
Qed.

Lemma acc_step_inv : forall F st a, In a (args F) ->
  acc_inv F st -> acc_inv F (prop_step F st a).
Proof.
  intros F [G D] a Ha Hi. pose proof Hi as [HG HD]. cbn [fst snd] in HG, HD. unfold prop_step.
  destruct (negb (memb a G) && negb (memb a D) && subsetb (attackers F a) D) eqn:E;
    [|exact Hi].
  apply andb_true_iff in E. destruct E as [_ E].
  pose proof (acc_fire_defends F G D a Hi E) as Hd.
  split; cbn [fst snd].
  - apply fundamental_adm; assumption.
  - intros x. rewrite in_app_iff. split.
    + intros [Hx|Hx].
      * exists a. split; [left; reflexivity | apply in_attacked; exact Hx].
      * apply HD in Hx. destruct Hx as [b [Hb Hbx]]. exists b. split; [right; exact Hb | exact Hbx].
    + intros [b [[<-|Hb] Hbx]].
      * left. apply in_attacked. exact Hbx.
      * right. apply HD. exists b. split; assumption.
Qed.

Lemma acc_fold_inv : forall F l st, incl l (args F) ->
  acc_inv F st -> acc_inv F (fold_left (prop_step F) l st).
Proof.
  intros F l. induction l as [|a l IH]; intros st Hl Hi; cbn [fold_left]; [exact Hi|].
  apply IH.
  - intros x Hx. apply Hl. right. exact Hx.
  - apply acc_step_inv; [apply Hl; left; reflexivity | exact Hi].
Qed.

Lemma acc_sweep_inv : forall F st, acc_inv F st -> acc_inv F (prop_sweep F st).
Proof. intros F st. unfold prop_sweep. apply acc_fold_inv. apply incl_refl. Qed.

Lemma acc_iter_inv : forall F k st, acc_inv F st -> acc_inv F (prop_iter F k st).
Proof.
  intros F k. induction k as [|k IH]; intros st Hi; cbn [prop_iter]; [exact Hi|].
  apply IH. apply acc_sweep_inv. exact Hi.
Qed.

(* an argument defended by the current set is a member after its own step *)
Lemma acc_step_takes : forall F st a, In a (args F) -> acc_inv F st ->
  defends F (fst st) a -> In a (fst (prop_step F st a)).
Proof.
  intros F [G D] a Ha [HG HD] Hd. cbn [fst snd] in HG, HD, Hd. unfold prop_step.
  destruct (memb a G) eqn:EG; cbn [negb andb].
  { cbn [fst]. apply memb_In. exact EG. }
  assert (ED : memb a D = false).
  { apply memb_false. intros HaD. apply HD in HaD. destruct HaD as [b [Hb Hba]].
    exact (adm_defended_not_attacked F G a b HG Hd Hb Hba). }
  rewrite ED. cbn [negb andb].
  assert (ES : subsetb (attackers F a) D = true).
  { apply subsetb_incl. intros b Hb. apply in_attackers in Hb. apply HD. apply Hd. exact Hb. }
  rewrite ES. cbn [fst]. left. reflexivity.
Qed.

Lemma acc_fold_takes : forall F l st a, incl l (args F) -> acc_inv F st ->
  In a l -> defends F (fst st) a -> In a (fst (fold_left (prop_step F) l st)).
Proof.
  intros F l. induction l as [|x l IH]; intros st a Hl Hi Ha Hd; [destruct Ha|].
  cbn [fold_left].
  assert (Hx : In x (args F)) by (apply Hl; left; reflexivity).
  assert (Hl' : incl l (args F)) by (intros y Hy; apply Hl; right; exact Hy).
  destruct Ha as [<-|Ha].
  - apply (fold_step_mono F l (prop_step F st x)). apply acc_step_takes; assumption.
  - apply IH; [exact Hl' | apply acc_step_inv; assumption | exact Ha |].
    apply (defends_mono F (fst st)); [apply prop_step_mono | exact Hd].
Qed.

(* one sweep applies the characteristic function at least once *)
Lemma acc_sweep_charf : forall F st, acc_inv F st ->
  incl (charf F (fst st)) (fst (prop_sweep F st)).
Proof.
  intros F st Hi a Ha. apply in_charf in Ha. destruct Ha as [Ha Hd].
  unfold prop_sweep. apply acc_fold_takes; [apply incl_refl | exact Hi | exact Ha | exact Hd].
Qed.

(* on a closed set no step fires *)
Lemma acc_step_closed : forall F st a, In a (args F) -> acc_inv F st ->
  closed F (fst st) -> prop_step F st a = st.
Proof.
  intros F [G D] a Ha Hi Hc. cbn [fst] in Hc. unfold prop_step.
  destruct (memb a G) eqn:EG; cbn [negb andb]; [reflexivity|].
  destruct (memb a D); cbn [negb andb]; [reflexivity|].
  destruct (subsetb (attackers F a) D) eqn:ES; [|reflexivity].
  exfalso. apply memb_false in EG. apply EG. apply Hc; [exact Ha|].
  exact (acc_fire_defends F G D a Hi ES).
Qed.

Lemma acc_fold_closed : forall F l st, incl l (args F) -> acc_inv F st ->
  closed F (fst st) -> fold_left (prop_step F) l st = st.
Proof.
  intros F l. induction l as [|a l IH]; intros st Hl Hi Hc; cbn [fold_left]; [reflexivity|].
  rewrite (acc_step_closed F st a); [|apply Hl; left; reflexivity | exact Hi | exact Hc].
  apply IH; [|exact Hi | exact Hc]. intros x Hx. apply Hl. right. exact Hx.
Qed.

Lemma acc_iter_closed : forall F k st, acc_inv F st -> closed F (fst st) ->
  prop_iter F k st = st.
Proof.
  intros F k. induction k as [|k IH]; intros st Hi Hc; cbn [prop_iter]; [reflexivity|].
  unfold prop_sweep. rewrite (acc_fold_closed F (args F) st (incl_refl _) Hi Hc).
  apply IH; assumption.
Qed.

(* a sweep either finds the set closed or adds an argument *)
Lemma acc_sweep_progress : forall F st, acc_inv F st ->
  closed F (fst st) \/ msize F (fst st) < msize F (fst (prop_sweep F st)).
Proof.
  intros F st Hi.
  assert (Hm : incl (fst st) (fst (prop_sweep F st))) by (apply fold_step_mono).
  pose proof (msize_le F _ _ Hm) as Hle.
  destruct (Nat.eq_dec (msize F (fst st)) (msize F (fst (prop_sweep F st)))) as [E|E];
    [left | right; lia].
  intros a Ha Hd.
  apply (msize_eq_incl F (fst st) (fst (prop_sweep F st)) Hm).
  - apply adm_incl. apply (acc_sweep_inv F st Hi).
  - exact E.
  - apply acc_sweep_charf; [exact Hi|]. apply in_charf. split; assumption.
Qed.

Lemma acc_iter_progress : forall F k st, acc_inv F st ->
  closed F (fst (prop_iter F k st)) \/
  k + msize F (fst st) <= msize F (fst (prop_iter F k st)).
Proof.
  intros F k. induction k as [|k IH]; intros st Hi.
  - right. cbn [prop_iter Nat.add]. apply Nat.le_refl.
  - destruct (acc_sweep_progress F st Hi) as [Hc|Hlt].
    + left. rewrite (acc_iter_closed F (Datatypes.S k) st Hi Hc). exact Hc.
    + cbn [prop_iter].
      destruct (IH (prop_sweep F st) (acc_sweep_inv F st Hi)) as [Hc|Hge];
        [left; exact Hc | right; lia].
Qed.

(* Q1: the closure of an admissible set is a complete extension that contains it *)
Theorem acc_closure_complete : forall F E, adm F E ->
  co F (acc_closure F E) /\ incl E (acc_closure F E).
Proof.
  intros F E HE. unfold acc_closure.
  set (k := Datatypes.S (length (args F))).
  pose proof (acc_inv_init F E HE) as Hi0.
  pose proof (acc_iter_inv F k (E, hit F E) Hi0) as [Ha _].
  split.
  - split; [exact Ha|].
    destruct (acc_iter_progress F k (E, hit F E) Hi0) as [Hc|Hge]; [exact Hc|].
    exfalso. pose proof (msize_bound F (fst (prop_iter F k (E, hit F E)))) as Hb.
    subst k. lia.
  - apply (prop_iter_mono F k (E, hit F E)).
Qed.

(* ... and it is inside every complete extension that contains the set *)
Lemma acc_step_below : forall F S st a, co F S -> acc_inv F st ->
  incl (fst st) S -> In a (args F) -> incl (fst (prop_step F st a)) S.
Proof.
  intros F S [G D] a HS Hi HG Ha. cbn [fst] in HG. unfold prop_step.
  destruct (negb (memb a G) && negb (memb a D) && subsetb (attackers F a) D) eqn:E;
    cbn [fst]; [|exact HG].
  apply andb_true_iff in E. destruct E as [_ E].
  pose proof (acc_fire_defends F G D a Hi E) as Hd.
  intros x [<-|Hx]; [|apply HG; exact Hx].
  destruct HS as [_ HS]. apply HS; [exact Ha|]. apply (defends_mono F G S a HG Hd).
Qed.

Lemma acc_fold_below : forall F S l st, co F S -> incl l (args F) -> acc_inv F st ->
  incl (fst st) S -> incl (fst (fold_left (prop_step F) l st)) S.
Proof.
  intros F S l. induction l as [|a l IH]; intros st HS Hl Hi HG; cbn [fold_left]; [exact HG|].
  assert (Ha : In a (args F)) by (apply Hl; left; reflexivity).
  apply IH; [exact HS | | apply acc_step_inv; assumption | apply acc_step_below; assumption].
  intros x Hx. apply Hl. right. exact Hx.
Qed.

Lemma acc_iter_below : forall F S k st, co F S -> acc_inv F st ->
  incl (fst st) S -> incl (fst (prop_iter F k st)) S.
Proof.
  intros F S k. induction k as [|k IH]; intros st HS Hi HG; cbn [prop_iter]; [exact HG|].
  apply IH; [exact HS | apply acc_sweep_inv; exact Hi |].
  unfold prop_sweep. apply acc_fold_below; [exact HS | apply incl_refl | exact Hi | exact HG].
Qed.

Theorem acc_closure_least : forall F E S, adm F E -> co F S -> incl E S ->
  incl (acc_closure F E) S.
Proof.
  intros F E S HE HS Hi. unfold acc_closure.
  apply acc_iter_below; [exact HS | apply acc_inv_init; exact HE | exact Hi].
Qed.

(* the special case used by the oracle: the grounded extension plus one argument *)
Theorem acc_closure_seed : forall F s, adm F (s :: lfp F) ->
  co F (acc_closure F (s :: lfp F)) /\
  In s (acc_closure F (s :: lfp F)) /\ incl (lfp F) (acc_closure F (s :: lfp F)).
Proof.
  intros F s H. destruct (acc_closure_complete F (s :: lfp F) H) as [Hc Hi].
  split; [exact Hc|]. split.
  - apply Hi. left. reflexivity.
  - intros x Hx. apply Hi. right. exact Hx.
Qed.

(* the statement of Properties/C19poly.v *)
Theorem poly_closure_complete : forall F,
  (forall E, adm F E ->
     co F (acc_closure F E) /\ incl E (acc_closure F E) /\
     forall S, co F S -> incl E S -> incl (acc_closure F E) S) /\
  (forall s, adm F (s :: lfp F) ->
     co F (acc_closure F (s :: lfp F)) /\
     In s (acc_closure F (s :: lfp F)) /\ incl (lfp F) (acc_closure F (s :: lfp F))).
Proof.
  intros F. split.
  - intros E HE. destruct (acc_closure_complete F E HE) as [Hc Hi].
    split; [exact Hc|]. split; [exact Hi|].
    intros S HS HES. apply acc_closure_least; assumption.
  - apply acc_closure_seed.
Qed.

(* ------------------------------------------------------------------ *)
(** * 2. A complete extension that cuts a class refutes it *)

Theorem co_separates : forall F E a b,
  co F E -> In a E -> ~ In b E -> ~ same_complete_extensions F a b.
Proof.
  intros F E a b HE Ha Hb H. apply Hb. apply (H E HE). exact Ha.
Qed.

Lemma seed_admb_adm : forall F E, seed_admb F E = true <-> adm F E.
Proof. intros F E. unfold seed_admb. apply cert_adm. Qed.

Lemma cutsb_spec : forall C E,
  cutsb C E = true <-> exists a b, In a C /\ In b C /\ In a E /\ ~ In b E.
Proof.
  intros C E. unfold cutsb. rewrite andb_true_iff, negb_true_iff. split.
  - intros [H1 H2]. apply existsb_exists in H1. destruct H1 as [a [Ha HaE]].
    apply forallb_false_ex in H2. destruct H2 as [b [Hb HbE]].
    exists a, b. split; [exact Ha|]. split; [exact Hb|].
    split; [apply memb_In; exact HaE | apply memb_false; exact HbE].
  - intros [a [b [Ha [Hb [HaE HbE]]]]]. split.
    + apply existsb_exists. exists a. split; [exact Ha | apply memb_In; exact HaE].
    + destruct (subsetb C E) eqn:ES; [|reflexivity].
      exfalso. apply HbE. apply (proj1 (subsetb_incl C E) ES). exact Hb.
Qed.

(* the verdict, for any admissible seed set G + {s} *)
Theorem cut_by_closure_sound : forall F G s C, cut_by_closure F G s C = true ->
  exists E a b, co F E /\ In s E /\ incl G E /\
    In a C /\ In b C /\ In a E /\ ~ In b E /\ ~ same_complete_extensions F a b.
Proof.
  intros F G s C H. unfold cut_by_closure in H. apply andb_true_iff in H.
  destruct H as [Hadm Hcut]. apply seed_admb_adm in Hadm. apply cutsb_spec in Hcut.
  destruct Hcut as [a [b [Ha [Hb [HaE HbE]]]]].
  destruct (acc_closure_complete F (s :: G) Hadm) as [Hc Hi].
  exists (acc_closure F (s :: G)), a, b.
  split; [exact Hc|]. split; [apply Hi; left; reflexivity|].
  split; [intros x Hx; apply Hi; right; exact Hx|].
  split; [exact Ha|]. split; [exact Hb|]. split; [exact HaE|]. split; [exact HbE|].
  exact (co_separates F _ a b Hc HaE HbE).
Qed.

(* the statement of Properties/C19poly.v *)
Theorem poly_cut_refutes_class : forall F,
  (forall E a b, co F E -> In a E -> ~ In b E -> ~ same_complete_extensions F a b) /\
  (forall s C, cut_by_closure F (lfp F) s C = true ->
     exists a b, In a C /\ In b C /\ ~ same_complete_extensions F a b) /\
  (forall s C, cut_by_closure F (lfp F) s C = true ->
     exists E a b, co F E /\ In s E /\ incl (lfp F) E /\
       In a C /\ In b C /\ In a E /\ ~ In b E).
Proof.
  intros F. split; [apply co_separates|]. split.
  - intros s C H. destruct (cut_by_closure_sound F (lfp F) s C H)
      as [E [a [b [_ [_ [_ [Ha [Hb [_ [_ Hn]]]]]]]]]].
    exists a, b. split; [exact Ha|]. split; [exact Hb | exact Hn].
  - intros s C H. destruct (cut_by_closure_sound F (lfp F) s C H)
      as [E [a [b [Hc [Hs [Hg [Ha [Hb [HaE [HbE _]]]]]]]]]].
    exists E, a, b. repeat (split; [assumption|]). exact HbE.
Qed.

(* ------------------------------------------------------------------ *)
(** * 3. The two older rules: the grounded class and the defeated class *)

Theorem poly_grounded_classes : forall F, wf F ->
  (forall a b, In a (lfp F) -> In b (lfp F) -> same_complete_extensions F a b) /\
  (forall a b, (exists c, In c (lfp F) /\ att F c a) -> (exists c, In c (lfp F) /\ att F c b) ->
     same_complete_extensions F a b) /\
  (forall a b, In a (lfp F) -> (exists c, In c (lfp F) /\ att F c b) ->
     ~ same_complete_extensions F a b).
Proof.
  intros F Hw. split; [|split].
  - intros a b Ha Hb E HE. split; intros _.
    + exact (grounded_in_complete F E b Hb HE).
    + exact (grounded_in_complete F E a Ha HE).
  - intros a b [c [Hc Hca]] [d [Hd Hdb]] E HE. split; intros H; exfalso.
    + exact (proj1 (poly_defeated_rejected F a c Hw Hc Hca) E HE H).
    + exact (proj1 (poly_defeated_rejected F b d Hw Hd Hdb) E HE H).
  - intros a b Ha [d [Hd Hdb]] H.
    pose proof (lfp_co F) as HG.
    apply (proj1 (poly_defeated_rejected F b d Hw Hd Hdb) (lfp F) HG).
    apply (H (lfp F) HG). exact Ha.
Qed.
