(* Proofs about Model/Pipe.v (C16c): with the parent draining stdout before waiting, no reachable
   non-final state is stuck, for every child program, every instance size and all capacities >= 1;
   every transition decreases a measure (no infinite run); with the former order (wait, then
   drain) a child writing more than the pipe capacity leads to a reachable stuck state. *)
From Coq Require Import Lia.
From Crusta Require Import Model.Pipe.
Import ListNotations.

(* ------------------------------------------------------------------ no stuck state *)
Definition pinv (s : pstate) : Prop :=
  pa s = [ADrain; AWait] \/ (pa s = [AWait] /\ exited s = true) \/ pa s = [].

Lemma pinv_init : forall c, ord c = DrainThenWait -> pinv (init c).
Proof. intros c H. left. unfold init. cbn [pa]. rewrite H. reflexivity. Qed.

Lemma child_steps_pa : forall c s s', In s' (child_steps c s) -> pa s' = pa s /\ (exited s = true -> False).
Proof.
  intros c s s' H. unfold child_steps in H. unfold exited.
  destruct (ch s) as [p|]; [|destruct H].
  split; [|discriminate].
  destruct p as [|o r].
  - destruct H as [E|[]]. subst. reflexivity.
  - destruct o as [k| |k].
    + destruct k as [|k]; [destruct H as [E|[]]; subst; reflexivity|].
      destruct (inb s) as [|i]; [destruct (writer_done s)|]; try (destruct H as [E|[]]; subst; reflexivity). destruct H.
    + destruct (inb s) as [|i]; [destruct (writer_done s)|]; try (destruct H as [E|[]]; subst; reflexivity). destruct H.
    + destruct k as [|k]; [destruct H as [E|[]]; subst; reflexivity|].
      destruct (Nat.ltb (outb s) (cap_out c)); [destruct H as [E|[]]; subst; reflexivity|destruct H].
Qed.

Lemma writer_steps_pa : forall c s s', In s' (writer_steps c s) -> pa s' = pa s /\ ch s' = ch s.
Proof.
  intros c s s' H. unfold writer_steps in H. destruct (wr s) as [k| |]; try destruct H.
  destruct k as [|k].
  - destruct H as [E|[]]. subst. split; reflexivity.
  - destruct (exited s); [destruct H as [E|[]]; subst; split; reflexivity|].
    destruct (Nat.ltb (inb s) (cap_in c)); [destruct H as [E|[]]; subst; split; reflexivity|destruct H].
Qed.

Lemma pinv_step : forall c s s', pinv s -> In s' (steps c s) -> pinv s'.
Proof.
  intros c s s' I H. unfold steps in H. apply in_app_or in H. destruct H as [H|H]; [|apply in_app_or in H; destruct H as [H|H]].
  - destruct (child_steps_pa c s s' H) as [Hp Hne]. unfold pinv. rewrite Hp.
    destruct I as [I|[[I1 I2]|I]]; [left; exact I|exfalso; apply Hne, I2|right; right; exact I].
  - destruct (writer_steps_pa c s s' H) as [Hp Hc]. unfold pinv, exited. rewrite Hp, Hc. exact I.
  - unfold parent_steps in H. destruct I as [I|[[I1 I2]|I]].
    + rewrite I in H. destruct (outb s) as [|o].
      * destruct (exited s) eqn:Ex; [|destruct H]. destruct H as [E|[]]. subst s'. right. left. cbn [pa]. split; [reflexivity|].
        unfold exited in *. cbn [ch]. exact Ex.
      * destruct H as [E|[]]. subst s'. left. cbn [pa]. first [exact I|reflexivity].
    + rewrite I1 in H. rewrite I2 in H. destruct H as [E|[]]. subst s'. right. right. reflexivity.
    + rewrite I in H. destruct H.
Qed.

Lemma pinv_reach : forall c s, ord c = DrainThenWait -> reach c s -> pinv s.
Proof. intros c s Ho R. induction R as [|s s' R IH H]; [apply pinv_init, Ho|apply (pinv_step c s s' IH H)]. Qed.

Lemma app_nonnil_l : forall {A} (a b : list A), a <> [] -> a ++ b <> [].
Proof. intros A a b H E. apply app_eq_nil in E. destruct E. contradiction. Qed.
Lemma app_nonnil_r : forall {A} (a b : list A), b <> [] -> a ++ b <> [].
Proof. intros A a b H E. apply app_eq_nil in E. destruct E. contradiction. Qed.

Lemma progress : forall c s, 1 <= cap_in c -> 1 <= cap_out c -> pinv s -> final s = false -> steps c s <> [].
Proof.
  intros c s Hci Hco I Hf. unfold steps. destruct I as [I|[[I1 I2]|I]].
  - (* the parent drains *)
    destruct (outb s) as [|o] eqn:Eo.
    + destruct (ch s) as [p|] eqn:Ec.
      * (* the child is alive: it, or the writer it waits for, can move *)
        destruct p as [|op r].
        { apply app_nonnil_l. unfold child_steps. rewrite Ec. discriminate. }
        destruct op as [k| |k].
        -- destruct k as [|k]; [apply app_nonnil_l; unfold child_steps; rewrite Ec; discriminate|].
           destruct (inb s) as [|i] eqn:Ei; [|apply app_nonnil_l; unfold child_steps; rewrite Ec, Ei; discriminate].
           destruct (writer_done s) eqn:Ew; [apply app_nonnil_l; unfold child_steps; rewrite Ec, Ei, Ew; discriminate|].
           apply app_nonnil_r. apply app_nonnil_l. unfold writer_steps, writer_done in *.
           destruct (wr s) as [left| |]; try discriminate. destruct left as [|left]; [discriminate|].
           unfold exited. rewrite Ec, Ei. replace (Nat.ltb 0 (cap_in c)) with true by (symmetry; apply Nat.ltb_lt; lia). discriminate.
        -- destruct (inb s) as [|i] eqn:Ei; [|apply app_nonnil_l; unfold child_steps; rewrite Ec, Ei; discriminate].
           destruct (writer_done s) eqn:Ew; [apply app_nonnil_l; unfold child_steps; rewrite Ec, Ei, Ew; discriminate|].
           apply app_nonnil_r. apply app_nonnil_l. unfold writer_steps, writer_done in *.
           destruct (wr s) as [left| |]; try discriminate. destruct left as [|left]; [discriminate|].
           unfold exited. rewrite Ec, Ei. replace (Nat.ltb 0 (cap_in c)) with true by (symmetry; apply Nat.ltb_lt; lia). discriminate.
        -- apply app_nonnil_l. unfold child_steps. rewrite Ec. destruct k as [|k]; [discriminate|].
           rewrite Eo. replace (Nat.ltb 0 (cap_out c)) with true by (symmetry; apply Nat.ltb_lt; lia). discriminate.
      * (* the child has exited: end-of-file *)
        apply app_nonnil_r. apply app_nonnil_r. unfold parent_steps, exited. rewrite I, Eo, Ec. discriminate.
    + apply app_nonnil_r. apply app_nonnil_r. unfold parent_steps. rewrite I, Eo. discriminate.
  - apply app_nonnil_r. apply app_nonnil_r. unfold parent_steps. rewrite I1, I2. discriminate.
  - unfold final in Hf. rewrite I in Hf. discriminate.
Qed.

Theorem drain_then_wait_never_stuck : forall c s,
  ord c = DrainThenWait -> 1 <= cap_in c -> 1 <= cap_out c -> reach c s -> stuck c s = false.
Proof.
  intros c s Ho Hci Hco R. unfold stuck. destruct (final s) eqn:Ef; [reflexivity|].
  pose proof (progress c s Hci Hco (pinv_reach c s Ho R) Ef) as P. destruct (steps c s); [contradiction|reflexivity].
Qed.

(* ------------------------------------------------------------------ every run is finite *)
Theorem measure_decreases : forall c s s', In s' (steps c s) -> measure s' < measure s.
Proof.
  intros c s s' H. unfold steps in H. apply in_app_or in H. destruct H as [H|H]; [|apply in_app_or in H; destruct H as [H|H]].
  - unfold child_steps in H. destruct s as [w i ch o p]. cbn [Pipe.ch Pipe.inb Pipe.outb] in H.
    destruct ch as [pr|]; [|destruct H]. destruct pr as [|op r].
    + destruct H as [E|[]]. subst s'. unfold measure, with_child. cbn. lia.
    + destruct op as [k| |k].
      * destruct k as [|k]; [destruct H as [E|[]]; subst s'; unfold measure, with_child; cbn; lia|].
        destruct i as [|i]; [destruct (writer_done _); [|destruct H]|];
          destruct H as [E|[]]; subst s'; unfold measure, with_child; cbn; lia.
      * destruct i as [|i]; [destruct (writer_done _); [|destruct H]|];
          destruct H as [E|[]]; subst s'; unfold measure, with_child; cbn; lia.
      * destruct k as [|k]; [destruct H as [E|[]]; subst s'; unfold measure, with_child; cbn; lia|].
        destruct (Nat.ltb o (cap_out c)); [|destruct H]. destruct H as [E|[]]. subst s'. unfold measure, with_child. cbn. lia.
  - unfold writer_steps in H. destruct s as [w i ch o p]. cbn [Pipe.wr Pipe.inb] in H.
    destruct w as [k| |]; try destruct H. destruct k as [|k].
    + destruct H as [E|[]]. subst s'. unfold measure. cbn. lia.
    + destruct (exited _); [destruct H as [E|[]]; subst s'; unfold measure; cbn; lia|].
      destruct (Nat.ltb i (cap_in c)); [|destruct H]. destruct H as [E|[]]. subst s'. unfold measure. cbn. lia.
  - unfold parent_steps in H. destruct s as [w i ch o p]. cbn [Pipe.pa Pipe.outb] in H.
    destruct p as [|a r]; [destruct H|]. destruct a.
    + destruct o as [|o]; [destruct (exited _); [|destruct H]|]; destruct H as [E|[]]; subst s'; unfold measure; cbn; lia.
    + destruct (exited _); [|destruct H]. destruct H as [E|[]]. subst s'. unfold measure. cbn. lia.
Qed.

(* ------------------------------------------------------------------ the defective order *)
Section WaitFirst.
Variables (ci co il ol : nat).
Hypothesis Hci : 1 <= ci.
Hypothesis Hco : co < ol.

Definition wcfg : config :=
  {| ord := WaitThenDrain; cap_in := ci; cap_out := co; in_len := il; prog := [CRdAll; CWr ol] |}.

(* the writer and the child alternate until the whole instance has been read *)
Definition stA (k : nat) : pstate :=
  {| wr := WRun k; inb := 0; ch := Some [CRdAll; CWr ol]; outb := 0; pa := [AWait; ADrain] |}.

Lemma reach_A : forall d k, d + k = il -> reach wcfg (stA k).
Proof.
  induction d as [|d IH]; intros k Hk.
  - cbn in Hk. subst k. apply reach_init.
  - assert (R : reach wcfg (stA (S k))) by (apply IH; lia).
    apply reach_step with (s := {| wr := WRun k; inb := 1; ch := Some [CRdAll; CWr ol]; outb := 0; pa := [AWait; ADrain] |}).
    + apply reach_step with (s := stA (S k)); [exact R|].
      assert (L : Nat.ltb 0 ci = true) by (apply Nat.ltb_lt; lia).
      unfold steps, child_steps, writer_steps, parent_steps, stA, exited, writer_done. cbn -[Nat.ltb].
      rewrite L. cbn -[Nat.ltb]. left. reflexivity.
    + unfold steps, child_steps, stA, with_child. cbn. left. reflexivity.
Qed.

(* then the child writes until the stdout pipe is full *)
Definition stB (j k : nat) : pstate :=
  {| wr := WClosed; inb := 0; ch := Some [CWr k]; outb := j; pa := [AWait; ADrain] |}.

Lemma reach_B0 : reach wcfg (stB 0 ol).
Proof.
  apply reach_step with (s := {| wr := WClosed; inb := 0; ch := Some [CRdAll; CWr ol]; outb := 0; pa := [AWait; ADrain] |}).
  - apply reach_step with (s := stA 0); [apply (reach_A il 0); lia|].
    unfold steps, child_steps, writer_steps, stA, writer_done. cbn. left. reflexivity.
  - unfold steps, child_steps, stB, with_child, writer_done. cbn. left. reflexivity.
Qed.

Lemma reach_B : forall j k, j <= co -> j + k = ol -> reach wcfg (stB j k).
Proof.
  induction j as [|j IH]; intros k Hj Hk.
  - cbn in Hk. subst k. apply reach_B0.
  - apply reach_step with (s := stB j (S k)); [apply IH; lia|].
    assert (L : Nat.ltb j co = true) by (apply Nat.ltb_lt; lia).
    unfold steps, child_steps, stB, with_child. cbn -[Nat.ltb]. rewrite L. cbn -[Nat.ltb]. left. reflexivity.
Qed.

Lemma wait_first_stuck : exists s, reach wcfg s /\ stuck wcfg s = true.
Proof.
  exists (stB co (ol - co)). split; [apply reach_B; lia|].
  unfold stuck, steps, child_steps, writer_steps, parent_steps, stB, final, exited. cbn -[Nat.ltb Nat.sub].
  destruct (ol - co) as [|k] eqn:E; [lia|]. rewrite Nat.ltb_irrefl. reflexivity.
Qed.
End WaitFirst.

Theorem wait_then_drain_can_hang : forall ci co il ol, 1 <= ci -> co < ol ->
  exists s, reach (wcfg ci co il ol) s /\ stuck (wcfg ci co il ol) s = true.
Proof. intros. apply wait_first_stuck; assumption. Qed.

(* the same configuration in the repaired order is never stuck (instance of the general theorem) *)
Example drain_first_same_child : forall ci co il ol s, 1 <= ci -> 1 <= co ->
  reach {| ord := DrainThenWait; cap_in := ci; cap_out := co; in_len := il; prog := [CRdAll; CWr ol] |} s ->
  stuck {| ord := DrainThenWait; cap_in := ci; cap_out := co; in_len := il; prog := [CRdAll; CWr ol] |} s = false.
Proof. intros. apply drain_then_wait_never_stuck; auto. Qed.
