(* Proofs about Model/Readers.v, Aspartix part: the hand-written matchers on rendered lines, the
   faithfulness of [read_apx], totality and the rejection lemmas. *)
From Crusta Require Import Spec.IoSpec Proofs.IoBase Proofs.StoreBase Proofs.ReadersProofs.
From Coq Require Import Lia ZifyBool.
Local Open Scope N_scope.

(* ------------------------------------------------------------------ matcher helpers *)
Lemma drop_ws_skip pre : forall rest, Forall ws pre -> drop_ws (pre ++ rest) = drop_ws rest.
Proof.
  induction pre as [|c pre IH]; intros rest H; [reflexivity|].
  inversion H as [|? ? Hc Hp]; subst. cbn [app drop_ws]. unfold ws in Hc. rewrite Hc. apply IH, Hp.
Qed.
Lemma drop_ws_nonws c r : is_ws c = false -> drop_ws (c :: r) = c :: r.
Proof. intros H. cbn [drop_ws]. rewrite H. reflexivity. Qed.

Lemma span_not_app x a : forall rest, ~ In x a -> span_not x (a ++ x :: rest) = (a, x :: rest).
Proof.
  induction a as [|c a IH]; intros rest Hn; cbn [app span_not].
  - rewrite N.eqb_refl. reflexivity.
  - destruct (c =? x) eqn:E.
    + apply N.eqb_eq in E. subst c. exfalso. apply Hn. left; reflexivity.
    + rewrite IH; [reflexivity|]. intros Hin. apply Hn. right; assumption.
Qed.

Definition p_headed (p : N -> bool) (rest : str) : Prop :=
  match rest with [] => True | d :: _ => p d = false end.
Lemma span_p_app p a : forall rest, Forall (fun c => p c = true) a -> p_headed p rest ->
  span_p p (a ++ rest) = (a, rest).
Proof.
  induction a as [|c a IH]; intros rest Ha Hr; cbn [app].
  - destruct rest as [|d rest]; cbn [span_p]; [reflexivity|]. cbn [p_headed] in Hr. rewrite Hr. reflexivity.
  - inversion Ha as [|? ? Hc Ha']; subst. cbn [span_p]. rewrite Hc, (IH rest Ha' Hr). reflexivity.
Qed.

Lemma all_ws_blanks b : Forall ws b -> all_ws b = true.
Proof. intros H. apply forallb_forall. rewrite Forall_forall in H. exact H. Qed.
Lemma all_ws_nonws pre c rest : is_ws c = false -> all_ws (pre ++ c :: rest) = false.
Proof.
  intros Hc. unfold all_ws. rewrite forallb_app. cbn [forallb]. rewrite Hc. cbn [andb].
  apply andb_false_r.
Qed.

(* identifiers *)
Lemma ident_inv l : is_ident l = true ->
  exists c r, l = c :: r /\ is_id_start c = true /\ Forall (fun x => is_id_char x = true) r.
Proof.
  destruct l as [|c r]; [discriminate|]. cbn [is_ident]. intros H. apply andb_true_iff in H.
  destruct H as [H1 H2]. exists c, r. split; [reflexivity|]. split; [assumption|].
  apply Forall_forall. rewrite forallb_forall in H2. exact H2.
Qed.
Lemma id_start_char c : is_id_start c = true -> is_id_char c = true.
Proof. unfold is_id_char. intros ->. reflexivity. Qed.
Lemma ident_chars l : is_ident l = true -> Forall (fun x => is_id_char x = true) l.
Proof.
  intros H. destruct (ident_inv l H) as [c [r [-> [Hc Hr]]]]. constructor; [apply id_start_char, Hc|exact Hr].
Qed.
Lemma ident_not_in l x : is_ident l = true ->
  (x = 10 \/ x = 13 \/ x = 40 \/ x = 41 \/ x = 44 \/ x = 46) -> ~ In x l.
Proof.
  intros H Hx Hin. pose proof (ident_chars l H) as Hc. rewrite Forall_forall in Hc.
  exact (id_char_not x x (Hc _ Hin) Hx eq_refl).
Qed.
Lemma blanks_not_in b x : Forall ws b ->
  (x = 35 \/ x = 40 \/ x = 41 \/ x = 44 \/ x = 46 \/ x = 97) -> ~ In x b.
Proof. intros H Hx Hin. rewrite Forall_forall in H. exact (ws_not x x (H _ Hin) Hx eq_refl). Qed.
Lemma ident_clean l : is_ident l = true -> clean l.
Proof.
  intros H. pose proof (ident_chars l H) as Hc. eapply Forall_impl; [|exact Hc].
  intros c Hcc. split; [apply id_char_scalar, Hcc|].
  split; apply (id_char_not c); auto.
Qed.

Lemma ws_headed_not_id b : ws_headed b -> p_headed is_id_char b.
Proof.
  destruct b as [|d b]; [constructor|]. cbn [ws_headed p_headed]. intros H.
  destruct (is_id_char d) eqn:E; [|reflexivity]. apply id_char_nonws in E. congruence.
Qed.

Lemma match_ident_ws_ok b1 l b2 : Forall ws b1 -> is_ident l = true -> Forall ws b2 ->
  match_ident_ws (b1 ++ l ++ b2) = Some l.
Proof.
  intros H1 Hl H2. destruct (ident_inv l Hl) as [c [r [-> [Hc Hr]]]].
  unfold match_ident_ws. rewrite drop_ws_skip by assumption. cbn [app].
  rewrite drop_ws_nonws by (apply id_char_nonws, id_start_char, Hc).
  rewrite Hc. rewrite (span_p_app is_id_char r b2 Hr) by (apply ws_headed_not_id, ws_headed_blanks, H2).
  rewrite all_ws_blanks by assumption. reflexivity.
Qed.

Lemma strip_arg_open r : strip_prefix w_arg_open (97 :: 114 :: 103 :: 40 :: r) = Some r.
Proof. reflexivity. Qed.
Lemma strip_att_open r : strip_prefix w_att_open (97 :: 116 :: 116 :: 40 :: r) = Some r.
Proof. reflexivity. Qed.
Lemma strip_arg_open_att r : strip_prefix w_arg_open (97 :: 116 :: r) = None.
Proof. reflexivity. Qed.

Lemma not_in_app3 x (a b c : str) : ~ In x a -> ~ In x b -> ~ In x c -> ~ In x (a ++ b ++ c).
Proof.
  intros Ha Hb Hc Hin. apply in_app_or in Hin. destruct Hin as [H|H]; [auto|].
  apply in_app_or in H. destruct H; auto.
Qed.

(* ------------------------------------------------------------------ rendered lines *)
Lemma arg_line_facts l : arg_line_ok l ->
  all_ws (render_arg_line l) = false /\
  match_arg_line (render_arg_line l) = Some (ar_b1 l ++ ar_label l ++ ar_b2 l) /\
  match_ident_ws (ar_b1 l ++ ar_label l ++ ar_b2 l) = Some (ar_label l).
Proof.
  intros [Hpre [Hb1 [Hl [Hb2 Hpost]]]]. apply blanks_ws in Hpre, Hb1, Hb2, Hpost.
  unfold render_arg_line. split; [|split].
  - cbn [app]. apply all_ws_nonws. reflexivity.
  - unfold match_arg_line. rewrite drop_ws_skip by assumption. cbn [app].
    rewrite drop_ws_nonws by reflexivity. rewrite strip_arg_open.
    replace (ar_b1 l ++ ar_label l ++ ar_b2 l ++ 41 :: 46 :: ar_post l)
      with ((ar_b1 l ++ ar_label l ++ ar_b2 l) ++ 41 :: 46 :: ar_post l)
      by (rewrite <- !app_assoc; reflexivity).
    rewrite span_not_app.
    2:{ apply not_in_app3; [apply blanks_not_in; auto 10|apply ident_not_in; auto 10|apply blanks_not_in; auto 10]. }
    destruct (ar_b1 l ++ ar_label l ++ ar_b2 l) eqn:E.
    + apply app_eq_nil in E. destruct E as [_ E]. apply app_eq_nil in E. destruct E as [E _].
      rewrite E in Hl. discriminate.
    + cbn [match_tail]. rewrite all_ws_blanks by assumption. reflexivity.
  - apply match_ident_ws_ok; assumption.
Qed.

Lemma att_aline_facts l : att_aline_ok l ->
  all_ws (render_att_aline l) = false /\
  match_arg_line (render_att_aline l) = None /\
  match_att_line (render_att_aline l) =
    Some (at_b1 l ++ at_a l ++ at_b2 l, at_b3 l ++ at_b l ++ at_b4 l) /\
  match_ident_ws (at_b1 l ++ at_a l ++ at_b2 l) = Some (at_a l) /\
  match_ident_ws (at_b3 l ++ at_b l ++ at_b4 l) = Some (at_b l).
Proof.
  intros [Hpre [Hb1 [Ha [Hb2 [Hb3 [Hb [Hb4 Hpost]]]]]]].
  apply blanks_ws in Hpre, Hb1, Hb2, Hb3, Hb4, Hpost.
  unfold render_att_aline. split; [|split; [|split; [|split]]].
  - cbn [app]. apply all_ws_nonws. reflexivity.
  - unfold match_arg_line. rewrite drop_ws_skip by assumption. cbn [app].
    rewrite drop_ws_nonws by reflexivity. rewrite strip_arg_open_att. reflexivity.
  - unfold match_att_line. rewrite drop_ws_skip by assumption. cbn [app].
    rewrite drop_ws_nonws by reflexivity. rewrite strip_att_open.
    replace (at_b1 l ++ at_a l ++ at_b2 l ++ 44 :: at_b3 l ++ at_b l ++ at_b4 l ++ 41 :: 46 :: at_post l)
      with ((at_b1 l ++ at_a l ++ at_b2 l) ++ 44 :: ((at_b3 l ++ at_b l ++ at_b4 l) ++ 41 :: 46 :: at_post l))
      by (rewrite <- !app_assoc; reflexivity).
    rewrite span_not_app.
    2:{ apply not_in_app3; [apply blanks_not_in; auto 10|apply ident_not_in; auto 10|apply blanks_not_in; auto 10]. }
    destruct (at_b1 l ++ at_a l ++ at_b2 l) eqn:E1.
    { apply app_eq_nil in E1. destruct E1 as [_ E]. apply app_eq_nil in E. destruct E as [E _].
      rewrite E in Ha. discriminate. }
    rewrite span_not_app.
    2:{ apply not_in_app3; [apply blanks_not_in; auto 10|apply ident_not_in; auto 10|apply blanks_not_in; auto 10]. }
    destruct (at_b3 l ++ at_b l ++ at_b4 l) eqn:E2.
    { apply app_eq_nil in E2. destruct E2 as [_ E]. apply app_eq_nil in E. destruct E as [E _].
      rewrite E in Hb. discriminate. }
    cbn [match_tail]. rewrite all_ws_blanks by assumption. reflexivity.
  - apply match_ident_ws_ok; assumption.
  - apply match_ident_ws_ok; assumption.
Qed.

(* ------------------------------------------------------------------ one step of the reader *)
Inductive astep := AStop (r : rd (fw str)) | ACont (labels : list str) (af : option (fw str)).

Definition apx_step (l : option str) (labels : list str) (af : option (fw str)) : astep :=
  match l with
  | None => AStop RdErr
  | Some l =>
      if all_ws l then ACont labels af
      else
        match match_arg_line l with
        | Some x =>
            match match_ident_ws x with
            | None => AStop RdErr
            | Some a => match af with Some _ => AStop RdErr | None => ACont (labels ++ [a]) af end
            end
        | None =>
            match match_att_line l with
            | Some (x1, x2) =>
                match match_ident_ws x1, match_ident_ws x2 with
                | Some a, Some b =>
                    match new_attack str str_eqb (apx_fw labels af) a b with
                    | (f', ROk) => ACont labels (Some f')
                    | _ => AStop RdErr
                    end
                | _, _ => AStop RdErr
                end
            | None => AStop RdErr
            end
        end
  end.

Lemma apx_lines_cons l r labels af :
  apx_lines (l :: r) labels af =
  match apx_step l labels af with AStop x => x | ACont labels' af' => apx_lines r labels' af' end.
Proof.
  unfold apx_step. cbn [apx_lines]. destruct l as [l|]; [|reflexivity].
  destruct (all_ws l); [reflexivity|].
  destruct (match_arg_line l) as [x|].
  - destruct (match_ident_ws x); [|reflexivity]. destruct af; reflexivity.
  - destruct (match_att_line l) as [[x1 x2]|]; [|reflexivity].
    destruct (match_ident_ws x1) as [a|]; [|reflexivity]. destruct (match_ident_ws x2) as [b|]; [|reflexivity].
    destruct (new_attack str str_eqb (apx_fw labels af) a b) as [f' [| |]]; reflexivity.
Qed.

Lemma apx_step_cases l labels af :
  apx_step l labels af = AStop RdErr \/
  exists labels' af', apx_step l labels af = ACont labels' af' /\ (af <> None -> af' <> None).
Proof.
  unfold apx_step. destruct l as [l|]; [|left; reflexivity].
  destruct (all_ws l); [right; exists labels, af; split; [reflexivity|auto]|].
  destruct (match_arg_line l) as [x|].
  - destruct (match_ident_ws x) as [a|]; [|left; reflexivity].
    destruct af; [left; reflexivity|]. right. exists (labels ++ [a]), None. split; [reflexivity|auto].
  - destruct (match_att_line l) as [[x1 x2]|]; [|left; reflexivity].
    destruct (match_ident_ws x1) as [a|]; [|left; reflexivity].
    destruct (match_ident_ws x2) as [b|]; [|left; reflexivity].
    destruct (new_attack str str_eqb (apx_fw labels af) a b) as [f' [| |]]; try (left; reflexivity).
    right. exists labels, (Some f'). split; [reflexivity|]. intros _; discriminate.
Qed.

(* totality *)
Lemma apx_lines_no_panic ls : forall labels af, apx_lines ls labels af <> RdPanic.
Proof.
  induction ls as [|l r IH]; intros labels af; [discriminate|].
  rewrite apx_lines_cons. destruct (apx_step_cases l labels af) as [H|[l' [a' [H _]]]]; rewrite H.
  - discriminate.
  - apply IH.
Qed.
Lemma read_apx_total bytes : read_apx bytes <> RdPanic.
Proof. apply apx_lines_no_panic. Qed.

Lemma apx_prefix pre : forall rest labels af,
  apx_lines (pre ++ rest) labels af = RdErr \/
  exists labels' af', apx_lines (pre ++ rest) labels af = apx_lines rest labels' af' /\
    (af <> None -> af' <> None).
Proof.
  induction pre as [|l pre IH]; intros rest labels af.
  - right. exists labels, af. split; [reflexivity|auto].
  - cbn [app]. rewrite apx_lines_cons.
    destruct (apx_step_cases l labels af) as [H|[l1 [a1 [H Hm]]]]; rewrite H; [left; reflexivity|].
    destruct (IH rest l1 a1) as [H2|[l2 [a2 [H2 Hm2]]]]; [left; assumption|].
    right. exists l2, a2. split; [assumption|auto].
Qed.

(* ------------------------------------------------------------------ rejection lemmas *)
(* a line with a property that makes the step fail in EVERY state *)
Lemma apx_rejects_line ls l : forall labels af, In l ls ->
  (forall labels' af', apx_step l labels' af' = AStop RdErr) -> apx_lines ls labels af = RdErr.
Proof.
  intros labels af Hin Hbad. apply in_split in Hin. destruct Hin as [pre [post ->]].
  destruct (apx_prefix pre (l :: post) labels af) as [H|[l' [a' [H _]]]]; [assumption|].
  rewrite H, apx_lines_cons, Hbad. reflexivity.
Qed.

(* invalid UTF-8 *)
Lemma apx_rejects_invalid_utf8 ls labels af : In None ls -> apx_lines ls labels af = RdErr.
Proof. intros Hin. apply (apx_rejects_line ls None labels af Hin). reflexivity. Qed.

(* neither blank, nor an `arg(..).` line, nor an `att(..,..).` line: bad keyword, missing
   parenthesis or terminator, `att` without a comma, junk *)
Lemma apx_rejects_syntax_error ls l labels af : In (Some l) ls ->
  all_ws l = false -> match_arg_line l = None -> match_att_line l = None ->
  apx_lines ls labels af = RdErr.
Proof.
  intros Hin H1 H2 H3. apply (apx_rejects_line ls (Some l) labels af Hin).
  intros l' a'. unfold apx_step. rewrite H1, H2, H3. reflexivity.
Qed.

(* an `arg(..).` line whose content is not blanks, identifier, blanks *)
Lemma apx_rejects_bad_arg_name ls l x labels af : In (Some l) ls ->
  all_ws l = false -> match_arg_line l = Some x -> match_ident_ws x = None ->
  apx_lines ls labels af = RdErr.
Proof.
  intros Hin H1 H2 H3. apply (apx_rejects_line ls (Some l) labels af Hin).
  intros l' a'. unfold apx_step. rewrite H1, H2, H3. reflexivity.
Qed.

(* an `att(..,..).` line one of whose two parts is not blanks, identifier, blanks (this is also
   what happens to `att(a,b,c).`: the second part is `b,c`) *)
Lemma apx_rejects_bad_att_names ls l x1 x2 labels af : In (Some l) ls ->
  all_ws l = false -> match_arg_line l = None -> match_att_line l = Some (x1, x2) ->
  (match_ident_ws x1 = None \/ match_ident_ws x2 = None) ->
  apx_lines ls labels af = RdErr.
Proof.
  intros Hin H1 H2 H3 H4. apply (apx_rejects_line ls (Some l) labels af Hin).
  intros l' a'. unfold apx_step. rewrite H1, H2, H3.
  destruct H4 as [H4|H4]; rewrite H4; [reflexivity|]. destruct (match_ident_ws x1); reflexivity.
Qed.

(* an argument declaration after an attack *)
Lemma apx_rejects_arg_after_att pre l1 mid l2 post x labels af :
  all_ws l1 = false -> match_arg_line l1 = None -> match_att_line l1 <> None ->
  all_ws l2 = false -> match_arg_line l2 = Some x ->
  apx_lines (pre ++ Some l1 :: mid ++ Some l2 :: post) labels af = RdErr.
Proof.
  intros H1 H2 H3 H4 H5.
  destruct (apx_prefix pre (Some l1 :: mid ++ Some l2 :: post) labels af) as [H|[la [aa [H _]]]]; [assumption|].
  rewrite H, apx_lines_cons.
  destruct (apx_step_cases (Some l1) la aa) as [Hs|[lb [ab [Hs _]]]]; rewrite Hs; [reflexivity|].
  assert (Hab : ab <> None).
  { unfold apx_step in Hs. rewrite H1, H2 in Hs.
    destruct (match_att_line l1) as [[x1 x2]|]; [|congruence].
    destruct (match_ident_ws x1) as [a|]; [|discriminate]. destruct (match_ident_ws x2) as [b|]; [|discriminate].
    destruct (new_attack str str_eqb (apx_fw la aa) a b) as [f' [| |]]; try discriminate.
    injection Hs as _ <-. discriminate. }
  destruct (apx_prefix mid (Some l2 :: post) lb ab) as [Hm|[lc [ac [Hm Hk]]]]; [assumption|].
  rewrite Hm, apx_lines_cons. specialize (Hk Hab). unfold apx_step. rewrite H4, H5.
  destruct (match_ident_ws x); [|reflexivity]. destruct ac; [reflexivity|congruence].
Qed.

(* ------------------------------------------------------------------ faithfulness *)
Definition decl_labels_of (items : list decl_item) : list str :=
  flat_map (fun i => match i with DArg l => [ar_label l] | DBlank _ => [] end) items.
Definition att_pairs_of (items : list atts_item) : list (str * str) :=
  flat_map (fun i => match i with AAtt l => [(at_a l, at_b l)] | ABlank _ => [] end) items.
Definition mkop (p : str * str) : op str := OpNewAtt (fst p) (snd p).

Lemma decls_run items : forall labels rest, Forall decl_item_ok items ->
  apx_lines (map Some (map decl_line items) ++ rest) labels None =
  apx_lines rest (labels ++ decl_labels_of items) None.
Proof.
  induction items as [|i items IH]; intros labels rest Hok.
  - cbn [map app decl_labels_of flat_map]. rewrite app_nil_r. reflexivity.
  - inversion Hok as [|? ? Hi Hr]; subst. cbn [map app]. rewrite apx_lines_cons.
    destruct i as [s|l]; cbn [decl_line decl_labels_of flat_map].
    + cbn [decl_item_ok] in Hi. unfold apx_step. rewrite all_ws_blanks by (apply blanks_ws, Hi).
      rewrite (IH labels rest Hr). reflexivity.
    + cbn [decl_item_ok] in Hi. destruct (arg_line_facts l Hi) as [H1 [H2 H3]].
      unfold apx_step. rewrite H1, H2, H3. rewrite (IH (labels ++ [ar_label l]) rest Hr).
      cbn [app]. rewrite <- app_assoc. reflexivity.
Qed.

Lemma str_eqb_spec x y : str_eqb x y = true <-> x = y.
Proof. apply str_eqb_eq. Qed.

Lemma dedup_In {L} (leqb : L -> L -> bool) (Hspec : forall x y, leqb x y = true <-> x = y)
  (l : list L) : forall seen x, In x (seen ++ l) -> In x (seen ++ dedup leqb seen l).
Proof.
  induction l as [|y l IH]; intros seen x Hin; cbn [dedup]; [assumption|].
  destruct (existsb (leqb y) seen) eqn:E.
  - apply IH. apply in_app_or in Hin. apply in_or_app. destruct Hin as [H|[<-|H]]; auto.
    left. apply existsb_exists in E. destruct E as [z [Hz Hyz]]. apply Hspec in Hyz. subst z. assumption.
  - specialize (IH (seen ++ [y]) x). rewrite <- !app_assoc in IH. cbn [app] in IH. apply IH. exact Hin.
Qed.

Lemma find_label_init labels a : In a labels ->
  exists x, find_label str str_eqb (new_with_labels str str_eqb labels) a = Some x.
Proof.
  intros Hin. rewrite (new_with_labels_plain str str_eqb), (find_label_plain str str_eqb).
  destruct (position (str_eqb a) (dedup str_eqb [] labels)) eqn:P; [eexists; reflexivity|].
  exfalso. assert (Hd : In a (dedup str_eqb [] labels))
    by (apply (dedup_In str_eqb str_eqb_spec labels [] a); assumption).
  eapply position_None in P; [|exact Hd]. rewrite str_eqb_refl in P. discriminate.
Qed.

Lemma new_attack_found (f : fw str) a b x y :
  find_label str str_eqb (ls f) a = Some x -> find_label str str_eqb (ls f) b = Some y ->
  snd (new_attack str str_eqb f a b) = ROk /\ ls (fst (new_attack str str_eqb f a b)) = ls f.
Proof.
  intros Ha Hb. unfold new_attack. rewrite Ha, Hb.
  destruct (existsb _ _); cbn [fst snd ls]; split; reflexivity.
Qed.

Lemma atts_run labels items : forall af rest, Forall atts_item_ok items ->
  (forall p, In p (att_pairs_of items) -> In (fst p) labels /\ In (snd p) labels) ->
  ls (apx_fw labels af) = new_with_labels str str_eqb labels ->
  exists af',
    apx_lines (map Some (map atts_line items) ++ rest) labels af = apx_lines rest labels af' /\
    apx_fw labels af' = run_ops str str_eqb (apx_fw labels af) (map mkop (att_pairs_of items)) /\
    ls (apx_fw labels af') = new_with_labels str str_eqb labels.
Proof.
  induction items as [|i items IH]; intros af rest Hok Hdecl Hls.
  - exists af. cbn [map app att_pairs_of flat_map]. split; [reflexivity|]. split; [reflexivity|assumption].
  - inversion Hok as [|? ? Hi Hr]; subst. cbn [map app]. rewrite apx_lines_cons.
    destruct i as [s|l]; cbn [atts_line].
    + cbn [atts_item_ok] in Hi. unfold apx_step. rewrite all_ws_blanks by (apply blanks_ws, Hi).
      apply (IH af rest Hr); [|assumption]. intros p Hp. apply Hdecl. exact Hp.
    + cbn [atts_item_ok] in Hi. destruct (att_aline_facts l Hi) as [H1 [H2 [H3 [H4 H5]]]].
      unfold apx_step. rewrite H1, H2, H3, H4, H5.
      destruct (Hdecl (at_a l, at_b l)) as [Ha Hb]; [cbn [att_pairs_of flat_map app]; left; reflexivity|].
      cbn [fst snd] in Ha, Hb.
      destruct (find_label_init labels _ Ha) as [x Hx]. destruct (find_label_init labels _ Hb) as [y Hy].
      rewrite <- Hls in Hx, Hy.
      destruct (new_attack_found (apx_fw labels af) _ _ x y Hx Hy) as [Hr1 Hr2].
      destruct (new_attack str str_eqb (apx_fw labels af) (at_a l) (at_b l)) as [f' r] eqn:En.
      cbn [fst snd] in Hr1, Hr2. subst r.
      destruct (IH (Some f') rest Hr) as [af' [E1 [E2 E3]]].
      * intros p Hp. apply Hdecl. cbn [att_pairs_of flat_map]. right. exact Hp.
      * cbn [apx_fw]. rewrite Hr2. exact Hls.
      * exists af'. split; [exact E1|]. split; [|exact E3].
        rewrite E2. cbn [apx_fw att_pairs_of flat_map app map]. unfold run_ops. cbn [fold_left mkop step fst snd].
        rewrite En. reflexivity.
Qed.

(* (b) every rendering of every abstract Aspartix instance is read as that instance *)
Lemma apx_faithful f eols fnl : apx_file_ok f -> final_ok (apx_file_lines f) fnl ->
  read_apx (render_lines (apx_file_lines f) eols fnl) = RdOk (apx_result (decl_labels f) (att_pairs f)).
Proof.
  intros [Hd [Ha Hdecl]] Hfin. unfold read_apx.
  rewrite lines_render; [|clear Hfin|assumption].
  2:{ unfold apx_file_lines. apply Forall_app. split; apply Forall_forall; intros s Hs;
      apply in_map_iff in Hs; destruct Hs as [i [<- Hi]].
      - rewrite Forall_forall in Hd. specialize (Hd _ Hi). destruct i as [s|l]; cbn [decl_line decl_item_ok] in *.
        + apply blanks_clean, Hd.
        + destruct Hd as [H1 [H2 [H3 [H4 H5]]]]. unfold render_arg_line, clean.
          apply Forall_app; split; [apply blanks_clean; assumption|].
          apply Forall_app; split; [repeat constructor; unfold scalar; lia|].
          apply Forall_app; split; [apply blanks_clean; assumption|].
          apply Forall_app; split; [apply ident_clean; assumption|].
          apply Forall_app; split; [apply blanks_clean; assumption|].
          apply Forall_app; split; [repeat constructor; unfold scalar; lia|apply blanks_clean; assumption].
      - rewrite Forall_forall in Ha. specialize (Ha _ Hi). destruct i as [s|l]; cbn [atts_line atts_item_ok] in *.
        + apply blanks_clean, Ha.
        + destruct Ha as [H1 [H2 [H3 [H4 [H5 [H6 [H7 H8]]]]]]]. unfold render_att_aline, clean.
          apply Forall_app; split; [apply blanks_clean; assumption|].
          apply Forall_app; split; [repeat constructor; unfold scalar; lia|].
          apply Forall_app; split; [apply blanks_clean; assumption|].
          apply Forall_app; split; [apply ident_clean; assumption|].
          apply Forall_app; split; [apply blanks_clean; assumption|].
          apply Forall_app; split; [repeat constructor; unfold scalar; lia|].
          apply Forall_app; split; [apply blanks_clean; assumption|].
          apply Forall_app; split; [apply ident_clean; assumption|].
          apply Forall_app; split; [apply blanks_clean; assumption|].
          apply Forall_app; split; [repeat constructor; unfold scalar; lia|apply blanks_clean; assumption]. }
  unfold apx_file_lines. rewrite map_app. rewrite decls_run by assumption. cbn [app].
  destruct (atts_run (decl_labels_of (a_decls f)) (a_atts f) None [] Ha) as [af' [E1 [E2 _]]].
  - exact Hdecl.
  - reflexivity.
  - rewrite app_nil_r in E1. rewrite E1. cbn [apx_lines]. rewrite E2. reflexivity.
Qed.

(* ================================================================== C13: undeclared arguments, read_arg_from_str *)
From Crusta Require Import Proofs.StoreProofs.

(* ------------------------------------------------------------------ undeclared arguments *)
(* the label an `arg(..).` line declares (none for any other line) *)
Definition decl1 (l : option str) : list str :=
  match l with
  | None => []
  | Some l =>
      if all_ws l then []
      else match match_arg_line l with
           | Some x => match match_ident_ws x with Some a => [a] | None => [] end
           | None => []
           end
  end.
(* the labels declared by the `arg` lines among [ls], in order *)
Definition declared_labels (ls : list (option str)) : list str := flat_map decl1 ls.

Lemma new_attack_ls (f : fw str) a b : ls (fst (new_attack str str_eqb f a b)) = ls f.
Proof.
  unfold new_attack. destruct (find_label str str_eqb (ls f) a); [|reflexivity].
  destruct (find_label str str_eqb (ls f) b); [|reflexivity]. destruct (existsb _ _); reflexivity.
Qed.

Definition ls_inv (labels : list str) (af : option (fw str)) : Prop :=
  ls (apx_fw labels af) = new_with_labels str str_eqb labels.

Lemma apx_step_decl l labels af : ls_inv labels af ->
  apx_step l labels af = AStop RdErr \/
  exists af', apx_step l labels af = ACont (labels ++ decl1 l) af' /\ ls_inv (labels ++ decl1 l) af'.
Proof.
  intros Hinv. unfold apx_step, decl1. destruct l as [l|]; [|left; reflexivity].
  destruct (all_ws l).
  { right. exists af. rewrite app_nil_r. split; [reflexivity|exact Hinv]. }
  destruct (match_arg_line l) as [x|].
  - destruct (match_ident_ws x) as [a|]; [|left; reflexivity].
    destruct af as [f|]; [left; reflexivity|]. right. exists None. split; [reflexivity|reflexivity].
  - destruct (match_att_line l) as [[x1 x2]|]; [|left; reflexivity].
    destruct (match_ident_ws x1) as [a|]; [|left; reflexivity].
    destruct (match_ident_ws x2) as [b|]; [|left; reflexivity].
    pose proof (new_attack_ls (apx_fw labels af) a b) as Hls.
    destruct (new_attack str str_eqb (apx_fw labels af) a b) as [f' [| |]]; try (left; reflexivity).
    right. exists (Some f'). rewrite app_nil_r. split; [reflexivity|].
    unfold ls_inv. cbn [apx_fw fst] in *. rewrite Hls. exact Hinv.
Qed.

Lemma apx_prefix_decl pre : forall rest labels af, ls_inv labels af ->
  apx_lines (pre ++ rest) labels af = RdErr \/
  exists af', apx_lines (pre ++ rest) labels af = apx_lines rest (labels ++ declared_labels pre) af' /\
              ls_inv (labels ++ declared_labels pre) af'.
Proof.
  induction pre as [|l pre IH]; intros rest labels af Hinv.
  - right. exists af. cbn [declared_labels flat_map app]. rewrite app_nil_r. split; [reflexivity|exact Hinv].
  - cbn [app]. rewrite apx_lines_cons.
    destruct (apx_step_decl l labels af Hinv) as [H|[a1 [H Hinv1]]]; rewrite H; [left; reflexivity|].
    destruct (IH rest _ a1 Hinv1) as [H2|[a2 [H2 Hinv2]]]; [left; exact H2|].
    right. exists a2. cbn [declared_labels flat_map]. fold (declared_labels pre).
    rewrite app_assoc. split; assumption.
Qed.

Lemma dedup_sub {L} (leqb : L -> L -> bool) (l : list L) : forall seen x, In x (dedup leqb seen l) -> In x l.
Proof.
  induction l as [|y l IH]; intros seen x Hin; cbn [dedup] in Hin; [assumption|].
  destruct (existsb (leqb y) seen).
  - right. eapply IH, Hin.
  - destruct Hin as [->|Hin]; [left; reflexivity|right; eapply IH, Hin].
Qed.

Lemma find_label_undeclared labels a : ~ In a labels ->
  find_label str str_eqb (new_with_labels str str_eqb labels) a = None.
Proof.
  intros Hn. rewrite (new_with_labels_plain str str_eqb), (find_label_plain str str_eqb).
  apply position_None_iff. destruct (existsb (str_eqb a) (dedup str_eqb [] labels)) eqn:E; [|reflexivity].
  exfalso. apply existsb_exists in E. destruct E as [y [Hy Hay]]. apply str_eqb_eq in Hay. subst y.
  apply Hn. eapply dedup_sub, Hy.
Qed.

(* an `att(a,b).` line one of whose names was not declared by an `arg` line before it: error,
   whatever precedes (if what precedes is not accepted, that is an error too) and follows *)
Lemma apx_rejects_undeclared pre l post x1 x2 a b :
  all_ws l = false -> match_arg_line l = None -> match_att_line l = Some (x1, x2) ->
  match_ident_ws x1 = Some a -> match_ident_ws x2 = Some b ->
  (~ In a (declared_labels pre) \/ ~ In b (declared_labels pre)) ->
  apx_lines (pre ++ Some l :: post) [] None = RdErr.
Proof.
  intros H1 H2 H3 H4 H5 Hun.
  destruct (apx_prefix_decl pre (Some l :: post) [] None eq_refl) as [H|[af' [H Hinv]]]; [exact H|].
  rewrite H, apx_lines_cons. cbn [app] in *. unfold apx_step. rewrite H1, H2, H3, H4, H5.
  unfold new_attack. unfold ls_inv in Hinv. rewrite Hinv.
  destruct Hun as [Hun|Hun].
  - rewrite (find_label_undeclared _ a Hun). reflexivity.
  - rewrite (find_label_undeclared _ b Hun).
    destruct (find_label str str_eqb (new_with_labels str str_eqb (declared_labels pre)) a); reflexivity.
Qed.

(* ------------------------------------------------------------------ read_arg_from_str *)
Lemma snd_functional {A B} (l : list (A * B)) x y k :
  NoDup (map snd l) -> In (x, k) l -> In (y, k) l -> x = y.
Proof.
  induction l as [|[z k'] l IH]; intros Hnd Hx Hy; [destruct Hx|].
  cbn [map snd] in Hnd. inversion Hnd as [|? ? Hn Hnd']; subst.
  destruct Hx as [Hx|Hx]; destruct Hy as [Hy|Hy].
  - congruence.
  - injection Hx as -> ->. exfalso. apply Hn. apply in_map_iff. exists (y, k). split; [reflexivity|assumption].
  - injection Hy as -> ->. exfalso. apply Hn. apply in_map_iff. exists (x, k). split; [reflexivity|assumption].
  - apply IH; assumption.
Qed.

Lemma find_label_iff (f : fw str) l id : StoreProofs.Inv str f ->
  (find_label str str_eqb (ls f) l = Some id <-> In (id, l) (iter_args str f)).
Proof.
  intros Hinv. split.
  - intros H. apply (find_label_Some str str_eqb str_eqb_spec f l id Hinv) in H.
    unfold iter_args, ls_iter. apply (live_slot str f id l Hinv). exact H.
  - intros Hin. rewrite (find_label_sfind str str_eqb f l Hinv).
    unfold s_find, abs. cbn [live].
    destruct (find (fun p => str_eqb l (snd p)) (iter_args str f)) as [[i l']|] eqn:E.
    + apply find_some in E. destruct E as [Hi Hl]. cbn [snd] in Hl. apply str_eqb_eq in Hl. subst l'.
      cbn [option_map fst]. f_equal. eapply snd_functional; [|exact Hi|exact Hin].
      exact (inv_lab str f Hinv).
    + exfalso. pose proof (find_none _ _ E _ Hin) as Hf. cbn [snd] in Hf. rewrite str_eqb_refl in Hf. discriminate.
Qed.

(* AspartixReader::read_arg_from_str on ANY reachable store *)
Lemma apx_read_arg_store (f : fw str) s :
  (exists ls os, f = run_ops str str_eqb (fw_new_with_labels str str_eqb ls) os) ->
  (forall k l, apx_read_arg f s = RdOk (k, l) <-> l = s /\ In (k, s) (iter_args str f)) /\
  (apx_read_arg f s = RdErr <-> ~ In s (map snd (iter_args str f))) /\
  apx_read_arg f s <> RdPanic.
Proof.
  intros Hr. pose proof (reach_inv str str_eqb str_eqb_spec f Hr) as Hinv.
  unfold apx_read_arg. split; [|split].
  - intros k l. destruct (find_label str str_eqb (ls f) s) as [id|] eqn:E.
    + apply (find_label_iff f s id Hinv) in E. split.
      * intros [= <- <-]. split; [reflexivity|exact E].
      * intros [-> Hin]. do 2 f_equal. apply (find_label_iff f s k Hinv) in Hin.
        apply (find_label_iff f s id Hinv) in E. congruence.
    + split; [discriminate|]. intros [_ Hin]. apply (find_label_iff f s k Hinv) in Hin. congruence.
  - destruct (find_label str str_eqb (ls f) s) as [id|] eqn:E.
    + split; [discriminate|]. intros Hn. exfalso. apply Hn.
      apply (find_label_iff f s id Hinv) in E. exact (in_map snd _ _ E).
    + split; [|reflexivity]. intros _ Hin. apply in_map_iff in Hin. destruct Hin as [[k l] [Hl Hin]].
      cbn [snd] in Hl. subst l. apply (find_label_iff f s k Hinv) in Hin. congruence.
  - destruct (find_label str str_eqb (ls f) s); discriminate.
Qed.

Lemma dedup_In_iff (l : list str) x : In x (dedup str_eqb [] l) <-> In x l.
Proof.
  split; [apply dedup_sub|]. intros H. apply (dedup_In str_eqb str_eqb_spec l [] x). exact H.
Qed.

Lemma run_ops_ls os : forall f : fw str,
  Forall (fun o => match o with OpNewAtt _ _ => True | _ => False end) os ->
  ls (run_ops str str_eqb f os) = ls f.
Proof.
  unfold run_ops. induction os as [|o os IH]; intros f Hall; cbn [fold_left]; [reflexivity|].
  inversion Hall as [|? ? Ho Hos]; subst. rewrite (IH _ Hos).
  destruct o as [l|l|a b|a b]; try destruct Ho. cbn [step]. apply new_attack_ls.
Qed.

(* ... and on the framework the reader returns *)
Lemma apx_read_arg_exact decls atts s :
  (forall k l, apx_read_arg (apx_result decls atts) s = RdOk (k, l) <->
               l = s /\ In (k, s) (iter_args str (apx_result decls atts))) /\
  (apx_read_arg (apx_result decls atts) s = RdErr <-> ~ In s decls) /\
  apx_read_arg (apx_result decls atts) s <> RdPanic /\
  iter_args str (apx_result decls atts) = numbered 0 (dedup str_eqb [] decls).
Proof.
  assert (Hr : exists ls os, apx_result decls atts = run_ops str str_eqb (fw_new_with_labels str str_eqb ls) os).
  { eexists; eexists; reflexivity. }
  assert (Hargs : iter_args str (apx_result decls atts) = numbered 0 (dedup str_eqb [] decls)).
  { unfold iter_args, apx_result. rewrite run_ops_ls.
    - apply (init_iter_args str str_eqb).
    - apply Forall_forall. intros o Ho. apply in_map_iff in Ho. destruct Ho as [p [<- _]]. exact I. }
  destruct (apx_read_arg_store _ s Hr) as [H1 [H2 H3]].
  split; [exact H1|]. split; [|split; [exact H3|exact Hargs]].
  rewrite H2, Hargs, map_snd_numbered, dedup_In_iff. reflexivity.
Qed.
