(* Proofs for Properties/C12.v: the tombstoned framework store (Model/Store.v) refines the
   set-level specification [s_step] under any update history.
   Structure: a representation invariant [Inv], established by [fw_new_with_labels] and
   preserved by every [step]; each operation is shown, under [Inv], to commute with [abs]. *)
From Crusta Require Import Model.Store Proofs.StoreBase.
From Coq Require Import Lia Permutation.
From Coq Require Export Sorted.

(* ------------------------------------------------------------------------------------ *)
(* (2) errors leave the store unchanged: needs neither the invariant nor [leqb_spec]     *)
(* ------------------------------------------------------------------------------------ *)
Section ErrUnchanged.
Variable L : Type.
Variable leqb : L -> L -> bool.

Lemma err_unchanged : forall (f : fw L) (o : op L),
  snd (step L leqb f o) = RErr -> fst (step L leqb f o) = f.
Proof.
  intros f [l|l|a b|a b]; cbn [step].
  - cbn [snd]. discriminate.
  - unfold remove_argument.
    destruct (remove_label L leqb (ls f) l) as [ls' [id|]] eqn:E; [|reflexivity].
    destruct (fold_left try_remove_attack _ _) as [atts' nrem'] eqn:E2.
    cbn [snd]. discriminate.
  - unfold new_attack.
    destruct (find_label L leqb (ls f) a) as [x|]; [|reflexivity].
    destruct (find_label L leqb (ls f) b) as [y|]; [|reflexivity].
    destruct (existsb _ _); cbn [snd]; discriminate.
  - unfold remove_attack.
    destruct (find_label L leqb (ls f) a) as [x|]; [|reflexivity].
    destruct (find_label L leqb (ls f) b) as [y|]; [|reflexivity].
    destruct (position _ (nth x (afrom f) [])) as [pf|]; [|reflexivity].
    destruct (position _ (nth y (ato f) [])) as [pt|]; [|reflexivity].
    cbn [snd]. discriminate.
Qed.
End ErrUnchanged.

(* ------------------------------------------------------------------------------------ *)
Section Proofs.
Variable L : Type.
Variable leqb : L -> L -> bool.
Hypothesis leqb_spec : forall x y, leqb x y = true <-> x = y.

Notation fw := (fw L).
Notation op := (op L).
Notation lset := (lset L).
Notation step := (step L leqb).
Notation s_step := (s_step L leqb).
Notation s_find := (s_find L leqb).
Notation abs := (abs L).
Notation run_ops := (run_ops L leqb).
Notation init := (fw_new_with_labels L leqb).
Notation find_label := (find_label L leqb).
Notation slot_has := (slot_has L leqb).
Notation new_label := (new_label L leqb).
Notation new_argument := (new_argument L leqb).
Notation remove_argument := (remove_argument L leqb).
Notation new_attack := (new_attack L leqb).
Notation remove_attack := (remove_attack L leqb).
Notation fs := filter_some.

Lemma leqb_refl l : leqb l l = true.
Proof. apply leqb_spec. reflexivity. Qed.

Lemma pair_eqb_eq p q : pair_eqb p q = true <-> p = q.
Proof.
  destruct p as [a b], q as [c d]. unfold pair_eqb. cbn [fst snd].
  rewrite andb_true_iff, !Nat.eqb_eq. split; [intros [-> ->]; reflexivity|].
  intros H; injection H; auto.
Qed.

(* ---------------- the representation invariant ---------------- *)
Record Inv (f : fw) : Prop := {
  (* label slots: slot i is a tombstone or carries id i; live labels are distinct;
     n_removed counts the tombstones *)
  inv_id : forall i p, nth i (slots (ls f)) None = Some p -> fst p = i;
  inv_lab : NoDup (map snd (fs (slots (ls f))));
  inv_nrem : n_removed (ls f) + length (fs (slots (ls f))) = length (slots (ls f));
  (* one index vector per slot *)
  inv_lfrom : length (afrom f) = length (slots (ls f));
  inv_lto : length (ato f) = length (slots (ls f));
  (* attack table *)
  inv_nrema : n_removed_attacks f + length (fs (attacks f)) = length (attacks f);
  inv_live : forall k a b, nth k (attacks f) None = Some (a, b) ->
      nth a (slots (ls f)) None <> None /\ nth b (slots (ls f)) None <> None /\
      In k (nth a (afrom f) []) /\ In k (nth b (ato f) []);
  inv_from : forall a k, In k (nth a (afrom f) []) ->
      k < length (attacks f) /\ forall p, nth k (attacks f) None = Some p -> fst p = a;
  inv_to : forall a k, In k (nth a (ato f) []) ->
      k < length (attacks f) /\ forall p, nth k (attacks f) None = Some p -> snd p = a;
  inv_ndfrom : forall a, NoDup (nth a (afrom f) []);
  inv_ndto : forall a, NoDup (nth a (ato f) []);
  inv_ndatt : NoDup (fs (attacks f)) }.

(* ---------------- label slots ---------------- *)
Definition ids_ok (sl : list (option (nat * L))) : Prop :=
  forall i p, nth i sl None = Some p -> fst p = i.

Lemma ids_ok_snoc sl l : ids_ok sl -> ids_ok (sl ++ [Some (length sl, l)]).
Proof.
  intros H i p Hi.
  destruct (Nat.lt_ge_cases i (length sl)) as [Hlt|Hge].
  - rewrite app_nth1 in Hi by assumption. apply H; assumption.
  - rewrite app_nth2 in Hi by assumption.
    destruct (i - length sl) as [|[|n]] eqn:E; cbn [nth] in Hi; try discriminate.
    injection Hi as <-. cbn [fst]. lia.
Qed.

Lemma labels_snoc sl l :
  NoDup (map snd (fs sl)) -> position (slot_has l) sl = None ->
  NoDup (map snd (fs (sl ++ [Some (length sl, l)]))).
Proof.
  intros Hnd Hpos. rewrite fs_app, map_app. cbn [fs map snd].
  apply NoDup_snoc; [assumption|].
  intros Hin. apply in_map_iff in Hin. destruct Hin as [[i l'] [Heq Hin]].
  cbn [snd] in Heq. subst l'.
  apply In_fs_nth in Hin. destruct Hin as [k Hk].
  pose proof (nth_Some_lt _ _ _ Hk) as Hlt.
  pose proof (position_None _ _ Hpos (Some (i, l))) as Hf.
  rewrite <- Hk in Hf at 1. specialize (Hf (nth_In _ _ Hlt)).
  cbn [Store.slot_has] in Hf. rewrite leqb_refl in Hf. discriminate.
Qed.

Lemma position_slot l sl id :
  ids_ok sl -> position (slot_has l) sl = Some id -> nth id sl None = Some (id, l).
Proof.
  intros H Hp. destruct (position_Some _ _ _ None Hp) as [Hlt Hs].
  destruct (nth id sl None) as [[i l']|] eqn:E; cbn [Store.slot_has] in Hs; [|discriminate].
  apply leqb_spec in Hs. subst l'. specialize (H id _ E). cbn [fst] in H. subst i. reflexivity.
Qed.

Lemma find_sfind_off l sl off :
  (forall i p, nth i sl None = Some p -> fst p = off + i) ->
  option_map (Nat.add off) (position (slot_has l) sl) =
  option_map fst (find (fun p => leqb l (snd p)) (fs sl)).
Proof.
  revert off; induction sl as [|o r IH]; intros off H; [reflexivity|].
  assert (Hr : forall i p, nth i r None = Some p -> fst p = S off + i).
  { intros i p Hi. rewrite (H (S i) p Hi). lia. }
  specialize (IH (S off) Hr).
  assert (Hshift : option_map (Nat.add off) (option_map S (position (slot_has l) r)) =
                   option_map fst (find (fun p => leqb l (snd p)) (fs r))).
  { rewrite <- IH. destruct (position (slot_has l) r); cbn [option_map]; [f_equal; lia|reflexivity]. }
  destruct o as [[i l']|].
  - cbn [position Store.slot_has fs find snd].
    destruct (leqb l l') eqn:E; [|exact Hshift].
    cbn [option_map fst]. f_equal. rewrite <- (H 0 (i, l') eq_refl). reflexivity.
  - cbn [position Store.slot_has fs]. exact Hshift.
Qed.

Lemma find_label_sfind f l : Inv f -> find_label (ls f) l = s_find (abs f) l.
Proof.
  intros Hinv. unfold Store.find_label, Store.s_find, Store.abs, iter_args, ls_iter. cbn [live].
  rewrite <- (find_sfind_off l (slots (ls f)) 0) by exact (inv_id f Hinv).
  destruct (position (slot_has l) (slots (ls f))); reflexivity.
Qed.

Lemma find_label_Some f l id :
  Inv f -> find_label (ls f) l = Some id -> nth id (slots (ls f)) None = Some (id, l).
Proof. intros Hinv H. apply position_slot; [exact (inv_id f Hinv)|exact H]. Qed.

Lemma abs_eq (f : fw) n lv r :
  length (slots (ls f)) = n -> fs (slots (ls f)) = lv -> fs (attacks f) = r ->
  abs f = {| next_id := n; live := lv; rel := r |}.
Proof. intros <- <- <-. reflexivity. Qed.

(* ---------------- new_argument ---------------- *)
Lemma new_argument_ok f l : Inv f ->
  Inv (new_argument f l) /\ abs (new_argument f l) = fst (s_step (abs f) (OpNewArg l)).
Proof.
  intros Hinv. pose proof (find_label_sfind f l Hinv) as Hfind.
  cbn [Store.s_step]. rewrite <- Hfind.
  unfold Store.new_argument, Store.new_label.
  destruct (find_label (ls f) l) as [id|] eqn:E.
  - rewrite Nat.ltb_irrefl. split; [|reflexivity].
    destruct Hinv. constructor; cbn [ls attacks afrom ato n_removed_attacks]; assumption.
  - assert (Hlt : Nat.ltb (ls_len L (ls f))
        (ls_len L {| slots := slots (ls f) ++ [Some (length (slots (ls f)), l)];
                     n_removed := n_removed (ls f) |}) = true).
    { apply Nat.ltb_lt. unfold ls_len. cbn [slots n_removed]. rewrite app_length. cbn [length].
      pose proof (inv_nrem f Hinv). lia. }
    rewrite Hlt. split.
    + destruct Hinv as [Hid Hlab Hnrem Hlf Hlt' Hnra Hlive Hfrom Hto Hndf Hndt Hnda].
      constructor; cbn [ls attacks afrom ato n_removed_attacks slots n_removed];
        rewrite ?nth_app_default; auto.
      * apply ids_ok_snoc; assumption.
      * apply labels_snoc; assumption.
      * rewrite fs_app, !app_length. cbn [fs length]. lia.
      * rewrite !app_length. cbn [length]. lia.
      * rewrite !app_length. cbn [length]. lia.
      * intros k a b Hk. destruct (Hlive k a b Hk) as [Ha [Hb [Hka Hkb]]].
        assert (Hla : a < length (slots (ls f))).
        { destruct (nth a (slots (ls f)) None) eqn:Ea; [eapply nth_Some_lt; eassumption|congruence]. }
        assert (Hlb : b < length (slots (ls f))).
        { destruct (nth b (slots (ls f)) None) eqn:Eb; [eapply nth_Some_lt; eassumption|congruence]. }
        rewrite !app_nth1 by assumption. rewrite !nth_app_default. auto.
      * intros a k. rewrite nth_app_default. apply Hfrom.
      * intros a k. rewrite nth_app_default. apply Hto.
      * intros a. rewrite nth_app_default. apply Hndf.
      * intros a. rewrite nth_app_default. apply Hndt.
    + cbn [fst]. apply abs_eq; cbn [ls attacks slots].
      * rewrite app_length. cbn [length]. unfold Store.abs. cbn [next_id]. lia.
      * rewrite fs_app. reflexivity.
      * reflexivity.
Qed.

(* ---------------- attacks: membership test through afrom ---------------- *)
Lemma oatt_is_true (o : option (nat * nat)) p : oatt_is o p = true <-> o = Some p.
Proof.
  destruct o as [q|]; cbn [oatt_is]; [|split; discriminate].
  rewrite pair_eqb_eq. split; [intros ->; reflexivity|intros [= ->]; reflexivity].
Qed.

Lemma has_att_spec f a b : Inv f ->
  existsb (fun i => oatt_is (nth i (attacks f) None) (a, b)) (nth a (afrom f) []) =
  s_has_att L (abs f) (a, b).
Proof.
  intros Hinv. apply Bool.eq_iff_eq_true. unfold s_has_att, Store.abs, iter_attacks. cbn [rel].
  rewrite !existsb_exists. split.
  - intros [i [Hi Ho]]. apply oatt_is_true in Ho.
    exists (a, b). split; [|apply pair_eqb_eq; reflexivity].
    apply In_fs_nth. exists i; assumption.
  - intros [q [Hq Hp]]. apply pair_eqb_eq in Hp. subst q.
    apply In_fs_nth in Hq. destruct Hq as [k Hk]. exists k. split.
    + apply (inv_live f Hinv k a b Hk).
    + apply oatt_is_true; assumption.
Qed.

Definition step_good (f : fw) (o : op) (r : fw * result) : Prop :=
  Inv (fst r) /\
  snd r = snd (s_step (abs f) o) /\
  abs (fst r) = fst (s_step (abs f) o) /\
  snd r <> RPanic.

Lemma step_good_same f o res :
  Inv f -> s_step (abs f) o = (abs f, res) -> res <> RPanic -> step_good f o (f, res).
Proof.
  intros Hinv Hs Hres. unfold step_good. rewrite Hs. cbn [fst snd]. auto.
Qed.

(* ---------------- new_attack ---------------- *)
Lemma new_attack_ok f la lb : Inv f -> step_good f (OpNewAtt la lb) (new_attack f la lb).
Proof.
  intros Hinv. unfold Store.new_attack.
  pose proof (find_label_sfind f la Hinv) as Hfa.
  pose proof (find_label_sfind f lb Hinv) as Hfb.
  destruct (find_label (ls f) la) as [a|] eqn:Ea.
  2:{ apply step_good_same; [assumption| |discriminate]. cbn [Store.s_step]. rewrite <- Hfa. reflexivity. }
  destruct (find_label (ls f) lb) as [b|] eqn:Eb.
  2:{ apply step_good_same; [assumption| |discriminate]. cbn [Store.s_step]. rewrite <- Hfa, <- Hfb. reflexivity. }
  pose proof (has_att_spec f a b Hinv) as Hhas.
  destruct (existsb _ (nth a (afrom f) [])) eqn:Eex.
  { apply step_good_same; [assumption| |discriminate]. cbn [Store.s_step].
    rewrite <- Hfa, <- Hfb, <- Hhas. reflexivity. }
  unfold step_good. cbn [Store.s_step]. rewrite <- Hfa, <- Hfb, <- Hhas. cbn [fst snd].
  split; [|split; [reflexivity|split; [|discriminate]]].
  - pose proof (find_label_Some f la a Hinv Ea) as Hsa.
    pose proof (find_label_Some f lb b Hinv Eb) as Hsb.
    assert (Hnotin : ~ In (a, b) (fs (attacks f))).
    { intros Hin. apply In_fs_nth in Hin. destruct Hin as [k Hk].
      destruct (inv_live f Hinv k a b Hk) as [_ [_ [Hka _]]].
      assert (Htrue : existsb (fun i => oatt_is (nth i (attacks f) None) (a, b))
                        (nth a (afrom f) []) = true).
      { apply existsb_exists. exists k. split; [assumption|]. apply oatt_is_true; assumption. }
      congruence. }
    destruct Hinv as [Hid Hlab Hnrem Hlf Hlt Hnra Hlive Hfrom Hto Hndf Hndt Hnda].
    assert (Hla : a < length (afrom f)).
    { rewrite Hlf. eapply nth_Some_lt; eassumption. }
    assert (Hlb : b < length (ato f)).
    { rewrite Hlt. eapply nth_Some_lt; eassumption. }
    constructor; cbn [ls attacks afrom ato n_removed_attacks]; auto.
    + rewrite length_set_nth; assumption.
    + rewrite length_set_nth; assumption.
    + rewrite fs_app, !app_length. cbn [fs length]. lia.
    + intros k x y Hk.
      assert (Hold : forall x k, In k (nth x (afrom f) []) ->
                In k (nth x (set_nth a (nth a (afrom f) [] ++ [length (attacks f)]) (afrom f)) [])).
      { intros x0 k0 Hin. destruct (nth_set_nth_cases x0 a (nth a (afrom f) [] ++ [length (attacks f)]) [] (afrom f))
          as [[E [-> _]]|E]; rewrite E; [apply in_or_app; left|]; assumption. }
      assert (Hold' : forall x k, In k (nth x (ato f) []) ->
                In k (nth x (set_nth b (nth b (ato f) [] ++ [length (attacks f)]) (ato f)) [])).
      { intros x0 k0 Hin. destruct (nth_set_nth_cases x0 b (nth b (ato f) [] ++ [length (attacks f)]) [] (ato f))
          as [[E [-> _]]|E]; rewrite E; [apply in_or_app; left|]; assumption. }
      destruct (Nat.lt_ge_cases k (length (attacks f))) as [Hklt|Hkge].
      * rewrite app_nth1 in Hk by assumption.
        destruct (Hlive k x y Hk) as [Hx [Hy [Hkx Hky]]]. auto.
      * rewrite app_nth2 in Hk by assumption.
        destruct (k - length (attacks f)) as [|[|n]] eqn:E; cbn [nth] in Hk; try discriminate.
        injection Hk as <- <-.
        assert (k = length (attacks f)) by lia. subst k.
        split; [congruence|]. split; [congruence|].
        rewrite !nth_set_nth_eq by assumption.
        split; apply in_or_app; right; left; reflexivity.
    + intros x k Hin.
      assert (Hcase : In k (nth x (afrom f) []) \/ (x = a /\ k = length (attacks f))).
      { destruct (nth_set_nth_cases x a (nth a (afrom f) [] ++ [length (attacks f)]) [] (afrom f))
          as [[E [-> _]]|E]; rewrite E in Hin; [|auto].
        apply in_app_or in Hin. destruct Hin as [Hin|[<-|[]]]; auto. }
      rewrite app_length. cbn [length].
      destruct Hcase as [Hold|[-> ->]].
      * destruct (Hfrom x k Hold) as [H1 H2]. split; [lia|].
        intros p. rewrite app_nth1 by assumption. apply H2.
      * split; [lia|]. intros p. rewrite app_nth2, Nat.sub_diag by lia. cbn [nth].
        intros [= <-]. reflexivity.
    + intros x k Hin.
      assert (Hcase : In k (nth x (ato f) []) \/ (x = b /\ k = length (attacks f))).
      { destruct (nth_set_nth_cases x b (nth b (ato f) [] ++ [length (attacks f)]) [] (ato f))
          as [[E [-> _]]|E]; rewrite E in Hin; [|auto].
        apply in_app_or in Hin. destruct Hin as [Hin|[<-|[]]]; auto. }
      rewrite app_length. cbn [length].
      destruct Hcase as [Hold|[-> ->]].
      * destruct (Hto x k Hold) as [H1 H2]. split; [lia|].
        intros p. rewrite app_nth1 by assumption. apply H2.
      * split; [lia|]. intros p. rewrite app_nth2, Nat.sub_diag by lia. cbn [nth].
        intros [= <-]. reflexivity.
    + intros x.
      destruct (nth_set_nth_cases x a (nth a (afrom f) [] ++ [length (attacks f)]) [] (afrom f))
        as [[E [-> _]]|E]; rewrite E; [|apply Hndf].
      apply NoDup_snoc; [apply Hndf|]. intros Hin. destruct (Hfrom a _ Hin) as [H1 _]. lia.
    + intros x.
      destruct (nth_set_nth_cases x b (nth b (ato f) [] ++ [length (attacks f)]) [] (ato f))
        as [[E [-> _]]|E]; rewrite E; [|apply Hndt].
      apply NoDup_snoc; [apply Hndt|]. intros Hin. destruct (Hto b _ Hin) as [H1 _]. lia.
    + rewrite fs_app. cbn [fs]. apply NoDup_snoc; assumption.
  - apply abs_eq; cbn [ls attacks]; [reflexivity|reflexivity|].
    rewrite fs_app. reflexivity.
Qed.

(* ---------------- remove_attack ---------------- *)
Lemma fs_kill_one (l : list (option (nat * nat))) k p :
  NoDup (fs l) -> nth k l None = Some p ->
  fs (set_nth k None l) = filter (fun q => negb (pair_eqb q p)) (fs l).
Proof.
  intros Hnd Hk. apply fs_pointwise; [symmetry; apply length_set_nth|].
  intros j. rewrite nth_set_nth_default.
  destruct (Nat.eqb_spec j k) as [->|Hne].
  - rewrite Hk. replace (pair_eqb p p) with true by (symmetry; apply pair_eqb_eq; reflexivity).
    reflexivity.
  - destruct (nth j l None) as [q|] eqn:Ej; [|reflexivity].
    destruct (pair_eqb q p) eqn:Eq; cbn [negb]; [|reflexivity].
    apply pair_eqb_eq in Eq. subst q. exfalso. apply Hne.
    eapply NoDup_fs_inj; eassumption.
Qed.

Lemma remove_attack_ok f la lb : Inv f -> step_good f (OpRemAtt la lb) (remove_attack f la lb).
Proof.
  intros Hinv. unfold Store.remove_attack.
  pose proof (find_label_sfind f la Hinv) as Hfa.
  pose proof (find_label_sfind f lb Hinv) as Hfb.
  destruct (find_label (ls f) la) as [a|] eqn:Ea.
  2:{ apply step_good_same; [assumption| |discriminate]. cbn [Store.s_step]. rewrite <- Hfa. reflexivity. }
  destruct (find_label (ls f) lb) as [b|] eqn:Eb.
  2:{ apply step_good_same; [assumption| |discriminate]. cbn [Store.s_step]. rewrite <- Hfa, <- Hfb. reflexivity. }
  pose proof (has_att_spec f a b Hinv) as Hhas. rewrite position_existsb in Hhas.
  cbv zeta.
  destruct (position _ (nth a (afrom f) [])) as [pf|] eqn:Epf.
  2:{ apply step_good_same; [assumption| |discriminate]. cbn [Store.s_step].
      rewrite <- Hfa, <- Hfb, <- Hhas. reflexivity. }
  destruct (position_Some _ _ _ 0 Epf) as [Hpf Hpred].
  remember (nth pf (nth a (afrom f) []) 0) as k eqn:Ek.
  apply oatt_is_true in Hpred.
  assert (Hkin : In k (nth a (afrom f) [])) by (subst k; apply nth_In; assumption).
  destruct (inv_live f Hinv k a b Hpred) as [_ [_ [_ Hkto]]].
  destruct (position (Nat.eqb k) (nth b (ato f) [])) as [pt|] eqn:Ept.
  2:{ exfalso. pose proof (position_None _ _ Ept k Hkto) as Hf.
      rewrite Nat.eqb_refl in Hf. discriminate. }
  destruct (position_Some _ _ _ 0 Ept) as [Hpt Hpt_eq]. apply Nat.eqb_eq in Hpt_eq.
  assert (Hrel : fs (set_nth k None (attacks f)) =
                 filter (fun q => negb (pair_eqb q (a, b))) (fs (attacks f))).
  { apply fs_kill_one; [exact (inv_ndatt f Hinv)|assumption]. }
  unfold step_good. cbn [Store.s_step]. rewrite <- Hfa, <- Hfb, <- Hhas. cbn [fst snd].
  split; [|split; [reflexivity|split; [|discriminate]]].
  - destruct Hinv as [Hid Hlab Hnrem Hlf Hlt Hnra Hlive Hfrom Hto Hndf Hndt Hnda].
    assert (Hsubf : forall x k', In k' (nth x (set_nth a (swap_remove pf (nth a (afrom f) [])) (afrom f)) []) ->
                     In k' (nth x (afrom f) [])).
    { intros x k' Hin.
      destruct (nth_set_nth_cases x a (swap_remove pf (nth a (afrom f) [])) [] (afrom f))
        as [[E [-> _]]|E]; rewrite E in Hin; [|assumption].
      apply (swap_remove_In pf 0) in Hin; [tauto|assumption|apply Hndf]. }
    assert (Hsubt : forall x k', In k' (nth x (set_nth b (swap_remove pt (nth b (ato f) [])) (ato f)) []) ->
                     In k' (nth x (ato f) [])).
    { intros x k' Hin.
      destruct (nth_set_nth_cases x b (swap_remove pt (nth b (ato f) [])) [] (ato f))
        as [[E [-> _]]|E]; rewrite E in Hin; [|assumption].
      apply (swap_remove_In pt 0) in Hin; [tauto|assumption|apply Hndt]. }
    constructor; cbn [ls attacks afrom ato n_removed_attacks]; auto.
    + rewrite length_set_nth; assumption.
    + rewrite length_set_nth; assumption.
    + rewrite length_set_nth. pose proof (fs_set_nth_None_length k (attacks f) (a, b) Hpred). lia.
    + intros k' x y Hk'. rewrite nth_set_nth_default in Hk'.
      destruct (Nat.eqb_spec k' k) as [->|Hne]; [discriminate|].
      destruct (Hlive k' x y Hk') as [Hx [Hy [Hkx Hky]]].
      split; [assumption|]. split; [assumption|]. split.
      * destruct (nth_set_nth_cases x a (swap_remove pf (nth a (afrom f) [])) [] (afrom f))
          as [[E [-> _]]|E]; rewrite E; [|assumption].
        apply (swap_remove_In pf 0); [assumption|apply Hndf|]. split; [assumption|congruence].
      * destruct (nth_set_nth_cases y b (swap_remove pt (nth b (ato f) [])) [] (ato f))
          as [[E [-> _]]|E]; rewrite E; [|assumption].
        apply (swap_remove_In pt 0); [assumption|apply Hndt|]. split; [assumption|congruence].
    + intros x k' Hin. apply Hsubf in Hin. rewrite length_set_nth.
      destruct (Hfrom x k' Hin) as [H1 H2]. split; [assumption|].
      intros p Hp. rewrite nth_set_nth_default in Hp.
      destruct (Nat.eqb k' k); [discriminate|auto].
    + intros x k' Hin. apply Hsubt in Hin. rewrite length_set_nth.
      destruct (Hto x k' Hin) as [H1 H2]. split; [assumption|].
      intros p Hp. rewrite nth_set_nth_default in Hp.
      destruct (Nat.eqb k' k); [discriminate|auto].
    + intros x.
      destruct (nth_set_nth_cases x a (swap_remove pf (nth a (afrom f) [])) [] (afrom f))
        as [[E [-> _]]|E]; rewrite E; [|apply Hndf].
      apply swap_remove_NoDup; [assumption|apply Hndf].
    + intros x.
      destruct (nth_set_nth_cases x b (swap_remove pt (nth b (ato f) [])) [] (ato f))
        as [[E [-> _]]|E]; rewrite E; [|apply Hndt].
      apply swap_remove_NoDup; [assumption|apply Hndt].
    + rewrite Hrel. apply NoDup_filter. assumption.
  - apply abs_eq; cbn [ls attacks]; [reflexivity|reflexivity|]. exact Hrel.
Qed.

(* ---------------- remove_argument ---------------- *)
Lemma try_spec acc i :
  let r := try_remove_attack acc i in
  length (fst r) = length (fst acc) /\
  (forall j, nth j (fst r) None = if Nat.eqb j i then None else nth j (fst acc) None) /\
  (snd acc + length (fs (fst acc)) = length (fst acc) ->
   snd r + length (fs (fst r)) = length (fst r)).
Proof.
  unfold try_remove_attack. destruct (nth i (fst acc) None) as [p|] eqn:E; cbn [fst snd].
  - split; [apply length_set_nth|]. split.
    + intros j. apply nth_set_nth_default.
    + intros H. rewrite length_set_nth.
      pose proof (fs_set_nth_None_length i (fst acc) p E). lia.
  - split; [reflexivity|]. split; [|auto].
    intros j. destruct (Nat.eqb_spec j i) as [->|Hne]; auto.
Qed.

Lemma fold_try_spec idx : forall acc,
  let r := fold_left try_remove_attack idx acc in
  length (fst r) = length (fst acc) /\
  (forall j, nth j (fst r) None =
             if existsb (Nat.eqb j) idx then None else nth j (fst acc) None) /\
  (snd acc + length (fs (fst acc)) = length (fst acc) ->
   snd r + length (fs (fst r)) = length (fst r)).
Proof.
  induction idx as [|i r IH]; intros acc; cbn [fold_left existsb].
  - auto.
  - destruct (IH (try_remove_attack acc i)) as [H1 [H2 H3]].
    destruct (try_spec acc i) as [T1 [T2 T3]].
    split; [congruence|]. split; [|auto].
    intros j. rewrite H2, T2.
    destruct (Nat.eqb j i); cbn [orb]; [destruct (existsb (Nat.eqb j) r); reflexivity|reflexivity].
Qed.

Lemma fs_kill_slot (sl : list (option (nat * L))) id l :
  ids_ok sl -> nth id sl None = Some (id, l) ->
  fs (set_nth id None sl) = filter (fun p => negb (Nat.eqb (fst p) id)) (fs sl).
Proof.
  intros Hid Hsl. apply fs_pointwise; [symmetry; apply length_set_nth|].
  intros j. rewrite nth_set_nth_default.
  destruct (Nat.eqb_spec j id) as [->|Hne].
  - rewrite Hsl. cbn [fst]. rewrite Nat.eqb_refl. reflexivity.
  - destruct (nth j sl None) as [p|] eqn:Ej; [|reflexivity].
    rewrite (Hid j p Ej). destruct (Nat.eqb_spec j id); [contradiction|reflexivity].
Qed.

Lemma remove_argument_ok f l : Inv f -> step_good f (OpRemArg l) (remove_argument f l).
Proof.
  intros Hinv. unfold Store.remove_argument, remove_label.
  pose proof (find_label_sfind f l Hinv) as Hfind.
  destruct (find_label (ls f) l) as [id|] eqn:E.
  2:{ apply step_good_same; [assumption| |discriminate]. cbn [Store.s_step]. rewrite <- Hfind. reflexivity. }
  pose proof (find_label_Some f l id Hinv E) as Hsl.
  pose proof (fold_try_spec (nth id (afrom f) [] ++ nth id (ato f) [])
                (attacks f, n_removed_attacks f)) as Hspec.
  cbv zeta in Hspec.
  destruct (fold_left try_remove_attack _ _) as [atts' nrem'] eqn:Efold.
  cbn [fst snd] in Hspec. destruct Hspec as [Hlen [Hnth Hcnt]].
  destruct Hinv as [Hid Hlab Hnrem Hlf Hlt Hnra Hlive Hfrom Hto Hndf Hndt Hnda].
  (* the attack table after the fold *)
  assert (Hdead : forall j, In j (nth id (afrom f) [] ++ nth id (ato f) []) -> nth j atts' None = None).
  { intros j Hj. rewrite Hnth. apply existsb_eqb_In in Hj. rewrite Hj. reflexivity. }
  assert (Hkeep : forall j, ~ In j (nth id (afrom f) [] ++ nth id (ato f) []) ->
                    nth j atts' None = nth j (attacks f) None).
  { intros j Hj. rewrite Hnth.
    destruct (existsb (Nat.eqb j) (nth id (afrom f) [] ++ nth id (ato f) [])) eqn:Ex; [|reflexivity].
    apply existsb_eqb_In in Ex. contradiction. }
  assert (HC : forall j a b, nth j atts' None = Some (a, b) ->
                 nth j (attacks f) None = Some (a, b) /\ a <> id /\ b <> id).
  { intros j a b Hj. rewrite Hnth in Hj.
    destruct (existsb (Nat.eqb j) (nth id (afrom f) [] ++ nth id (ato f) [])) eqn:Ex; [discriminate|].
    assert (Hnin : ~ In j (nth id (afrom f) [] ++ nth id (ato f) [])).
    { intros Hin. apply existsb_eqb_In in Hin. congruence. }
    destruct (Hlive j a b Hj) as [_ [_ [Hja Hjb]]].
    split; [assumption|]. split; intros ->; apply Hnin, in_or_app; auto. }
  assert (HD : forall j a b, nth j (attacks f) None = Some (a, b) -> a <> id -> b <> id ->
                 nth j atts' None = Some (a, b)).
  { intros j a b Hj Ha Hb. rewrite Hkeep; [assumption|].
    intros Hin. apply in_app_or in Hin. destruct Hin as [Hin|Hin].
    - destruct (Hfrom id j Hin) as [_ H2]. specialize (H2 _ Hj). cbn [fst] in H2. congruence.
    - destruct (Hto id j Hin) as [_ H2]. specialize (H2 _ Hj). cbn [snd] in H2. congruence. }
  assert (Hrel : fs atts' =
                 filter (fun p => negb (Nat.eqb (fst p) id) && negb (Nat.eqb (snd p) id))
                        (fs (attacks f))).
  { apply fs_pointwise; [symmetry; assumption|].
    intros j. destruct (nth j (attacks f) None) as [[a b]|] eqn:Ej.
    - cbn [fst snd].
      destruct (Nat.eqb_spec a id) as [->|Ha]; cbn [negb andb].
      { apply Hdead. apply in_or_app. left. apply (Hlive j id b Ej). }
      destruct (Nat.eqb_spec b id) as [->|Hb]; cbn [negb].
      { apply Hdead. apply in_or_app. right. apply (Hlive j a id Ej). }
      apply HD; assumption.
    - rewrite Hnth, Ej. destruct (existsb _ _); reflexivity. }
  assert (Hlive' : fs (set_nth id None (slots (ls f))) =
                   filter (fun p => negb (Nat.eqb (fst p) id)) (fs (slots (ls f)))).
  { eapply fs_kill_slot; eassumption. }
  unfold step_good. cbn [Store.s_step]. rewrite <- Hfind. cbn [fst snd].
  split; [|split; [reflexivity|split; [|discriminate]]].
  - constructor; cbn [ls attacks afrom ato n_removed_attacks slots n_removed].
    + intros i p Hi. rewrite nth_set_nth_default in Hi.
      destruct (Nat.eqb i id); [discriminate|apply Hid; assumption].
    + rewrite Hlive'. apply NoDup_map_filter. assumption.
    + rewrite length_set_nth.
      pose proof (fs_set_nth_None_length id (slots (ls f)) (id, l) Hsl). lia.
    + rewrite !length_set_nth. assumption.
    + rewrite !length_set_nth. assumption.
    + apply Hcnt. assumption.
    + intros k a b Hk. destruct (HC k a b Hk) as [Hk0 [Ha Hb]].
      destruct (Hlive k a b Hk0) as [Hx [Hy [Hkx Hky]]].
      rewrite !nth_set_nth_neq by congruence. auto.
    + intros a k Hin. rewrite nth_set_nth_default in Hin.
      destruct (Nat.eqb a id); [destruct Hin|].
      destruct (Hfrom a k Hin) as [H1 H2]. rewrite Hlen. split; [assumption|].
      intros [x y] Hp. apply H2. apply (HC k x y Hp).
    + intros a k Hin. rewrite nth_set_nth_default in Hin.
      destruct (Nat.eqb a id); [destruct Hin|].
      destruct (Hto a k Hin) as [H1 H2]. rewrite Hlen. split; [assumption|].
      intros [x y] Hp. apply H2. apply (HC k x y Hp).
    + intros a. rewrite nth_set_nth_default. destruct (Nat.eqb a id); [constructor|apply Hndf].
    + intros a. rewrite nth_set_nth_default. destruct (Nat.eqb a id); [constructor|apply Hndt].
    + rewrite Hrel. apply NoDup_filter. assumption.
  - apply abs_eq; cbn [ls attacks slots].
    + rewrite length_set_nth. reflexivity.
    + exact Hlive'.
    + exact Hrel.
Qed.

(* ---------------- the initial state ---------------- *)
Definition lset_ok (s : lset) : Prop :=
  ids_ok (slots s) /\ NoDup (map snd (fs (slots s))) /\
  length (fs (slots s)) = length (slots s) /\ n_removed s = 0.

Lemma new_label_ok s l : lset_ok s -> lset_ok (new_label s l).
Proof.
  intros [H1 [H2 [H3 H4]]]. unfold Store.new_label.
  destruct (find_label s l) as [id|] eqn:E; [repeat split; assumption|].
  unfold lset_ok. cbn [slots n_removed].
  split; [apply ids_ok_snoc; assumption|].
  split; [apply labels_snoc; assumption|].
  split; [|assumption].
  rewrite fs_app, !app_length. cbn [fs length]. lia.
Qed.

Lemma fold_new_label_ok ls0 : forall s, lset_ok s -> lset_ok (fold_left new_label ls0 s).
Proof.
  induction ls0 as [|l r IH]; intros s Hs; cbn [fold_left]; [assumption|].
  apply IH, new_label_ok, Hs.
Qed.

Lemma init_inv ls0 : Inv (init ls0).
Proof.
  unfold fw_new_with_labels, fw_new, new_with_labels.
  assert (H0 : lset_ok {| slots := []; n_removed := 0 |}).
  { unfold lset_ok. cbn [slots n_removed fs map length].
    split; [intros [|i] p Hi; discriminate|]. split; [constructor|]. split; reflexivity. }
  pose proof (fold_new_label_ok ls0 _ H0) as Hok.
  remember (fold_left new_label ls0 {| slots := []; n_removed := 0 |}) as s eqn:Es. clear Es H0.
  destruct Hok as [H1 [H2 [H3 H4]]].
  constructor; cbn [ls attacks afrom ato n_removed_attacks].
  - exact H1.
  - exact H2.
  - lia.
  - rewrite repeat_length. unfold ls_len. lia.
  - rewrite repeat_length. unfold ls_len. lia.
  - reflexivity.
  - intros [|k] a b Hk; discriminate.
  - intros a k Hin. rewrite nth_repeat in Hin. destruct Hin.
  - intros a k Hin. rewrite nth_repeat in Hin. destruct Hin.
  - intros a. rewrite nth_repeat. constructor.
  - intros a. rewrite nth_repeat. constructor.
  - constructor.
Qed.

(* ---------------- every step ---------------- *)
Lemma step_ok f o : Inv f -> step_good f o (step f o).
Proof.
  intros Hinv. destruct o as [l|l|a b|a b]; cbn [Store.step].
  - destruct (new_argument_ok f l Hinv) as [H1 H2].
    unfold step_good. cbn [fst snd]. split; [assumption|]. split; [|split; [assumption|discriminate]].
    cbn [Store.s_step]. destruct (s_find (abs f) l); reflexivity.
  - apply remove_argument_ok; assumption.
  - apply new_attack_ok; assumption.
  - apply remove_attack_ok; assumption.
Qed.

Lemma run_inv os : forall f, Inv f -> Inv (run_ops f os).
Proof.
  unfold Store.run_ops. induction os as [|o r IH]; intros f Hinv; cbn [fold_left]; [assumption|].
  apply IH. apply (step_ok f o Hinv).
Qed.

Lemma reach_inv f : (exists ls os, f = run_ops (init ls) os) -> Inv f.
Proof. intros [ls0 [os ->]]. apply run_inv, init_inv. Qed.

(* ------------------------------------------------------------------------------------ *)
(* the lemmas of Properties/C12.v                                                        *)
(* ------------------------------------------------------------------------------------ *)
Lemma step_refines : forall f o, (exists ls os, f = run_ops (init ls) os) ->
  snd (step f o) = snd (s_step (abs f) o) /\
  abs (fst (step f o)) = fst (s_step (abs f) o) /\
  snd (step f o) <> RPanic.
Proof.
  intros f o Hr. destruct (step_ok f o (reach_inv f Hr)) as [_ [H1 [H2 H3]]]. auto.
Qed.

Lemma run_refines os : forall f, Inv f ->
  abs (run_ops f os) = fold_left (fun s o => fst (s_step s o)) os (abs f).
Proof.
  unfold Store.run_ops. induction os as [|o r IH]; intros f Hinv; cbn [fold_left]; [reflexivity|].
  destruct (step_ok f o Hinv) as [H0 [_ [H2 _]]].
  rewrite (IH _ H0), H2. reflexivity.
Qed.

Lemma history_refines : forall ls os,
  abs (run_ops (init ls) os) =
  fold_left (fun s o => fst (s_step s o)) os (abs (init ls)).
Proof. intros ls0 os. apply run_refines, init_inv. Qed.

(* ---------------- observations ---------------- *)
Lemma live_slot f id l : Inv f ->
  (In (id, l) (fs (slots (ls f))) <-> nth id (slots (ls f)) None = Some (id, l)).
Proof.
  intros Hinv. rewrite In_fs_nth. split.
  - intros [k Hk]. pose proof (inv_id f Hinv k _ Hk) as Hf. cbn [fst] in Hf. subst k. assumption.
  - intros H. exists id. assumption.
Qed.

Lemma live_ids_spec f id : Inv f ->
  (nth id (slots (ls f)) None <> None <-> In id (map fst (fs (slots (ls f))))).
Proof.
  intros Hinv. split.
  - intros H. destruct (nth id (slots (ls f)) None) as [p|] eqn:E; [|congruence].
    apply in_map_iff. exists p. split; [exact (inv_id f Hinv id p E)|].
    apply In_fs_nth. exists id; assumption.
  - intros H. apply in_map_iff in H. destruct H as [[i l] [Hi Hin]]. cbn [fst] in Hi. subst i.
    apply (live_slot f id l Hinv) in Hin. congruence.
Qed.

Lemma observations : forall f, (exists ls os, f = run_ops (init ls) os) ->
  n_arguments L f = length (live (abs f)) /\
  n_attacks L f = length (rel (abs f)) /\
  NoDup (rel (abs f)) /\
  (forall id, Permutation (iter_attacks_from L f id)
                          (filter (fun p => Nat.eqb (fst p) id) (rel (abs f)))) /\
  (forall id, Permutation (iter_attacks_to L f id)
                          (filter (fun p => Nat.eqb (snd p) id) (rel (abs f)))) /\
  (forall l, get_argument L leqb f l = s_find (abs f) l) /\
  (forall id, has_argument_with_id L f id = true <-> In id (map fst (live (abs f)))) /\
  max_argument_id L f = (if Nat.eqb (next_id (abs f)) 0 then None else Some (next_id (abs f) - 1)).
Proof.
  intros f Hr. pose proof (reach_inv f Hr) as Hinv. clear Hr.
  unfold Store.abs, iter_args, ls_iter, iter_attacks. cbn [live rel next_id].
  split; [|split; [|split; [|split; [|split; [|split; [|split]]]]]].
  - unfold n_arguments, ls_len. pose proof (inv_nrem f Hinv). lia.
  - unfold n_attacks. pose proof (inv_nrema f Hinv). lia.
  - exact (inv_ndatt f Hinv).
  - intros id. unfold iter_attacks_from. apply NoDup_Permutation.
    + apply NoDup_fs_map_nth; [exact (inv_ndatt f Hinv)|exact (inv_ndfrom f Hinv id)].
    + apply NoDup_filter. exact (inv_ndatt f Hinv).
    + intros [a b]. rewrite In_fs_map_nth, filter_In, In_fs_nth. cbn [fst]. split.
      * intros [i [Hi Hp]]. split; [exists i; assumption|].
        apply Nat.eqb_eq. destruct (inv_from f Hinv id i Hi) as [_ H2]. exact (H2 _ Hp).
      * intros [[k Hk] He]. apply Nat.eqb_eq in He. subst a. exists k. split; [|assumption].
        apply (inv_live f Hinv k id b Hk).
  - intros id. unfold iter_attacks_to. apply NoDup_Permutation.
    + apply NoDup_fs_map_nth; [exact (inv_ndatt f Hinv)|exact (inv_ndto f Hinv id)].
    + apply NoDup_filter. exact (inv_ndatt f Hinv).
    + intros [a b]. rewrite In_fs_map_nth, filter_In, In_fs_nth. cbn [snd]. split.
      * intros [i [Hi Hp]]. split; [exists i; assumption|].
        apply Nat.eqb_eq. destruct (inv_to f Hinv id i Hi) as [_ H2]. exact (H2 _ Hp).
      * intros [[k Hk] He]. apply Nat.eqb_eq in He. subst b. exists k. split; [|assumption].
        apply (inv_live f Hinv k a id Hk).
  - intros l. unfold get_argument. apply find_label_sfind. assumption.
  - intros id. rewrite <- (live_ids_spec f id Hinv).
    unfold has_argument_with_id, ls_has_id.
    destruct (nth id (slots (ls f)) None); split; congruence.
  - unfold max_argument_id, ls_max_id.
    destruct (slots (ls f)) as [|o r]; cbn [length Nat.eqb]; reflexivity.
Qed.

(* ---------------- the set model is well formed ---------------- *)
Lemma ids_sorted_off (sl : list (option (nat * L))) : forall off,
  (forall i p, nth i sl None = Some p -> fst p = off + i) ->
  StronglySorted lt (map fst (fs sl)) /\ Forall (le off) (map fst (fs sl)).
Proof.
  induction sl as [|o r IH]; intros off H.
  - cbn [fs map]. split; constructor.
  - assert (Hr : forall i p, nth i r None = Some p -> fst p = S off + i).
    { intros i p Hi. rewrite (H (S i) p Hi). lia. }
    destruct (IH (S off) Hr) as [IH1 IH2].
    assert (Hle : Forall (le off) (map fst (fs r))).
    { eapply Forall_impl; [|exact IH2]. cbn beta. intros x Hx. lia. }
    destruct o as [p|]; cbn [fs map]; [|auto].
    pose proof (H 0 p eq_refl) as Hp. split.
    + apply SSorted_cons; [assumption|].
      eapply Forall_impl; [|exact IH2]. cbn beta. intros x Hx. lia.
    + constructor; [lia|assumption].
Qed.

Lemma spec_wellformed : forall f, (exists ls os, f = run_ops (init ls) os) ->
  let s := abs f in
  NoDup (map snd (live s)) /\
  StronglySorted lt (map fst (live s)) /\
  (forall id, In id (map fst (live s)) -> id < next_id s) /\
  (forall a b, In (a, b) (rel s) -> In a (map fst (live s)) /\ In b (map fst (live s))) /\
  NoDup (rel s).
Proof.
  intros f Hr. pose proof (reach_inv f Hr) as Hinv. clear Hr. cbv zeta.
  unfold Store.abs, iter_args, ls_iter, iter_attacks. cbn [live rel next_id].
  split; [|split; [|split; [|split]]].
  - exact (inv_lab f Hinv).
  - apply (ids_sorted_off (slots (ls f)) 0). exact (inv_id f Hinv).
  - intros id Hin. apply (live_ids_spec f id Hinv) in Hin.
    destruct (nth id (slots (ls f)) None) as [p|] eqn:E; [|congruence].
    eapply nth_Some_lt; eassumption.
  - intros a b Hin. apply In_fs_nth in Hin. destruct Hin as [k Hk].
    destruct (inv_live f Hinv k a b Hk) as [Ha [Hb _]].
    split; apply (live_ids_spec f _ Hinv); assumption.
  - exact (inv_ndatt f Hinv).
Qed.

(* ---------------- ids are stable ---------------- *)
Lemma s_find_In (s : sstore L) l id : s_find s l = Some id -> In (id, l) (live s).
Proof.
  unfold Store.s_find. destruct (find (fun p => leqb l (snd p)) (live s)) as [[i l']|] eqn:E;
    cbn [option_map fst]; [|discriminate].
  intros [= <-]. apply find_some in E. destruct E as [Hin Hl]. cbn [snd] in Hl.
  apply leqb_spec in Hl. subst l'. assumption.
Qed.

Lemma ids_stable : forall f o, (exists ls os, f = run_ops (init ls) os) ->
  let s := abs f in let s' := abs (fst (step f o)) in
  next_id s <= next_id s' /\
  (forall id l, In (id, l) (live s') -> In (id, l) (live s) \/ (id = next_id s /\ next_id s' = S id)) /\
  (forall id l, In (id, l) (live s) -> In (id, l) (live s') \/ o = OpRemArg l).
Proof.
  intros f o Hr. pose proof (reach_inv f Hr) as Hinv. clear Hr. cbv zeta.
  destruct (step_ok f o Hinv) as [_ [_ [Habs _]]]. rewrite Habs. clear Habs.
  destruct o as [l|l|a b|a b]; cbn [Store.s_step].
  - destruct (s_find (abs f) l) as [id0|] eqn:E; cbn [fst next_id live]; [auto|].
    split; [lia|]. split.
    + intros id l0 Hin. apply in_app_or in Hin. destruct Hin as [Hin|[Heq|[]]]; [auto|].
      injection Heq as <- <-. auto.
    + intros id l0 Hin. left. apply in_or_app. auto.
  - destruct (s_find (abs f) l) as [id0|] eqn:E; cbn [fst next_id live]; [|auto].
    split; [lia|]. split.
    + intros id l0 Hin. apply filter_In in Hin. tauto.
    + intros id l0 Hin. destruct (Nat.eq_dec id id0) as [->|Hne].
      * right. f_equal. apply s_find_In in E.
        apply (live_slot f id0 l Hinv) in E. apply (live_slot f id0 l0 Hinv) in Hin. congruence.
      * left. apply filter_In. split; [assumption|]. cbn [fst].
        apply Bool.negb_true_iff, Nat.eqb_neq. assumption.
  - destruct (s_find (abs f) a) as [x|]; [|cbn [fst]; auto].
    destruct (s_find (abs f) b) as [y|]; [|cbn [fst]; auto].
    destruct (s_has_att L (abs f) (x, y)); cbn [fst next_id live]; auto.
  - destruct (s_find (abs f) a) as [x|]; [|cbn [fst]; auto].
    destruct (s_find (abs f) b) as [y|]; [|cbn [fst]; auto].
    destruct (s_has_att L (abs f) (x, y)); cbn [fst next_id live]; auto.
Qed.

End Proofs.
