(* Shared lemmas for the encoder proofs (EncAux.v, EncExp.v): literals and
   valuations, clause/CNF satisfaction over mapped clause lists, [over_args],
   attackers, boolean deciders vs. Prop, [ext_of], generic clause-group
   specifications ([disj_var_with], [aux_co_arg_with]) and a generic
   [a2e_ok] criterion.  Statements in this file are only ever ADDED. *)
From Coq Require Import List Arith ZArith Bool Lia Sorted.
From Crusta Require Export Proofs.EncSpec.
Import ListNotations.

(* ------------------------------------------------------------------ *)
(** * Literals *)

Lemma lit_var_zlit v : lit_var (zlit v) = v.
Proof. unfold lit_var, zlit. rewrite Z.abs_eq by lia. apply Nat2Z.id. Qed.

Lemma lit_var_znlit v : lit_var (znlit v) = v.
Proof. unfold lit_var, znlit. rewrite Z.abs_opp, Z.abs_eq by lia. apply Nat2Z.id. Qed.

Lemma zlit_nonzero v : 0 < v -> zlit v <> 0%Z.
Proof. unfold zlit. lia. Qed.

Lemma znlit_nonzero v : 0 < v -> znlit v <> 0%Z.
Proof. unfold znlit. lia. Qed.

Lemma vtrue_zlit m v : 0 < v -> vtrue m (zlit v) = m v.
Proof.
  intros Hv. unfold vtrue. rewrite lit_var_zlit.
  replace (0 <? zlit v)%Z with true; [reflexivity|].
  symmetry. apply Z.ltb_lt. unfold zlit. lia.
Qed.

Lemma vtrue_znlit m v : vtrue m (znlit v) = negb (m v).
Proof.
  unfold vtrue. rewrite lit_var_znlit.
  replace (0 <? znlit v)%Z with false; [reflexivity|].
  symmetry. apply Z.ltb_ge. unfold znlit. lia.
Qed.

Lemma aux_var_pos a : 0 < aux_var a.   Proof. unfold aux_var; lia. Qed.
Lemma aux_disj_pos a : 0 < aux_disj a. Proof. unfold aux_disj; lia. Qed.
Lemma aux_range_pos n a : 0 < aux_range n a. Proof. unfold aux_range; lia. Qed.
Lemma exp_var_pos a : 0 < exp_var a.   Proof. unfold exp_var; lia. Qed.
Lemma exp_range_pos n a : 0 < exp_range n a. Proof. unfold exp_range; lia. Qed.
Lemma arg_var_pos e a : 0 < arg_var e a.
Proof. destruct e; cbn [arg_var]; auto using aux_var_pos, exp_var_pos. Qed.
Lemma range_var_pos e n a : 0 < range_var e n a.
Proof. destruct e; cbn [range_var]; auto using aux_range_pos, exp_range_pos. Qed.
#[export] Hint Resolve aux_var_pos aux_disj_pos aux_range_pos exp_var_pos
  exp_range_pos arg_var_pos range_var_pos : core.

(* ------------------------------------------------------------------ *)
(** * Generic list facts *)

Lemma existsb_ext_eq A (p q : A -> bool) l :
  (forall x, p x = q x) -> existsb p l = existsb q l.
Proof. intros H. induction l as [|x l IH]; cbn [existsb]; congruence. Qed.

Lemma existsb_map_eq A B (f : A -> B) p l :
  existsb p (map f l) = existsb (fun x => p (f x)) l.
Proof. induction l as [|x l IH]; cbn [existsb map]; congruence. Qed.

Lemma forallb_false_exists A (p : A -> bool) l :
  forallb p l = false -> exists x, In x l /\ p x = false.
Proof.
  induction l as [|x l IH]; cbn [forallb]; [discriminate|].
  intros H. destruct (p x) eqn:E.
  - cbn [andb] in H. destruct (IH H) as [y [Hy Hp]]. exists y. split; [now right|exact Hp].
  - exists x. split; [now left|exact E].
Qed.

Lemma existsb_false_forall A (p : A -> bool) l :
  existsb p l = false <-> forall x, In x l -> p x = false.
Proof.
  split.
  - intros H x Hx. destruct (p x) eqn:E; [|reflexivity].
    assert (existsb p l = true) by (apply existsb_exists; eauto). congruence.
  - intros H. destruct (existsb p l) eqn:E; [|reflexivity].
    apply existsb_exists in E. destruct E as [x [Hx Hp]]. rewrite (H x Hx) in Hp. discriminate.
Qed.

(* ------------------------------------------------------------------ *)
(** * Clause and CNF satisfaction *)

Lemma vsat_nil m : vsat_clause m [] = false.
Proof. reflexivity. Qed.

Lemma vsat_cons m x c : vsat_clause m (x :: c) = vtrue m x || vsat_clause m c.
Proof. reflexivity. Qed.

Lemma vsat_single m x : vsat_clause m [x] = vtrue m x.
Proof. unfold vsat_clause. cbn [existsb]. apply orb_false_r. Qed.

Lemma vsat_binary m x y : vsat_clause m [x; y] = vtrue m x || vtrue m y.
Proof. unfold vsat_clause. cbn [existsb]. now rewrite orb_false_r. Qed.

Lemma vsat_ternary m x y z : vsat_clause m [x; y; z] = vtrue m x || (vtrue m y || vtrue m z).
Proof. unfold vsat_clause. cbn [existsb]. now rewrite orb_false_r. Qed.

Lemma vsat_app m c d : vsat_clause m (c ++ d) = vsat_clause m c || vsat_clause m d.
Proof. unfold vsat_clause. apply existsb_app. Qed.

Lemma vsat_exists m c : vsat_clause m c = true <-> exists l, In l c /\ vtrue m l = true.
Proof. unfold vsat_clause. apply existsb_exists. Qed.

Lemma vsat_map_zlit m (f : nat -> nat) bs :
  (forall b, 0 < f b) ->
  vsat_clause m (map (fun b => zlit (f b)) bs) = existsb (fun b => m (f b)) bs.
Proof.
  intros Hf. unfold vsat_clause. rewrite existsb_map_eq. apply existsb_ext_eq.
  intros b. now apply vtrue_zlit.
Qed.

Lemma vsat_map_znlit m (f : nat -> nat) bs :
  vsat_clause m (map (fun b => znlit (f b)) bs) = existsb (fun b => negb (m (f b))) bs.
Proof.
  unfold vsat_clause. rewrite existsb_map_eq. apply existsb_ext_eq.
  intros b. apply vtrue_znlit.
Qed.

Lemma vmodels_nil m : vmodels m [] = true.
Proof. reflexivity. Qed.

Lemma vmodels_cons m c f : vmodels m (c :: f) = vsat_clause m c && vmodels m f.
Proof. reflexivity. Qed.

Lemma vmodels_app m f g : vmodels m (f ++ g) = vmodels m f && vmodels m g.
Proof. unfold vmodels. apply forallb_app. Qed.

Lemma vmodels_app_iff m f g :
  vmodels m (f ++ g) = true <-> vmodels m f = true /\ vmodels m g = true.
Proof. rewrite vmodels_app. apply andb_true_iff. Qed.

Lemma vmodels_cons_iff m c f :
  vmodels m (c :: f) = true <-> vsat_clause m c = true /\ vmodels m f = true.
Proof. rewrite vmodels_cons. apply andb_true_iff. Qed.

Lemma vmodels_single m c : vmodels m [c] = true <-> vsat_clause m c = true.
Proof. rewrite vmodels_cons, vmodels_nil, andb_true_r. tauto. Qed.

Lemma vmodels_forall m f :
  vmodels m f = true <-> forall c, In c f -> vsat_clause m c = true.
Proof. unfold vmodels. apply forallb_forall. Qed.

Lemma vmodels_map A m (g : A -> clause) l :
  vmodels m (map g l) = true <-> forall x, In x l -> vsat_clause m (g x) = true.
Proof.
  rewrite vmodels_forall. split.
  - intros H x Hx. apply H. now apply in_map.
  - intros H c Hc. apply in_map_iff in Hc. destruct Hc as [x [<- Hx]]. now apply H.
Qed.

Lemma in_over_args n f c : In c (over_args n f) <-> exists a, a < n /\ In c (f a).
Proof.
  unfold over_args. rewrite in_flat_map. split.
  - intros [a [Ha Hc]]. apply in_seq in Ha. exists a. split; [lia|exact Hc].
  - intros [a [Ha Hc]]. exists a. split; [apply in_seq; lia|exact Hc].
Qed.

Lemma vmodels_over_args n m f :
  vmodels m (over_args n f) = true <-> forall a, a < n -> vmodels m (f a) = true.
Proof.
  rewrite vmodels_forall. split.
  - intros H a Ha. apply vmodels_forall. intros c Hc. apply H. apply in_over_args. eauto.
  - intros H c Hc. apply in_over_args in Hc. destruct Hc as [a [Ha Hc]].
    specialize (H a Ha). rewrite vmodels_forall in H. now apply H.
Qed.

(* ------------------------------------------------------------------ *)
(** * Frameworks: attackers, compactness *)

Lemma in_attackers F a b : In b (attackers F a) <-> att F b a.
Proof.
  unfold attackers, att. rewrite in_map_iff. split.
  - intros [[x y] [Hx Hin]]. apply filter_In in Hin. destruct Hin as [Hin Heq].
    cbn [fst snd] in *. apply Nat.eqb_eq in Heq. subst. exact Hin.
  - intros H. exists (b, a). split; [reflexivity|]. apply filter_In.
    split; [exact H|]. cbn [snd]. apply Nat.eqb_refl.
Qed.

Lemma compact_args F n : compact_af F n -> args F = seq 0 n.
Proof. intros [H _]. exact H. Qed.

Lemma compact_length F n : compact_af F n -> length (args F) = n.
Proof. intros [H _]. rewrite H. apply seq_length. Qed.

Lemma compact_in_args F n a : compact_af F n -> (In a (args F) <-> a < n).
Proof. intros [H _]. rewrite H, in_seq. lia. Qed.

Lemma compact_att_lt F n a b : compact_af F n -> att F a b -> a < n /\ b < n.
Proof. intros [_ H] Hab. exact (H a b Hab). Qed.

Lemma compact_attackers_lt F n a b :
  compact_af F n -> In b (attackers F a) -> b < n /\ a < n.
Proof. intros HF Hb. apply in_attackers in Hb. exact (compact_att_lt F n b a HF Hb). Qed.

Lemma enc_clauses_compact e thr r F n :
  compact_af F n ->
  enc_clauses e thr r F = option_map snd (encode n (attackers F) thr e r).
Proof. intros HF. unfold enc_clauses, encode_af. now rewrite (compact_length F n HF). Qed.

(* ------------------------------------------------------------------ *)
(** * Boolean deciders vs. Prop *)

Lemma memb_spec a S : memb a S = true <-> In a S.
Proof.
  unfold memb. rewrite existsb_exists. split.
  - intros [x [Hx He]]. apply Nat.eqb_eq in He. now subst.
  - intros H. exists a. split; [exact H|apply Nat.eqb_refl].
Qed.

Lemma memb_false a S : memb a S = false <-> ~ In a S.
Proof.
  rewrite <- memb_spec. destruct (memb a S); split; intros H; try reflexivity;
    try discriminate; try (exfalso; now apply H).
Qed.

Lemma attacked_byb_spec F S a :
  attacked_byb F S a = true <-> exists b, In b S /\ att F b a.
Proof.
  unfold attacked_byb. rewrite existsb_exists. split.
  - intros [b [Hb Hm]]. exists b. split; [now apply memb_spec|now apply in_attackers].
  - intros [b [Hb Hab]]. exists b. split; [now apply in_attackers|now apply memb_spec].
Qed.

Lemma attacked_byb_false F S a :
  attacked_byb F S a = false <-> ~ exists b, In b S /\ att F b a.
Proof.
  rewrite <- attacked_byb_spec. destruct (attacked_byb F S a); split; intros H;
    try reflexivity; try discriminate; try (exfalso; now apply H).
Qed.

Lemma in_rangeb_spec F S a : in_rangeb F S a = true <-> in_range F S a.
Proof.
  unfold in_rangeb, in_range. rewrite orb_true_iff, memb_spec, attacked_byb_spec. tauto.
Qed.

Lemma defendsb_spec F S a : defendsb F S a = true <-> defends F S a.
Proof.
  unfold defendsb, defends. rewrite forallb_forall. split.
  - intros H b Hb. apply in_attackers in Hb. specialize (H b Hb).
    apply attacked_byb_spec in H. destruct H as [c [Hc Hcb]]. exists c. now split.
  - intros H b Hb. apply in_attackers in Hb. apply attacked_byb_spec.
    destruct (H b Hb) as [c [Hc Hcb]]. exists c. now split.
Qed.

(* constructive witness of non-defence *)
Lemma not_defended_witness F S a :
  defendsb F S a = false -> exists b, att F b a /\ attacked_byb F S b = false.
Proof.
  unfold defendsb. intros H. apply forallb_false_exists in H.
  destruct H as [b [Hb Hn]]. exists b. split; [now apply in_attackers|exact Hn].
Qed.

(* ------------------------------------------------------------------ *)
(** * The set denoted by a valuation *)

Lemma in_ext_of e n m a : In a (ext_of e n m) <-> a < n /\ m (arg_var e a) = true.
Proof. unfold ext_of. rewrite filter_In, in_seq. intuition lia. Qed.

Lemma ext_of_incl e F n m : compact_af F n -> incl (ext_of e n m) (args F).
Proof.
  intros HF a Ha. apply in_ext_of in Ha. apply (compact_in_args F n a HF). tauto.
Qed.

(* ------------------------------------------------------------------ *)
(** * Generic clause groups *)

(* binary "not both" clauses *)
Lemma nand_clauses_spec m (atk : nat -> list nat) (av : nat -> nat) a :
  vmodels m (map (fun b => [znlit (av a); znlit (av b)]) (atk a)) = true <->
  forall b, In b (atk a) -> m (av a) = true -> m (av b) = true -> False.
Proof.
  rewrite vmodels_map. split.
  - intros H b Hb Ha Hmb. specialize (H b Hb). rewrite vsat_binary, !vtrue_znlit, Ha, Hmb in H.
    discriminate.
  - intros H b Hb. rewrite vsat_binary, !vtrue_znlit.
    destruct (m (av a)) eqn:Ea; [|reflexivity]. destruct (m (av b)) eqn:Eb; [|reflexivity].
    exfalso. now apply (H b Hb).
Qed.

(* binary implications  av a -> dv b  for every attacker b *)
Lemma impl_clauses_spec m (atk : nat -> list nat) (av dv : nat -> nat) a :
  (forall x, 0 < dv x) ->
  vmodels m (map (fun b => [znlit (av a); zlit (dv b)]) (atk a)) = true <->
  forall b, In b (atk a) -> m (av a) = true -> m (dv b) = true.
Proof.
  intros Hdv. rewrite vmodels_map. split.
  - intros H b Hb Ha. specialize (H b Hb).
    rewrite vsat_binary, vtrue_znlit, vtrue_zlit, Ha in H by auto. exact H.
  - intros H b Hb. rewrite vsat_binary, vtrue_znlit, vtrue_zlit by auto.
    destruct (m (av a)) eqn:Ea; [|reflexivity]. cbn [negb orb]. now apply H.
Qed.

(* [disj_var_with]: d <-> some attacker of a is in, and a excludes d *)
Lemma disj_var_with_spec m (atk : nat -> list nat) (av : nat -> nat) d a :
  (forall x, 0 < av x) -> 0 < d ->
  vmodels m (disj_var_with atk av d a) = true <->
  (m (av a) = true -> m d = true -> False) /\
  (forall b, In b (atk a) -> m (av b) = true -> m d = true) /\
  (m d = true -> exists b, In b (atk a) /\ m (av b) = true).
Proof.
  intros Hav Hd. unfold disj_var_with.
  rewrite !vmodels_app_iff, !vmodels_single, vmodels_map.
  rewrite vsat_binary, vsat_cons, !vtrue_znlit, (vsat_map_zlit m av) by auto.
  split.
  - intros (H1 & H2 & H3). repeat split.
    + intros Ha Hmd. rewrite Ha, Hmd in H1. discriminate.
    + intros b Hb Hmb. specialize (H2 b Hb).
      rewrite vsat_binary, vtrue_znlit, vtrue_zlit, Hmb in H2 by auto.
      cbn [negb] in H2. now rewrite orb_false_r in H2.
    + intros Hmd. rewrite Hmd in H3. cbn [negb orb] in H3.
      apply existsb_exists in H3. exact H3.
  - intros (H1 & H2 & H3). repeat split.
    + destruct (m (av a)) eqn:Ea; [|reflexivity]. destruct (m d) eqn:Ed; [|reflexivity].
      exfalso. now apply H1.
    + intros b Hb. rewrite vsat_binary, vtrue_znlit, vtrue_zlit by auto.
      destruct (m (av b)) eqn:Eb; [|now rewrite orb_true_r].
      cbn [negb]. rewrite orb_false_r. now apply (H2 b).
    + destruct (m d) eqn:Ed; [|reflexivity]. cbn [negb orb].
      apply existsb_exists. now apply H3.
Qed.

(* [aux_co_arg_with]: a -> every attacker's disjunction var, and the converse clause *)
Lemma aux_co_arg_with_spec m (atk : nat -> list nat) (av dv : nat -> nat) a :
  (forall x, 0 < av x) -> (forall x, 0 < dv x) ->
  vmodels m (aux_co_arg_with atk av dv a) = true <->
  (forall b, In b (atk a) -> m (av a) = true -> m (dv b) = true) /\
  (m (av a) = true \/ exists b, In b (atk a) /\ m (dv b) = false).
Proof.
  intros Hav Hdv. unfold aux_co_arg_with.
  rewrite vmodels_app_iff, vmodels_single, (impl_clauses_spec m atk av dv a Hdv).
  rewrite vsat_cons, vtrue_zlit, (vsat_map_znlit m dv) by auto.
  split.
  - intros [H1 H2]. split; [exact H1|].
    destruct (m (av a)) eqn:Ea; [now left|right]. cbn [orb] in H2.
    apply existsb_exists in H2. destruct H2 as [b [Hb Hn]]. exists b. split; [exact Hb|].
    now apply negb_true_iff.
  - intros [H1 H2]. split; [exact H1|].
    destruct H2 as [->|[b [Hb Hn]]]; [reflexivity|].
    apply orb_true_iff. right. apply existsb_exists. exists b. split; [exact Hb|].
    now rewrite Hn.
Qed.

(* three-clause range definition  r <-> x \/ d *)
Lemma range3_spec m x d r :
  0 < x -> 0 < d -> 0 < r ->
  vmodels m [[znlit x; zlit r]; [znlit d; zlit r]; [znlit r; zlit x; zlit d]] = true <->
  (m r = true <-> m x = true \/ m d = true).
Proof.
  intros Hx Hd Hr. rewrite !vmodels_cons_iff, vmodels_nil.
  rewrite !vsat_binary, vsat_ternary, !vtrue_znlit, !vtrue_zlit by auto.
  destruct (m x), (m d), (m r); cbn [negb orb]; intuition discriminate.
Qed.

(* ------------------------------------------------------------------ *)
(** * assignment_to_extension *)

Lemma val_of_true_bound (m : assignment) v :
  0 < v -> val_of m v = true -> v <= length m.
Proof.
  intros Hv H. unfold val_of, value_of in H.
  destruct (le_lt_dec v (length m)) as [Hle|Hgt]; [exact Hle|].
  rewrite nth_overflow in H by lia. discriminate.
Qed.

Lemma vars_true_filter_gen (m : assignment) s :
  map fst (filter (fun p => is_true (snd p)) (combine (seq s (length m)) m)) =
  filter (fun v => is_true (nth (v - s) m None)) (seq s (length m)).
Proof.
  revert s. induction m as [|o m IH]; intros s; [reflexivity|].
  cbn [length seq combine filter snd].
  rewrite Nat.sub_diag. cbn [nth].
  assert (Hrest : map fst (filter (fun p => is_true (snd p)) (combine (seq (S s) (length m)) m)) =
                  filter (fun v => is_true (nth (v - s) (o :: m) None)) (seq (S s) (length m))).
  { rewrite IH. apply filter_ext_in. intros v Hv. apply in_seq in Hv.
    replace (v - s) with (S (v - S s)) by lia. reflexivity. }
  destruct (is_true o); cbn [map fst]; now rewrite Hrest.
Qed.

Lemma vars_true_filter (m : assignment) :
  vars_true m = filter (val_of m) (seq 1 (length m)).
Proof.
  unfold vars_true. rewrite vars_true_filter_gen. apply filter_ext.
  intros v. unfold val_of, value_of, is_true. reflexivity.
Qed.

Lemma in_vars_true (m : assignment) v :
  In v (vars_true m) <-> 0 < v /\ val_of m v = true.
Proof.
  rewrite vars_true_filter, filter_In, in_seq. split.
  - intros [H1 H2]. split; [lia|exact H2].
  - intros [H1 H2]. split; [|exact H2]. pose proof (val_of_true_bound m v H1 H2). lia.
Qed.

Lemma in_filter_map A B (f : A -> option B) l y :
  In y (filter_map f l) <-> exists x, In x l /\ f x = Some y.
Proof.
  induction l as [|x l IH]; cbn [filter_map].
  - split; [intros []|intros [x [[] _]]].
  - destruct (f x) as [z|] eqn:E.
    + cbn [In]. rewrite IH. split.
      * intros [->|[x' [Hx' Hf]]]; [exists x; split; [now left|exact E]|].
        exists x'. split; [now right|exact Hf].
      * intros [x' [[->|Hx'] Hf]]; [left; congruence|]. right. eauto.
    + rewrite IH. split.
      * intros [x' [Hx' Hf]]. exists x'. split; [now right|exact Hf].
      * intros [x' [[->|Hx'] Hf]]; [congruence|]. eauto.
Qed.

Lemma StronglySorted_seq s k : StronglySorted lt (seq s k).
Proof.
  revert s. induction k as [|k IH]; intros s; cbn [seq]; constructor; [apply IH|].
  apply Forall_forall. intros x Hx. apply in_seq in Hx. lia.
Qed.

Lemma StronglySorted_filter A (R : A -> A -> Prop) p l :
  StronglySorted R l -> StronglySorted R (filter p l).
Proof.
  induction 1 as [|x l Hs IH Hx]; cbn [filter]; [constructor|].
  destruct (p x); [|exact IH]. constructor; [exact IH|].
  rewrite Forall_forall in *. intros y Hy. apply filter_In in Hy. apply Hx. tauto.
Qed.

Lemma StronglySorted_filter_map (f : nat -> option nat) l :
  (forall x x' y y', In x l -> In x' l -> x < x' -> f x = Some y -> f x' = Some y' -> y < y') ->
  StronglySorted lt l -> StronglySorted lt (filter_map f l).
Proof.
  intros Hmono Hs. induction Hs as [|x l Hs IH Hx]; cbn [filter_map]; [constructor|].
  assert (IH' : StronglySorted lt (filter_map f l)).
  { apply IH. intros x1 x2 y1 y2 H1 H2. apply Hmono; now right. }
  destruct (f x) as [y|] eqn:E; [|exact IH'].
  constructor; [exact IH'|]. apply Forall_forall. intros y' Hy'.
  apply in_filter_map in Hy'. destruct Hy' as [x' [Hx' Hf]].
  rewrite Forall_forall in Hx.
  apply (Hmono x x' y y'); [now left|now right|now apply Hx|exact E|exact Hf].
Qed.

Lemma StronglySorted_lt_ext (l1 l2 : list nat) :
  StronglySorted lt l1 -> StronglySorted lt l2 ->
  (forall x, In x l1 <-> In x l2) -> l1 = l2.
Proof.
  intros H1. revert l2. induction H1 as [|x l1 Hs1 IH Hx]; intros l2 H2 Heq.
  - destruct l2 as [|y l2]; [reflexivity|]. exfalso. apply (Heq y). now left.
  - destruct H2 as [|y l2 Hs2 Hy].
    + exfalso. apply (Heq x). now left.
    + rewrite Forall_forall in Hx, Hy.
      assert (Hxy : x = y).
      { destruct (proj1 (Heq x) (or_introl eq_refl)) as [E|Hin]; [now symmetry|].
        destruct (proj2 (Heq y) (or_introl eq_refl)) as [E|Hin']; [exact E|].
        specialize (Hx y Hin'). specialize (Hy x Hin). lia. }
      subst y. f_equal. apply IH; [exact Hs2|].
      intros z. split; intros Hz.
      * destruct (proj1 (Heq z) (or_intror Hz)) as [E|Hin]; [|exact Hin].
        subst z. specialize (Hx x Hz). lia.
      * destruct (proj2 (Heq z) (or_intror Hz)) as [E|Hin]; [|exact Hin].
        subst z. specialize (Hy x Hz). lia.
Qed.

(* generic criterion: [arg_of_var] inverts a strictly increasing [arg_var] on 0..n-1 *)
Lemma a2e_generic e n :
  (forall v a, 0 < v -> (arg_of_var n e v = Some a <-> a < n /\ v = arg_var e a)) ->
  (forall a b, a < b -> arg_var e a < arg_var e b) ->
  a2e_ok e n.
Proof.
  intros Hinv Hmono m. unfold assignment_to_extension.
  apply StronglySorted_lt_ext.
  - apply StronglySorted_filter_map.
    + intros x x' y y' Hx Hx' Hlt Hf Hf'.
      apply in_vars_true in Hx, Hx'. destruct Hx as [Hx0 _], Hx' as [Hx0' _].
      apply (Hinv x y Hx0) in Hf. apply (Hinv x' y' Hx0') in Hf'.
      destruct Hf as [_ ->], Hf' as [_ ->].
      destruct (lt_eq_lt_dec y y') as [[Hlt'|Heq]|Hgt]; [exact Hlt'|subst; lia|].
      specialize (Hmono y' y Hgt). lia.
    + rewrite vars_true_filter. apply StronglySorted_filter, StronglySorted_seq.
  - unfold ext_of. apply StronglySorted_filter, StronglySorted_seq.
  - intros a. rewrite in_filter_map, in_ext_of. split.
    + intros [v [Hv Hf]]. apply in_vars_true in Hv. destruct Hv as [Hv0 Hv].
      apply (Hinv v a Hv0) in Hf. destruct Hf as [Ha ->]. now split.
    + intros [Ha Hv]. exists (arg_var e a). split.
      * apply in_vars_true. split; [apply arg_var_pos|exact Hv].
      * apply Hinv; [apply arg_var_pos|now split].
Qed.

(* ------------------------------------------------------------------ *)
(** * Small helpers added later *)

Lemma some_inj A (x y : A) : Some x = Some y -> x = y.
Proof. intros H. now injection H. Qed.

(* splitting per-argument clause groups *)
Lemma vmodels_args_app n m (f g : nat -> cnf) :
  (forall a, a < n -> vmodels m (f a ++ g a) = true) <->
  (forall a, a < n -> vmodels m (f a) = true) /\
  (forall a, a < n -> vmodels m (g a) = true).
Proof.
  split.
  - intros H. split; intros a Ha; specialize (H a Ha); apply vmodels_app_iff in H; tauto.
  - intros [H1 H2] a Ha. apply vmodels_app_iff. split; [now apply H1|now apply H2].
Qed.

(* ------------------------------------------------------------------ *)
(** * Layout: well-classified literals *)

Definition good_lit (e : enc) (n : nat) (range : bool) (l : lit) : Prop :=
  l <> 0%Z /\ var_class e n range (lit_var l).
Definition all_good (e : enc) (n : nat) (range : bool) (C : cnf) : Prop :=
  Forall (Forall (good_lit e n range)) C.

Lemma all_good_elim e n r C :
  all_good e n r C ->
  forall c l, In c C -> In l c -> l <> 0%Z /\ var_class e n r (lit_var l).
Proof.
  intros H c l Hc Hl. unfold all_good in H. rewrite Forall_forall in H.
  specialize (H c Hc). rewrite Forall_forall in H. exact (H l Hl).
Qed.

Lemma all_good_app e n r C D :
  all_good e n r C -> all_good e n r D -> all_good e n r (C ++ D).
Proof. intros HC HD. apply Forall_app. now split. Qed.

Lemma all_good_over_args e n r f :
  (forall a, a < n -> all_good e n r (f a)) -> all_good e n r (over_args n f).
Proof.
  intros H. apply Forall_forall. intros c Hc. apply in_over_args in Hc.
  destruct Hc as [a [Ha Hc]]. specialize (H a Ha). unfold all_good in H.
  rewrite Forall_forall in H. now apply H.
Qed.

Lemma all_good_map A e n r (g : A -> clause) l :
  (forall x, In x l -> Forall (good_lit e n r) (g x)) -> all_good e n r (map g l).
Proof. intros H. apply Forall_map, Forall_forall. exact H. Qed.

Lemma good_clause_map A e n r (g : A -> lit) l :
  (forall x, In x l -> good_lit e n r (g x)) -> Forall (good_lit e n r) (map g l).
Proof. intros H. apply Forall_map, Forall_forall. exact H. Qed.

Lemma good_zlit e n r v : 0 < v -> var_class e n r v -> good_lit e n r (zlit v).
Proof. intros Hv Hc. split; [now apply zlit_nonzero|now rewrite lit_var_zlit]. Qed.

Lemma good_znlit e n r v : 0 < v -> var_class e n r v -> good_lit e n r (znlit v).
Proof. intros Hv Hc. split; [now apply znlit_nonzero|now rewrite lit_var_znlit]. Qed.
