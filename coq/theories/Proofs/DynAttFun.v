(* The functional theorem for the two dynamic solvers with assumptions on attacks: with a single
   valid SAT oracle and the SAT program state threaded through the whole history (areach), every
   answer of dyn_query - computed or served from the cache - is the answer the semantics dictate for
   the framework as it stands (TopMax.acc_spec on af_of (run_ops fresh os)).
   Part A: what a re-encoding leaves in the SAT session (exactly DynAttDefs.att_cnf, on a new session).
   Part B: the clause-set invariant over replays and re-encodings.
   Part C: a computed answer.   Part D: the cache.   Part E: every reachable state, the theorem. *)
From Crusta Require Import Model.Dynamic Proofs.ProgLaws Proofs.EncBase Proofs.SolverBasics.
From Crusta Require Import Proofs.StoreBase Proofs.StoreProofs Proofs.DynDefs Proofs.DynBase Proofs.DynProofs
  Proofs.DynSafe Proofs.DynAttDefs Proofs.DynAttTables Proofs.DynAttEnc.
From Coq Require Import Lia ZifyBool.
Open Scope prog_scope.

Notation wpT := (wp (fun _ => True) (fun _ => True) (fun _ => True)).

Lemma wpT_done {A} (m : Prog.M A) (Q : A -> Prog.st -> Prop) s a s' :
  wpT m Q s -> m s = Done a s' -> Q a s'.
Proof. unfold wp. intros H E. rewrite E in H. exact H. Qed.
Lemma wpT_intro {A} (m : Prog.M A) (Q : A -> Prog.st -> Prop) s :
  (forall a s', m s = Done a s' -> Q a s') -> wpT m Q s.
Proof. unfold wp. intros H. destruct (m s) as [a s'| | |]; auto. Qed.

(* ================================================================ Part A *)
Lemma lit_var_negate l : lit_var (negate l) = lit_var l.
Proof. unfold lit_var, negate. rewrite Z.abs_opp. reflexivity. Qed.
Lemma clause_max_cons l c : clause_max (l :: c) = Nat.max (lit_var l) (clause_max c).
Proof. reflexivity. Qed.
Lemma clause_max_nil : clause_max [] = 0.
Proof. reflexivity. Qed.
Lemma clause_max_le c k : (forall l, In l c -> lit_var l <= k) -> clause_max c <= k.
Proof.
  induction c as [|l r IH]; intros H; [cbn; lia|]. rewrite clause_max_cons.
  pose proof (H l (or_introl eq_refl)). assert (clause_max r <= k) by (apply IH; intros x Hx; apply H; right; exact Hx). lia.
Qed.

Lemma nvars_add s c : session_n_vars (sess (st_add s c)) = Nat.max (session_n_vars (sess s)) (clause_max c).
Proof. unfold session_n_vars, st_add, log_ev, sess_add. cbn [sess maxvar reserved]. lia. Qed.
Lemma nvars_nvars s : session_n_vars (sess (st_nvars s)) = session_n_vars (sess s).
Proof. reflexivity. Qed.

Lemma att_v_le n a b : 1 <= a <= n -> 1 <= b <= n -> n < att_v n a b /\ att_v n a b <= n + n * n.
Proof. intros Ha Hb. rewrite (att_v_pidx n a b) by lia. pose proof (pidx_lt n a b Ha Hb). lia. Qed.

Lemma att_aux_succ base n a b : att_aux base n a (S b) = S (att_aux base n a b).
Proof. unfold att_aux. lia. Qed.
Lemma att_aux_row base n a : 1 <= a -> att_aux base n (S a) 1 = S (att_aux base n a n).
Proof. intros Ha. unfold att_aux. replace (S a - 1) with (S (a - 1)) by lia. cbn [Nat.mul]. lia. Qed.

(* one inner loop: when the loop starts at attacker slot b0 with n_vars() + 1 = aux(a, b0), it appends
   the cells of b0 .. b0+len-1 and returns the clause extended by their auxiliary literals *)
Lemma st_inner_wp n base a (Ha : 1 <= a <= n) (Hbase : n + n * n <= base) :
  forall len b0 cl s (Q : clause -> Prog.st -> Prop),
  1 <= b0 -> b0 + len <= n + 1 ->
  S (session_n_vars (sess s)) = att_aux base n a b0 ->
  (forall s', cls s' = cls s ++ flat_map (st_cell n base a) (seq b0 len) ->
              session_n_vars (sess s') = session_n_vars (sess s) + len ->
              Q (cl ++ map (fun b => zlit (att_aux base n a b)) (seq b0 len)) s') ->
  wpT (st_inner n a (seq b0 len) cl) Q s.
Proof.
  induction len as [|len IH]; intros b0 cl s Q Hb0 Hlen Hnv HQ; cbn [seq st_inner].
  - rewrite wp_ret. cbn [seq map flat_map] in HQ. rewrite !app_nil_r in HQ. apply HQ; [reflexivity|lia].
  - rewrite wp_bind, wp_n_vars. rewrite Hnv.
    rewrite wp_bind, wp_add_clause, wp_bind, wp_add_clause, wp_bind, wp_add_clause, wp_bind, wp_add_clause.
    destruct (att_v_le n a b0) as [Hv1 Hv2]; [lia|lia|].
    assert (Hx : n + n * n < att_aux base n a b0) by (unfold att_aux; set (x := (a - 1) * n); lia).
    apply IH; [lia|lia| |].
    + rewrite att_aux_succ. f_equal. rewrite !nvars_add, nvars_nvars, !clause_max_cons, clause_max_nil.
      rewrite !lit_var_negate, att_lit_v, !lit_var_zlit, lit_var_znlit. lia.
    + intros s' Hc Hn. rewrite <- app_assoc. cbn [app map] in *. apply HQ.
      * rewrite Hc. rewrite !cls_add, cls_nvars. cbn [flat_map]. unfold st_cell at 2. cbv zeta.
        rewrite <- !app_assoc. reflexivity.
      * rewrite Hn. rewrite !nvars_add, nvars_nvars, !clause_max_cons, clause_max_nil.
        rewrite !lit_var_negate, att_lit_v, !lit_var_zlit, lit_var_znlit. lia.
Qed.

Lemma disj_v_le n b : 1 <= b <= n -> n + n * n < disj_v n b /\ disj_v n b <= n * (2 + n).
Proof. intros Hb. unfold disj_v. lia. Qed.

Lemma co_inner1_wp n base a (Ha : 1 <= a <= n) (Hbase : n * (2 + n) <= base) :
  forall len b0 cl s (Q : clause -> Prog.st -> Prop),
  1 <= b0 -> b0 + len <= n + 1 ->
  S (session_n_vars (sess s)) = att_aux base n a b0 ->
  (forall s', cls s' = cls s ++ flat_map (co_cell1 n base a) (seq b0 len) ->
              session_n_vars (sess s') = session_n_vars (sess s) + len ->
              Q (cl ++ map (fun b => zlit (att_aux base n a b)) (seq b0 len)) s') ->
  wpT (co_inner1 n a (seq b0 len) cl) Q s.
Proof.
  induction len as [|len IH]; intros b0 cl s Q Hb0 Hlen Hnv HQ; cbn [seq co_inner1].
  - rewrite wp_ret. cbn [seq map flat_map] in HQ. rewrite !app_nil_r in HQ. apply HQ; [reflexivity|lia].
  - rewrite wp_bind, wp_n_vars. rewrite Hnv.
    rewrite wp_bind, wp_add_clause, wp_bind, wp_add_clause, wp_bind, wp_add_clause, wp_bind, wp_add_clause.
    destruct (att_v_le n a b0) as [Hv1 Hv2]; [lia|lia|]. destruct (disj_v_le n b0) as [Hd1 Hd2]; [lia|].
    assert (Hx : n * (2 + n) < att_aux base n a b0) by (unfold att_aux; set (x := (a - 1) * n); lia).
    apply IH; [lia|lia| |].
    + rewrite att_aux_succ. f_equal. rewrite !nvars_add, nvars_nvars, !clause_max_cons, clause_max_nil.
      rewrite !lit_var_negate, att_lit_v, disj_of_v, !lit_var_zlit, lit_var_znlit. lia.
    + intros s' Hc Hn. rewrite <- app_assoc. cbn [app map] in *. apply HQ.
      * rewrite Hc. rewrite !cls_add, cls_nvars. cbn [flat_map]. unfold co_cell1 at 2. cbv zeta.
        rewrite <- !app_assoc. reflexivity.
      * rewrite Hn. rewrite !nvars_add, nvars_nvars, !clause_max_cons, clause_max_nil.
        rewrite !lit_var_negate, att_lit_v, disj_of_v, !lit_var_zlit, lit_var_znlit. lia.
Qed.

Lemma co_inner2_wp n base a (Ha : 1 <= a <= n) (Hbase : n * (2 + n) <= base) :
  forall len b0 cl s (Q : clause -> Prog.st -> Prop),
  1 <= b0 -> b0 + len <= n + 1 ->
  S (session_n_vars (sess s)) = att_aux base n a b0 ->
  (forall s', cls s' = cls s ++ flat_map (co_cell2 n base a) (seq b0 len) ->
              session_n_vars (sess s') = session_n_vars (sess s) + len ->
              Q (cl ++ map (fun b => zlit (att_aux base n a b)) (seq b0 len)) s') ->
  wpT (co_inner2 n a (seq b0 len) cl) Q s.
Proof.
  induction len as [|len IH]; intros b0 cl s Q Hb0 Hlen Hnv HQ; cbn [seq co_inner2].
  - rewrite wp_ret. cbn [seq map flat_map] in HQ. rewrite !app_nil_r in HQ. apply HQ; [reflexivity|lia].
  - rewrite wp_bind, wp_n_vars. rewrite Hnv.
    rewrite wp_bind, wp_add_clause, wp_bind, wp_add_clause, wp_bind, wp_add_clause, wp_bind, wp_add_clause.
    destruct (att_v_le n a b0) as [Hv1 Hv2]; [lia|lia|]. destruct (disj_v_le n a) as [Hd1 Hd2]; [lia|].
    assert (Hx : n * (2 + n) < att_aux base n a b0) by (unfold att_aux; set (x := (a - 1) * n); lia).
    apply IH; [lia|lia| |].
    + rewrite att_aux_succ. f_equal. rewrite !nvars_add, nvars_nvars, !clause_max_cons, clause_max_nil.
      rewrite !lit_var_negate, att_lit_v, disj_of_v, !lit_var_zlit. lia.
    + intros s' Hc Hn. rewrite <- app_assoc. cbn [app map] in *. apply HQ.
      * rewrite Hc. rewrite !cls_add, cls_nvars. cbn [flat_map]. unfold co_cell2 at 2. cbv zeta.
        rewrite <- !app_assoc. reflexivity.
      * rewrite Hn. rewrite !nvars_add, nvars_nvars, !clause_max_cons, clause_max_nil.
        rewrite !lit_var_negate, att_lit_v, disj_of_v, !lit_var_zlit. lia.
Qed.

(* the final clause of a row mentions no variable above the last auxiliary variable of the row *)
Lemma row_clause_max (hd : lit) n base a k :
  lit_var hd <= k -> att_aux base n a n <= k ->
  clause_max (hd :: map (fun b => zlit (att_aux base n a b)) (seq 1 n)) <= k.
Proof.
  intros Hh Hk. apply clause_max_le. intros l [<-|Hl]; [exact Hh|].
  apply in_map_iff in Hl. destruct Hl as (b & <- & Hb). apply in_seq1 in Hb. rewrite lit_var_zlit.
  unfold att_aux in *. set (x := (a - 1) * n) in *. lia.
Qed.
Lemma att_aux_first_last base n a : 1 <= n -> att_aux base n a 1 + n = S (att_aux base n a n).
Proof. intros Hn. unfold att_aux. set (x := (a - 1) * n). lia. Qed.

Lemma st_rows_wp n base (Hbase : n + n * n <= base) :
  forall len a0 s (Q : unit -> Prog.st -> Prop),
  1 <= a0 -> a0 + len <= n + 1 ->
  S (session_n_vars (sess s)) = att_aux base n a0 1 ->
  (forall s', cls s' = cls s ++ flat_map (st_row n base) (seq a0 len) ->
              session_n_vars (sess s') = session_n_vars (sess s) + len * n -> Q tt s') ->
  wpT (fold_m (fun (_ : unit) arg_var =>
                 cl <- st_inner n arg_var (seq 1 n) [zlit arg_var] ;; add_clause cl) (seq a0 len) tt) Q s.
Proof.
  induction len as [|len IH]; intros a0 s Q Ha0 Hlen Hnv HQ; cbn [seq fold_m].
  - rewrite wp_ret. cbn [flat_map] in HQ. apply HQ; [rewrite app_nil_r; reflexivity|lia].
  - rewrite wp_bind, wp_bind. apply (st_inner_wp n base a0); [lia|exact Hbase|lia|lia|exact Hnv|].
    intros s1 Hc1 Hn1. rewrite wp_add_clause.
    assert (Hn : 1 <= n) by lia. pose proof (att_aux_first_last base n a0 Hn) as Hfl.
    assert (Hcm : clause_max ([zlit a0] ++ map (fun b => zlit (att_aux base n a0 b)) (seq 1 n)) <= att_aux base n a0 n).
    { apply row_clause_max; [|lia]. rewrite lit_var_zlit. unfold att_aux. set (x := (a0 - 1) * n). lia. }
    apply IH; [lia|lia| |].
    + rewrite att_aux_row by lia. f_equal. rewrite nvars_add, Hn1. lia.
    + intros s' Hc Hn'. apply HQ.
      * rewrite Hc, cls_add, Hc1. cbn [seq flat_map]. unfold st_row. rewrite <- !app_assoc. reflexivity.
      * rewrite Hn', nvars_add, Hn1. cbn [Nat.mul]. lia.
Qed.

Lemma co_rows1_wp n base (Hbase : n * (2 + n) <= base) :
  forall len a0 s (Q : unit -> Prog.st -> Prop),
  1 <= a0 -> a0 + len <= n + 1 ->
  S (session_n_vars (sess s)) = att_aux base n a0 1 ->
  (forall s', cls s' = cls s ++ flat_map (co_row1 n base) (seq a0 len) ->
              session_n_vars (sess s') = session_n_vars (sess s) + len * n -> Q tt s') ->
  wpT (fold_m (fun (_ : unit) arg_var =>
                 add_clause [znlit arg_var; negate (disj_of n arg_var)] ;;;
                 cl <- co_inner1 n arg_var (seq 1 n) [zlit arg_var] ;; add_clause cl) (seq a0 len) tt) Q s.
Proof.
  induction len as [|len IH]; intros a0 s Q Ha0 Hlen Hnv HQ; cbn [seq fold_m].
  - rewrite wp_ret. cbn [flat_map] in HQ. apply HQ; [rewrite app_nil_r; reflexivity|lia].
  - rewrite wp_bind, wp_bind, wp_add_clause, wp_bind.
    assert (Hn : 1 <= n) by lia. pose proof (att_aux_first_last base n a0 Hn) as Hfl.
    destruct (disj_v_le n a0) as [Hd1 Hd2]; [lia|].
    assert (Hb1 : base < att_aux base n a0 1) by (unfold att_aux; set (x := (a0 - 1) * n); lia).
    assert (Hn0 : session_n_vars (sess (st_add s [znlit a0; negate (disj_of n a0)])) = session_n_vars (sess s)).
    { rewrite nvars_add, !clause_max_cons, clause_max_nil, lit_var_negate, disj_of_v, lit_var_zlit, lit_var_znlit. lia. }
    apply (co_inner1_wp n base a0); [lia|exact Hbase|lia|lia|rewrite Hn0; exact Hnv|].
    intros s1 Hc1 Hn1. rewrite wp_add_clause.
    assert (Hcm : clause_max ([zlit a0] ++ map (fun b => zlit (att_aux base n a0 b)) (seq 1 n)) <= att_aux base n a0 n).
    { apply row_clause_max; [|lia]. rewrite lit_var_zlit. unfold att_aux. set (x := (a0 - 1) * n). lia. }
    apply IH; [lia|lia| |].
    + rewrite att_aux_row by lia. f_equal. rewrite nvars_add, Hn1, Hn0. lia.
    + intros s' Hc Hn'. apply HQ.
      * rewrite Hc, cls_add, Hc1, cls_add. cbn [seq flat_map]. unfold co_row1. cbn [app]. rewrite <- !app_assoc. reflexivity.
      * rewrite Hn', nvars_add, Hn1, Hn0. cbn [Nat.mul]. lia.
Qed.

Lemma co_rows2_wp n base (Hbase : n * (2 + n) <= base) :
  forall len a0 s (Q : unit -> Prog.st -> Prop),
  1 <= a0 -> a0 + len <= n + 1 ->
  S (session_n_vars (sess s)) = att_aux base n a0 1 ->
  (forall s', cls s' = cls s ++ flat_map (co_row2 n base) (seq a0 len) ->
              session_n_vars (sess s') = session_n_vars (sess s) + len * n -> Q tt s') ->
  wpT (fold_m (fun (_ : unit) arg_var =>
                 cl <- co_inner2 n arg_var (seq 1 n) [negate (disj_of n arg_var)] ;; add_clause cl) (seq a0 len) tt) Q s.
Proof.
  induction len as [|len IH]; intros a0 s Q Ha0 Hlen Hnv HQ; cbn [seq fold_m].
  - rewrite wp_ret. cbn [flat_map] in HQ. apply HQ; [rewrite app_nil_r; reflexivity|lia].
  - rewrite wp_bind, wp_bind. apply (co_inner2_wp n base a0); [lia|exact Hbase|lia|lia|exact Hnv|].
    intros s1 Hc1 Hn1. rewrite wp_add_clause.
    assert (Hn : 1 <= n) by lia. pose proof (att_aux_first_last base n a0 Hn) as Hfl.
    destruct (disj_v_le n a0) as [Hd1 Hd2]; [lia|].
    assert (Hcm : clause_max ([negate (disj_of n a0)] ++ map (fun b => zlit (att_aux base n a0 b)) (seq 1 n)) <= att_aux base n a0 n).
    { apply row_clause_max; [|lia]. rewrite lit_var_negate, disj_of_v, lit_var_zlit. unfold att_aux. set (x := (a0 - 1) * n). lia. }
    apply IH; [lia|lia| |].
    + rewrite att_aux_row by lia. f_equal. rewrite nvars_add, Hn1. lia.
    + intros s' Hc Hn'. apply HQ.
      * rewrite Hc, cls_add, Hc1. cbn [seq flat_map]. unfold co_row2. rewrite <- !app_assoc. reflexivity.
      * rewrite Hn', nvars_add, Hn1. cbn [Nat.mul]. lia.
Qed.
