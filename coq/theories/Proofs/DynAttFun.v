(* The functional theorem for the two dynamic solvers with assumptions on attacks: with a single
   valid SAT oracle and the SAT program state threaded through the whole history (areach), every
   answer of dyn_query - computed or served from the cache - is the answer the semantics dictate for
   the framework as it stands (TopMax.acc_spec on af_of (run_ops fresh os)).
   Part A: what a re-encoding leaves in the SAT session (exactly DynAttDefs.att_cnf, on a new session).
   Part B: the clause-set invariant over replays and re-encodings.
   Part C: a computed answer.   Part D: the cache.   Part E: every reachable state, the theorem. *)
From Crusta Require Import Model.Dynamic Spec.SemFacts Proofs.ProgLaws Proofs.EncBase Proofs.SolverBasics.
From Crusta Require Import Proofs.GroundedProofs Proofs.TopMax.
From Crusta Require Import Proofs.StoreBase Proofs.StoreProofs Proofs.DynDefs Proofs.DynBase Proofs.DynProofs
  Proofs.DynSafe Proofs.DynAttDefs Proofs.DynAttTables Proofs.DynAttSafe Proofs.DynAttEnc.
From Coq Require Import Lia ZifyBool.
Open Scope prog_scope.

Notation wpT := (wp (fun _ => True) (fun _ => True) (fun _ => True)).

Lemma wpT_done {A} (m : Prog.M A) (Q : A -> Prog.st -> Prop) s a s' :
  wpT m Q s -> m s = Done a s' -> Q a s'.
Proof. unfold wp. intros H E. rewrite E in H. exact H. Qed.
Lemma wpT_intro {A} (m : Prog.M A) (Q : A -> Prog.st -> Prop) s :
  (forall a s', m s = Done a s' -> Q a s') -> wpT m Q s.
Proof. unfold wp. intros H. destruct (m s) as [a s'| | |]; auto. Qed.

(* ================================================================ Part A *)
Lemma lit_var_negate l : lit_var (negate l) = lit_var l.
Proof. unfold lit_var, negate. rewrite Z.abs_opp. reflexivity. Qed.
Lemma clause_max_cons l c : clause_max (l :: c) = Nat.max (lit_var l) (clause_max c).
Proof. reflexivity. Qed.
Lemma clause_max_nil : clause_max [] = 0.
Proof. reflexivity. Qed.
Lemma clause_max_le c k : (forall l, In l c -> lit_var l <= k) -> clause_max c <= k.
Proof.
  induction c as [|l r IH]; intros H; [cbn; lia|]. rewrite clause_max_cons.
  pose proof (H l (or_introl eq_refl)). assert (clause_max r <= k) by (apply IH; intros x Hx; apply H; right; exact Hx). lia.
Qed.

Lemma nvars_add s c : session_n_vars (sess (st_add s c)) = Nat.max (session_n_vars (sess s)) (clause_max c).
Proof. unfold session_n_vars, st_add, log_ev, sess_add. cbn [sess maxvar reserved]. lia. Qed.
Lemma nvars_nvars s : session_n_vars (sess (st_nvars s)) = session_n_vars (sess s).
Proof. reflexivity. Qed.

Lemma att_v_le n a b : 1 <= a <= n -> 1 <= b <= n -> n < att_v n a b /\ att_v n a b <= n + n * n.
Proof. intros Ha Hb. rewrite (att_v_pidx n a b) by lia. pose proof (pidx_lt n a b Ha Hb). lia. Qed.

Lemma att_aux_succ base n a b : att_aux base n a (S b) = S (att_aux base n a b).
Proof. unfold att_aux. lia. Qed.
Lemma att_aux_row base n a : 1 <= a -> att_aux base n (S a) 1 = S (att_aux base n a n).
Proof. intros Ha. unfold att_aux. replace (S a - 1) with (S (a - 1)) by lia. cbn [Nat.mul]. lia. Qed.

(* one inner loop: when the loop starts at attacker slot b0 with n_vars() + 1 = aux(a, b0), it appends
   the cells of b0 .. b0+len-1 and returns the clause extended by their auxiliary literals *)
Lemma st_inner_wp n base a (Ha : 1 <= a <= n) (Hbase : n + n * n <= base) :
  forall len b0 cl s (Q : clause -> Prog.st -> Prop),
  1 <= b0 -> b0 + len <= n + 1 ->
  S (session_n_vars (sess s)) = att_aux base n a b0 ->
  (forall s', cls s' = cls s ++ flat_map (st_cell n base a) (seq b0 len) ->
              session_n_vars (sess s') = session_n_vars (sess s) + len ->
              Q (cl ++ map (fun b => zlit (att_aux base n a b)) (seq b0 len)) s') ->
  wpT (st_inner n a (seq b0 len) cl) Q s.
Proof.
  induction len as [|len IH]; intros b0 cl s Q Hb0 Hlen Hnv HQ; cbn [seq st_inner].
  - rewrite wp_ret. cbn [seq map flat_map] in HQ. rewrite !app_nil_r in HQ. apply HQ; [reflexivity|lia].
  - rewrite wp_bind, wp_n_vars. rewrite Hnv.
    rewrite wp_bind, wp_add_clause, wp_bind, wp_add_clause, wp_bind, wp_add_clause, wp_bind, wp_add_clause.
    destruct (att_v_le n a b0) as [Hv1 Hv2]; [lia|lia|].
    assert (Hx : n + n * n < att_aux base n a b0) by (unfold att_aux; set (x := (a - 1) * n); lia).
    apply IH; [lia|lia| |].
    + rewrite att_aux_succ. f_equal. rewrite !nvars_add, nvars_nvars, !clause_max_cons, clause_max_nil.
      rewrite !lit_var_negate, att_lit_v, !lit_var_zlit, lit_var_znlit. lia.
    + intros s' Hc Hn. rewrite <- app_assoc. cbn [app map] in *. apply HQ.
      * rewrite Hc. rewrite !cls_add, cls_nvars. cbn [flat_map]. unfold st_cell at 2. cbv zeta.
        rewrite <- !app_assoc. reflexivity.
      * rewrite Hn. rewrite !nvars_add, nvars_nvars, !clause_max_cons, clause_max_nil.
        rewrite !lit_var_negate, att_lit_v, !lit_var_zlit, lit_var_znlit. lia.
Qed.

Lemma disj_v_le n b : 1 <= b <= n -> n + n * n < disj_v n b /\ disj_v n b <= n * (2 + n).
Proof. intros Hb. unfold disj_v. lia. Qed.

Lemma co_inner1_wp n base a (Ha : 1 <= a <= n) (Hbase : n * (2 + n) <= base) :
  forall len b0 cl s (Q : clause -> Prog.st -> Prop),
  1 <= b0 -> b0 + len <= n + 1 ->
  S (session_n_vars (sess s)) = att_aux base n a b0 ->
  (forall s', cls s' = cls s ++ flat_map (co_cell1 n base a) (seq b0 len) ->
              session_n_vars (sess s') = session_n_vars (sess s) + len ->
              Q (cl ++ map (fun b => zlit (att_aux base n a b)) (seq b0 len)) s') ->
  wpT (co_inner1 n a (seq b0 len) cl) Q s.
Proof.
  induction len as [|len IH]; intros b0 cl s Q Hb0 Hlen Hnv HQ; cbn [seq co_inner1].
  - rewrite wp_ret. cbn [seq map flat_map] in HQ. rewrite !app_nil_r in HQ. apply HQ; [reflexivity|lia].
  - rewrite wp_bind, wp_n_vars. rewrite Hnv.
    rewrite wp_bind, wp_add_clause, wp_bind, wp_add_clause, wp_bind, wp_add_clause, wp_bind, wp_add_clause.
    destruct (att_v_le n a b0) as [Hv1 Hv2]; [lia|lia|]. destruct (disj_v_le n b0) as [Hd1 Hd2]; [lia|].
    assert (Hx : n * (2 + n) < att_aux base n a b0) by (unfold att_aux; set (x := (a - 1) * n); lia).
    apply IH; [lia|lia| |].
    + rewrite att_aux_succ. f_equal. rewrite !nvars_add, nvars_nvars, !clause_max_cons, clause_max_nil.
      rewrite !lit_var_negate, att_lit_v, disj_of_v, !lit_var_zlit, lit_var_znlit. lia.
    + intros s' Hc Hn. rewrite <- app_assoc. cbn [app map] in *. apply HQ.
      * rewrite Hc. rewrite !cls_add, cls_nvars. cbn [flat_map]. unfold co_cell1 at 2. cbv zeta.
        rewrite <- !app_assoc. reflexivity.
      * rewrite Hn. rewrite !nvars_add, nvars_nvars, !clause_max_cons, clause_max_nil.
        rewrite !lit_var_negate, att_lit_v, disj_of_v, !lit_var_zlit, lit_var_znlit. lia.
Qed.

Lemma co_inner2_wp n base a (Ha : 1 <= a <= n) (Hbase : n * (2 + n) <= base) :
  forall len b0 cl s (Q : clause -> Prog.st -> Prop),
  1 <= b0 -> b0 + len <= n + 1 ->
  S (session_n_vars (sess s)) = att_aux base n a b0 ->
  (forall s', cls s' = cls s ++ flat_map (co_cell2 n base a) (seq b0 len) ->
              session_n_vars (sess s') = session_n_vars (sess s) + len ->
              Q (cl ++ map (fun b => zlit (att_aux base n a b)) (seq b0 len)) s') ->
  wpT (co_inner2 n a (seq b0 len) cl) Q s.
Proof.
  induction len as [|len IH]; intros b0 cl s Q Hb0 Hlen Hnv HQ; cbn [seq co_inner2].
  - rewrite wp_ret. cbn [seq map flat_map] in HQ. rewrite !app_nil_r in HQ. apply HQ; [reflexivity|lia].
  - rewrite wp_bind, wp_n_vars. rewrite Hnv.
    rewrite wp_bind, wp_add_clause, wp_bind, wp_add_clause, wp_bind, wp_add_clause, wp_bind, wp_add_clause.
    destruct (att_v_le n a b0) as [Hv1 Hv2]; [lia|lia|]. destruct (disj_v_le n a) as [Hd1 Hd2]; [lia|].
    assert (Hx : n * (2 + n) < att_aux base n a b0) by (unfold att_aux; set (x := (a - 1) * n); lia).
    apply IH; [lia|lia| |].
    + rewrite att_aux_succ. f_equal. rewrite !nvars_add, nvars_nvars, !clause_max_cons, clause_max_nil.
      rewrite !lit_var_negate, att_lit_v, disj_of_v, !lit_var_zlit. lia.
    + intros s' Hc Hn. rewrite <- app_assoc. cbn [app map] in *. apply HQ.
      * rewrite Hc. rewrite !cls_add, cls_nvars. cbn [flat_map]. unfold co_cell2 at 2. cbv zeta.
        rewrite <- !app_assoc. reflexivity.
      * rewrite Hn. rewrite !nvars_add, nvars_nvars, !clause_max_cons, clause_max_nil.
        rewrite !lit_var_negate, att_lit_v, disj_of_v, !lit_var_zlit. lia.
Qed.

(* the final clause of a row mentions no variable above the last auxiliary variable of the row *)
Lemma row_clause_max (hd : lit) n base a k :
  lit_var hd <= k -> att_aux base n a n <= k ->
  clause_max (hd :: map (fun b => zlit (att_aux base n a b)) (seq 1 n)) <= k.
Proof.
  intros Hh Hk. apply clause_max_le. intros l [<-|Hl]; [exact Hh|].
  apply in_map_iff in Hl. destruct Hl as (b & <- & Hb). apply in_seq1 in Hb. rewrite lit_var_zlit.
  unfold att_aux in *. set (x := (a - 1) * n) in *. lia.
Qed.
Lemma att_aux_first_last base n a : 1 <= n -> att_aux base n a 1 + n = S (att_aux base n a n).
Proof. intros Hn. unfold att_aux. set (x := (a - 1) * n). lia. Qed.

Lemma st_rows_wp n base (Hbase : n + n * n <= base) :
  forall len a0 s (Q : unit -> Prog.st -> Prop),
  1 <= a0 -> a0 + len <= n + 1 ->
  S (session_n_vars (sess s)) = att_aux base n a0 1 ->
  (forall s', cls s' = cls s ++ flat_map (st_row n base) (seq a0 len) ->
              session_n_vars (sess s') = session_n_vars (sess s) + len * n -> Q tt s') ->
  wpT (fold_m (fun (_ : unit) arg_var =>
                 cl <- st_inner n arg_var (seq 1 n) [zlit arg_var] ;; add_clause cl) (seq a0 len) tt) Q s.
Proof.
  induction len as [|len IH]; intros a0 s Q Ha0 Hlen Hnv HQ; cbn [seq fold_m].
  - rewrite wp_ret. cbn [flat_map] in HQ. apply HQ; [rewrite app_nil_r; reflexivity|lia].
  - rewrite wp_bind, wp_bind. apply (st_inner_wp n base a0); [lia|exact Hbase|lia|lia|exact Hnv|].
    intros s1 Hc1 Hn1. rewrite wp_add_clause.
    assert (Hn : 1 <= n) by lia. pose proof (att_aux_first_last base n a0 Hn) as Hfl.
    assert (Hcm : clause_max ([zlit a0] ++ map (fun b => zlit (att_aux base n a0 b)) (seq 1 n)) <= att_aux base n a0 n).
    { apply row_clause_max; [|lia]. rewrite lit_var_zlit. unfold att_aux. set (x := (a0 - 1) * n). lia. }
    apply IH; [lia|lia| |].
    + rewrite att_aux_row by lia. f_equal. rewrite nvars_add, Hn1. lia.
    + intros s' Hc Hn'. apply HQ.
      * rewrite Hc, cls_add, Hc1. cbn [seq flat_map]. unfold st_row. rewrite <- !app_assoc. reflexivity.
      * rewrite Hn', nvars_add, Hn1. cbn [Nat.mul]. lia.
Qed.

Lemma co_rows1_wp n base (Hbase : n * (2 + n) <= base) :
  forall len a0 s (Q : unit -> Prog.st -> Prop),
  1 <= a0 -> a0 + len <= n + 1 ->
  S (session_n_vars (sess s)) = att_aux base n a0 1 ->
  (forall s', cls s' = cls s ++ flat_map (co_row1 n base) (seq a0 len) ->
              session_n_vars (sess s') = session_n_vars (sess s) + len * n -> Q tt s') ->
  wpT (fold_m (fun (_ : unit) arg_var =>
                 add_clause [znlit arg_var; negate (disj_of n arg_var)] ;;;
                 cl <- co_inner1 n arg_var (seq 1 n) [zlit arg_var] ;; add_clause cl) (seq a0 len) tt) Q s.
Proof.
  induction len as [|len IH]; intros a0 s Q Ha0 Hlen Hnv HQ; cbn [seq fold_m].
  - rewrite wp_ret. cbn [flat_map] in HQ. apply HQ; [rewrite app_nil_r; reflexivity|lia].
  - rewrite wp_bind, wp_bind, wp_add_clause, wp_bind.
    assert (Hn : 1 <= n) by lia. pose proof (att_aux_first_last base n a0 Hn) as Hfl.
    destruct (disj_v_le n a0) as [Hd1 Hd2]; [lia|].
    assert (Hb1 : base < att_aux base n a0 1) by (unfold att_aux; set (x := (a0 - 1) * n); lia).
    assert (Hn0 : session_n_vars (sess (st_add s [znlit a0; negate (disj_of n a0)])) = session_n_vars (sess s)).
    { rewrite nvars_add, !clause_max_cons, clause_max_nil, lit_var_negate, disj_of_v, lit_var_zlit, lit_var_znlit. lia. }
    apply (co_inner1_wp n base a0); [lia|exact Hbase|lia|lia|rewrite Hn0; exact Hnv|].
    intros s1 Hc1 Hn1. rewrite wp_add_clause.
    assert (Hcm : clause_max ([zlit a0] ++ map (fun b => zlit (att_aux base n a0 b)) (seq 1 n)) <= att_aux base n a0 n).
    { apply row_clause_max; [|lia]. rewrite lit_var_zlit. unfold att_aux. set (x := (a0 - 1) * n). lia. }
    apply IH; [lia|lia| |].
    + rewrite att_aux_row by lia. f_equal. rewrite nvars_add, Hn1, Hn0. lia.
    + intros s' Hc Hn'. apply HQ.
      * rewrite Hc, cls_add, Hc1, cls_add. cbn [seq flat_map]. unfold co_row1. cbn [app]. rewrite <- !app_assoc. reflexivity.
      * rewrite Hn', nvars_add, Hn1, Hn0. cbn [Nat.mul]. lia.
Qed.

Lemma co_rows2_wp n base (Hbase : n * (2 + n) <= base) :
  forall len a0 s (Q : unit -> Prog.st -> Prop),
  1 <= a0 -> a0 + len <= n + 1 ->
  S (session_n_vars (sess s)) = att_aux base n a0 1 ->
  (forall s', cls s' = cls s ++ flat_map (co_row2 n base) (seq a0 len) ->
              session_n_vars (sess s') = session_n_vars (sess s) + len * n -> Q tt s') ->
  wpT (fold_m (fun (_ : unit) arg_var =>
                 cl <- co_inner2 n arg_var (seq 1 n) [negate (disj_of n arg_var)] ;; add_clause cl) (seq a0 len) tt) Q s.
Proof.
  induction len as [|len IH]; intros a0 s Q Ha0 Hlen Hnv HQ; cbn [seq fold_m].
  - rewrite wp_ret. cbn [flat_map] in HQ. apply HQ; [rewrite app_nil_r; reflexivity|lia].
  - rewrite wp_bind, wp_bind. apply (co_inner2_wp n base a0); [lia|exact Hbase|lia|lia|exact Hnv|].
    intros s1 Hc1 Hn1. rewrite wp_add_clause.
    assert (Hn : 1 <= n) by lia. pose proof (att_aux_first_last base n a0 Hn) as Hfl.
    destruct (disj_v_le n a0) as [Hd1 Hd2]; [lia|].
    assert (Hcm : clause_max ([negate (disj_of n a0)] ++ map (fun b => zlit (att_aux base n a0 b)) (seq 1 n)) <= att_aux base n a0 n).
    { apply row_clause_max; [|lia]. rewrite lit_var_negate, disj_of_v, lit_var_zlit. unfold att_aux. set (x := (a0 - 1) * n). lia. }
    apply IH; [lia|lia| |].
    + rewrite att_aux_row by lia. f_equal. rewrite nvars_add, Hn1. lia.
    + intros s' Hc Hn'. apply HQ.
      * rewrite Hc, cls_add, Hc1. cbn [seq flat_map]. unfold co_row2. rewrite <- !app_assoc. reflexivity.
      * rewrite Hn', nvars_add, Hn1. cbn [Nat.mul]. lia.
Qed.

Lemma wpT_okm {A} (m : Prog.M A) (P : A -> Prop) (Q : A -> Prog.st -> Prop) s :
  okm m P -> wpT m Q s -> wpT m (fun a s' => P a /\ Q a s') s.
Proof.
  intros HP HQ. apply wpT_intro. intros a s' E. split; [exact (HP _ _ _ E)|exact (wpT_done _ _ _ _ _ HQ E)].
Qed.
Lemma wpT_panic {A} (Q : A -> Prog.st -> Prop) s : wpT (@panic A) Q s.
Proof. exact I. Qed.

(* ---- reading an assignment *)
Lemma in_combine_seq_nth {A} (m : list A) : forall s v o,
  In (v, o) (combine (seq s (length m)) m) <-> s <= v /\ nth_error m (v - s) = Some o.
Proof.
  induction m as [|x r IH]; intros s v o; cbn [length seq combine In].
  - split; [intros []|intros [_ H]; destruct (v - s); discriminate H].
  - rewrite IH. split.
    + intros [E|[H1 H2]].
      * injection E as <- <-. split; [lia|]. rewrite Nat.sub_diag. reflexivity.
      * split; [lia|]. replace (v - s) with (S (v - S s)) by lia. exact H2.
    + intros [H1 H2]. destruct (Nat.eq_dec v s) as [->|Hne].
      * left. rewrite Nat.sub_diag in H2. cbn in H2. injection H2 as ->. reflexivity.
      * right. split; [lia|]. replace (v - s) with (S (v - S s)) in H2 by lia. exact H2.
Qed.

Lemma in_vars_where p m v : In v (vars_where p m) <-> 1 <= v <= length m /\ p (value_of m v) = true.
Proof.
  unfold vars_where. rewrite in_map_iff. split.
  - intros ([v' o] & E & Hin). cbn [fst] in E. subst v'. apply filter_In in Hin. destruct Hin as [Hin Hp].
    cbn [snd] in Hp. apply in_combine_seq_nth in Hin. destruct Hin as [H1 H2].
    pose proof (nth_error_lt _ _ _ H2). split; [lia|]. unfold value_of. rewrite (nth_error_nth _ _ None H2). exact Hp.
  - intros [Hv Hp]. exists (v, value_of m v). split; [reflexivity|]. apply filter_In. split; [|exact Hp].
    apply in_combine_seq_nth. split; [lia|]. unfold value_of. apply nth_error_nth'. lia.
Qed.

Lemma lit_true_zlit m v : 0 < v -> (lit_true m (zlit v) = true <-> value_of m v = Some true).
Proof.
  intros Hv. unfold lit_true. rewrite lit_var_zlit. replace (Z.ltb 0 (zlit v)) with true by (unfold zlit; lia).
  destruct (value_of m v) as [[|]|]; split; congruence.
Qed.
Lemma lit_true_znlit m v : lit_true m (znlit v) = true <-> value_of m v = Some false.
Proof.
  unfold lit_true. rewrite lit_var_znlit. replace (Z.ltb 0 (znlit v)) with false by (unfold znlit; lia).
  destruct (value_of m v) as [[|]|]; cbn; split; congruence.
Qed.
Lemma lit_true_negate_zlit m v : lit_true m (negate (zlit v)) = true <-> value_of m v = Some false.
Proof. apply lit_true_znlit. Qed.

Lemma models_in m C c : models m C = true -> In c C -> sat_clause m c = true.
Proof. unfold models. rewrite forallb_forall. auto. Qed.
Lemma sat_clause_cons m l c : sat_clause m (l :: c) = lit_true m l || sat_clause m c.
Proof. reflexivity. Qed.
Lemma sat_clause_nil m : sat_clause m [] = false.
Proof. reflexivity. Qed.

(* every slot variable is ASSIGNED by a (partial) assignment that satisfies the clauses: what makes
   the "every argument not assigned false" cache of the solvers sound *)
Lemma st_cnf_total n m a : models m (att_st_cnf n) = true -> 1 <= a <= n -> value_of m a <> None.
Proof.
  intros Hm Ha.
  assert (Hrow : forall c, In c (st_row n (n * (1 + n)) a) -> sat_clause m c = true).
  { intros c Hc. apply (models_in m _ c Hm). unfold att_st_cnf. apply in_flat_map. exists a. split; [apply in_seq1; exact Ha|exact Hc]. }
  set (base := n * (1 + n)) in *.
  assert (Hfin : sat_clause m (zlit a :: map (fun b => zlit (att_aux base n a b)) (seq 1 n)) = true).
  { apply Hrow. unfold st_row. apply in_or_app. right. left. reflexivity. }
  rewrite sat_clause_cons in Hfin. apply orb_true_iff in Hfin. destruct Hfin as [H|H].
  { apply lit_true_zlit in H; [congruence|lia]. }
  unfold sat_clause in H. apply existsb_exists in H. destruct H as (l & Hl & Hlt).
  apply in_map_iff in Hl. destruct Hl as (b & <- & Hb).
  assert (Hcell : forall c, In c (st_cell n base a b) -> sat_clause m c = true).
  { intros c Hc. apply Hrow. unfold st_row. apply in_or_app. left. apply in_flat_map. exists b. auto. }
  apply in_seq1 in Hb. apply lit_true_zlit in Hlt; [|apply att_aux_pos; lia].
  unfold st_cell in Hcell. cbv zeta in Hcell. rewrite att_lit_v in Hcell.
  pose proof (Hcell _ (or_introl eq_refl)) as C1.
  pose proof (Hcell _ (or_intror (or_introl eq_refl))) as C2.
  pose proof (Hcell _ (or_intror (or_intror (or_intror (or_introl eq_refl))))) as C4.
  rewrite !sat_clause_cons, sat_clause_nil, orb_false_r in C1.
  rewrite !sat_clause_cons, sat_clause_nil, orb_false_r in C2.
  rewrite !sat_clause_cons, sat_clause_nil, orb_false_r in C4.
  assert (Hv : 0 < att_v n a b) by (unfold att_v; lia).
  apply orb_true_iff in C1. destruct C1 as [C1|C1]; [apply lit_true_negate_zlit in C1; congruence|].
  apply lit_true_zlit in C1; [|lia].
  apply orb_true_iff in C2. destruct C2 as [C2|C2]; [apply lit_true_negate_zlit in C2; congruence|].
  apply lit_true_zlit in C2; [|exact Hv].
  apply orb_true_iff in C4. destruct C4 as [C4|C4]; [apply lit_true_negate_zlit in C4; congruence|].
  apply orb_true_iff in C4. destruct C4 as [C4|C4]; [apply lit_true_znlit in C4; congruence|].
  apply lit_true_negate_zlit in C4. congruence.
Qed.

Lemma co_cnf_total n m a : models m (att_co_cnf n) = true -> 1 <= a <= n -> value_of m a <> None.
Proof.
  intros Hm Ha. set (base := n * (2 + n)).
  assert (Hrow : forall c, In c (co_row1 n base a) -> sat_clause m c = true).
  { intros c Hc. apply (models_in m _ c Hm). unfold att_co_cnf. apply in_or_app. left.
    apply in_flat_map. exists a. split; [apply in_seq1; exact Ha|exact Hc]. }
  assert (Hfin : sat_clause m (zlit a :: map (fun b => zlit (att_aux base n a b)) (seq 1 n)) = true).
  { apply Hrow. unfold co_row1. right. apply in_or_app. right. left. reflexivity. }
  rewrite sat_clause_cons in Hfin. apply orb_true_iff in Hfin. destruct Hfin as [H|H].
  { apply lit_true_zlit in H; [congruence|lia]. }
  unfold sat_clause in H. apply existsb_exists in H. destruct H as (l & Hl & Hlt).
  apply in_map_iff in Hl. destruct Hl as (b & <- & Hb).
  assert (Hcell : forall c, In c (co_cell1 n base a b) -> sat_clause m c = true).
  { intros c Hc. apply Hrow. unfold co_row1. right. apply in_or_app. left. apply in_flat_map. exists b. auto. }
  apply in_seq1 in Hb. apply lit_true_zlit in Hlt; [|apply att_aux_pos; lia].
  unfold co_cell1 in Hcell. cbv zeta in Hcell. rewrite att_lit_v, disj_of_v in Hcell.
  pose proof (Hcell _ (or_introl eq_refl)) as C1.
  pose proof (Hcell _ (or_intror (or_introl eq_refl))) as C2.
  pose proof (Hcell _ (or_intror (or_intror (or_intror (or_introl eq_refl))))) as C4.
  rewrite !sat_clause_cons, sat_clause_nil, orb_false_r in C1.
  rewrite !sat_clause_cons, sat_clause_nil, orb_false_r in C2.
  rewrite !sat_clause_cons, sat_clause_nil, orb_false_r in C4.
  assert (Hv : 0 < att_v n a b) by (unfold att_v; lia).
  assert (Hd : 0 < disj_v n b) by (unfold disj_v; lia).
  apply orb_true_iff in C1. destruct C1 as [C1|C1]; [apply lit_true_negate_zlit in C1; congruence|].
  apply lit_true_negate_zlit in C1.
  apply orb_true_iff in C2. destruct C2 as [C2|C2]; [apply lit_true_negate_zlit in C2; congruence|].
  apply lit_true_zlit in C2; [|exact Hv].
  apply orb_true_iff in C4. destruct C4 as [C4|C4]; [apply lit_true_negate_zlit in C4; congruence|].
  apply orb_true_iff in C4. destruct C4 as [C4|C4]; [apply lit_true_znlit in C4; congruence|].
  apply lit_true_zlit in C4; [congruence|exact Hd].
Qed.

Lemma att_cnf_total sm n m a : models m (att_cnf sm n) = true -> 1 <= a <= n -> value_of m a <> None.
Proof. destruct sm; cbn [att_cnf]; [apply co_cnf_total|apply st_cnf_total|apply co_cnf_total]. Qed.

Section Fun.
Variable L : Type.
Variable leqb : L -> L -> bool.
Hypothesis leqb_spec : forall x y, leqb x y = true <-> x = y.

Notation fw := (fw L).
Notation Inv := (Inv L).
Notation get_argument := (get_argument L leqb).
Notation att_tables_ok := (att_tables_ok L).
Notation att_pre := (att_pre L).

(* a re-encoding opens a new session and leaves exactly att_cnf in it *)
Lemma att_update_encoding_cls (af : fw) e s :
  a_need e = true ->
  wpT (att_update_encoding L af e) (fun e' s' => cls s' = att_cnf (a_sem e') (a_n e')) s.
Proof.
  intros Hneed. unfold att_update_encoding. rewrite Hneed. cbn [negb].
  set (n := n_arguments L af * a_num e / a_den e).
  destruct (a_sem e) eqn:Es.
  - rewrite wp_bind, wp_new_solver, wp_bind, wp_reserve.
    destruct (Nat.ltb n (n_arguments L af)); [apply wpT_panic|].
    rewrite wp_bind. apply (co_rows1_wp n (n * (2 + n))); [lia|lia|lia|unfold att_aux; cbn; lia|].
    intros s1 Hc1 Hn1. rewrite wp_bind.
    apply (co_rows2_wp n (n * (2 + n) + n * n)); [lia|lia|lia| |].
    { rewrite Hn1. unfold att_aux. cbn. lia. }
    intros s2 Hc2 Hn2. rewrite wp_ret. cbn [aenc_with a_sem a_n]. rewrite Es, Hc2, Hc1.
    unfold att_cnf, att_co_cnf. rewrite cls_reserve, cls_new. reflexivity.
  - rewrite wp_bind, wp_new_solver, wp_bind, wp_reserve.
    destruct (Nat.ltb n (n_arguments L af)); [apply wpT_panic|].
    rewrite wp_bind. apply (st_rows_wp n (n * (1 + n))); [lia|lia|lia|unfold att_aux; cbn; lia|].
    intros s1 Hc1 Hn1. rewrite wp_ret. cbn [aenc_with a_sem a_n]. rewrite Es, Hc1.
    unfold att_cnf, att_st_cnf. rewrite cls_reserve, cls_new. reflexivity.
  - apply wpT_panic.
Qed.

Lemma att_update_encoding_session (af : fw) e s e' s' :
  a_need e = true -> att_update_encoding L af e s = Done e' s' ->
  rev (rclauses (sess s')) = att_cnf (a_sem e') (a_n e') /\ a_need e' = false /\
  a_n e' = n_arguments L af * a_num e / a_den e.
Proof.
  intros Hn E. split; [exact (wpT_done _ _ _ _ _ (att_update_encoding_cls af e s Hn) E)|].
  revert E. unfold att_update_encoding. rewrite Hn. cbn [negb]. unfold bind, new_solver, reserve, ret.
  destruct (a_sem e); try discriminate.
  - destruct (Nat.ltb _ _); [discriminate|]. destruct (fold_m _ _ _ _); try discriminate.
    destruct (fold_m _ _ _ _); try discriminate. intros E. injection E as <- _. auto.
  - destruct (Nat.ltb _ _); [discriminate|]. destruct (fold_m _ _ _ _); try discriminate.
    intros E. injection E as <- _. auto.
Qed.

(* ================================================================ Part B *)
(* besides att_cnf the session only holds the unit clauses [v] of slots v given up by removed
   arguments: handed out, no longer anybody's variable *)
Definition dead_units (e : aenc) (D : cnf) : Prop :=
  forall c, In c D -> exists v, c = [zlit v] /\ 1 <= v /\ v < a_next e /\
                                forall id, tbl_var (a_a2v e) id <> Some v.
Definition clause_inv (e : aenc) (s : Prog.st) : Prop :=
  exists D, cls s = att_cnf (a_sem e) (a_n e) ++ D /\ dead_units e D.
Definition clause_pre (e : aenc) (s : Prog.st) : Prop := a_need e = true \/ clause_inv e s.

Lemma att_new_argument_clauses af e l s :
  clause_pre e s -> wpT (att_new_argument L leqb af e l) (fun r s' => clause_pre (snd r) s') s.
Proof.
  intros Hc. unfold att_new_argument. destruct (get_argument af l); [rewrite wp_ret; exact Hc|].
  destruct (a_need e || Nat.leb (a_n e) (a_next e)) eqn:En; [rewrite wp_ret; left; reflexivity|].
  apply orb_false_iff in En. destruct En as [En1 En2].
  destruct Hc as [Hn|(D & Hcl & Hd)]; [congruence|].
  assert (G : forall vars', clause_pre (aenc_with e (a_a2v e ++ [Some (a_next e)]) vars' (S (a_next e)) (a_n e) false) s).
  { intros vars'. right. exists D. cbn [aenc_with a_sem a_n a_next a_a2v]. split; [exact Hcl|].
    intros c Hin. destruct (Hd c Hin) as (v & -> & H1 & H2 & H3). exists v. cbn [aenc_with a_next a_a2v]. split; [reflexivity|].
    split; [exact H1|]. split; [lia|]. intros id.
    destruct (Nat.lt_total id (length (a_a2v e))) as [Hid|[->|Hid]].
    - rewrite tbl_var_snoc_old by exact Hid. apply H3.
    - rewrite tbl_var_snoc_new. intros E. injection E as E. lia.
    - rewrite tbl_var_snoc_beyond by exact Hid. discriminate. }
  destruct (max_argument_id L _); [|apply wpT_panic].
  destruct (Nat.ltb _ _); [|apply wpT_panic].
  destruct (a_sem e); try (rewrite wp_ret; apply G).
  destruct (Nat.ltb _ _); [rewrite wp_ret; apply G|apply wpT_panic].
Qed.

Lemma att_remove_argument_clauses af e l s :
  att_pre af e -> clause_pre e s ->
  wpT (att_remove_argument L leqb af e l) (fun r s' => clause_pre (snd (fst r)) s') s.
Proof.
  intros Hp Hc. unfold att_remove_argument. destruct (get_argument af l) as [id|]; [|rewrite wp_ret; exact Hc].
  destruct (Store.remove_argument L leqb af l) as [af' [| |]]; try (rewrite wp_ret; exact Hc).
  destruct (Nat.ltb id (length (a_a2v e))) eqn:Elt; [|rewrite wp_ret; exact Hc]. apply Nat.ltb_lt in Elt.
  destruct (nth id (a_a2v e) None) as [v|] eqn:Env; [|rewrite wp_ret; exact Hc].
  assert (Hv : tbl_var (a_a2v e) id = Some v).
  { unfold tbl_var. rewrite (nth_error_nth' _ None Elt), Env. reflexivity. }
  destruct (Nat.ltb v (length (a_vars e))); [|apply wpT_panic].
  rewrite wp_bind, wp_add_clause, wp_ret. cbn [fst snd].
  destruct Hc as [Hn|(D & Hcl & Hd)]; [left; exact Hn|].
  destruct Hp as [[Hn _]|Ht].
  { left. exact Hn. }
  right. exists (D ++ [[zlit v]]). cbn [aenc_with a_sem a_n a_next a_a2v]. split.
  - rewrite cls_add, Hcl, app_assoc. reflexivity.
  - intros c Hin. apply in_app_or in Hin. destruct Hin as [Hin|[<-|[]]].
    + destruct (Hd c Hin) as (v0 & -> & H1 & H2 & H3). exists v0. cbn [aenc_with a_next a_a2v]. repeat split; auto.
      intros id'. destruct (Nat.eq_dec id' id) as [->|Hne].
      * rewrite tbl_var_set_eq by exact Elt. discriminate.
      * rewrite tbl_var_set_neq by auto. apply H3.
    + destruct (at_arg L af e Ht id v Hv) as (A & B & _). exists v. cbn [aenc_with a_next a_a2v]. repeat split; auto.
      intros id'. destruct (Nat.eq_dec id' id) as [->|Hne].
      * rewrite tbl_var_set_eq by exact Elt. discriminate.
      * rewrite tbl_var_set_neq by auto. intros E. apply Hne. eapply (tables_inj L); eassumption.
Qed.

Lemma att_replay_clauses af e ev s :
  att_pre af e -> clause_pre e s ->
  wpT (att_replay L leqb (af, e) ev) (fun st s' => clause_pre (snd st) s') s.
Proof.
  intros Hp Hc. unfold att_replay. destruct ev as [l|l|a b|a b|x y z|x y z].
  - apply att_new_argument_clauses. exact Hc.
  - rewrite wp_bind. eapply wp_mono; [|apply att_remove_argument_clauses; eassumption].
    intros r s' Hr. destruct r as [p [| |]]; cbn [unwrap_ok]; try apply wpT_panic. rewrite wp_ret. exact Hr.
  - destruct (Store.new_attack L leqb af a b) as [p [| |]]; cbn [unwrap_ok]; rewrite wp_bind; try apply wpT_panic.
    rewrite !wp_ret. exact Hc.
  - destruct (Store.remove_attack L leqb af a b) as [p [| |]]; cbn [unwrap_ok]; rewrite wp_bind; try apply wpT_panic.
    rewrite !wp_ret. exact Hc.
  - rewrite wp_ret. exact Hc.
  - rewrite wp_ret. exact Hc.
Qed.

Lemma fold_att_replay_clauses evs : forall af e s,
  Inv af -> att_pre af e -> clause_pre e s ->
  wpT (fold_m (att_replay L leqb) evs (af, e)) (fun st s' => clause_pre (snd st) s') s.
Proof.
  induction evs as [|ev r IH]; intros af e s Hinv Hp Hc; cbn [fold_m].
  - rewrite wp_ret. exact Hc.
  - rewrite wp_bind.
    eapply wp_mono; [|apply (wpT_okm _ _ _ _ (att_replay_ok L leqb leqb_spec af e ev Hinv Hp)
                                       (att_replay_clauses af e ev s Hp Hc))].
    intros [af1 e1] s1 [(H1 & H2 & _) H3]. cbn [fst snd] in *. apply IH; assumption.
Qed.

Lemma update_encoding_clauses k af b s :
  Inv af -> att_inv L leqb k af b ->
  (forall e, b_enc L b = XAtt e -> clause_pre e s) ->
  wpT (update_encoding L leqb af b)
      (fun r s' => exists e', b_enc L (snd r) = XAtt e' /\ clause_inv e' s') s.
Proof.
  intros Hinv (e & He & Hpar & Hst) Hc. unfold update_encoding. rewrite He.
  assert (Hp : att_pre af e) by (destruct Hst as [Hi|Ht]; [apply (initial_pre L leqb); exact Hi|right; exact Ht]).
  rewrite wp_bind.
  eapply wp_mono; [|apply (fold_att_replay_clauses _ af e s Hinv Hp (Hc e He))].
  intros [af' e'] s1 Hc1. cbn [fst snd] in *. rewrite wp_bind.
  destruct (a_need e') eqn:En.
  - eapply wp_mono; [|apply (att_update_encoding_cls af' e' s1 En)].
    intros e'' s2 Hcl. rewrite wp_ret. cbn [snd buf_with b_enc]. exists e''. split; [reflexivity|].
    exists []. rewrite app_nil_r. split; [exact Hcl|]. intros c [].
  - unfold att_update_encoding. rewrite En. cbn [negb]. rewrite !wp_ret. cbn [snd buf_with b_enc].
    exists e'. split; [reflexivity|]. destruct Hc1 as [Hn|Hi]; [congruence|exact Hi].
Qed.

(* ================================================================ Part C *)
Definition avd (e : aenc) (id : nat) : nat := match tbl_var (a_a2v e) id with Some v => v | None => 0 end.
Definition sem_of (d : dsem) : sem := match d with DST => ST | _ => CO end.

Lemma att_indices_idx e atts : forall idx,
  att_indices e atts = Some idx -> idx = idx_of_atts (a_n e) atts (avd e).
Proof.
  induction atts as [|[from to] r IH]; intros idx H; cbn [att_indices] in H.
  - injection H as <-. reflexivity.
  - destruct (tbl_var (a_a2v e) to) as [vt|] eqn:Et; [|discriminate].
    destruct (tbl_var (a_a2v e) from) as [vf|] eqn:Ef; [|discriminate].
    destruct (att_indices e r) as [l|]; [|discriminate].
    destruct (Nat.ltb _ _); [|discriminate]. injection H as <-.
    unfold idx_of_atts. cbn [map fst snd]. unfold avd at 1 2. rewrite Et, Ef. f_equal. apply IH. reflexivity.
Qed.

Lemma in_args_where af e p m id : att_tables_ok af e ->
  (In id (args_where p (a_vars e) m) <->
   exists v, tbl_var (a_a2v e) id = Some v /\ 1 <= v <= length m /\ p (value_of m v) = true).
Proof.
  intros Ht. unfold args_where. rewrite in_filter_map. split.
  - intros (v & Hv & Hf). apply in_vars_where in Hv. unfold var_to_arg in Hf.
    destruct (nth_error (a_vars e) v) as [[i| | | |]|] eqn:E; try discriminate. injection Hf as ->.
    exists v. split; [apply (at_conv L af e Ht); exact E|exact Hv].
  - intros (v & Hv & Hr & Hp). exists v. split; [apply in_vars_where; auto|].
    unfold var_to_arg. destruct (at_arg L af e Ht id v Hv) as (_ & _ & ->). reflexivity.
Qed.
Lemma args_where_nodup af e p m : att_tables_ok af e -> NoDup (args_where p (a_vars e) m).
Proof.
  intros Ht. unfold args_where, vars_where.
  apply filter_map_NoDup; [apply NoDup_fst_filter_combine, seq_NoDup|].
  intros a b y _ _ Ha Hb. unfold var_to_arg in Ha, Hb.
  destruct (nth_error (a_vars e) a) as [[ia| | | |]|] eqn:Ea; try discriminate. injection Ha as ->.
  destruct (nth_error (a_vars e) b) as [[ib| | | |]|] eqn:Eb; try discriminate. injection Hb as ->.
  pose proof (at_conv L af e Ht _ _ Ea). pose proof (at_conv L af e Ht _ _ Eb). congruence.
Qed.

Section Answer.
Variable af : fw.
Variable e : aenc.
Hypothesis Hinv : Inv af.
Hypothesis Ht : att_tables_ok af e.
Notation n := (a_n e).
Notation ids := (live_ids L af).
Notation atts := (iter_attacks L af).
Notation F := (af_of L af).
Notation av := (avd e).

Lemma avd_live id : In id ids -> tbl_var (a_a2v e) id = Some (av id).
Proof.
  intros H. apply (live_ids_has L af id Hinv) in H. apply (at_live L af e Ht) in H.
  unfold avd. destruct (tbl_var (a_a2v e) id); congruence.
Qed.
Lemma avd_some id v : tbl_var (a_a2v e) id = Some v -> In id ids /\ av id = v.
Proof.
  intros H. split.
  - apply (live_ids_has L af id Hinv). apply (at_live L af e Ht). congruence.
  - unfold avd. rewrite H. reflexivity.
Qed.
Lemma av_range id : In id ids -> 1 <= av id <= n.
Proof. intros H. apply (tables_var_le L af e id _ Ht). apply avd_live. exact H. Qed.
Lemma av_inj a b : In a ids -> In b ids -> av a = av b -> a = b.
Proof.
  intros Ha Hb E. apply avd_live in Ha, Hb. rewrite E in Ha. eapply (tables_inj L); eassumption.
Qed.
Lemma atts_live a b : In (a, b) atts -> In a ids /\ In b ids.
Proof.
  intros H. destruct (iter_attacks_live L af a b Hinv H) as [Ha Hb].
  split; apply (live_ids_has L af _ Hinv); assumption.
Qed.

Variable s : Prog.st.
Hypothesis Hcl : clause_inv e s.
Variable idx : list nat.
Hypothesis Hidx : att_indices e atts = Some idx.

Lemma asm_assumed (v : val) : forallb (vtrue v) (att_asm n idx) = true <-> assumed n (slot_att atts av) v.
Proof. rewrite (att_indices_idx e atts idx Hidx). apply (att_asm_assumed n ids atts av av_range atts_live). Qed.

(* a SAT answer *)
Lemma model_extension (m : assignment) :
  models m (cls s) = true -> forallb (lit_true m) (att_asm n idx) = true ->
  let X := dyn_a2e (a_vars e) m in
  ext (sem_of (a_sem e)) F X /\ NoDup X /\ incl X (args F) /\
  (forall id, In id X <-> In id ids /\ val_of m (av id) = true) /\
  (forall id, In id ids -> value_of m (av id) <> None).
Proof.
  intros Hm Ha X. destruct Hcl as (D & Hc & Hd). rewrite Hc in Hm. unfold models in Hm.
  rewrite forallb_app in Hm. apply andb_prop in Hm. destruct Hm as [Hm _]. fold (models m (att_cnf (a_sem e) n)) in Hm.
  pose proof (models_vmodels _ _ Hm) as Hv. apply all_true_vtrue in Ha. apply asm_assumed in Ha.
  assert (Hmem : forall id, In id X <-> In id ids /\ val_of m (av id) = true).
  { intros id. unfold X. change (dyn_a2e (a_vars e) m) with (args_where is_some_true (a_vars e) m).
    rewrite (in_args_where af e _ m id Ht). split.
    - intros (v & Hv1 & _ & Hp). destruct (avd_some id v Hv1) as [Hi ->]. split; [exact Hi|].
      unfold val_of. destruct (value_of m v) as [[|]|]; cbn in Hp; congruence.
    - intros [Hi Hp]. exists (av id). split; [apply avd_live; exact Hi|].
      pose proof (av_range id Hi). split; [split; [lia|apply val_of_true_bound; [lia|exact Hp]]|].
      unfold val_of in Hp. destruct (value_of m (av id)) as [[|]|]; cbn; congruence. }
  assert (Hseq : seteq (S_of ids av (val_of m)) X).
  { intros a. rewrite in_S_of, Hmem. reflexivity. }
  split; [|split; [|split; [|split]]].
  - destruct (a_sem e) eqn:Es; cbn [sem_of ext att_cnf] in *.
    + eapply co_seteq; [exact Hseq|]. apply (att_co_sound n ids atts av av_range av_inj atts_live); assumption.
    + eapply st_seteq; [exact Hseq|]. apply (att_st_sound n ids atts av av_range av_inj atts_live); assumption.
    + eapply co_seteq; [exact Hseq|]. apply (att_co_sound n ids atts av av_range av_inj atts_live); assumption.
  - apply (args_where_nodup af e _ m Ht).
  - intros id Hid. apply Hmem in Hid. exact (proj1 Hid).
  - exact Hmem.
  - intros id Hid. apply (att_cnf_total (a_sem e) n m); [exact Hm|apply av_range; exact Hid].
Qed.

(* an extension gives a valuation of everything the session holds *)
Lemma extension_model X :
  ext (sem_of (a_sem e)) F X ->
  exists v : val, vmodels v (cls s) = true /\ forallb (vtrue v) (att_asm n idx) = true /\
    forall id, In id ids -> (v (av id) = true <-> In id X).
Proof.
  intros HX. destruct Hcl as (D & Hc & Hd).
  assert (G : forall v : val, vmodels v (att_cnf (a_sem e) n) = true -> assumed n (slot_att atts av) v ->
            (forall id, In id ids -> (v (av id) = true <-> In id X)) ->
            (forall x, 1 <= x <= n -> (forall a, In a ids -> av a <> x) -> v x = true) ->
            exists v : val, vmodels v (cls s) = true /\ forallb (vtrue v) (att_asm n idx) = true /\
              forall id, In id ids -> (v (av id) = true <-> In id X)).
  { intros v H1 H2 H3 H4. exists v. split; [|split; [apply asm_assumed; exact H2|exact H3]].
    rewrite Hc, vmodels_app, H1. cbn [andb]. apply vmodels_forall. intros c Hin.
    destruct (Hd c Hin) as (x & -> & A & B & C). rewrite vsat_single, vtrue_zlit by lia.
    pose proof (at_next L af e Ht). apply H4; [lia|].
    intros a Ha E. apply (C a). rewrite (avd_live a Ha), E. reflexivity. }
  destruct (a_sem e) eqn:Es; cbn [sem_of ext att_cnf] in *.
  - destruct (att_co_complete n ids atts av av_range av_inj atts_live X HX) as (H1 & H2 & H3 & H4). eapply G; eassumption.
  - destruct (att_st_complete n ids atts av av_range av_inj atts_live X HX) as (H1 & H2 & H3 & H4). eapply G; eassumption.
  - destruct (att_co_complete n ids atts av av_range av_inj atts_live X HX) as (H1 & H2 & H3 & H4). eapply G; eassumption.
Qed.


(* ---- the four outcomes of the two queries, as pure facts *)
Variable oracle : nat -> cnf -> list lit -> answer.
Hypothesis Hvalid : valid_oracle oracle.
Variable l : L.
Variable id v : nat.
Hypothesis Hg : get_argument af l = Some id.
Hypothesis Hv : tbl_var (a_a2v e) id = Some v.

Definition ext_ok (sm : sem) (f : fw) (X : list nat) : Prop :=
  ext sm (af_of L f) X /\ NoDup X /\ incl X (args (af_of L f)).

Lemma id_live : In id ids /\ av id = v.
Proof. apply avd_some. exact Hv. Qed.

Lemma label_of_get (l0 : L) i id0 : label_of L af i = Some l0 -> get_argument af l0 = Some id0 -> i = id0.
Proof.
  intros Hlab Hget. unfold label_of in Hlab.
  destruct (nth i (slots (ls af)) None) as [[i' l']|] eqn:Ei; [|discriminate]. injection Hlab as ->.
  pose proof (find_label_Some L leqb leqb_spec af l0 id0 Hinv Hget) as Hid.
  exact (label_slot_unique L _ _ _ _ _ (inv_lab L af Hinv) Ei Hid eq_refl).
Qed.

Lemma sat_facts (lit : lit) (m : assignment) :
  oracle (calls s) (cls s) (att_asm n idx ++ [lit]) = Sat m ->
  let X := dyn_a2e (a_vars e) m in
  ext_ok (sem_of (a_sem e)) af X /\
  (forall i, In i X <-> In i ids /\ val_of m (av i) = true) /\
  (forall i, In i ids -> value_of m (av i) <> None) /\
  lit_true m lit = true.
Proof.
  intros Ho. pose proof (Hvalid (calls s) (cls s) (att_asm n idx ++ [lit])) as Hval. rewrite Ho in Hval.
  destruct Hval as [Hm Ha]. rewrite forallb_app in Ha. apply andb_prop in Ha. destruct Ha as [Ha Hl].
  cbn [forallb] in Hl. rewrite andb_true_r in Hl.
  destruct (model_extension m Hm Ha) as (H1 & H2 & H3 & H4 & H5).
  split; [split; [exact H1|split; [exact H2|exact H3]]|]. auto.
Qed.

Lemma unsat_facts (lit : lit) X :
  oracle (calls s) (cls s) (att_asm n idx ++ [lit]) = Unsat ->
  ext (sem_of (a_sem e)) F X ->
  (forall vl : val, (vl v = true <-> In id X) -> vtrue vl lit = true) -> False.
Proof.
  intros Ho HX Hlit. pose proof (Hvalid (calls s) (cls s) (att_asm n idx ++ [lit])) as Hval. rewrite Ho in Hval.
  destruct (extension_model X HX) as (vl & H1 & H2 & H3). apply (Hval vl H1).
  rewrite forallb_app, H2. cbn [forallb andb]. rewrite andb_true_r. apply Hlit.
  destruct id_live as [Hi <-]. apply H3. exact Hi.
Qed.

(* credulous query, SAT: the extension read off the model contains the argument, and so does it contain
   every argument cached as accepted (every argument whose variable is not assigned false) *)
Lemma dc_sat_facts m :
  oracle (calls s) (cls s) (att_asm n idx ++ [zlit v]) = Sat m ->
  let X := dyn_a2e (a_vars e) m in
  ext_ok (sem_of (a_sem e)) af X /\ In id X /\
  forall acc, labels_of L af (args_where not_some_false (a_vars e) m) = Some acc ->
    forall l0 id0, lmem L leqb l0 acc = true -> get_argument af l0 = Some id0 -> In id0 X.
Proof.
  intros Ho X. destruct (sat_facts _ m Ho) as (H1 & H2 & H3 & H4). fold X in H1, H2.
  destruct id_live as [Hi Hav]. pose proof (av_range id Hi) as Hr. rewrite Hav in Hr.
  apply lit_true_zlit in H4; [|lia].
  split; [exact H1|]. split.
  - apply H2. split; [exact Hi|]. rewrite Hav. unfold val_of. rewrite H4. reflexivity.
  - intros acc Hacc l0 id0 Hmem Hget. apply (lmem_In L leqb leqb_spec) in Hmem.
    destruct (labels_of_In L af _ _ _ Hacc Hmem) as (i & Hi0 & Hlab).
    assert (i = id0) by (eapply label_of_get; eassumption). subst i.
    apply (in_args_where af e _ m id0 Ht) in Hi0. destruct Hi0 as (v0 & Hv0 & _ & Hp).
    destruct (avd_some id0 v0 Hv0) as [Hi0 Hav0]. apply H2. split; [exact Hi0|].
    pose proof (H3 id0 Hi0) as Hnn. rewrite Hav0 in *. unfold val_of.
    destruct (value_of m v0) as [[|]|]; cbn in Hp; congruence.
Qed.

Lemma dc_unsat_facts :
  oracle (calls s) (cls s) (att_asm n idx ++ [zlit v]) = Unsat -> ~ cred (sem_of (a_sem e)) F [id].
Proof.
  intros Ho (X & HX & a & [<-|[]] & Ha). apply (unsat_facts _ X Ho HX).
  intros vl Hvl. destruct id_live as [Hi Hav]. pose proof (av_range id Hi) as Hr. rewrite Hav in Hr.
  rewrite vtrue_zlit by lia. apply Hvl. exact Ha.
Qed.

(* skeptical query (stable), SAT: a counter-example extension; nothing cached as refused is a member *)
Lemma ds_sat_facts m :
  oracle (calls s) (cls s) (att_asm n idx ++ [znlit v]) = Sat m ->
  let X := dyn_a2e (a_vars e) m in
  ext_ok (sem_of (a_sem e)) af X /\ ~ In id X /\
  forall refused, labels_of L af (args_where not_some_true (a_vars e) m) = Some refused ->
    forall l0 id0, lmem L leqb l0 refused = true -> get_argument af l0 = Some id0 -> ~ In id0 X.
Proof.
  intros Ho X. destruct (sat_facts _ m Ho) as (H1 & H2 & H3 & H4). fold X in H1, H2.
  destruct id_live as [Hi Hav]. apply lit_true_znlit in H4.
  split; [exact H1|]. split.
  - intros Hin. apply H2 in Hin. destruct Hin as [_ Hin]. rewrite Hav in Hin. unfold val_of in Hin. rewrite H4 in Hin. discriminate.
  - intros refused Href l0 id0 Hmem Hget Hin. apply (lmem_In L leqb leqb_spec) in Hmem.
    destruct (labels_of_In L af _ _ _ Href Hmem) as (i & Hi0 & Hlab).
    assert (i = id0) by (eapply label_of_get; eassumption). subst i.
    apply (in_args_where af e _ m id0 Ht) in Hi0. destruct Hi0 as (v0 & Hv0 & _ & Hp).
    destruct (avd_some id0 v0 Hv0) as [_ Hav0]. apply H2 in Hin. destruct Hin as [_ Hin].
    rewrite Hav0 in Hin. unfold val_of in Hin. unfold not_some_true, is_some_true in Hp.
    destruct (value_of m v0) as [[|]|]; cbn in Hp; congruence.
Qed.

Lemma ds_unsat_facts :
  oracle (calls s) (cls s) (att_asm n idx ++ [znlit v]) = Unsat -> skep (sem_of (a_sem e)) F [id].
Proof.
  intros Ho X HX. exists id. split; [left; reflexivity|].
  destruct (memb id X) eqn:Em; [apply memb_spec; exact Em|exfalso]. apply memb_false in Em.
  apply (unsat_facts _ X Ho HX). intros vl Hvl. rewrite vtrue_znlit. apply negb_true_iff.
  destruct (vl v) eqn:E; [|reflexivity]. exfalso. apply Em. apply Hvl. reflexivity.
Qed.

End Answer.

(* ================================================================ Part D: the cache *)
Notation ev_apply := (DynDefs.ev_apply L leqb).
Notation pending := (DynDefs.pending L).
Notation trailing := (DynDefs.trailing L).

(* what a cached computation event must say about the framework it is served for *)
Definition cache_ok (sm : sem) (af : fw) (ev : devent L) : Prop :=
  match ev with
  | DCred _ acc refused (Some X) =>
      refused = [] /\ ext_ok sm af X /\
      forall l id, lmem L leqb l acc = true -> get_argument af l = Some id -> In id X
  | DSkep _ acc refused (Some X) =>
      acc = [] /\ ext_ok sm af X /\
      forall l id, lmem L leqb l refused = true -> get_argument af l = Some id -> ~ In id X
  | _ => True
  end.
Definition cache_J (sm : sem) (s : dsolver L) : Prop :=
  (forall ev, In ev (trailing (s_buf L s)) -> cache_ok sm (s_af L s) ev) /\
  (trailing (s_buf L s) <> [] -> forall ev, In ev (pending (s_buf L s)) -> is_update_ev L ev = false).

Lemma cred_scan_hit (rb : list (devent L)) l b X :
  cred_scan L leqb rb l = (Some b, Some X) ->
  b = true /\ exists ev, In ev (trailing_rev L rb) /\
    exists acc refused, (ev = DCred L acc refused (Some X) \/ ev = DSkep L acc refused (Some X)) /\
                        lmem L leqb l acc = true.
Proof.
  induction rb as [|ev r IH]; cbn [cred_scan]; [discriminate|].
  destruct ev as [x|x|x y|x y|acc refused e|acc refused e]; try discriminate; cbn [trailing_rev is_update_ev].
  - destruct e as [e|].
    + destruct (lmem L leqb l acc) eqn:Em.
      * intros H. injection H as <- <-. split; [reflexivity|].
        exists (DCred L acc refused (Some e)). split; [left; reflexivity|]. exists acc, refused. auto.
      * destruct (lmem L leqb l refused); [discriminate|].
        intros H. destruct (IH H) as (Hb & ev & Hin & Hev). split; [exact Hb|]. exists ev. split; [right; exact Hin|exact Hev].
    + destruct (lmem L leqb l refused); [discriminate|].
      intros H. destruct (IH H) as (Hb & ev & Hin & Hev). split; [exact Hb|]. exists ev. split; [right; exact Hin|exact Hev].
  - destruct e as [e|].
    + destruct (lmem L leqb l acc) eqn:Em.
      * intros H. injection H as <- <-. split; [reflexivity|].
        exists (DSkep L acc refused (Some e)). split; [left; reflexivity|]. exists acc, refused. auto.
      * intros H. destruct (IH H) as (Hb & ev & Hin & Hev). split; [exact Hb|]. exists ev. split; [right; exact Hin|exact Hev].
    + intros H. destruct (IH H) as (Hb & ev & Hin & Hev). split; [exact Hb|]. exists ev. split; [right; exact Hin|exact Hev].
Qed.

(* a query that computed pushes its event behind an untouched buffer *)
Lemma cache_push sm (s : dsolver L) af buf ev :
  cache_J sm s ->
  af = fold_left ev_apply (pending (s_buf L s)) (s_af L s) ->
  b_buffer L buf = b_buffer L (s_buf L s) -> b_next L buf = length (b_buffer L (s_buf L s)) ->
  is_update_ev L ev = false -> cache_ok sm af ev ->
  cache_J sm {| s_kind := s_kind L s; s_af := af; s_buf := buf_push L buf ev |}.
Proof.
  intros [IH1 IH2] Haf H2 H3 Hev Hok.
  unfold cache_J, DynDefs.trailing, DynDefs.pending, buf_push, buf_with. cbn [s_buf s_af b_buffer b_next].
  rewrite H2, (trailing_snoc L), Hev. split.
  - intros ev' [<-|Hin]; [exact Hok|].
    assert (Hne : trailing (s_buf L s) <> []).
    { unfold DynDefs.trailing. intros E. rewrite E in Hin. destruct Hin. }
    rewrite Haf, (fold_no_update L leqb _ _ (IH2 Hne)). apply IH1. exact Hin.
  - intros _ ev'. rewrite H3, skipn_app, skipn_all, Nat.sub_diag. cbn [skipn app].
    intros [<-|[]]. exact Hev.
Qed.

(* a cache hit is served for the current framework *)
Lemma cache_hit_framework sm (s : dsolver L) ev :
  cache_J sm s -> In ev (trailing (s_buf L s)) ->
  cache_ok sm (s_af L s) ev /\ fold_left ev_apply (pending (s_buf L s)) (s_af L s) = s_af L s.
Proof.
  intros [IH1 IH2] Hin. split; [apply IH1; exact Hin|].
  apply (fold_no_update L leqb). apply IH2. intros E. rewrite E in Hin. destruct Hin.
Qed.

(* ================================================================ Part E: one query *)
Lemma opt_m_Done {A} (o : option A) s a s' : opt_m o s = Done a s' -> o = Some a /\ s' = s.
Proof. destruct o; cbn [opt_m]; unfold ret, panic; intros H; [injection H as -> ->; auto|discriminate]. Qed.
Lemma ret_Done {A} (x : A) s a s' : ret x s = Done a s' -> a = x /\ s' = s.
Proof. unfold ret. intros H. injection H as -> ->. auto. Qed.
Lemma solve_Done oracle a s r s' : Prog.solve oracle a s = Done r s' ->
  s' = st_solved oracle s a /\
  ((exists m, r = Some m /\ oracle (calls s) (cls s) a = Sat m) \/ (r = None /\ oracle (calls s) (cls s) a = Unsat)).
Proof.
  unfold Prog.solve, st_solved, answer_of, cls, sess_solved.
  destruct (oracle (calls s) (rev (rclauses (sess s))) a) as [m| |] eqn:E; intros H; try discriminate H.
  - injection H as <- <-. split; [reflexivity|]. left. exists m. auto.
  - injection H as <- <-. split; [reflexivity|]. right. auto.
Qed.

Lemma acc_spec_strip sm pol (cert : bool) F al (r : bool * option (list nat)) :
  acc_spec sm pol true F al r -> acc_spec sm pol cert F al (if cert then r else (fst r, None)).
Proof.
  destruct cert; [auto|]. intros [H1 _]. split; [exact H1|]. cbn [snd]. discriminate.
Qed.

Section Query.
Variable oracle : nat -> cnf -> list lit -> answer.
Hypothesis Hvalid : valid_oracle oracle.
Variable k : dkind.
Hypothesis Hk : att_kind k.
Variable s : dsolver L.
Variable ps : Prog.st.
Variable spec : fw.
Variable l : L.
Variable id : nat.
Notation sm := (sem_of (kind_sem k)).
Hypothesis Hinv : Inv (s_af L s).
Hypothesis Hi : att_inv L leqb k (s_af L s) (s_buf L s).
Hypothesis Hcj : forall e, b_enc L (s_buf L s) = XAtt e -> clause_pre e ps.
Hypothesis Hcache : cache_J sm s.
Hypothesis Hsy : fold_left ev_apply (pending (s_buf L s)) (s_af L s) = spec.
Hypothesis Hl : get_argument spec l = Some id.

(* what a query leaves behind for the next one *)
Definition qpost (s' : dsolver L) (ps' : Prog.st) : Prop :=
  (forall e, b_enc L (s_buf L s') = XAtt e -> clause_pre e ps') /\ cache_J sm s'.

Lemma ue_facts af buf ps1 :
  update_encoding L leqb (s_af L s) (s_buf L s) ps = Done (af, buf) ps1 ->
  af = spec /\ b_buffer L buf = b_buffer L (s_buf L s) /\ b_next L buf = length (b_buffer L (s_buf L s)) /\
  Inv af /\ exists e', b_enc L buf = XAtt e' /\ a_sem e' = kind_sem k /\ att_tables_ok af e' /\ clause_inv e' ps1.
Proof.
  intros Hue.
  destruct (update_encoding_spec L leqb _ _ _ _ _ Hue) as (H1 & H2 & H3 & _). cbn [fst snd] in *.
  destruct (update_encoding_att L leqb leqb_spec k _ _ Hinv Hi _ _ _ Hue) as [Hinv' (e' & He' & (P1 & _) & Ht')].
  cbn [fst snd] in *.
  pose proof (wpT_done _ _ _ _ _ (update_encoding_clauses k _ _ ps Hinv Hi Hcj) Hue) as (e'' & He'' & Hcl).
  cbn [snd] in He''. assert (e'' = e') by congruence. subst e''.
  split; [rewrite H1; exact Hsy|]. split; [exact H2|]. split; [exact H3|]. split; [exact Hinv'|].
  exists e'. auto.
Qed.

Lemma qpost_push af buf ps1 e' ev a :
  af = spec -> b_buffer L buf = b_buffer L (s_buf L s) -> b_next L buf = length (b_buffer L (s_buf L s)) ->
  b_enc L buf = XAtt e' -> clause_inv e' ps1 ->
  is_update_ev L ev = false -> cache_ok sm af ev ->
  qpost {| s_kind := s_kind L s; s_af := af; s_buf := buf_push L buf ev |} (st_solved oracle ps1 a).
Proof.
  intros Haf H2 H3 He' (D & Hc & Hd) Hev Hok. split.
  - cbn [s_buf buf_push buf_with b_enc]. intros e0 E. assert (e0 = e') by congruence. subst e0.
    right. exists D. rewrite cls_solved. auto.
  - apply cache_push; auto. rewrite Haf, Hsy. reflexivity.
Qed.

(* ---- credulous acceptance (both kinds) *)
Definition dc_miss : Prog.M (dsolver L * answer_t) :=
  r <- update_encoding L leqb (s_af L s) (s_buf L s) ;;
  let '(af, buf) := r in
  let x := b_enc L buf in
  asm <- x_assumptions L af x ;;
  v <- x_arg_var L leqb af x l ;;
  m <- Prog.solve oracle (asm ++ [zlit v]) ;;
  match m with
  | Some m =>
      acc <- opt_m (labels_of L af (args_where not_some_false (x_vars x) m)) ;;
      let ext := dyn_a2e (x_vars x) m in
      ret ({| s_kind := s_kind L s; s_af := af; s_buf := buf_push L buf (DCred L acc [] (Some ext)) |},
           (true, Some ext))
  | None =>
      ret ({| s_kind := s_kind L s; s_af := af; s_buf := buf_push L buf (DCred L [] [l] None) |}, (false, None))
  end.

Lemma dc_miss_correct s' a ps' :
  dc_miss ps = Done (s', a) ps' -> acc_spec sm true true (af_of L spec) [id] a /\ qpost s' ps'.
Proof.
  intros Hq. unfold dc_miss in Hq. apply bind_Done in Hq. destruct Hq as ([af buf] & ps1 & Hue & Hq).
  destruct (ue_facts af buf ps1 Hue) as (Haf & Hb2 & Hb3 & Hinv' & e' & He' & Hsem & Ht' & Hcl').
  cbv zeta in Hq. rewrite He' in Hq. cbn [x_assumptions x_vars] in Hq.
  apply bind_Done in Hq. destruct Hq as (asm & ps1' & Hasm & Hq). apply opt_m_Done in Hasm. destruct Hasm as [Hasm ->].
  destruct (att_assumptions_some L af e' Hinv' Ht') as (idx & Hidx & _ & Hasm'). assert (Ea : asm = att_asm (a_n e') idx) by (unfold att_asm; congruence). subst asm. clear Hasm.
  apply bind_Done in Hq. destruct Hq as (v & ps1'' & Hv & Hq).
  unfold x_arg_var in Hv. apply bind_Done in Hv. destruct Hv as (id' & p' & Hg' & Hv).
  apply opt_m_Done in Hg'. destruct Hg' as [Hg' ->]. apply opt_m_Done in Hv. destruct Hv as [Hv ->]. cbn [x_a2v] in Hv.
  assert (id' = id) by (rewrite Haf, Hl in Hg'; congruence). subst id'.
  apply bind_Done in Hq. destruct Hq as (mo & ps2 & Hsolve & Hq). apply solve_Done in Hsolve.
  destruct Hsolve as [-> [(m & -> & Ho)|[-> Ho]]].
  - apply bind_Done in Hq. destruct Hq as (acc & p3 & Hacc & Hq). apply opt_m_Done in Hacc. destruct Hacc as [Hacc ->].
    apply ret_Done in Hq. destruct Hq as [Hq ->]. injection Hq as -> ->.
    destruct (dc_sat_facts af e' Hinv' Ht' ps1 Hcl' idx Hidx oracle Hvalid id v Hv m Ho) as (Hext & Hin & Hacc').
    rewrite Hsem in Hext. split.
    + rewrite <- Haf. destruct Hext as (E1 & E2 & E3). split; cbn [fst snd].
      * split; [intros _|reflexivity]. exists (dyn_a2e (a_vars e') m). split; [exact E1|]. exists id. split; [left; reflexivity|exact Hin].
      * repeat split; auto. exists id. split; [left; reflexivity|exact Hin].
    + apply (qpost_push af buf ps1 e'); auto. cbn [cache_ok]. split; [reflexivity|]. split; [exact Hext|]. exact (Hacc' acc Hacc).
  - apply ret_Done in Hq. destruct Hq as [Hq ->]. injection Hq as -> ->.
    pose proof (dc_unsat_facts af e' Hinv' Ht' ps1 Hcl' idx Hidx oracle Hvalid id v Hv Ho) as Hnc.
    rewrite Hsem, Haf in Hnc. split.
    + split; cbn [fst snd]; [split; [discriminate|intros H; exfalso; exact (Hnc H)]|reflexivity].
    + apply (qpost_push af buf ps1 e'); auto. exact I.
Qed.

(* ---- skeptical acceptance (stable) *)
Definition ds_miss : Prog.M (dsolver L * answer_t) :=
  r <- update_encoding L leqb (s_af L s) (s_buf L s) ;;
  let '(af, buf) := r in
  let x := b_enc L buf in
  asm <- x_assumptions L af x ;;
  v <- x_arg_var L leqb af x l ;;
  m <- Prog.solve oracle (asm ++ [znlit v]) ;;
  match m with
  | Some m =>
      refused <- opt_m (labels_of L af (args_where not_some_true (x_vars x) m)) ;;
      let ext := dyn_a2e (x_vars x) m in
      ret ({| s_kind := s_kind L s; s_af := af; s_buf := buf_push L buf (DSkep L [] refused (Some ext)) |},
           (false, Some ext))
  | None =>
      id <- opt_m (get_argument af l) ;;
      refused <- opt_m (labels_of L af (map snd (iter_attacks_from L af id))) ;;
      ret ({| s_kind := s_kind L s; s_af := af; s_buf := buf_push L buf (DSkep L [l] refused None) |}, (true, None))
  end.

Lemma ds_miss_correct s' a ps' :
  ds_miss ps = Done (s', a) ps' -> acc_spec sm false true (af_of L spec) [id] a /\ qpost s' ps'.
Proof.
  intros Hq. unfold ds_miss in Hq. apply bind_Done in Hq. destruct Hq as ([af buf] & ps1 & Hue & Hq).
  destruct (ue_facts af buf ps1 Hue) as (Haf & Hb2 & Hb3 & Hinv' & e' & He' & Hsem & Ht' & Hcl').
  cbv zeta in Hq. rewrite He' in Hq. cbn [x_assumptions x_vars] in Hq.
  apply bind_Done in Hq. destruct Hq as (asm & ps1' & Hasm & Hq). apply opt_m_Done in Hasm. destruct Hasm as [Hasm ->].
  destruct (att_assumptions_some L af e' Hinv' Ht') as (idx & Hidx & _ & Hasm'). assert (Ea : asm = att_asm (a_n e') idx) by (unfold att_asm; congruence). subst asm. clear Hasm.
  apply bind_Done in Hq. destruct Hq as (v & ps1'' & Hv & Hq).
  unfold x_arg_var in Hv. apply bind_Done in Hv. destruct Hv as (id' & p' & Hg' & Hv).
  apply opt_m_Done in Hg'. destruct Hg' as [Hg' ->]. apply opt_m_Done in Hv. destruct Hv as [Hv ->]. cbn [x_a2v] in Hv.
  assert (id' = id) by (rewrite Haf, Hl in Hg'; congruence). subst id'.
  apply bind_Done in Hq. destruct Hq as (mo & ps2 & Hsolve & Hq). apply solve_Done in Hsolve.
  destruct Hsolve as [-> [(m & -> & Ho)|[-> Ho]]].
  - apply bind_Done in Hq. destruct Hq as (refused & p3 & Href & Hq). apply opt_m_Done in Href. destruct Href as [Href ->].
    apply ret_Done in Hq. destruct Hq as [Hq ->]. injection Hq as -> ->.
    destruct (ds_sat_facts af e' Hinv' Ht' ps1 Hcl' idx Hidx oracle Hvalid id v Hv m Ho) as (Hext & Hnin & Href').
    rewrite Hsem in Hext. split.
    + rewrite <- Haf. destruct Hext as (E1 & E2 & E3). split; cbn [fst snd].
      * split; [discriminate|]. intros Hsk. exfalso. destruct (Hsk _ E1) as (a0 & [<-|[]] & Ha0). exact (Hnin Ha0).
      * repeat split; auto. intros a0 [<-|[]]. exact Hnin.
    + apply (qpost_push af buf ps1 e'); auto. cbn [cache_ok]. split; [reflexivity|]. split; [exact Hext|]. exact (Href' refused Href).
  - apply bind_Done in Hq. destruct Hq as (id2 & p3 & Hid2 & Hq). apply opt_m_Done in Hid2. destruct Hid2 as [_ ->].
    apply bind_Done in Hq. destruct Hq as (refused & p4 & Href & Hq). apply opt_m_Done in Href. destruct Href as [_ ->].
    apply ret_Done in Hq. destruct Hq as [Hq ->]. injection Hq as -> ->.
    pose proof (ds_unsat_facts af e' Hinv' Ht' ps1 Hcl' idx Hidx oracle Hvalid id v Hv Ho) as Hsk.
    rewrite Hsem, Haf in Hsk.
    split.
    + split; cbn [fst snd]; [split; [intros _; exact Hsk|reflexivity]|reflexivity].
    + apply (qpost_push af buf ps1 e'); auto. exact I.
Qed.

(* ---- answers served from the cache *)
Lemma spec_is_af ev : In ev (trailing (s_buf L s)) -> cache_ok sm spec ev /\ s_af L s = spec.
Proof.
  intros Hin. destruct (cache_hit_framework sm s ev Hcache Hin) as [Hok Hf]. rewrite Hsy in Hf. split; [rewrite Hf; exact Hok|symmetry; exact Hf].
Qed.

Lemma dc_hit_correct b X :
  is_cred L leqb (s_buf L s) l = (Some b, Some X) -> acc_spec sm true true (af_of L spec) [id] (b, Some X).
Proof.
  intros Hhit. unfold is_cred in Hhit. destruct (cred_scan_hit _ _ _ _ Hhit) as (-> & ev & Hin & acc & refused & Hev & Hmem).
  destruct (spec_is_af ev Hin) as [Hok _].
  assert (G : ext_ok sm spec X /\ In id X).
  { destruct Hev as [-> | ->]; cbn [cache_ok] in Hok.
    - destruct Hok as (_ & Hext & H). split; [exact Hext|]. exact (H l id Hmem Hl).
    - destruct Hok as (-> & _). discriminate Hmem. }
  destruct G as [(E1 & E2 & E3) Hid]. split; cbn [fst snd].
  - split; [intros _|reflexivity]. exists X. split; [exact E1|]. exists id. split; [left; reflexivity|exact Hid].
  - repeat split; auto. exists id. split; [left; reflexivity|exact Hid].
Qed.

Lemma ds_hit_correct b X :
  is_skep L leqb (s_buf L s) l = (Some b, Some X) -> acc_spec sm false true (af_of L spec) [id] (b, Some X).
Proof.
  intros Hhit. unfold is_skep in Hhit.
  destruct (skep_scan_hit L leqb _ _ _ _ Hhit) as (-> & ev & Hin & acc & refused & Hev & Hmem).
  destruct (spec_is_af ev Hin) as [Hok _].
  assert (G : ext_ok sm spec X /\ ~ In id X).
  { destruct Hev as [-> | ->]; cbn [cache_ok] in Hok.
    - destruct Hok as (_ & Hext & H). split; [exact Hext|]. exact (H l id Hmem Hl).
    - destruct Hok as (-> & _). discriminate Hmem. }
  destruct G as [(E1 & E2 & E3) Hid]. split; cbn [fst snd].
  - split; [discriminate|]. intros Hsk. exfalso. destruct (Hsk _ E1) as (a0 & [<-|[]] & Ha0). exact (Hid Ha0).
  - repeat split; auto. intros a0 [<-|[]]. exact Hid.
Qed.

Lemma qpost_same : qpost s ps.
Proof. split; assumption. Qed.

Lemma dc_query_correct s' a ps' :
  dc_query oracle L leqb s l ps = Done (s', a) ps' -> acc_spec sm true true (af_of L spec) [id] a /\ qpost s' ps'.
Proof.
  intros Hq.
  assert (Hu : dc_query oracle L leqb s l =
               match is_cred L leqb (s_buf L s) l with
               | (Some b, Some e) => ret (s, (b, Some e))
               | _ => dc_miss
               end) by reflexivity.
  rewrite Hu in Hq. clear Hu.
  destruct (is_cred L leqb (s_buf L s) l) as [[b|] [X|]] eqn:Ehit; try (apply dc_miss_correct; exact Hq).
  apply ret_Done in Hq. destruct Hq as [Hq ->]. injection Hq as -> ->.
  split; [apply dc_hit_correct; exact Ehit|apply qpost_same].
Qed.

Lemma ds_query_correct s' a ps' :
  st_ds_query oracle L leqb s l ps = Done (s', a) ps' -> acc_spec sm false true (af_of L spec) [id] a /\ qpost s' ps'.
Proof.
  intros Hq.
  assert (Hu : st_ds_query oracle L leqb s l =
               match is_skep L leqb (s_buf L s) l with
               | (Some b, Some e) => ret (s, (b, Some e))
               | _ => ds_miss
               end) by reflexivity.
  rewrite Hu in Hq. clear Hu.
  destruct (is_skep L leqb (s_buf L s) l) as [[b|] [X|]] eqn:Ehit; try (apply ds_miss_correct; exact Hq).
  apply ret_Done in Hq. destruct Hq as [Hq ->]. injection Hq as -> ->.
  split; [apply ds_hit_correct; exact Ehit|apply qpost_same].
Qed.

End Query.

(* a query that computed was asked about an argument of the framework *)
Lemma x_arg_var_arg (af : fw) x l s v s' : x_arg_var L leqb af x l s = Done v s' -> exists id, get_argument af l = Some id.
Proof.
  unfold x_arg_var. intros H. apply bind_Done in H. destruct H as (id & p & Hg & _). apply opt_m_Done in Hg. exists id. tauto.
Qed.
Lemma dc_miss_arg oracle (s : dsolver L) l ps r ps' :
  dc_miss oracle s l ps = Done r ps' ->
  exists id, get_argument (fold_left ev_apply (pending (s_buf L s)) (s_af L s)) l = Some id.
Proof.
  intros Hq. unfold dc_miss in Hq. apply bind_Done in Hq. destruct Hq as ([af buf] & ps1 & Hue & Hq).
  destruct (update_encoding_spec L leqb _ _ _ _ _ Hue) as (H1 & _). cbn [fst] in H1. rewrite <- H1.
  cbv zeta in Hq. apply bind_Done in Hq. destruct Hq as (asm & p1 & _ & Hq).
  apply bind_Done in Hq. destruct Hq as (v & p2 & Hv & _). eapply x_arg_var_arg. exact Hv.
Qed.
Lemma ds_miss_arg oracle (s : dsolver L) l ps r ps' :
  ds_miss oracle s l ps = Done r ps' ->
  exists id, get_argument (fold_left ev_apply (pending (s_buf L s)) (s_af L s)) l = Some id.
Proof.
  intros Hq. unfold ds_miss in Hq. apply bind_Done in Hq. destruct Hq as ([af buf] & ps1 & Hue & Hq).
  destruct (update_encoding_spec L leqb _ _ _ _ _ Hue) as (H1 & _). cbn [fst] in H1. rewrite <- H1.
  cbv zeta in Hq. apply bind_Done in Hq. destruct Hq as (asm & p1 & _ & Hq).
  apply bind_Done in Hq. destruct Hq as (v & p2 & Hv & _). eapply x_arg_var_arg. exact Hv.
Qed.

(* ================================================================ Part F: every history *)
Notation reach := (DynDefs.reach L leqb).
Notation areach := (areach L leqb).
Notation fresh := (DynDefs.fresh_fw L leqb).
Notation run_ops := (Store.run_ops L leqb).

Lemma areach_reach oracle k s ps os : areach oracle k s ps os -> reach k s os.
Proof.
  induction 1 as [ps0 s ps Hn|s ps os o Hr IH|s ps os thr fuel q cert l s' a ps' Hr IH Hq].
  - eapply reach_new. exact Hn.
  - apply reach_update. exact IH.
  - eapply reach_query; [exact IH|exact Hq].
Qed.

(* what is known between two calls *)
Record between (k : dkind) (s : dsolver L) (os : list (op L)) : Prop := {
  bw_kind : s_kind L s = k;
  bw_inv : Inv (s_af L s);
  bw_att : att_inv L leqb k (s_af L s) (s_buf L s);
  bw_sync : fold_left ev_apply (pending (s_buf L s)) (s_af L s) = run_ops fresh os }.

Lemma reach_between k s os : reach k s os -> att_kind k -> between k s os.
Proof.
  intros Hr Hk. pose proof (reach_frame_inv L leqb _ _ _ Hr) as [Hkind _ Hs Hf].
  destruct (att_inv_reach L leqb leqb_spec k s os Hr Hk) as [Hinv Hi].
  split; auto. unfold DynDefs.synced in Hs. unfold DynDefs.spec_fw in Hf. rewrite Hkind in Hs, Hf.
  destruct k; try destruct Hk; congruence.
Qed.

Section Step.
Variable oracle : nat -> cnf -> list lit -> answer.
Hypothesis Hvalid : valid_oracle oracle.
Variable k : dkind.
Hypothesis Hk : att_kind k.
Variable s : dsolver L.
Variable ps : Prog.st.
Variable os : list (op L).
Hypothesis Hb : between k s os.
Hypothesis Hq0 : qpost k s ps.

Lemma dc_query_post l s' a ps' :
  dc_query oracle L leqb s l ps = Done (s', a) ps' -> qpost k s' ps'.
Proof.
  intros Hq. destruct Hb as [_ Hinv Hi Hsy]. destruct Hq0 as [Hcj Hcache].
  assert (Hu : dc_query oracle L leqb s l =
               match is_cred L leqb (s_buf L s) l with
               | (Some b, Some e) => ret (s, (b, Some e))
               | _ => dc_miss oracle s l
               end) by reflexivity.
  rewrite Hu in Hq. clear Hu.
  destruct (is_cred L leqb (s_buf L s) l) as [[b|] [X|]] eqn:Ehit.
  1:{ apply ret_Done in Hq. destruct Hq as [Hq ->]. injection Hq as -> ->. split; assumption. }
  all: destruct (dc_miss_arg _ _ _ _ _ _ Hq) as (id & Hid); rewrite Hsy in Hid;
    exact (proj2 (dc_miss_correct oracle Hvalid k s ps _ l id Hinv Hi Hcj Hcache Hsy Hid _ _ _ Hq)).
Qed.

Lemma ds_query_post l s' a ps' :
  st_ds_query oracle L leqb s l ps = Done (s', a) ps' -> qpost k s' ps'.
Proof.
  intros Hq. destruct Hb as [_ Hinv Hi Hsy]. destruct Hq0 as [Hcj Hcache].
  assert (Hu : st_ds_query oracle L leqb s l =
               match is_skep L leqb (s_buf L s) l with
               | (Some b, Some e) => ret (s, (b, Some e))
               | _ => ds_miss oracle s l
               end) by reflexivity.
  rewrite Hu in Hq. clear Hu.
  destruct (is_skep L leqb (s_buf L s) l) as [[b|] [X|]] eqn:Ehit.
  1:{ apply ret_Done in Hq. destruct Hq as [Hq ->]. injection Hq as -> ->. split; assumption. }
  all: destruct (ds_miss_arg _ _ _ _ _ _ Hq) as (id & Hid); rewrite Hsy in Hid;
    exact (proj2 (ds_miss_correct oracle Hvalid k s ps _ l id Hinv Hi Hcj Hcache Hsy Hid _ _ _ Hq)).
Qed.

(* the public entry point: only the supported queries return *)
Lemma strip_Done (m : Prog.M (dsolver L * answer_t)) (cert : bool) s' a ps' :
  (r <- m ;; ret (fst r, if cert then snd r else (fst (snd r), None))) ps = Done (s', a) ps' ->
  exists r, m ps = Done r ps' /\ s' = fst r /\ a = (if cert then snd r else (fst (snd r), None)).
Proof.
  intros H. apply bind_Done in H. destruct H as (r & p1 & Hm & H). apply ret_Done in H. destruct H as [H ->].
  injection H as -> ->. exists r. auto.
Qed.

End Step.

Lemma dyn_query_post oracle k s ps os thr fuel q cert l s' a ps' :
  valid_oracle oracle -> att_kind k -> between k s os -> qpost k s ps ->
  dyn_query oracle L leqb thr fuel s q cert l ps = Done (s', a) ps' -> qpost k s' ps'.
Proof.
  intros Hvalid Hk Hb Hq0 Hq. unfold dyn_query in Hq. rewrite (bw_kind _ _ _ Hb) in Hq.
  destruct k; try destruct Hk; destruct q; try discriminate Hq;
    apply strip_Done in Hq; destruct Hq as ([s1 a1] & Hm & -> & _); cbn [fst];
    first [exact (dc_query_post oracle Hvalid _ s ps os Hb Hq0 _ _ _ _ Hm)
          |exact (ds_query_post oracle Hvalid _ s ps os Hb Hq0 _ _ _ _ Hm)].
Qed.

Lemma dyn_query_answer oracle k s ps os thr fuel q cert l id s' a ps' :
  valid_oracle oracle -> att_kind k -> between k s os -> qpost k s ps ->
  get_argument (run_ops fresh os) l = Some id ->
  dyn_query oracle L leqb thr fuel s q cert l ps = Done (s', a) ps' ->
  acc_spec (kind_spec_sem k) (query_pol q) cert (af_of L (run_ops fresh os)) [id] a.
Proof.
  intros Hvalid Hk Hb Hq0 Hl Hq. destruct Hb as [Hkind Hinv Hi Hsy]. destruct Hq0 as [Hcj Hcache].
  unfold dyn_query in Hq. rewrite Hkind in Hq.
  destruct k; try destruct Hk; destruct q; try discriminate Hq;
    apply strip_Done in Hq; destruct Hq as ([s1 a1] & Hm & _ & ->); cbn [fst snd kind_spec_sem query_pol].
  - apply (acc_spec_strip CO true cert _ _ a1).
    exact (proj1 (dc_query_correct oracle Hvalid _ s ps _ l id Hinv Hi Hcj Hcache Hsy Hl _ _ _ Hm)).
  - apply (acc_spec_strip ST true cert _ _ a1).
    exact (proj1 (dc_query_correct oracle Hvalid _ s ps _ l id Hinv Hi Hcj Hcache Hsy Hl _ _ _ Hm)).
  - apply (acc_spec_strip ST false cert _ _ a1).
    exact (proj1 (ds_query_correct oracle Hvalid _ s ps _ l id Hinv Hi Hcj Hcache Hsy Hl _ _ _ Hm)).
Qed.

Lemma qpost_areach oracle k s ps os :
  valid_oracle oracle -> areach oracle k s ps os -> att_kind k -> qpost k s ps.
Proof.
  intros Hvalid Hr Hk.
  induction Hr as [ps0 s ps Hn|s ps os o Hr IH|s ps os thr fuel q cert l s' a ps' Hr IH Hq].
  - unfold dyn_new in Hn. destruct k; try destruct Hk;
      apply bind_Done in Hn; destruct Hn as (u & ps1 & _ & Hn); apply Done_inj in Hn; destruct Hn as [<- _];
      (split; [cbn [s_buf b_enc]; intros e E; injection E as <-; left; reflexivity|]);
      (split; cbn [s_buf s_af]; unfold DynDefs.trailing; cbn; [tauto|congruence]).
  - destruct IH as [Hcj Hcache]. pose proof (areach_reach _ _ _ _ _ Hr) as Hreach.
    pose proof (reach_frame_inv L leqb _ _ _ Hreach) as [Hkind _ _ _].
    assert (Hnd : not_dummy (s_kind L s)) by (rewrite Hkind; apply att_kind_not_dummy; exact Hk).
    destruct (update_touches_no_encoder L leqb s o Hnd) as (Haf & Hen & _).
    split; [rewrite Hen; exact Hcj|].
    pose proof (buf_update_spec L leqb (s_buf L s) o) as Hbu. cbv zeta in Hbu. destruct Hbu as (_ & _ & _ & _ & Hcase).
    unfold dyn_update. rewrite Hkind.
    assert (G : forall b, b = fst (buf_update L leqb (s_buf L s) o) ->
                cache_J (sem_of (kind_sem k)) {| s_kind := k; s_af := s_af L s; s_buf := b |}).
    { intros b ->. destruct Hcase as [(_ & ev & Hev & Hbf & _)|(_ & E)].
      - unfold cache_J, DynDefs.trailing. cbn [s_buf s_af]. rewrite Hbf, (trailing_snoc L), Hev.
        split; [intros ev' []|congruence].
      - rewrite E. destruct Hcache as [C1 C2]. split; cbn [s_buf s_af]; assumption. }
    destruct k; try destruct Hk;
      destruct (buf_update L leqb (s_buf L s) o) as [b r]; cbn [fst snd s_af s_buf] in *; apply G; reflexivity.
  - pose proof (areach_reach _ _ _ _ _ Hr) as Hreach.
    exact (dyn_query_post oracle k s ps os _ _ _ _ _ _ _ _ Hvalid Hk (reach_between k s os Hreach Hk) IH Hq).
Qed.

(* the functional theorem (goal 4) *)
Theorem att_query_correct oracle k s ps os thr fuel q cert l id s' a ps' :
  valid_oracle oracle -> areach oracle k s ps os -> att_kind k ->
  get_argument (run_ops fresh os) l = Some id ->
  dyn_query oracle L leqb thr fuel s q cert l ps = Done (s', a) ps' ->
  acc_spec (kind_spec_sem k) (query_pol q) cert (af_of L (run_ops fresh os)) [id] a.
Proof.
  intros Hvalid Hr Hk Hl Hq. pose proof (areach_reach _ _ _ _ _ Hr) as Hreach.
  exact (dyn_query_answer oracle k s ps os thr fuel q cert l id s' a ps' Hvalid Hk (reach_between k s os Hreach Hk)
           (qpost_areach oracle k s ps os Hvalid Hr Hk) Hl Hq).
Qed.

(* with an admissible factor: a supported query on an argument of the current framework never panics,
   and whenever it returns, its answer is the one the semantics dictate *)
Theorem att_query_total oracle k s ps os thr fuel q cert l id :
  valid_oracle oracle -> areach oracle k s ps os -> att_kind k -> factor_ok k -> att_supported k q ->
  get_argument (run_ops fresh os) l = Some id ->
  match dyn_query oracle L leqb thr fuel s q cert l ps with
  | Done (s', a) ps' =>
      acc_spec (kind_spec_sem k) (query_pol q) cert (af_of L (run_ops fresh os)) [id] a /\
      areach oracle k s' ps' os
  | Panic _ => False
  | _ => True
  end.
Proof.
  intros Hvalid Hr Hk Hf Hs Hl. pose proof (areach_reach _ _ _ _ _ Hr) as Hreach.
  pose proof (att_query_never_panics L leqb leqb_spec k s os oracle thr fuel q cert l id ps Hreach Hk Hf Hs Hl) as Hnp.
  destruct (dyn_query oracle L leqb thr fuel s q cert l ps) as [[s' a] ps'|ps'|ps'|ps'] eqn:E; auto.
  split; [eapply att_query_correct; eassumption|eapply areach_query; eassumption].
Qed.

(* earlier queries, cached results, retired slots and the SAT solver's choices never influence a
   status: two runs (any two valid oracles, histories, caches, certificate flags) that ask the same
   kind of question about the same argument of the same framework report the same status *)
Theorem att_status_history_independent o1 o2 k s1 s2 ps1 ps2 os1 os2 thr1 thr2 fuel1 fuel2 q c1 c2 l1 l2 id
        s1' s2' b1 b2 x1 x2 ps1' ps2' :
  valid_oracle o1 -> valid_oracle o2 -> att_kind k ->
  areach o1 k s1 ps1 os1 -> areach o2 k s2 ps2 os2 ->
  af_of L (run_ops fresh os1) = af_of L (run_ops fresh os2) ->
  get_argument (run_ops fresh os1) l1 = Some id -> get_argument (run_ops fresh os2) l2 = Some id ->
  dyn_query o1 L leqb thr1 fuel1 s1 q c1 l1 ps1 = Done (s1', (b1, x1)) ps1' ->
  dyn_query o2 L leqb thr2 fuel2 s2 q c2 l2 ps2 = Done (s2', (b2, x2)) ps2' ->
  b1 = b2.
Proof.
  intros V1 V2 Hk R1 R2 HF G1 G2 Q1 Q2.
  destruct (att_query_correct _ _ _ _ _ _ _ _ _ _ _ _ _ _ V1 R1 Hk G1 Q1) as [A1 _].
  destruct (att_query_correct _ _ _ _ _ _ _ _ _ _ _ _ _ _ V2 R2 Hk G2 Q2) as [A2 _].
  cbn [fst] in A1, A2. rewrite HF in A1. apply Bool.eq_iff_eq_true. rewrite A1, A2. reflexivity.
Qed.

End Fun.
