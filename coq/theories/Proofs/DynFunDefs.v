(* Definitions used by the statements of the functional theorem of C08 / C09 for the dynamic complete
   and stable solvers (no lemma lives here): reachability with the SAT program state threaded and ONE
   oracle, the template groups of the standard dynamic encoder for its current tables, live variables,
   dead clauses. *)
From Crusta Require Export Model.Dynamic Proofs.DynDefs.

Section Defs.
Variable L : Type.
Variable leqb : L -> L -> bool.

Notation fw := (fw L).
Notation dsolver := (dsolver L).

(* States reachable from a fresh solver of kind k, the state of the SAT program (session, answer
   counter, log) being threaded through the history and every query being answered by the SAME
   oracle with the same threshold: dyn_new runs from an arbitrary initial program state (it opens a
   new session); an update is pure (it only buffers an event) and leaves the program state alone;
   a query that returned [Done (s', a) ps'] moves to (s', ps').  A query that aborts (Unknown
   answer), panics or runs out of fuel ENDS the history: no state is reachable through it.
   [os] = all the updates requested so far (valid, redundant or invalid). *)
Inductive vreach (oracle : nat -> cnf -> list lit -> answer) (thr : nat) (k : dkind)
  : dsolver -> Prog.st -> list (op L) -> Prop :=
| vreach_new : forall ps0 s ps, dyn_new L leqb k ps0 = Done s ps -> vreach oracle thr k s ps []
| vreach_update : forall s ps os o,
    vreach oracle thr k s ps os ->
    vreach oracle thr k (fst (dyn_update L leqb s o)) ps (os ++ [o])
| vreach_query : forall s ps os fuel q cert l s' a ps',
    vreach oracle thr k s ps os ->
    dyn_query oracle L leqb thr fuel s q cert l ps = Done (s', a) ps' ->
    vreach oracle thr k s' ps' os.

(* the variable / the current attacker-set selector of an argument in the encoder's tables
   (1 for an argument without entry: never used for a live argument) *)
Definition avar (e : denc) (a : nat) : nat := match tbl_var (e_a2v e) a with Some v => v | None => 1 end.
Definition svar (e : denc) (a : nat) : nat := match tbl_var (e_a2s e) a with Some v => v | None => 1 end.

(* the clauses add_attacks_to_constraints_for_{complete,stable}_semantics emits for argument a with
   attacker list bs, under the CURRENT selector of a and the CURRENT variables ... *)
Definition grp (e : denc) (a : nat) (bs : list nat) : cnf :=
  match e_sem e with
  | DST => st_clauses (zlit (svar e a)) (avar e a) (map (avar e) bs)
  | _ => co_clauses (zlit (svar e a)) (avar e a) (map (avar e) bs)
  end.
(* ... and the whole group of a: for CO / PR also the binary clause [-v; -d] added when the argument
   was created (these are DynEnc.co_group / DynEnc.st_group for av := avar e, sel := svar e) *)
Definition group (e : denc) (a : nat) (bs : list nat) : cnf :=
  match e_sem e with
  | DST => grp e a bs
  | _ => [znlit (avar e a); znlit (S (avar e a))] :: grp e a bs
  end.

(* the variables in use: argument variables, attacker-disjunction variables (CO, PR), current selectors *)
Definition live_var (e : denc) (x : nat) : Prop :=
  (exists a, tbl_var (e_a2v e) a = Some x) \/
  (e_sem e <> DST /\ exists a v, tbl_var (e_a2v e) a = Some v /\ x = S v) \/
  (exists a, tbl_var (e_a2s e) a = Some x).

(* a dead variable is a variable with a forced value (dv x = Some b); a literal over a dead variable
   that this value makes true; a clause that contains such a literal *)
Definition dead_lit (dv : nat -> option bool) (l : lit) : Prop :=
  match dv (lit_var l) with Some b => vtrue (fun _ => b) l = true | None => False end.
Definition dead_clause (dv : nat -> option bool) (c : clause) : Prop := exists l, In l c /\ dead_lit dv l.

(* the attack relation of a store, as a set of pairs of ids *)
Definition attacks_of (af : fw) (b a : nat) : Prop := In (b, a) (iter_attacks L af).

(* THE CLAUSE-SET INVARIANT between two calls, for the framework af, the encoder e, the clause list C
   of the session and its n_vars N: there are forced values dv for dead variables and, for every live
   argument, a list atk a that is its current attacker set, such that
   - dead variables are known to the session (<= n_vars) and disjoint from the live variables;
   - every live argument has a current selector;
   - for every live argument a the template group of a for atk a (under its current selector and the
     current variables) is among the clauses;
   - every clause is in the group of a live argument, or is dead (contains a literal over a dead
     variable that the forced value makes true). *)
Definition clause_inv (af : fw) (e : denc) (C : cnf) (N : nat) : Prop :=
  exists (dv : nat -> option bool) (atk : nat -> list nat),
    (forall x, dv x <> None -> x <= N) /\
    (forall x, live_var e x -> dv x = None) /\
    (forall a, has_argument_with_id L af a = true -> tbl_var (e_a2s e) a <> None) /\
    (forall a, has_argument_with_id L af a = true ->
       (forall b, In b (atk a) <-> attacks_of af b a) /\ incl (group e a (atk a)) C) /\
    (forall c, In c C -> dead_clause dv c \/
                         exists a, has_argument_with_id L af a = true /\ In c (group e a (atk a))).

(* the updates of a history that are VALID at their moment (the redundant and the rejected ones dropped) *)
Fixpoint effective (f : fw) (os : list (op L)) : list (op L) :=
  match os with
  | [] => []
  | o :: r => match classify L leqb (abs L f) o with
              | UValid => o :: effective (fst (step L leqb f o)) r
              | _ => effective f r
              end
  end.

End Defs.
