(* "Every dynamic solver answers each acceptance query it supports": a supported query of the complete /
   stable dynamic solver on an argument of the current framework either RETURNS (with the answer the
   semantics dictate) or aborts on an Unknown answer of the SAT solver - it never panics (Proofs/DynSafe.v)
   and never runs out of the model's fuel (here: a purely structural fact about the programs).
   (A hypothesis "the oracle never answers Unknown" over ALL inputs would be inconsistent with
   valid_oracle: on the clause set [[0]; [1]] no Sat / Unsat answer is valid, literal 0 not being a DIMACS
   literal; hence the statement in the run_ok form of the static theorems.) *)
From Crusta Require Import Model.Dynamic Proofs.StoreBase Proofs.StoreProofs Proofs.SolverBasics Proofs.DynDefs
  Proofs.DynBase Proofs.DynProofs Proofs.DynSafe Proofs.DynFunDefs Proofs.DynInv Proofs.DynFun Proofs.CompProofs.
From Coq Require Import Lia ZifyBool.

(* never runs out of fuel *)
Definition nof {A} (m : Prog.M A) : Prop :=
  forall s, match m s with OutOfFuel _ => False | _ => True end.

Lemma nof_ret {A} (a : A) : nof (ret a).
Proof. intros s. exact I. Qed.
Lemma nof_panic {A} : nof (@panic A).
Proof. intros s. exact I. Qed.
Lemma nof_bind {A B} (m : Prog.M A) (k : A -> Prog.M B) : nof m -> (forall a, nof (k a)) -> nof (bind m k).
Proof.
  intros Hm Hk s. unfold bind. specialize (Hm s). destruct (m s) as [a s1|s1|s1|s1]; try exact Hm; try exact I.
  apply Hk.
Qed.
Lemma nof_opt_m {A} (o : option A) : nof (opt_m o).
Proof. destruct o; [apply nof_ret|apply nof_panic]. Qed.
Lemma nof_unwrap_ok {A} (r : A * result) : nof (unwrap_ok r).
Proof. destruct r as [a [| |]]; [apply nof_ret|apply nof_panic|apply nof_panic]. Qed.
Lemma nof_add_clause c : nof (add_clause c).
Proof. intros s. exact I. Qed.
Lemma nof_n_vars : nof n_vars.
Proof. intros s. exact I. Qed.
Lemma nof_add_clauses cs : nof (add_clauses cs).
Proof. induction cs as [|c r IH]; cbn [add_clauses]; [apply nof_ret|]. apply nof_bind; [apply nof_add_clause|intros _; exact IH]. Qed.
Lemma nof_fold_m {A B} (f : A -> B -> Prog.M A) (l : list B) : (forall a x, nof (f a x)) -> forall a, nof (fold_m f l a).
Proof.
  intros Hf. induction l as [|x r IH]; intros a; cbn [fold_m]; [apply nof_ret|].
  apply nof_bind; [apply Hf|exact IH].
Qed.

Ltac nof_step :=
  first [ apply nof_ret | apply nof_panic | apply nof_opt_m | apply nof_unwrap_ok | apply nof_add_clause
        | apply nof_n_vars | apply nof_add_clauses
        | (apply nof_bind; [|intro]) ].

Lemma nof_new_solver_var vars t : nof (new_solver_var vars t).
Proof. unfold new_solver_var. repeat nof_step. Qed.
Lemma nof_alloc_arg_vars sm vars id : nof (alloc_arg_vars sm vars id).
Proof.
  unfold alloc_arg_vars. apply nof_bind; [apply nof_new_solver_var|]. intros r1.
  destruct sm; try apply nof_ret; (apply nof_bind; [apply nof_new_solver_var|]; intros r2; repeat nof_step).
Qed.
Lemma nof_remove_selector e s : nof (remove_selector e s).
Proof.
  unfold remove_selector. destruct (Nat.ltb _ _); [|apply nof_panic].
  apply nof_bind; [apply nof_add_clause|]. intros _. destruct (position _ _); [apply nof_ret|apply nof_panic].
Qed.

Section Total.
Variable L : Type.
Variable leqb : L -> L -> bool.
Hypothesis leqb_spec : forall x y, leqb x y = true <-> x = y.
Variable oracle : nat -> cnf -> list lit -> answer.

Notation fw := (fw L).

Lemma nof_solve a : nof (Prog.solve oracle a).
Proof.
  intros s. unfold Prog.solve. destruct (oracle (calls s) (rev (rclauses (sess s))) a); exact I.
Qed.

Lemma nof_update_attacks_to (af : fw) e id : nof (update_attacks_to L af e id).
Proof.
  unfold update_attacks_to. destruct (negb (e_upd e)); [apply nof_ret|].
  destruct (nth_error (e_a2s e) id) as [os|]; [|apply nof_panic].
  apply nof_bind.
  - destruct os as [s|]; [|apply nof_ret]. apply nof_bind; [apply nof_remove_selector|intros e'; apply nof_ret].
  - intros e1. apply nof_bind; [apply nof_new_solver_var|]. intros [vars sv].
    destruct (negb _); [apply nof_panic|].
    match goal with |- nof (match ?x with _ => _ end) => destruct x end; [|apply nof_panic].
    match goal with |- nof (match ?x with _ => _ end) => destruct x end; [|apply nof_panic].
    repeat nof_step.
Qed.

Lemma nof_enc_new_argument (af : fw) e l : nof (enc_new_argument L leqb af e l).
Proof.
  unfold enc_new_argument. destruct (get_argument L leqb af l); [apply nof_ret|].
  destruct (max_argument_id L _); [|apply nof_panic].
  apply nof_bind; [apply nof_alloc_arg_vars|]. intros r.
  apply nof_bind; [apply nof_update_attacks_to|intros e4; apply nof_ret].
Qed.
Lemma nof_enc_remove_argument (af : fw) e l : nof (enc_remove_argument L leqb af e l).
Proof.
  unfold enc_remove_argument. destruct (get_argument L leqb af l); [|apply nof_ret].
  destruct (Store.remove_argument L leqb af l) as [af' [| |]]; try apply nof_ret.
  destruct (tbl_var _ _); [|apply nof_panic].
  apply nof_bind.
  - match goal with |- nof (match ?x with _ => _ end) => destruct x as [[s|]|] end;
      [|apply nof_ret|apply nof_panic].
    apply nof_bind; [apply nof_remove_selector|intros e'; apply nof_ret].
  - intros e2. destruct (Nat.ltb _ _); [|apply nof_panic].
    apply nof_bind; [apply nof_add_clause|]. intros _.
    apply nof_bind; [apply nof_fold_m; intros a x; apply nof_update_attacks_to|intros e4; apply nof_ret].
Qed.
Lemma nof_enc_new_attack (af : fw) e a b : nof (enc_new_attack L leqb af e a b).
Proof.
  unfold enc_new_attack. destruct (Store.new_attack L leqb af a b) as [af' [| |]]; [|apply nof_ret|apply nof_panic].
  destruct (get_argument L leqb af' b); [|apply nof_panic].
  apply nof_bind; [apply nof_update_attacks_to|intros e'; apply nof_ret].
Qed.
Lemma nof_enc_remove_attack (af : fw) e a b : nof (enc_remove_attack L leqb af e a b).
Proof.
  unfold enc_remove_attack. destruct (Store.remove_attack L leqb af a b) as [af' [| |]]; [|apply nof_ret|apply nof_panic].
  destruct (get_argument L leqb af' b); [|apply nof_panic].
  apply nof_bind; [apply nof_update_attacks_to|intros e'; apply nof_ret].
Qed.

Lemma nof_std_replay st ev : nof (std_replay L leqb st ev).
Proof.
  destruct st as [[af e] upd]. unfold std_replay. destruct ev as [l|l|x y|x y|x y z|x y z]; try apply nof_ret.
  - apply nof_bind; [apply nof_enc_new_argument|]. intros r. repeat nof_step.
  - apply nof_bind; [apply nof_opt_m|]. intros id. cbv zeta.
    apply nof_bind; [apply nof_enc_remove_argument|]. intros r. repeat nof_step.
  - apply nof_bind; [apply nof_enc_new_attack|]. intros r. repeat nof_step.
  - apply nof_bind; [apply nof_enc_remove_attack|]. intros r. repeat nof_step.
Qed.

Lemma nof_update_encoding (af : fw) b : is_std (b_enc L b) -> nof (update_encoding L leqb af b).
Proof.
  intros Hstd. unfold update_encoding. destruct (b_enc L b) as [e|e]; [|destruct Hstd].
  apply nof_bind; [apply nof_fold_m; intros a x; apply nof_std_replay|]. intros [[af' e'] upd].
  apply nof_bind; [apply nof_fold_m; intros a x; apply nof_update_attacks_to|intros e''; apply nof_ret].
Qed.

Lemma nof_x_assumptions (af : fw) x : nof (x_assumptions L af x).
Proof. destruct x; cbn [x_assumptions]; [apply nof_ret|apply nof_opt_m]. Qed.
Lemma nof_x_arg_var (af : fw) x l : nof (x_arg_var L leqb af x l).
Proof. unfold x_arg_var. repeat nof_step. Qed.

Lemma nof_dc_query (s : dsolver L) l : is_std (b_enc L (s_buf L s)) -> nof (dc_query oracle L leqb s l).
Proof.
  intros Hstd. unfold dc_query. destruct (is_cred L leqb (s_buf L s) l) as [[b|] [e|]]; try apply nof_ret.
  all: apply nof_bind; [apply nof_update_encoding; exact Hstd|]; intros [af buf];
    apply nof_bind; [apply nof_x_assumptions|]; intros asm;
    apply nof_bind; [apply nof_x_arg_var|]; intros v;
    apply nof_bind; [apply nof_solve|]; intros [m|]; repeat nof_step.
Qed.
Lemma nof_st_ds_query (s : dsolver L) l : is_std (b_enc L (s_buf L s)) -> nof (st_ds_query oracle L leqb s l).
Proof.
  intros Hstd. unfold st_ds_query. destruct (is_skep L leqb (s_buf L s) l) as [[b|] [e|]]; try apply nof_ret.
  all: apply nof_bind; [apply nof_update_encoding; exact Hstd|]; intros [af buf];
    apply nof_bind; [apply nof_x_assumptions|]; intros asm;
    apply nof_bind; [apply nof_x_arg_var|]; intros v;
    apply nof_bind; [apply nof_solve|]; intros [m|]; repeat nof_step.
Qed.

Notation reach := (DynDefs.reach L leqb).
Notation vreach := (DynFunDefs.vreach L leqb).
Notation fresh := (DynDefs.fresh_fw L leqb).
Notation run_ops := (Store.run_ops L leqb).

(* a supported query of the complete / stable solver returns or aborts *)
Theorem std_query_outcome k s os thr fuel q cert l id ps :
  reach k s os -> get_argument L leqb (run_ops fresh os) l = Some id ->
  (k = KCo /\ q = QDC) \/ (k = KSt /\ (q = QDC \/ q = QDS)) ->
  match dyn_query oracle L leqb thr fuel s q cert l ps with
  | Done _ _ | Abort _ => True
  | Panic _ | OutOfFuel _ => False
  end.
Proof.
  intros Hr Hl Hkq.
  assert (Hsk : std_kind k) by (unfold std_kind; destruct Hkq as [[-> _]|[-> _]]; tauto).
  pose proof (std_kind_reach L leqb _ _ _ Hr Hsk) as Hstd.
  pose proof (reach_frame_inv L leqb _ _ _ Hr) as [Hkind _ _ _].
  assert (Hnp := std_query_never_panics L leqb leqb_spec k s os oracle thr fuel q cert l id ps Hr Hl
                   (ltac:(destruct Hkq as [H|H]; [left; exact H|right; left; exact H]))).
  assert (Hna : nof (dyn_query oracle L leqb thr fuel s q cert l)).
  { unfold dyn_query. rewrite Hkind.
    destruct Hkq as [[-> ->]|[-> [-> | ->]]];
      (apply nof_bind; [first [apply nof_dc_query|apply nof_st_ds_query]; exact Hstd|intros r; apply nof_ret]). }
  specialize (Hna ps). destruct (dyn_query oracle L leqb thr fuel s q cert l ps); auto.
Qed.

(* the functional theorem in the run_ok form of the static solver theorems (Proofs/TopMax.v) *)
Theorem dyn_functional_run thr k s ps os fuel q cert l id :
  valid_oracle oracle -> vreach oracle thr k s ps os ->
  (k = KCo /\ q = QDC) \/ (k = KSt /\ (q = QDC \/ q = QDS)) ->
  get_argument L leqb (run_ops fresh os) l = Some id ->
  match dyn_query oracle L leqb thr fuel s q cert l ps with
  | Done (s', (b, c)) ps' => answer_ok (sem_of k) (qpol q) cert (af_of (run_ops fresh os)) id (b, c)
  | Abort _ => True
  | Panic _ | OutOfFuel _ => False
  end.
Proof.
  intros Hvalid Hv Hkq Hl.
  pose proof (std_query_outcome k s os thr fuel q cert l id ps (vreach_reach L leqb _ _ _ _ _ _ Hv) Hl Hkq) as Ho.
  destruct (dyn_query oracle L leqb thr fuel s q cert l ps) as [[s' [b c]] ps'| | |] eqn:Hq; auto.
  exact (dyn_functional L leqb leqb_spec oracle thr k s ps os fuel q cert l id s' b c ps' Hvalid Hv Hkq Hl Hq).
Qed.

End Total.
