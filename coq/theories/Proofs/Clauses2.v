(* Clause-level corollaries for the property texts of C09, C10, C12, C14, C15, C16, C17, C19: short
   consequences of the general theorems, each stating ONE clause of a property text in readable form
   (see the table in NOTES-agent-dynatt.md).  Nothing new is proved about the model here. *)
From Crusta Require Import Model.Store Proofs.StoreBase Proofs.StoreProofs.
From Coq Require Import Lia Permutation.

(* ================================================================ C12: the framework store *)
Section C12.
Variable L : Type.
Variable leqb : L -> L -> bool.
Hypothesis leqb_spec : forall x y, leqb x y = true <-> x = y.

Notation fw := (fw L).
Notation step := (step L leqb).
Notation abs := (abs L).
Notation run_ops := (run_ops L leqb).
Notation init := (fw_new_with_labels L leqb).
Notation get_argument := (get_argument L leqb).
Definition reachable (f : fw) : Prop := exists ls os, f = run_ops (init ls) os.

Lemma reachable_step f o : reachable f -> reachable (fst (step f o)).
Proof.
  intros (ls0 & os & ->). exists ls0, (os ++ [o]). unfold Store.run_ops. rewrite fold_left_app. reflexivity.
Qed.

Lemma has_att_In (f : fw) x y : s_has_att L (abs f) (x, y) = true <-> In (x, y) (iter_attacks L f).
Proof.
  unfold s_has_att, Store.abs. cbn [rel]. rewrite existsb_exists. split.
  - intros (q & Hq & E). apply (pair_eqb_eq) in E. subst q. exact Hq.
  - intros H. exists (x, y). split; [exact H|]. apply pair_eqb_eq. reflexivity.
Qed.

(* inserting an existing argument or attack changes nothing: the call reports Ok and the store is EQUAL *)
Theorem insert_existing_noop f : reachable f ->
  (forall l id, get_argument f l = Some id -> step f (OpNewArg l) = (f, ROk)) /\
  (forall a b x y, get_argument f a = Some x -> get_argument f b = Some y ->
                   In (x, y) (iter_attacks L f) -> step f (OpNewAtt a b) = (f, ROk)).
Proof.
  intros Hr. pose proof (reach_inv L leqb leqb_spec f Hr) as Hinv. split.
  - intros l id Hg. cbn [Store.step]. f_equal.
    unfold Store.get_argument in Hg. unfold Store.new_argument, new_label. rewrite Hg.
    rewrite Nat.ltb_irrefl. destruct f; reflexivity.
  - intros a b x y Ha Hb Hin. cbn [Store.step]. unfold Store.new_attack.
    unfold Store.get_argument in Ha, Hb. rewrite Ha, Hb.
    rewrite (has_att_spec L f x y Hinv). apply has_att_In in Hin. rewrite Hin. reflexivity.
Qed.

(* removing an argument removes exactly this argument and exactly its incident attacks *)
Theorem remove_argument_incident f l id : reachable f -> get_argument f l = Some id ->
  snd (step f (OpRemArg l)) = ROk /\
  iter_args L (fst (step f (OpRemArg l))) = filter (fun p => negb (Nat.eqb (fst p) id)) (iter_args L f) /\
  iter_attacks L (fst (step f (OpRemArg l))) =
    filter (fun p => negb (Nat.eqb (fst p) id) && negb (Nat.eqb (snd p) id)) (iter_attacks L f).
Proof.
  intros Hr Hg. destruct (step_refines L leqb leqb_spec f (OpRemArg l) Hr) as (H1 & H2 & _).
  destruct (observations L leqb leqb_spec f Hr) as (_ & _ & _ & _ & _ & Hfind & _).
  rewrite Hfind in Hg. cbn [Store.s_step] in H1, H2. rewrite Hg in H1, H2. cbn [fst snd] in H1, H2.
  split; [exact H1|]. split.
  - change (iter_args L (fst (step f (OpRemArg l)))) with (live (abs (fst (step f (OpRemArg l))))).
    rewrite H2. reflexivity.
  - change (iter_attacks L (fst (step f (OpRemArg l)))) with (rel (abs (fst (step f (OpRemArg l))))).
    rewrite H2. reflexivity.
Qed.

(* ids are never reused: an id below the id counter of a store f that names a live argument after ANY
   further history named the same argument (same label) in f already - neither the id of a removed
   argument nor any other earlier id is ever given to another argument *)
Theorem ids_never_reused os : forall f, reachable f ->
  forall id l, In (id, l) (iter_args L (run_ops f os)) -> id < next_id (abs f) -> In (id, l) (iter_args L f).
Proof.
  induction os as [|o r IH]; intros f Hr id l Hin Hlt; [exact Hin|].
  change (run_ops f (o :: r)) with (run_ops (fst (step f o)) r) in Hin.
  destruct (ids_stable L leqb leqb_spec f o Hr) as (Hn & Hnew & _). cbv zeta in Hn, Hnew.
  specialize (IH (fst (step f o)) (reachable_step f o Hr) id l Hin (Nat.lt_le_trans _ _ _ Hlt Hn)).
  destruct (Hnew id l IH) as [H|[H _]]; [exact H|lia].
Qed.

(* an update on an unknown argument or attack returns an error and leaves the framework unchanged *)
Theorem unknown_rejected f : reachable f ->
  (forall l, get_argument f l = None -> step f (OpRemArg l) = (f, RErr)) /\
  (forall a b, get_argument f a = None \/ get_argument f b = None ->
               step f (OpNewAtt a b) = (f, RErr) /\ step f (OpRemAtt a b) = (f, RErr)) /\
  (forall a b x y, get_argument f a = Some x -> get_argument f b = Some y ->
                   ~ In (x, y) (iter_attacks L f) -> step f (OpRemAtt a b) = (f, RErr)).
Proof.
  intros Hr.
  destruct (observations L leqb leqb_spec f Hr) as (_ & _ & _ & _ & _ & Hfind & _).
  assert (G : forall o, snd (Store.s_step L leqb (abs f) o) = RErr -> step f o = (f, RErr)).
  { intros o He. destruct (step_refines L leqb leqb_spec f o Hr) as (H1 & _).
    rewrite He in H1. rewrite (surjective_pairing (step f o)), H1.
    rewrite (err_unchanged L leqb f o H1). reflexivity. }
  split; [|split].
  - intros l Hg. apply G. cbn [Store.s_step]. rewrite <- Hfind, Hg. reflexivity.
  - intros a b Hab. split; apply G; cbn [Store.s_step]; rewrite <- !Hfind;
      destruct Hab as [-> | ->]; try reflexivity; destruct (get_argument f a); reflexivity.
  - intros a b x y Ha Hb Hn. apply G. cbn [Store.s_step]. rewrite <- !Hfind, Ha, Hb.
    destruct (s_has_att L (abs f) (x, y)) eqn:E; [|reflexivity]. apply has_att_In in E. contradiction.
Qed.

End C12.

(* ================================================================ C10: the encoders *)
From Crusta Require Import Proofs.EncSpec Proofs.EncBase Proofs.EncAll.

(* the family of sets an encoder is meant to capture *)
Definition enc_target (e : enc) : af -> list nat -> Prop :=
  match e with
  | AuxCf | ExpCf => cfs
  | AuxAdm => adm
  | AuxCo | ExpCo | HybCo => co
  | StDefault => st
  end.
Lemma enc_target_basep e : enc_target e = basep (enc_base e).
Proof. destruct e; reflexivity. Qed.

Theorem models_exactly_target e thr F n C :
  1 <= thr -> compact_af F n -> enc_clauses e thr false F = Some C ->
  (forall m : val, vmodels m C = true -> enc_target e F (filter (fun a => m (arg_var e a)) (seq 0 n))) /\
  (forall S, enc_target e F S ->
     exists m : val, vmodels m C = true /\ forall a, a < n -> (m (arg_var e a) = true <-> In a S)).
Proof.
  intros Ht HF HC. rewrite enc_target_basep. split.
  - intros m Hm. exact (all_sound e thr F n Ht HF C m HC Hm).
  - intros S HS. exact (all_complete e thr F n Ht HF C S HC HS).
Qed.

Theorem range_variables_exact e thr F n C :
  1 <= thr -> compact_af F n -> enc_clauses e thr true F = Some C ->
  (forall m : val, vmodels m C = true ->
     enc_target e F (filter (fun a => m (arg_var e a)) (seq 0 n)) /\
     forall i, i < n -> m (range_var e n i) = true ->
               in_range F (filter (fun a => m (arg_var e a)) (seq 0 n)) i) /\
  (forall S, enc_target e F S ->
     exists m : val, vmodels m C = true /\
       (forall a, a < n -> (m (arg_var e a) = true <-> In a S)) /\
       (forall i, i < n -> (m (range_var e n i) = true <-> in_range F S i))).
Proof.
  intros Ht HF HC. rewrite enc_target_basep. split.
  - intros m Hm. exact (all_range_sound e thr F n Ht HF C m HC Hm).
  - intros S HS. exact (all_range_complete e thr F n Ht HF C S HC HS).
Qed.

Theorem literals_never_collide e thr range F n :
  1 <= thr -> compact_af F n ->
  (forall a b, arg_to_lit e a = arg_to_lit e b -> a = b) /\
  (forall a, (0 < arg_to_lit e a)%Z /\ lit_var (arg_to_lit e a) = arg_var e a) /\
  (forall a b, a < n -> b < n -> arg_var e a <> range_var e n b) /\
  (forall a, a < n -> ~ aux_zone e n range (arg_var e a)) /\
  (forall a b, range_var e n a = range_var e n b -> a = b) /\
  (forall a, a < n -> range = true -> ~ aux_zone e n range (range_var e n a)) /\
  (forall C, enc_clauses e thr range F = Some C -> forall c l, In c C -> In l c ->
     l <> 0%Z /\
     ((exists a, a < n /\ lit_var l = arg_var e a) \/
      (range = true /\ exists a, a < n /\ lit_var l = range_var e n a) \/
      aux_zone e n range (lit_var l))).
Proof.
  intros Ht HF. destruct (all_layout e thr range F n Ht HF) as (H1 & H2 & H3 & H4 & H5 & H6 & H7).
  split; [|split; [|split; [|split; [|split; [|split]]]]]; auto.
  - intros a b E. unfold arg_to_lit, zlit in E. apply Nat2Z.inj in E. apply H2. exact E.
  - intros a. unfold arg_to_lit. rewrite lit_var_zlit. split; [|reflexivity]. specialize (H4 a). unfold zlit. lia.
Qed.

(* ================================================================ C14: the answer lines *)
From Crusta Require Import Model.Writers Proofs.IoBase Proofs.WritersProofs.

Theorem extension_lines_exact :
  (forall labels : list N,
     write_w labels = [119%N] ++ flat_map (fun n => 32%N :: dec n) labels ++ [10%N] /\
     ~ In 10%N (flat_map (fun n => 32%N :: dec n) labels)) /\
  (forall labels : list str, Forall label_ok labels ->
     write_bracket labels = [91%N] ++ join_comma (map utf8_encode labels) ++ [93%N; 10%N] /\
     ~ In 10%N (join_comma (map utf8_encode labels))).
Proof.
  split.
  - intros labels. split; [reflexivity|apply w_tail_no_lf].
  - intros labels Hok. split; [reflexivity|]. apply join_no_lf.
    apply Forall_forall. intros i Hi. apply in_map_iff in Hi. destruct Hi as [l [<- Hl]].
    rewrite Forall_forall in Hok. destruct (Hok _ Hl) as [_ [_ [_ H]]]. apply encode_no_byte; [lia|assumption].
Qed.

(* ================================================================ C15: the solver objects *)
From Crusta Require Import Model.SatObjects Model.SatSpec Proofs.SatObjProofs Proofs.ReplyProofs.

Lemma all_ok_at pre : forall done ops obs o post,
  all_ok done ops obs -> ops = pre ++ o :: post ->
  exists ob, nth_error obs (length pre) = Some ob /\ contract_ok (done ++ pre) o ob.
Proof.
  induction pre as [|p r IH]; intros done ops obs o post Hall ->; cbn [app] in Hall.
  - destruct obs as [|ob robs]; [destruct Hall|]. destruct Hall as [H _]. exists ob. rewrite app_nil_r. auto.
  - destruct obs as [|ob robs]; [destruct Hall|]. destruct Hall as [_ H].
    destruct (IH (done ++ [p]) _ robs o post H eq_refl) as (ob' & H1 & H2). exists ob'. cbn [length nth_error].
    split; [exact H1|]. rewrite <- app_assoc in H2. exact H2.
Qed.

(* one solve call of a history, spelled out: the clauses added BEFORE it and the assumptions OF it *)
Definition solve_call_ok (pre : list sop) (a : list lit) (ob : sobs) : Prop :=
  match ob with
  | ObsAns (Sat m) => models m (clauses_of pre ++ units a) = true /\ length m = hist_nvars (pre ++ [OSolve a])
  | ObsAns Unsat => forall m, models m (clauses_of pre ++ units a) = false
  | ObsAns Unknown => True
  | _ => False
  end.

Theorem buffered_each_solve_call fn pre a post :
  solver_correct fn -> hist_ok (pre ++ OSolve a :: post) = true -> small (pre ++ OSolve a :: post) ->
  exists ob, nth_error (snd (run_obj (buf_step fn) buf_new (pre ++ OSolve a :: post))) (length pre) = Some ob /\
             solve_call_ok pre a ob.
Proof.
  intros Hc Hok Hs.
  destruct (all_ok_at pre [] _ _ (OSolve a) post (buffered_contract fn _ Hc Hok Hs) eq_refl) as (ob & H1 & H2).
  exists ob. split; [exact H1|]. cbn [app contract_ok] in H2. unfold query in H2. exact H2.
Qed.
Theorem cadical_each_solve_call pre a post :
  hist_ok (pre ++ OSolve a :: post) = true ->
  exists ob, nth_error (snd (run_obj (cad_step dpll_backend) cad_new (pre ++ OSolve a :: post))) (length pre) = Some ob /\
             solve_call_ok pre a ob.
Proof.
  intros Hok.
  destruct (all_ok_at pre [] _ _ (OSolve a) post (cadical_dpll_contract _ Hok) eq_refl) as (ob & H1 & H2).
  exists ob. split; [exact H1|]. cbn [app contract_ok] in H2. unfold query in H2. exact H2.
Qed.

(* the formula of a solve call: every clause added before it, whatever happened in between, and
   nothing of the assumptions of earlier calls *)
Theorem query_formula pre mid c a b :
  In c (query (pre ++ OAdd c :: mid) b) /\
  query (pre ++ OSolve a :: mid) b = query (pre ++ mid) b.
Proof.
  unfold query. rewrite !clauses_of_app. cbn [clauses_of]. split; [|reflexivity].
  apply in_or_app. left. apply in_or_app. right. left. reflexivity.
Qed.

(* ================================================================ C17: what a failing external solver yields *)
Theorem external_failure_never_a_verdict fn s a :
  let out := fn (buf_instance s a) in
  let ob := snd (buf_step fn s (OSolve a)) in
  (out = [] -> ob = ObsAns Unknown) /\
  (forall m, ob = ObsAns (Sat m) -> In b_sat (lines_of out) /\ has_terminator (lines_of out)) /\
  (ob = ObsAns Unsat -> In b_unsat (lines_of out)) /\
  (ob = ObsAns Unknown \/ ob = ObsPanic \/ verdict_of ob <> None).
Proof.
  cbv zeta. cbn [buf_step snd].
  set (nv := Nat.max (bnvars s) (clause_max a)). set (out := fn (buf_instance s a)).
  split; [|split; [|split]].
  - intros ->. rewrite reply_empty. reflexivity.
  - intros m H. destruct (reply_parse nv out) as [m'| | |] eqn:E; try discriminate H.
    destruct (reply_sat_inv nv out m' E) as (A & B & _). auto.
  - intros H. destruct (reply_parse nv out) as [m'| | |] eqn:E; try discriminate H.
    exact (reply_unsat_inv nv out E).
  - destruct (reply_parse nv out); cbn [obs_of_reply verdict_of]; auto; right; right; discriminate.
Qed.

(* ================================================================ C16: the call returns *)
From Crusta Require Import Model.Pipe Proofs.PipeProofs.

(* a run: each state is a successor of the previous one *)
Fixpoint path (c : config) (s : pstate) (l : list pstate) : Prop :=
  match l with [] => True | s' :: r => In s' (steps c s) /\ path c s' r end.

Lemma last_cons {A} (l : list A) : forall s s', last (s' :: l) s = last l s'.
Proof.
  induction l as [|x r IH]; intros s s'; [reflexivity|].
  change (last (s' :: x :: r) s) with (last (x :: r) s). rewrite !IH. reflexivity.
Qed.

Lemma path_measure c : forall l s, path c s l -> Pipe.measure (last l s) + length l <= Pipe.measure s.
Proof.
  induction l as [|s' r IH]; intros s Hp; cbn [length]; [cbn; lia|].
  destruct Hp as [H1 H2]. pose proof (measure_decreases c s s' H1). specialize (IH s' H2).
  rewrite last_cons. lia.
Qed.
Lemma path_reach c : forall l s, Pipe.reach c s -> path c s l -> Pipe.reach c (last l s).
Proof.
  induction l as [|s' r IH]; intros s Hr Hp; [exact Hr|]. destruct Hp as [H1 H2].
  rewrite last_cons.
  apply IH; [eapply reach_step; eassumption|exact H2].
Qed.

Theorem call_returns c : ord c = DrainThenWait -> 1 <= cap_in c -> 1 <= cap_out c ->
  forall l, path c (init c) l ->
    length l <= Pipe.measure (init c) /\
    (final (last l (init c)) = true \/ exists s', In s' (steps c (last l (init c)))).
Proof.
  intros Ho Hi Hc l Hp. split; [pose proof (path_measure c l _ Hp); lia|].
  pose proof (path_reach c l _ (reach_init c) Hp) as Hr.
  pose proof (drain_then_wait_never_stuck c _ Ho Hi Hc Hr) as Hs. unfold stuck in Hs.
  destruct (final (last l (init c))); [left; reflexivity|right]. cbn [negb andb] in Hs.
  destruct (steps c (last l (init c))) as [|s' r]; [discriminate|]. exists s'. left. reflexivity.
Qed.

(* ================================================================ C19: the equivalence reduction *)
From Crusta Require Import Model.Equiv Proofs.EquivBase Proofs.EquivProofs.

Theorem maps_inverse F n cls : compact_af F n -> compute_classes F = Done cls ->
  (forall a, a < n -> init_to_reduced F cls a < length cls) /\
  (forall r, r < length cls -> reduced_to_init cls r <> [] /\ forall b, In b (reduced_to_init cls r) -> b < n) /\
  (forall a r, a < n -> r < length cls -> (init_to_reduced F cls a = r <-> In a (reduced_to_init cls r))).
Proof.
  intros HF Hc. destruct (maps_spec F n cls HF Hc) as (M1 & M2 & M3).
  destruct (classes_partition F n cls HF Hc) as (P1 & P2).
  split; [intros a Ha; exact (proj1 (M1 a Ha))|]. split.
  - intros r Hr. destruct (nth_error cls r) as [c|] eqn:E; [|apply nth_error_None in E; lia].
    rewrite (M2 r c E). pose proof (nth_error_In _ _ E) as Hin. split; [exact (P2 c Hin)|].
    intros b Hb. assert (Hb' : In b (concat (map members cls))).
    { apply in_concat. exists (members c). split; [apply in_map; exact Hin|exact Hb]. }
    apply (Permutation_in _ P1) in Hb'. apply in_seq in Hb'. lia.
  - intros a r Ha Hr. split.
    + intros <-. exact (proj2 (M1 a Ha)).
    + intros Hin. exact (M3 r a Hr Hin).
Qed.

(* "in particular": all arguments of the grounded extension are merged into one reduced argument, and
   all arguments it defeats into one *)
Theorem grounded_merged F n cls G : compact_af F n -> compute_classes F = Done cls -> gr F G ->
  (forall x y, In x G -> In y G -> init_to_reduced F cls x = init_to_reduced F cls y) /\
  (forall x y, (exists g, In g G /\ att F g x) -> (exists g, In g G /\ att F g y) ->
               init_to_reduced F cls x = init_to_reduced F cls y).
Proof.
  intros HF Hc HG. destruct (maps_spec F n cls HF Hc) as (M1 & M2 & M3).
  pose proof (grounded_exact_classes F n cls HF Hc G HG) as Hex.
  destruct HG as [[[Hincl [Hcf _]] _] _]. destruct HF as [Hargs Hatts].
  assert (HltG : forall x, In x G -> x < n).
  { intros x Hx. apply Hincl in Hx. rewrite Hargs in Hx. apply in_seq in Hx. lia. }
  assert (HltD : forall x, (exists g, In g G /\ att F g x) -> x < n).
  { intros x (g & _ & Hgx). exact (proj2 (Hatts g x Hgx)). }
  assert (Hcls : forall a, a < n -> exists c, nth_error cls (init_to_reduced F cls a) = Some c /\ In a (members c) /\ In c cls).
  { intros a Ha. destruct (M1 a Ha) as [Hlt Hin]. unfold reduced_to_init in Hin.
    destruct (nth_error cls (init_to_reduced F cls a)) as [c|] eqn:E; [|destruct Hin].
    exists c. split; [reflexivity|]. split; [exact Hin|]. eapply nth_error_In. exact E. }
  split.
  - intros x y Hx Hy. destruct (Hcls x (HltG x Hx)) as (c & E & Hxc & Hc'). specialize (Hex c Hc').
    pose proof (proj1 (M1 x (HltG x Hx))) as Hlt. symmetry. apply (M3 _ y Hlt). unfold reduced_to_init. rewrite E.
    destruct c as [v|v|v]; cbn [members] in *.
    + apply Hex. exact Hy.
    + exfalso. apply Hex in Hxc. destruct Hxc as (g & Hg & Hgx). exact (Hcf g x Hg Hx Hgx).
    + exfalso. exact (proj1 (Hex x Hxc) Hx).
  - intros x y Hx Hy. destruct (Hcls x (HltD x Hx)) as (c & E & Hxc & Hc'). specialize (Hex c Hc').
    pose proof (proj1 (M1 x (HltD x Hx))) as Hlt. symmetry. apply (M3 _ y Hlt). unfold reduced_to_init. rewrite E.
    destruct c as [v|v|v]; cbn [members] in *.
    + exfalso. apply Hex in Hxc. destruct Hx as (g & Hg & Hgx). exact (Hcf g x Hg Hxc Hgx).
    + apply Hex. exact Hy.
    + exfalso. exact (proj2 (Hex x Hxc) Hx).
Qed.

(* ================================================================ C09: redundant / invalid updates of a dynamic solver *)
From Crusta Require Import Model.Dynamic Proofs.SolverBasics Proofs.DynDefs Proofs.DynProofs Proofs.DynFunDefs Proofs.DynFun
  Proofs.DynAttDefs Proofs.DynAttFun Proofs.GroundedProofs Proofs.TopMax.

Section C09.
Variable L : Type.
Variable leqb : L -> L -> bool.
Hypothesis leqb_spec : forall x y, leqb x y = true <-> x = y.

Notation reach := (DynDefs.reach L leqb).
Notation fresh := (DynDefs.fresh_fw L leqb).
Notation run_ops := (Store.run_ops L leqb).
Notation get_argument := (Store.get_argument L leqb).
Notation dyn_update := (dyn_update L leqb).
Notation spec_fw := (DynDefs.spec_fw L).

Lemma update_as_step k s os o : reach k s os ->
  snd (dyn_update s o) = snd (Store.step L leqb (run_ops fresh os) o) /\
  spec_fw s = run_ops fresh os /\
  spec_fw (fst (dyn_update s o)) = fst (Store.step L leqb (run_ops fresh os) o).
Proof.
  intros Hr. pose proof (reach_frame_inv L leqb k s os Hr) as Hi.
  destruct (dyn_update_inv L leqb k s os o Hi) as [Hi' Hres].
  split; [exact Hres|]. split; [exact (fi_spec L leqb _ _ _ Hi)|].
  rewrite (fi_spec L leqb _ _ _ Hi'). apply run_ops_snoc.
Qed.

Lemma fresh_reachable' os : reachable L leqb (run_ops fresh os).
Proof. exists [], os. reflexivity. Qed.

(* adding an argument or an attack that is already present is a no-op: Ok, and the framework kept for
   the caller is EQUAL *)
Theorem redundant_update_noop k s os : reach k s os ->
  (forall l id, get_argument (run_ops fresh os) l = Some id ->
     snd (dyn_update s (OpNewArg l)) = ROk /\ spec_fw (fst (dyn_update s (OpNewArg l))) = spec_fw s) /\
  (forall a b x y, get_argument (run_ops fresh os) a = Some x -> get_argument (run_ops fresh os) b = Some y ->
     In (x, y) (iter_attacks L (run_ops fresh os)) ->
     snd (dyn_update s (OpNewAtt a b)) = ROk /\ spec_fw (fst (dyn_update s (OpNewAtt a b))) = spec_fw s).
Proof.
  intros Hr. destruct (insert_existing_noop L leqb leqb_spec _ (fresh_reachable' os)) as [N1 N2]. split.
  - intros l id Hg. destruct (update_as_step k s os (OpNewArg l) Hr) as (H1 & H2 & H3).
    rewrite (N1 l id Hg) in H1, H3. rewrite H2. auto.
  - intros a b x y Ha Hb Hin. destruct (update_as_step k s os (OpNewAtt a b) Hr) as (H1 & H2 & H3).
    rewrite (N2 a b x y Ha Hb Hin) in H1, H3. rewrite H2. auto.
Qed.

(* removing an unknown argument or attack, or adding an attack to or from an unknown argument, is
   reported as an error by the update call itself, and the framework kept for the caller is EQUAL *)
Theorem invalid_update_error k s os : reach k s os ->
  (forall l, get_argument (run_ops fresh os) l = None ->
     snd (dyn_update s (OpRemArg l)) = RErr /\ spec_fw (fst (dyn_update s (OpRemArg l))) = spec_fw s) /\
  (forall a b, get_argument (run_ops fresh os) a = None \/ get_argument (run_ops fresh os) b = None ->
     (snd (dyn_update s (OpNewAtt a b)) = RErr /\ spec_fw (fst (dyn_update s (OpNewAtt a b))) = spec_fw s) /\
     (snd (dyn_update s (OpRemAtt a b)) = RErr /\ spec_fw (fst (dyn_update s (OpRemAtt a b))) = spec_fw s)) /\
  (forall a b x y, get_argument (run_ops fresh os) a = Some x -> get_argument (run_ops fresh os) b = Some y ->
     ~ In (x, y) (iter_attacks L (run_ops fresh os)) ->
     snd (dyn_update s (OpRemAtt a b)) = RErr /\ spec_fw (fst (dyn_update s (OpRemAtt a b))) = spec_fw s).
Proof.
  intros Hr. destruct (unknown_rejected L leqb leqb_spec _ (fresh_reachable' os)) as (U1 & U2 & U3).
  assert (G : forall o, Store.step L leqb (run_ops fresh os) o = (run_ops fresh os, RErr) ->
              snd (dyn_update s o) = RErr /\ spec_fw (fst (dyn_update s o)) = spec_fw s).
  { intros o E. destruct (update_as_step k s os o Hr) as (H1 & H2 & H3). rewrite E in H1, H3. rewrite H2. auto. }
  split; [|split].
  - intros l Hg. apply G, U1, Hg.
  - intros a b Hab. destruct (U2 a b Hab) as [E1 E2]. split; apply G; assumption.
  - intros a b x y Ha Hb Hn. apply G. eapply U3; eassumption.
Qed.

(* the attacks variants: every later answer is the one of the framework built by the VALID updates alone *)
Theorem att_answers_ignore_noop_updates oracle k s ps os thr fuel q cert l s' b c ps' :
  valid_oracle oracle -> areach L leqb oracle k s ps os -> att_kind k ->
  let f := run_ops fresh (effective L leqb fresh os) in
  forall id, get_argument f l = Some id ->
  dyn_query oracle L leqb thr fuel s q cert l ps = Done (s', (b, c)) ps' ->
  acc_spec (kind_spec_sem k) (query_pol q) cert (af_of L f) [id] (b, c).
Proof.
  intros Hv Hr Hk f id Hg Hq. unfold f in *.
  rewrite (run_ops_effective L leqb leqb_spec os fresh (StoreProofs.init_inv L leqb leqb_spec [])) in *.
  exact (att_query_correct L leqb leqb_spec oracle k s ps os thr fuel q cert l id s' (b, c) ps' Hv Hr Hk Hg Hq).
Qed.

End C09.
