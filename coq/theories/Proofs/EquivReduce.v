(* Lemmas on Model/Equiv.v, part 3: the content of the reduced framework built by [reduce_af]
   (src/utils/equivalency_computer.rs, fn reduce_af) on the framework store of Model/Store.v:
   it never panics on a compact framework, it has one argument per class (id = class index, label =
   label of the FIRST member of the class), its attacks are the images (class of attacker, class of
   attacked) of the attacks of the initial framework whose attacker is NOT in the GroundedDefeated
   class, without duplicates, in the order of first occurrence; [init_to_reduced_arg] reads the slot
   of the class index. *)
From Coq Require Import List Arith Bool Lia ZifyBool Permutation.
From Crusta Require Import Spec.AF Spec.SemFacts Model.Store Model.Graph Model.Equiv
  Proofs.EncSpec Proofs.StoreBase Proofs.StoreProofs Proofs.EquivBase Proofs.EquivProofs.
Import ListNotations.

Lemma nat_eqb_iff : forall x y : nat, Nat.eqb x y = true <-> x = y.
Proof. intros x y. apply Nat.eqb_eq. Qed.

(* ------------------------------------------------------------------ *)
(** * The label set built by [new_with_labels] from a duplicate-free list *)

Fixpoint nslots (off : nat) (l : list nat) : list (option (nat * nat)) :=
  match l with
  | [] => []
  | x :: r => Some (off, x) :: nslots (S off) r
  end.

Definition plain_ls (l : list nat) : lset nat := {| slots := nslots 0 l; n_removed := 0 |}.

Lemma nslots_app : forall a off b,
  nslots off (a ++ b) = nslots off a ++ nslots (off + length a) b.
Proof.
  induction a as [|x a IH]; intros off b; cbn [app nslots length].
  - rewrite Nat.add_0_r. reflexivity.
  - rewrite IH. do 3 f_equal. lia.
Qed.

Lemma nslots_length : forall l off, length (nslots off l) = length l.
Proof.
  induction l as [|x l IH]; intros off; cbn [nslots length]; [reflexivity|]. rewrite IH. reflexivity.
Qed.

Lemma fs_nslots : forall l off, filter_some (nslots off l) = combine (seq off (length l)) l.
Proof.
  induction l as [|x l IH]; intros off; cbn [nslots filter_some length seq combine]; [reflexivity|].
  rewrite IH. reflexivity.
Qed.

Lemma nth_nslots : forall l off k x, nth_error l k = Some x ->
  nth k (nslots off l) None = Some (off + k, x).
Proof.
  induction l as [|y l IH]; intros off k x H; [destruct k; discriminate H|].
  destruct k as [|k]; cbn [nth_error nslots nth] in *.
  - inversion H; subst. rewrite Nat.add_0_r. reflexivity.
  - rewrite (IH (S off) k x H). do 2 f_equal. lia.
Qed.

Lemma position_nslots_None : forall l off x, ~ In x l ->
  position (slot_has nat Nat.eqb x) (nslots off l) = None.
Proof.
  induction l as [|y l IH]; intros off x H; cbn [nslots position]; [reflexivity|].
  cbn [slot_has]. destruct (Nat.eqb x y) eqn:E.
  - apply Nat.eqb_eq in E. subst y. exfalso. apply H. left. reflexivity.
  - rewrite IH; [reflexivity|]. intros K. apply H. right. exact K.
Qed.

Lemma position_nslots_Some : forall l off k x, NoDup l -> nth_error l k = Some x ->
  position (slot_has nat Nat.eqb x) (nslots off l) = Some k.
Proof.
  induction l as [|y l IH]; intros off k x Hnd H; [destruct k; discriminate H|].
  inversion Hnd as [|? ? Hy Hl]; subst.
  destruct k as [|k]; cbn [nth_error nslots position slot_has] in *.
  - inversion H; subst. rewrite Nat.eqb_refl. reflexivity.
  - destruct (Nat.eqb x y) eqn:E.
    + apply Nat.eqb_eq in E. subst y. exfalso. apply Hy. apply (nth_error_In l k H).
    + rewrite (IH (S off) k x Hl H). reflexivity.
Qed.

Lemma fold_new_label_nodup : forall l pre, NoDup (pre ++ l) ->
  fold_left (new_label nat Nat.eqb) l (plain_ls pre) = plain_ls (pre ++ l).
Proof.
  induction l as [|x l IH]; intros pre Hnd; cbn [fold_left].
  - rewrite app_nil_r. reflexivity.
  - assert (Hx : ~ In x pre).
    { intros K. apply NoDup_remove_2 in Hnd. apply Hnd. apply in_or_app. left. exact K. }
    assert (E : new_label nat Nat.eqb (plain_ls pre) x = plain_ls (pre ++ [x])).
    { unfold new_label, find_label, plain_ls. cbn [slots n_removed].
      rewrite (position_nslots_None pre 0 x Hx), nslots_app, nslots_length. reflexivity. }
    rewrite E. replace (pre ++ x :: l) with ((pre ++ [x]) ++ l) by (rewrite <- app_assoc; reflexivity).
    apply IH. rewrite <- app_assoc. exact Hnd.
Qed.

Lemma init_ls_nodup : forall l, NoDup l -> ls (fw_new_with_labels nat Nat.eqb l) = plain_ls l.
Proof. intros l H. exact (fold_new_label_nodup l [] H). Qed.

Lemma new_attack_ls : forall (f : fw nat) a b, ls (fst (new_attack nat Nat.eqb f a b)) = ls f.
Proof.
  intros f a b. unfold new_attack.
  destruct (find_label nat Nat.eqb (ls f) a); [|reflexivity].
  destruct (find_label nat Nat.eqb (ls f) b); [|reflexivity].
  destruct (existsb _ _); reflexivity.
Qed.

(* ------------------------------------------------------------------ *)
(** * The representatives: first members of the classes *)

Definition is_first (c : eqclass) (a : nat) : Prop := hd_error (members c) = Some a.

Lemma firsts_spec : forall cls, (forall c, In c cls -> members c <> []) ->
  exists fs, firsts cls = Some fs /\ Forall2 is_first cls fs.
Proof.
  induction cls as [|c r IH]; intros H.
  - exists []. split; [reflexivity | constructor].
  - destruct IH as (fs & E & Hf). { intros c' Hc'. apply H. right. exact Hc'. }
    assert (Hc : members c <> []) by (apply H; left; reflexivity).
    destruct (members c) as [|a m] eqn:Em; [exfalso; apply Hc; reflexivity|].
    exists (a :: fs). split.
    + cbn [firsts]. unfold cl_first. rewrite Em, E. reflexivity.
    + constructor; [unfold is_first; rewrite Em; reflexivity | exact Hf].
Qed.

Lemma firsts_in : forall cls fs, Forall2 is_first cls fs ->
  forall r c, nth_error cls r = Some c -> exists a, nth_error fs r = Some a /\ is_first c a.
Proof.
  intros cls fs H. induction H as [|c0 a0 cls fs H0 Hr IH]; intros [|r] c Hn; cbn [nth_error] in *;
    try discriminate Hn.
  - inversion Hn; subst. exists a0. split; [reflexivity | exact H0].
  - apply IH. exact Hn.
Qed.

Lemma firsts_length : forall cls fs, Forall2 is_first cls fs -> length fs = length cls.
Proof.
  intros cls fs H. induction H as [|c a cls fs _ _ IH]; cbn [length]; [reflexivity|]. rewrite IH. reflexivity.
Qed.

Lemma is_first_In : forall c a, is_first c a -> In a (members c).
Proof.
  unfold is_first. intros c a H. destruct (members c) as [|x m]; [discriminate H|].
  inversion H; subst. left. reflexivity.
Qed.

Lemma firsts_nodup : forall cls fs, Forall2 is_first cls fs -> NoDup (flat cls) ->
  NoDup fs /\ forall a, In a fs -> In a (flat cls).
Proof.
  intros cls fs H. induction H as [|c a cls fs Hca Hrest IH]; intros Hnd.
  - split; [constructor | intros a []].
  - change (c :: cls) with ([c] ++ cls) in Hnd |- *. rewrite flat_app, flat_single in Hnd |- *.
    destruct (NoDup_app_inv _ _ Hnd) as [Hnd2 Hdis]. destruct (IH Hnd2) as [IH1 IH2]. split.
    + constructor; [|exact IH1]. intros K.
      apply (Hdis a); [apply is_first_In; exact Hca | apply IH2; exact K].
    + intros x [Hx|Hx]; apply in_or_app;
        [left; subst x; apply is_first_In; exact Hca | right; apply IH2; exact Hx].
Qed.

Lemma NoDup_map_inj_on : forall (lab : nat -> nat) n l,
  (forall a b, a < n -> b < n -> lab a = lab b -> a = b) ->
  (forall x, In x l -> x < n) -> NoDup l -> NoDup (map lab l).
Proof.
  intros lab n l Hinj. induction l as [|x l IH]; intros Hb Hnd; cbn [map]; [constructor|].
  inversion Hnd as [|? ? Hx Hl]; subst. constructor.
  - intros K. apply in_map_iff in K. destruct K as (y & E & Hy). apply Hx.
    rewrite (Hinj x y); [exact Hy | apply Hb; left; reflexivity | apply Hb; right; exact Hy
                        | symmetry; exact E].
  - apply IH; [intros y Hy; apply Hb; right; exact Hy | exact Hl].
Qed.

(* ------------------------------------------------------------------ *)
(** * The attack list of the reduced framework, as a function of the classes *)

(* one iteration of [init_af.iter_attacks().for_each(..)] at the level of the attack list of the
   reduced framework: skip when the class of the attacker is GroundedDefeated, otherwise add the
   pair (class of attacker, class of attacked) unless it is already there *)
Definition red_step (F : af) (cls : list eqclass) (acc : list (nat * nat)) (p : nat * nat)
  : list (nat * nat) :=
  let r1 := init_to_reduced F cls (fst p) in
  let r2 := init_to_reduced F cls (snd p) in
  match nth_error cls r1 with
  | Some c =>
      if is_defeated_class c then acc
      else if existsb (pair_eqb (r1, r2)) acc then acc else acc ++ [(r1, r2)]
  | None => acc
  end.

Definition reduced_atts (F : af) (cls : list eqclass) : list (nat * nat) :=
  fold_left (red_step F cls) (atts F) [].

Definition red_img (F : af) (cls : list eqclass) (p q : nat * nat) : Prop :=
  exists c, nth_error cls (init_to_reduced F cls (fst p)) = Some c /\
            is_defeated_class c = false /\
            q = (init_to_reduced F cls (fst p), init_to_reduced F cls (snd p)).

Lemma existsb_pair_In : forall q acc, existsb (pair_eqb q) acc = true <-> In q acc.
Proof.
  intros q acc. rewrite existsb_exists. split.
  - intros (x & Hx & E). apply pair_eqb_eq in E. subst x. exact Hx.
  - intros H. exists q. split; [exact H | apply pair_eqb_eq; reflexivity].
Qed.

Lemma red_step_spec : forall F cls acc p,
  (NoDup acc -> NoDup (red_step F cls acc p)) /\
  forall q, In q (red_step F cls acc p) <-> In q acc \/ red_img F cls p q.
Proof.
  intros F cls acc p. unfold red_step, red_img. cbv zeta.
  set (r1 := init_to_reduced F cls (fst p)). set (r2 := init_to_reduced F cls (snd p)).
  destruct (nth_error cls r1) as [c|] eqn:Ec.
  2:{ split; [auto|]. intros q. split; [auto|]. intros [H|(c & K & _)]; [exact H | discriminate K]. }
  destruct (is_defeated_class c) eqn:Ed.
  { split; [auto|]. intros q. split; [auto|]. intros [H|(c' & K & K2 & _)]; [exact H|].
    inversion K; subst c'. congruence. }
  destruct (existsb (pair_eqb (r1, r2)) acc) eqn:Ee.
  - apply existsb_pair_In in Ee. split; [auto|]. intros q. split; [auto|].
    intros [H|(c' & _ & _ & ->)]; [exact H | exact Ee].
  - split.
    + intros Hnd. apply NoDup_snoc; [exact Hnd|]. intros K. apply existsb_pair_In in K. congruence.
    + intros q. rewrite in_app_iff. cbn [In]. split.
      * intros [H|[H|[]]]; [left; exact H|]. right. exists c. auto.
      * intros [H|(c' & _ & _ & ->)]; [left; exact H | right; left; reflexivity].
Qed.

Lemma red_fold_spec : forall F cls l acc,
  (NoDup acc -> NoDup (fold_left (red_step F cls) l acc)) /\
  forall q, In q (fold_left (red_step F cls) l acc) <->
            In q acc \/ exists p, In p l /\ red_img F cls p q.
Proof.
  intros F cls. induction l as [|p l IH]; intros acc; cbn [fold_left].
  - split; [auto|]. intros q. split; [auto|]. intros [H|(p & [] & _)]. exact H.
  - destruct (red_step_spec F cls acc p) as [S1 S2]. destruct (IH (red_step F cls acc p)) as [I1 I2].
    split; [auto|]. intros q. rewrite I2, S2. cbn [In]. split.
    + intros [[H|H]|(p' & H1 & H2)]; [left; exact H | right; exists p; auto | right; exists p'; auto].
    + intros [H|(p' & [H1|H1] & H2)]; [left; left; exact H | subst p'; left; right; exact H2
                                       | right; exists p'; auto].
Qed.

(* ------------------------------------------------------------------ *)
(** * reduce_af on the classes of a compact framework *)

Section Reduce.
Variable lab : nat -> nat.
Variable F : af.
Variable n : nat.
Variable cls : list eqclass.
Hypothesis HF : compact_af F n.
Hypothesis Hlab : forall a b, a < n -> b < n -> lab a = lab b -> a = b.
Hypothesis Hc : compute_classes F = Done cls.

Lemma args_len : length (args F) = n.
Proof. destruct HF as [Ha _]. rewrite Ha. apply seq_length. Qed.

Lemma class_idx : forall r c a, nth_error cls r = Some c -> In a (members c) ->
  init_to_reduced F cls a = r /\ a < n.
Proof.
  intros r c a Hn Ha. destruct (compute_classes_inv F n HF cls Hc) as (Hnd & Hin & _). split.
  - unfold init_to_reduced. rewrite args_len.
    apply (init_to_reduced_ids_spec n cls Hnd) with (c := c); [|exact Hn|exact Ha].
    intros x Hx. apply Hin. exact Hx.
  - apply Hin. apply in_flat. exists c. split; [apply (nth_error_In _ _ Hn) | exact Ha].
Qed.

Lemma class_of : forall a, a < n ->
  exists c, nth_error cls (init_to_reduced F cls a) = Some c /\ In a (members c).
Proof.
  intros a Ha. destruct (compute_classes_inv F n HF cls Hc) as (_ & Hin & _).
  apply Hin in Ha. apply in_flat in Ha. destruct Ha as (c & H1 & H2).
  apply In_nth_error in H1. destruct H1 as [r Hr]. destruct (class_idx r c a Hr H2) as [E _].
  exists c. rewrite E. split; assumption.
Qed.

(* the attacks of the reduced framework, as a set *)
Lemma reduced_atts_spec :
  NoDup (reduced_atts F cls) /\
  forall r1 r2, In (r1, r2) (reduced_atts F cls) <->
    exists c1 c2 a b, nth_error cls r1 = Some c1 /\ nth_error cls r2 = Some c2 /\
      is_defeated_class c1 = false /\ In a (members c1) /\ In b (members c2) /\ att F a b.
Proof.
  unfold reduced_atts. destruct (red_fold_spec F cls (atts F) []) as [R1 R2].
  split; [apply R1; constructor|].
  intros r1 r2. rewrite R2. split.
  - intros [[]|([a b] & Hp & c & K1 & K2 & K3)]. cbn [fst snd] in *.
    destruct HF as [_ Hok]. destruct (Hok a b Hp) as [Ha Hb].
    destruct (class_of a Ha) as (c1 & C1 & M1). destruct (class_of b Hb) as (c2 & C2 & M2).
    inversion K3; subst r1 r2. rewrite C1 in K1. inversion K1; subst c.
    exists c1, c2, a, b. repeat split; assumption.
  - intros (c1 & c2 & a & b & C1 & C2 & D & M1 & M2 & Hab).
    destruct (class_idx r1 c1 a C1 M1) as [E1 _]. destruct (class_idx r2 c2 b C2 M2) as [E2 _].
    right. exists (a, b). split; [exact Hab|]. exists c1. cbn [fst snd]. rewrite E1, E2. auto.
Qed.

(* the representatives *)
Variable fs : list nat.
Hypothesis Hfirsts : firsts cls = Some fs.
Hypothesis Hfs : Forall2 is_first cls fs.

Lemma labels_nodup : NoDup (map lab fs).
Proof.
  destruct (compute_classes_inv F n HF cls Hc) as (Hnd & Hin & _).
  destruct (firsts_nodup cls fs Hfs Hnd) as [K1 K2].
  apply (NoDup_map_inj_on lab n fs Hlab); [|exact K1]. intros x Hx. apply Hin. apply K2. exact Hx.
Qed.

Lemma label_of_class : forall r c, nth_error cls r = Some c ->
  exists a, is_first c a /\ nth_error (map lab fs) r = Some (lab a) /\
            find_label nat Nat.eqb (plain_ls (map lab fs)) (lab a) = Some r.
Proof.
  intros r c Hr. destruct (firsts_in cls fs Hfs r c Hr) as (a & Ha & Hf).
  exists a. split; [exact Hf|].
  assert (E : nth_error (map lab fs) r = Some (lab a)) by (apply map_nth_error; exact Ha).
  split; [exact E|]. unfold find_label, plain_ls. cbn [slots].
  apply position_nslots_Some; [apply labels_nodup | exact E].
Qed.

(* the states of the store during the loop: reachable from the initial store by update operations
   (so that everything proved for C12 applies), label set untouched *)
Definition reach0 (f : fw nat) : Prop :=
  exists os, f = run_ops nat Nat.eqb (fw_new_with_labels nat Nat.eqb (map lab fs)) os.
Definition RI (f : fw nat) : Prop := reach0 f /\ ls f = plain_ls (map lab fs).

Lemma reach0_inv : forall f, reach0 f -> Inv nat f.
Proof.
  intros f [os ->]. apply (run_inv nat Nat.eqb nat_eqb_iff). apply (init_inv nat Nat.eqb nat_eqb_iff).
Qed.

Lemma reduce_attack_step : forall f a b, RI f -> a < n -> b < n ->
  exists f', reduce_attack lab cls (init_to_reduced_ids (length (args F)) cls) (map lab fs) f (a, b)
             = Done f' /\
    RI f' /\ iter_attacks nat f' = red_step F cls (iter_attacks nat f) (a, b).
Proof.
  intros f a b [Hreach Hls] Ha Hb.
  pose proof (reach0_inv f Hreach) as Hinv.
  unfold reduce_attack, red_step. cbv zeta. cbn [fst snd].
  change (nth_nat (init_to_reduced_ids (length (args F)) cls) a) with (init_to_reduced F cls a).
  change (nth_nat (init_to_reduced_ids (length (args F)) cls) b) with (init_to_reduced F cls b).
  destruct (class_of a Ha) as (c1 & Hc1 & _). destruct (class_of b Hb) as (c2 & Hc2 & _).
  set (r1 := init_to_reduced F cls a) in *. set (r2 := init_to_reduced F cls b) in *.
  rewrite Hc1. destruct (is_defeated_class c1).
  { exists f. split; [reflexivity|]. split; [split; assumption | reflexivity]. }
  destruct (label_of_class r1 c1 Hc1) as (a1 & _ & Hl1 & Hf1).
  destruct (label_of_class r2 c2 Hc2) as (a2 & _ & Hl2 & Hf2).
  rewrite Hl1, Hl2.
  pose proof (new_attack_ok nat Nat.eqb nat_eqb_iff f (lab a1) (lab a2) Hinv) as (_ & G2 & G3 & _).
  pose proof (new_attack_ls f (lab a1) (lab a2)) as G4.
  assert (S1 : s_find nat Nat.eqb (abs nat f) (lab a1) = Some r1).
  { rewrite <- (find_label_sfind nat Nat.eqb f (lab a1) Hinv), Hls. exact Hf1. }
  assert (S2 : s_find nat Nat.eqb (abs nat f) (lab a2) = Some r2).
  { rewrite <- (find_label_sfind nat Nat.eqb f (lab a2) Hinv), Hls. exact Hf2. }
  cbn [s_step] in G2, G3. rewrite S1, S2 in G2, G3.
  destruct (new_attack nat Nat.eqb f (lab a1) (lab a2)) as [f' res] eqn:E. cbn [fst snd] in G2, G3, G4.
  unfold s_has_att in G2, G3. change (rel (abs nat f)) with (iter_attacks nat f) in G2, G3.
  apply (f_equal (@rel nat)) in G3. change (rel (abs nat f')) with (iter_attacks nat f') in G3.
  assert (K : res = ROk /\ iter_attacks nat f' =
              if existsb (pair_eqb (r1, r2)) (iter_attacks nat f) then iter_attacks nat f
              else iter_attacks nat f ++ [(r1, r2)]).
  { destruct (existsb (pair_eqb (r1, r2)) (iter_attacks nat f)); cbn [fst snd rel] in G2, G3; auto. }
  destruct K as [Hres K]. clear G2 G3. subst res.
  exists f'. split; [reflexivity|]. split; [split|].
  - destruct Hreach as [os Hos]. exists (os ++ [OpNewAtt (lab a1) (lab a2)]).
    unfold run_ops. rewrite fold_left_app. cbn [fold_left step].
    unfold run_ops in Hos. rewrite <- Hos, E. reflexivity.
  - rewrite G4. exact Hls.
  - exact K.
Qed.

Lemma reduce_loop : forall l f, (forall p, In p l -> fst p < n /\ snd p < n) -> RI f ->
  exists f', ofold (reduce_attack lab cls (init_to_reduced_ids (length (args F)) cls) (map lab fs)) l f
             = Done f' /\
    RI f' /\ iter_attacks nat f' = fold_left (red_step F cls) l (iter_attacks nat f).
Proof.
  induction l as [|[a b] l IH]; intros f Hb HRI.
  - exists f. split; [reflexivity|]. split; [exact HRI | reflexivity].
  - destruct (Hb (a, b) (or_introl eq_refl)) as [Ha Hb']. cbn [fst snd] in Ha, Hb'.
    destruct (reduce_attack_step f a b HRI Ha Hb') as (f1 & E1 & R1 & A1).
    destruct (IH f1) as (f' & E' & R' & A'); [intros p Hp; apply Hb; right; exact Hp | exact R1 |].
    exists f'. cbn [ofold fold_left]. rewrite E1, <- A1. split; [exact E'|]. split; [exact R' | exact A'].
Qed.

Lemma reduce_af_main :
  exists f, reduce_af lab F cls = Done (f, init_to_reduced_ids (length (args F)) cls) /\
            RI f /\ iter_attacks nat f = reduced_atts F cls.
Proof.
  destruct (reduce_loop (atts F) (fw_new_with_labels nat Nat.eqb (map lab fs))) as (f & E & R & A).
  - intros [a b] Hp. destruct HF as [_ Hok]. exact (Hok a b Hp).
  - split; [exists []; reflexivity|]. apply init_ls_nodup. apply labels_nodup.
  - exists f. unfold reduce_af. rewrite Hfirsts, E. split; [reflexivity|]. split; [exact R | exact A].
Qed.

End Reduce.

(* ------------------------------------------------------------------ *)
(** * The lemmas of Properties/C19.v *)

Lemma reduce_af_all : forall lab F n cls, compact_af F n ->
  (forall a b, a < n -> b < n -> lab a = lab b -> a = b) ->
  compute_classes F = Done cls ->
  exists fs f, firsts cls = Some fs /\ Forall2 is_first cls fs /\
    reduce_af lab F cls = Done (f, init_to_reduced_ids (length (args F)) cls) /\
    (exists os, f = run_ops nat Nat.eqb (fw_new_with_labels nat Nat.eqb (map lab fs)) os) /\
    ls f = plain_ls (map lab fs) /\ iter_attacks nat f = reduced_atts F cls.
Proof.
  intros lab F n cls HF Hlab Hc.
  destruct (compute_classes_inv F n HF cls Hc) as (_ & _ & Hgood).
  destruct (firsts_spec cls) as (fs & E & Hfs). { intros c Hcin. apply (Hgood c Hcin). }
  destruct (reduce_af_main lab F n cls HF Hlab Hc fs E Hfs) as (f & R & [Hr Hls] & A).
  exists fs, f. repeat (split; [assumption|]). exact A.
Qed.

(* (1) no panic *)
Lemma reduce_total : forall lab F n cls, compact_af F n ->
  (forall a b, a < n -> b < n -> lab a = lab b -> a = b) ->
  compute_classes F = Done cls ->
  exists f, reduce_af lab F cls = Done (f, init_to_reduced_ids (length (args F)) cls).
Proof.
  intros lab F n cls HF Hlab Hc.
  destruct (reduce_af_all lab F n cls HF Hlab Hc) as (fs & f & _ & _ & R & _). exists f. exact R.
Qed.

Lemma equivalency_new_total : forall lab F n, compact_af F n ->
  (forall a b, a < n -> b < n -> lab a = lab b -> a = b) ->
  exists e, equivalency_new lab F = Done e.
Proof.
  intros lab F n HF Hlab. destruct (compute_classes_total F n HF) as [cls Hc].
  destruct (reduce_total lab F n cls HF Hlab Hc) as [f R].
  unfold equivalency_new. rewrite Hc, R. eexists. reflexivity.
Qed.

(* (2) the arguments of the reduced framework *)
Lemma reduced_args : forall lab F n cls f i2r, compact_af F n ->
  (forall a b, a < n -> b < n -> lab a = lab b -> a = b) ->
  compute_classes F = Done cls -> reduce_af lab F cls = Done (f, i2r) ->
  exists fs, Forall2 (fun c a => hd_error (members c) = Some a) cls fs /\
    iter_args nat f = combine (seq 0 (length cls)) (map lab fs) /\
    n_arguments nat f = length cls /\
    exists os, f = run_ops nat Nat.eqb (fw_new_with_labels nat Nat.eqb (map lab fs)) os.
Proof.
  intros lab F n cls f i2r HF Hlab Hc Hr.
  destruct (reduce_af_all lab F n cls HF Hlab Hc) as (fs & f' & _ & Hfs & R & Hreach & Hls & _).
  rewrite R in Hr. inversion Hr; subst f' i2r. clear Hr.
  assert (Hlen : length (map lab fs) = length cls).
  { rewrite map_length. apply (firsts_length cls fs Hfs). }
  exists fs. split; [exact Hfs|]. split; [|split; [|exact Hreach]].
  - unfold iter_args, ls_iter. rewrite Hls. cbn [plain_ls slots]. rewrite fs_nslots, Hlen. reflexivity.
  - unfold n_arguments, ls_len. rewrite Hls. cbn [plain_ls slots n_removed].
    rewrite nslots_length, Hlen. lia.
Qed.

(* (3) the attacks of the reduced framework: exact list, and as a set *)
Lemma reduced_attacks_exact : forall lab F n cls f i2r, compact_af F n ->
  (forall a b, a < n -> b < n -> lab a = lab b -> a = b) ->
  compute_classes F = Done cls -> reduce_af lab F cls = Done (f, i2r) ->
  iter_attacks nat f = reduced_atts F cls.
Proof.
  intros lab F n cls f i2r HF Hlab Hc Hr.
  destruct (reduce_af_all lab F n cls HF Hlab Hc) as (fs & f' & _ & _ & R & _ & _ & A).
  rewrite R in Hr. inversion Hr; subst f' i2r. exact A.
Qed.

Lemma reduced_attacks : forall lab F n cls f i2r, compact_af F n ->
  (forall a b, a < n -> b < n -> lab a = lab b -> a = b) ->
  compute_classes F = Done cls -> reduce_af lab F cls = Done (f, i2r) ->
  NoDup (iter_attacks nat f) /\
  forall r1 r2, In (r1, r2) (iter_attacks nat f) <->
    exists c1 c2 a b, nth_error cls r1 = Some c1 /\ nth_error cls r2 = Some c2 /\
      is_defeated_class c1 = false /\ In a (members c1) /\ In b (members c2) /\ att F a b.
Proof.
  intros lab F n cls f i2r HF Hlab Hc Hr.
  rewrite (reduced_attacks_exact lab F n cls f i2r HF Hlab Hc Hr).
  apply (reduced_atts_spec F n cls HF Hc).
Qed.

(* (4) init_to_reduced_arg *)
Lemma init_to_reduced_arg_spec : forall lab F n e, compact_af F n ->
  (forall a b, a < n -> b < n -> lab a = lab b -> a = b) ->
  equivalency_new lab F = Done e ->
  forall a, a < n ->
    exists c a0, nth_error (e_classes e) (init_to_reduced F (e_classes e) a) = Some c /\
      In a (members c) /\ hd_error (members c) = Some a0 /\
      init_to_reduced_arg F e a = Some (init_to_reduced F (e_classes e) a, lab a0).
Proof.
  intros lab F n e HF Hlab He a Ha.
  unfold equivalency_new in He. destruct (compute_classes F) as [cls| |] eqn:Hc; try discriminate He.
  destruct (reduce_af_all lab F n cls HF Hlab Hc) as (fs & f & _ & Hfs & R & _ & Hls & _).
  rewrite R in He. inversion He; subst e. clear He. cbn [e_classes].
  destruct (class_of F n cls HF Hc a Ha) as (c & C1 & M1).
  destruct (firsts_in cls fs Hfs _ c C1) as (a0 & N0 & F0).
  exists c, a0. split; [exact C1|]. split; [exact M1|]. split; [exact F0|].
  unfold init_to_reduced_arg. cbn [e_i2r e_reduced].
  rewrite (args_len F n HF). replace (Nat.ltb a n) with true by (symmetry; apply Nat.ltb_lt; exact Ha).
  assert (Ei : nth_nat (init_to_reduced_ids n cls) a = init_to_reduced F cls a).
  { unfold init_to_reduced. rewrite (args_len F n HF). reflexivity. }
  rewrite Ei, Hls. cbn [plain_ls slots].
  rewrite (nth_nslots (map lab fs) 0 _ (lab a0)) by (apply map_nth_error; exact N0).
  reflexivity.
Qed.
