(* The polynomial CNF oracle of the check of C10 (checks/C10.py: _propagate, cnf_poly_verdict) is sound:
   P1  unit propagation from a partial assignment: a conflict refutes every total extension, a
       model verdict exhibits one (for CNFs and assignments of any size, any fuel);
   P2  on the clauses of every encoder of Model.Encoders, from the assignment induced by an
       argument set: an intended set never gives Conflict, a set that is not intended never gives
       Model; the three families of sets the oracle tries.
   Definitions: Proofs/PolyCnfDefs.v.  Statements: Properties/C10poly.v. *)
From Coq Require Import List Arith ZArith Bool Lia.
From Crusta Require Import Spec.AF Spec.SemFacts Spec.Theory Sat.Cnf Model.Encoders.
From Crusta Require Import Proofs.EncSpec Proofs.EncAll Proofs.PolyOracleDefs Proofs.PolyOracle.
From Crusta Require Import Proofs.PolyCnfDefs.
Import ListNotations.

(* ------------------------------------------------------------------ *)
(** * P1: unit propagation *)

Lemma vtrue_sign : forall m l, vtrue m l = Bool.eqb (m (lit_var l)) (lit_sign l).
Proof. intros m l. unfold vtrue, lit_sign. destruct (Z.ltb 0 l), (m (lit_var l)); reflexivity. Qed.

Lemma pa_lit_true_ext : forall m a l, pa_ext m a -> pa_lit_true a l = true -> vtrue m l = true.
Proof.
  intros m a l He H. unfold pa_lit_true in H.
  destruct (pa_get a (lit_var l)) as [b|] eqn:E; [|discriminate].
  rewrite vtrue_sign. rewrite (He _ _ E). exact H.
Qed.

Lemma pa_sat_ext : forall m a c, pa_ext m a -> pa_sat a c = true -> vsat_clause m c = true.
Proof.
  intros m a c He H. unfold pa_sat, vsat_clause in *. apply existsb_exists in H.
  destruct H as [l [Hl Ht]]. apply existsb_exists. exists l. split; [exact Hl|].
  exact (pa_lit_true_ext m a l He Ht).
Qed.

(* in a clause that the partial assignment does not satisfy, a literal true in a total extension is free *)
Lemma true_lit_free : forall m a c l, pa_ext m a -> pa_sat a c = false -> In l c ->
  vtrue m l = true -> In l (pa_free a c).
Proof.
  intros m a c l He Hs Hl Ht. unfold pa_free. apply filter_In. split; [exact Hl|].
  unfold pa_lit_free. destruct (pa_get a (lit_var l)) as [b|] eqn:E; [|reflexivity].
  exfalso.
  assert (H1 : pa_lit_true a l = true).
  { unfold pa_lit_true. rewrite E. rewrite vtrue_sign in Ht. rewrite (He _ _ E) in Ht. exact Ht. }
  assert (H2 : pa_sat a c = true).
  { apply existsb_exists. exists l. split; assumption. }
  rewrite H2 in Hs. discriminate.
Qed.

Lemma pa_ext_cons : forall m a v b, pa_ext m a -> m v = b -> pa_ext m ((v, b) :: a).
Proof.
  intros m a v b He Hm w c H. cbn [pa_get] in H. destruct (Nat.eqb v w) eqn:E.
  - apply Nat.eqb_eq in E. subst w. injection H as H. subst c. exact Hm.
  - apply He. exact H.
Qed.

Lemma pa_free_single : forall a c l, pa_free a c = [l] -> In l c /\ pa_get a (lit_var l) = None.
Proof.
  intros a c l E. assert (H : In l (pa_free a c)) by (rewrite E; left; reflexivity).
  unfold pa_free in H. apply filter_In in H. destruct H as [Hl Hf]. split; [exact Hl|].
  unfold pa_lit_free in Hf. destruct (pa_get a (lit_var l)); [discriminate|reflexivity].
Qed.

(* a sweep over clauses that a total extension m satisfies meets no conflict and stays below m *)
Lemma up_sweep_ext : forall m cls a ch, vmodels m cls = true -> pa_ext m a ->
  exists a' ch', up_sweep cls a ch = Some (a', ch') /\ pa_ext m a'.
Proof.
  intros m cls. induction cls as [|c r IH]; intros a ch Hm He.
  - exists a, ch. split; [reflexivity|exact He].
  - unfold vmodels in Hm. cbn [forallb] in Hm. apply andb_true_iff in Hm. destruct Hm as [Hc Hr].
    cbn [up_sweep]. destruct (pa_sat a c) eqn:Hs; [apply IH; assumption|].
    unfold vsat_clause in Hc. apply existsb_exists in Hc. destruct Hc as [l [Hl Ht]].
    pose proof (true_lit_free m a c l He Hs Hl Ht) as Hf.
    destruct (pa_free a c) as [|l0 [|l1 t]] eqn:Ef.
    + destruct Hf.
    + destruct Hf as [Hf|[]]. subst l0. apply IH; [exact Hr|]. apply pa_ext_cons; [exact He|].
      rewrite vtrue_sign in Ht. apply eqb_prop in Ht. exact Ht.
    + apply IH; assumption.
Qed.

Lemma up_loop_ext : forall k m cls a, vmodels m cls = true -> pa_ext m a ->
  exists a' s, up_loop k cls a = Some (a', s) /\ pa_ext m a'.
Proof.
  induction k as [|k IH]; intros m cls a Hm He.
  - exists a, false. split; [reflexivity|exact He].
  - cbn [up_loop]. destruct (up_sweep_ext m cls a false Hm He) as [a1 [ch [E H1]]]. rewrite E.
    destruct ch.
    + apply IH; assumption.
    + exists a1, true. split; [reflexivity|exact H1].
Qed.

(* what the loop reaches is implied: every total model of the clauses above a is above it *)
Lemma up_loop_implied : forall k cls a a' s, up_loop k cls a = Some (a', s) ->
  forall m, pa_ext m a -> vmodels m cls = true -> pa_ext m a'.
Proof.
  intros k cls a a' s E m He Hm. destruct (up_loop_ext k m cls a Hm He) as [a2 [s2 [E2 H2]]].
  rewrite E in E2. injection E2 as E2 _. subst a2. exact H2.
Qed.

Theorem up_conflict_sound_fuel : forall k cls a, up_run_fuel k cls a = UpConflict ->
  forall m, pa_ext m a -> vmodels m cls = false.
Proof.
  intros k cls a H m He. destruct (vmodels m cls) eqn:Hm; [|reflexivity]. exfalso.
  destruct (up_loop_ext k m cls a Hm He) as [a' [s [E _]]]. unfold up_run_fuel in H. rewrite E in H.
  destruct (forallb (pa_sat a') cls); discriminate.
Qed.

(* --- the model side: bindings are never lost or overwritten --- *)
Lemma pa_le_refl : forall a, pa_le a a.
Proof. intros a v b H. exact H. Qed.
Lemma pa_le_trans : forall a b c, pa_le a b -> pa_le b c -> pa_le a c.
Proof. intros a b c H1 H2 v x H. apply H2. apply H1. exact H. Qed.
Lemma pa_le_cons : forall a v b, pa_get a v = None -> pa_le a ((v, b) :: a).
Proof.
  intros a v b Hn w c H. cbn [pa_get]. destruct (Nat.eqb v w) eqn:E; [|exact H].
  apply Nat.eqb_eq in E. subst w. rewrite Hn in H. discriminate.
Qed.

Lemma up_sweep_le : forall cls a ch a' ch', up_sweep cls a ch = Some (a', ch') -> pa_le a a'.
Proof.
  induction cls as [|c r IH]; intros a ch a' ch' H.
  - cbn [up_sweep] in H. injection H as H _. subst a'. apply pa_le_refl.
  - cbn [up_sweep] in H. destruct (pa_sat a c); [exact (IH _ _ _ _ H)|].
    destruct (pa_free a c) as [|l0 [|l1 t]] eqn:Ef.
    + discriminate.
    + apply pa_free_single in Ef. destruct Ef as [_ Hn].
      apply (pa_le_trans _ ((lit_var l0, lit_sign l0) :: a)); [apply pa_le_cons; exact Hn|].
      exact (IH _ _ _ _ H).
    + exact (IH _ _ _ _ H).
Qed.

Lemma up_loop_le : forall k cls a a' s, up_loop k cls a = Some (a', s) -> pa_le a a'.
Proof.
  induction k as [|k IH]; intros cls a a' s H.
  - cbn [up_loop] in H. injection H as H _. subst a'. apply pa_le_refl.
  - cbn [up_loop] in H. destruct (up_sweep cls a false) as [[a1 ch]|] eqn:E; [|discriminate].
    apply up_sweep_le in E. destruct ch.
    + exact (pa_le_trans _ _ _ E (IH _ _ _ _ H)).
    + injection H as H _. subst a'. exact E.
Qed.

Lemma pa_ext_le : forall m a a', pa_le a a' -> pa_ext m a' -> pa_ext m a.
Proof. intros m a a' Hl He v b H. apply He. apply Hl. exact H. Qed.

(* the total valuation read off a partial assignment: unbound variables are false *)
Definition pa_val (a : passign) : val := fun v => match pa_get a v with Some b => b | None => false end.
Lemma pa_val_ext : forall a, pa_ext (pa_val a) a.
Proof. intros a v b H. unfold pa_val. rewrite H. reflexivity. Qed.

Lemma pa_all_sat_models : forall m a cls, pa_ext m a -> forallb (pa_sat a) cls = true -> vmodels m cls = true.
Proof.
  intros m a cls He H. unfold vmodels. apply forallb_forall. intros c Hc.
  apply (pa_sat_ext m a c He). exact (proj1 (forallb_forall _ _) H c Hc).
Qed.

(* Model: the propagated assignment a' keeps a, is implied by a and the clauses, and EVERY total
   valuation above it is a model *)
Theorem up_model_sound_strong : forall k cls a, up_run_fuel k cls a = UpModel ->
  exists a', pa_le a a' /\
    (forall m, pa_ext m a' -> vmodels m cls = true) /\
    (forall m, pa_ext m a -> vmodels m cls = true -> pa_ext m a').
Proof.
  intros k cls a H. unfold up_run_fuel in H.
  destruct (up_loop k cls a) as [[a' s]|] eqn:E; [|discriminate].
  destruct (forallb (pa_sat a') cls) eqn:Hs; [|discriminate].
  exists a'. split; [exact (up_loop_le _ _ _ _ _ E)|]. split.
  - intros m He. exact (pa_all_sat_models m a' cls He Hs).
  - exact (up_loop_implied _ _ _ _ _ E).
Qed.

Theorem up_model_sound_fuel : forall k cls a, up_run_fuel k cls a = UpModel ->
  exists m : val, pa_ext m a /\ vmodels m cls = true.
Proof.
  intros k cls a H. destruct (up_model_sound_strong k cls a H) as [a' [Hl [Hm _]]].
  exists (pa_val a'). split.
  - exact (pa_ext_le _ _ _ Hl (pa_val_ext a')).
  - apply Hm. apply pa_val_ext.
Qed.

Theorem up_conflict_sound : forall cls a, up_run cls a = UpConflict ->
  forall m, pa_ext m a -> vmodels m cls = false.
Proof. intros cls a. apply up_conflict_sound_fuel. Qed.
Theorem up_model_sound : forall cls a, up_run cls a = UpModel ->
  exists m : val, pa_ext m a /\ vmodels m cls = true.
Proof. intros cls a. apply up_model_sound_fuel. Qed.

Theorem poly_propagation_sound : forall cls a,
  (forall k, up_run_fuel k cls a = UpConflict -> forall m : val, pa_ext m a -> vmodels m cls = false) /\
  (forall k, up_run_fuel k cls a = UpModel -> exists m : val, pa_ext m a /\ vmodels m cls = true) /\
  (up_run cls a = UpConflict -> forall m : val, pa_ext m a -> vmodels m cls = false) /\
  (up_run cls a = UpModel -> exists m : val, pa_ext m a /\ vmodels m cls = true).
Proof.
  intros cls a. split; [intros k; apply up_conflict_sound_fuel|].
  split; [intros k; apply up_model_sound_fuel|].
  split; [apply up_conflict_sound|apply up_model_sound].
Qed.

(* ------------------------------------------------------------------ *)
(** * P2: the induced assignment on the clauses of the encoders *)

Lemma pa_get_In : forall a v b, pa_get a v = Some b -> In (v, b) a.
Proof.
  induction a as [|[w c] r IH]; intros v b H; [discriminate|].
  cbn [pa_get] in H. destruct (Nat.eqb w v) eqn:E.
  - apply Nat.eqb_eq in E. subst w. injection H as H. subst c. left. reflexivity.
  - right. apply IH. exact H.
Qed.

(* a valuation that gives the argument variables the membership in S (and the range variables the
   range of S) extends the induced assignment *)
Lemma induced_ext_intro : forall e n range F S (m : val),
  (forall a, a < n -> m (arg_var e a) = memb a S) ->
  (range = true -> forall i, i < n -> m (range_var e n i) = in_rangeb F S i) ->
  pa_ext m (induced e n range F S).
Proof.
  intros e n range F S m Ha Hr v b H. apply pa_get_In in H. unfold induced in H.
  apply in_app_or in H. destruct H as [H|H].
  - unfold induced_args in H. apply in_map_iff in H. destruct H as [i [E Hi]].
    injection E as E1 E2. subst v b. apply in_seq in Hi. apply Ha. lia.
  - destruct range; [|destruct H]. unfold induced_range in H. apply in_map_iff in H.
    destruct H as [i [E Hi]]. injection E as E1 E2. subst v b. apply in_seq in Hi.
    apply Hr; [reflexivity|lia].
Qed.

Lemma pa_get_app_l : forall a a' v b, pa_get a v = Some b -> pa_get (a ++ a') v = Some b.
Proof.
  induction a as [|[w c] r IH]; intros a' v b H; [discriminate|].
  cbn [pa_get app] in *. destruct (Nat.eqb w v); [exact H|apply IH; exact H].
Qed.

Lemma pa_get_map_inj : forall (f : nat -> nat) (g : nat -> bool) l a,
  (forall x y, f x = f y -> x = y) -> In a l ->
  pa_get (map (fun i => (f i, g i)) l) (f a) = Some (g a).
Proof.
  intros f g l a Hinj. induction l as [|x r IH]; intros Hin; [destruct Hin|].
  cbn [map pa_get]. destruct (Nat.eqb (f x) (f a)) eqn:E.
  - apply Nat.eqb_eq in E. apply Hinj in E. subst x. reflexivity.
  - destruct Hin as [Hx|Hx]; [subst x; rewrite Nat.eqb_refl in E; discriminate|exact (IH Hx)].
Qed.

Lemma arg_var_inj : forall e a b, arg_var e a = arg_var e b -> a = b.
Proof. intros e a b H. destruct e; unfold arg_var, aux_var, exp_var in H; lia. Qed.

Lemma induced_get_arg : forall e n range F S a, a < n ->
  pa_get (induced e n range F S) (arg_var e a) = Some (memb a S).
Proof.
  intros e n range F S a Ha. unfold induced. apply pa_get_app_l. unfold induced_args.
  apply (pa_get_map_inj (arg_var e) (fun i => memb i S)); [apply arg_var_inj|].
  apply in_seq. lia.
Qed.

(* the set a valuation above the induced assignment denotes is S (cut to the arguments) *)
Lemma induced_ext_of : forall e n range F S (m : val), pa_ext m (induced e n range F S) ->
  forall a, In a (ext_of e n m) <-> a < n /\ In a S.
Proof.
  intros e n range F S m He a. unfold ext_of. rewrite filter_In, in_seq. split.
  - intros [Hn Hm]. assert (Ha : a < n) by lia. split; [exact Ha|].
    rewrite (He _ _ (induced_get_arg e n range F S a Ha)) in Hm. apply memb_In. exact Hm.
  - intros [Ha Hs]. split; [lia|]. rewrite (He _ _ (induced_get_arg e n range F S a Ha)).
    apply memb_In. exact Hs.
Qed.

Lemma iff_bool_eq : forall (b c : bool), (b = true <-> c = true) -> b = c.
Proof. intros b c H. destruct b, c; try reflexivity; destruct H as [H1 H2]; [symmetry; apply H1|apply H2]; reflexivity. Qed.

(* an intended set is never refuted *)
Theorem poly_intended_not_conflict : forall e thr range F n C S k,
  1 <= thr -> compact_af F n -> enc_clauses e thr range F = Some C ->
  basep (enc_base e) F S ->
  up_run_fuel k C (induced e n range F S) <> UpConflict.
Proof.
  intros e thr range F n C S k Ht HF HC HS Hrun.
  assert (Hex : exists m : val, vmodels m C = true /\ pa_ext m (induced e n range F S)).
  { destruct range.
    - destruct (all_range_complete e thr F n Ht HF C S HC HS) as [m [Hm [Ha Hr]]].
      exists m. split; [exact Hm|]. apply induced_ext_intro.
      + intros a Hn. apply iff_bool_eq. rewrite (Ha a Hn). symmetry. apply memb_In.
      + intros _ i Hi. apply iff_bool_eq. rewrite (Hr i Hi). symmetry. apply in_rangeb_spec.
    - destruct (all_complete e thr F n Ht HF C S HC HS) as [m [Hm Ha]].
      exists m. split; [exact Hm|]. apply induced_ext_intro.
      + intros a Hn. apply iff_bool_eq. rewrite (Ha a Hn). symmetry. apply memb_In.
      + intros Hf. discriminate. }
  destruct Hex as [m [Hm He]].
  rewrite (up_conflict_sound_fuel k C _ Hrun m He) in Hm. discriminate.
Qed.

(* a model verdict is right: the set is intended *)
Theorem poly_model_intended : forall e thr range F n C S k,
  1 <= thr -> compact_af F n -> enc_clauses e thr range F = Some C ->
  incl S (args F) ->
  up_run_fuel k C (induced e n range F S) = UpModel ->
  basep (enc_base e) F S.
Proof.
  intros e thr range F n C S k Ht HF HC Hi Hrun.
  destruct (up_model_sound_fuel k C _ Hrun) as [m [He Hm]].
  assert (Hb : basep (enc_base e) F (ext_of e n m)).
  { destruct range.
    - exact (proj1 (all_range_sound e thr F n Ht HF C m HC Hm)).
    - exact (all_sound e thr F n Ht HF C m HC Hm). }
  apply (basep_seteq (enc_base e) F (ext_of e n m) S); [|exact Hb].
  intros a. rewrite (induced_ext_of e n range F S m He a). split; [tauto|].
  intros Ha. split; [|exact Ha]. destruct HF as [HA _]. apply Hi in Ha. rewrite HA in Ha.
  apply in_seq in Ha. lia.
Qed.

Theorem poly_unintended_not_model : forall e thr range F n C S k,
  1 <= thr -> compact_af F n -> enc_clauses e thr range F = Some C ->
  incl S (args F) ->
  ~ basep (enc_base e) F S ->
  up_run_fuel k C (induced e n range F S) <> UpModel.
Proof.
  intros e thr range F n C S k Ht HF HC Hi Hn Hrun. apply Hn.
  exact (poly_model_intended e thr range F n C S k Ht HF HC Hi Hrun).
Qed.

(* ------------------------------------------------------------------ *)
(** * The sets the oracle tries: G, G plus a defeated argument, the empty set *)

Lemma compact_af_wf : forall F n, compact_af F n -> wf F.
Proof.
  intros [A T] n [HA HT]. cbn [args atts] in *. subst A. exact (wf_compact n T HT).
Qed.

Lemma basep_cfs : forall b F S, basep b F S -> cfs F S.
Proof.
  intros b F S H. destruct b; cbn [basep] in H.
  - exact H.
  - destruct H as [Hi [Hc _]]. split; assumption.
  - destruct H as [[Hi [Hc _]] _]. split; assumption.
  - destruct H as [Hi [Hc _]]. split; assumption.
Qed.

Lemma basep_lfp : forall b F, b <> BSt -> basep b F (lfp F).
Proof.
  intros b F Hb. destruct b; cbn [basep].
  - destruct (lfp_adm F) as [Hi [Hc _]]. split; assumption.
  - apply lfp_adm.
  - apply lfp_co.
  - exfalso. apply Hb. reflexivity.
Qed.

Lemma basep_lfp_stable : forall b F, g_stableb F = true -> basep b F (lfp F).
Proof.
  intros b F H. destruct b; try (apply basep_lfp; discriminate).
  cbn [basep]. apply g_stableb_spec. exact H.
Qed.

Theorem poly_oracle_sets : forall e thr range F n C k,
  1 <= thr -> compact_af F n -> enc_clauses e thr range F = Some C ->
  (enc_base e <> BSt \/ g_stableb F = true ->
     up_run_fuel k C (induced e n range F (lfp F)) <> UpConflict) /\
  (enc_base e = BSt -> g_stableb F = false ->
     up_run_fuel k C (induced e n range F (lfp F)) <> UpModel) /\
  (forall x b, In b (lfp F) -> att F b x ->
     up_run_fuel k C (induced e n range F (x :: lfp F)) <> UpModel) /\
  (enc_base e = BCo ->
     (lfp F <> [] -> up_run_fuel k C (induced e n range F []) <> UpModel) /\
     ((exists a, In a (args F) /\ forall b, ~ att F b a) ->
        up_run_fuel k C (induced e n range F []) <> UpModel) /\
     (lfp F = [] -> up_run_fuel k C (induced e n range F []) <> UpConflict)).
Proof.
  intros e thr range F n C k Ht HF HC.
  pose proof (compact_af_wf F n HF) as Hwf.
  split; [|split; [|split]].
  - intros H. apply (poly_intended_not_conflict e thr range F n C (lfp F) k Ht HF HC).
    destruct H as [H|H]; [exact (basep_lfp _ F H)|exact (basep_lfp_stable _ F H)].
  - intros Hb Hg Hrun.
    pose proof (poly_model_intended e thr range F n C (lfp F) k Ht HF HC (lfp_incl_args F) Hrun) as Hs.
    rewrite Hb in Hs. cbn [basep] in Hs. apply g_stableb_spec in Hs. rewrite Hs in Hg. discriminate.
  - intros x b Hb Hatt Hrun.
    assert (Hi : incl (x :: lfp F) (args F)).
    { intros a [Ha|Ha]; [subst a; exact (proj2 (proj2 Hwf b x Hatt))|exact (lfp_incl_args F a Ha)]. }
    pose proof (poly_model_intended e thr range F n C _ k Ht HF HC Hi Hrun) as Hs.
    apply basep_cfs in Hs. destruct Hs as [_ Hcf].
    apply (Hcf b x); [right; exact Hb|left; reflexivity|exact Hatt].
  - intros Hb. split; [|split].
    + intros Hne Hrun.
      pose proof (poly_model_intended e thr range F n C [] k Ht HF HC (incl_nil_l _) Hrun) as Hs.
      rewrite Hb in Hs. cbn [basep] in Hs. apply lfp_least_co in Hs.
      destruct (lfp F) as [|a r]; [apply Hne; reflexivity|]. exact (Hs a (or_introl eq_refl)).
    + intros [a [Ha Hun]] Hrun.
      pose proof (poly_model_intended e thr range F n C [] k Ht HF HC (incl_nil_l _) Hrun) as Hs.
      rewrite Hb in Hs. cbn [basep] in Hs. destruct Hs as [_ Hc].
      apply (Hc a Ha). intros b Hba. exfalso. exact (Hun b Hba).
    + intros He. apply (poly_intended_not_conflict e thr range F n C [] k Ht HF HC).
      rewrite Hb. cbn [basep]. pose proof (lfp_co F) as Hco. rewrite He in Hco. exact Hco.
Qed.

(* ------------------------------------------------------------------ *)
(** * The fuel is enough: the loop ends as the python `while changed` loop does *)

Definition unb (a : passign) (v : nat) : bool := match pa_get a v with None => true | Some _ => false end.
(* number of literal occurrences whose variable has no binding *)
Definition mu (L : list nat) (a : passign) : nat := length (filter (unb a) L).

Lemma mu_le : forall L a a', pa_le a a' -> mu L a' <= mu L a.
Proof.
  intros L a a' Hl. unfold mu. apply filter_length_le. intros x _ Hx. unfold unb in *.
  destruct (pa_get a x) as [b|] eqn:E; [|reflexivity]. rewrite (Hl _ _ E) in Hx. discriminate.
Qed.

Lemma mu_cons_lt : forall L a v b, In v L -> pa_get a v = None -> mu L ((v, b) :: a) < mu L a.
Proof.
  intros L a v b Hin Hn. pose proof (mu_le L a _ (pa_le_cons a v b Hn)) as Hle.
  destruct (Nat.eq_dec (mu L ((v, b) :: a)) (mu L a)) as [E|E]; [|lia]. exfalso.
  unfold mu in E.
  assert (Hp : forall x, In x L -> unb ((v, b) :: a) x = true -> unb a x = true).
  { intros x _ Hx. unfold unb in *. destruct (pa_get a x) as [c|] eqn:Ex; [|reflexivity].
    rewrite (pa_le_cons a v b Hn _ _ Ex) in Hx. discriminate. }
  assert (Hv : unb a v = true) by (unfold unb; rewrite Hn; reflexivity).
  pose proof (filter_length_eq _ _ L Hp E v Hin Hv) as H.
  unfold unb in H. cbn [pa_get] in H. rewrite Nat.eqb_refl in H. discriminate.
Qed.

Definition lits_in (L : list nat) (cls : cnf) : Prop := forall c l, In c cls -> In l c -> In (lit_var l) L.

Lemma lits_in_concat : forall cls, lits_in (map lit_var (concat cls)) cls.
Proof.
  intros cls c l Hc Hl. apply in_map. apply in_concat. exists c. split; assumption.
Qed.

(* a sweep that reports a change has bound a variable of L that had no binding *)
Lemma up_sweep_changed_lt : forall L r a ch a', lits_in L r ->
  up_sweep r a ch = Some (a', true) -> ch = true \/ mu L a' < mu L a.
Proof.
  intros L r. induction r as [|c r IH]; intros a ch a' HL H.
  - cbn [up_sweep] in H. injection H as _ H. left. exact H.
  - assert (HLr : lits_in L r). { intros c0 l Hc0 Hl. apply (HL c0 l); [right; exact Hc0|exact Hl]. }
    cbn [up_sweep] in H. destruct (pa_sat a c); [exact (IH _ _ _ HLr H)|].
    destruct (pa_free a c) as [|l0 [|l1 t]] eqn:Ef.
    + discriminate.
    + right. apply pa_free_single in Ef. destruct Ef as [Hl0 Hn].
      pose proof (mu_le L _ _ (up_sweep_le _ _ _ _ _ H)) as H1.
      pose proof (mu_cons_lt L a (lit_var l0) (lit_sign l0) (HL c l0 (or_introl eq_refl) Hl0) Hn) as H2.
      lia.
    + exact (IH _ _ _ HLr H).
Qed.

Lemma up_loop_ends : forall L k cls a, lits_in L cls -> mu L a < k ->
  up_loop k cls a = None \/ exists a', up_loop k cls a = Some (a', true).
Proof.
  intros L. induction k as [|k IH]; intros cls a HL Hk; [lia|].
  cbn [up_loop]. destruct (up_sweep cls a false) as [[a1 ch]|] eqn:E; [|left; reflexivity].
  destruct ch.
  - apply (IH cls a1 HL). destruct (up_sweep_changed_lt L cls a false a1 HL E) as [H|H]; [discriminate|lia].
  - right. exists a1. reflexivity.
Qed.

Lemma up_sweep_flag : forall r a a' ch', up_sweep r a true = Some (a', ch') -> ch' = true.
Proof.
  induction r as [|c r IH]; intros a a' ch' H; cbn [up_sweep] in H.
  - injection H as _ H. symmetry. exact H.
  - destruct (pa_sat a c); [exact (IH _ _ _ H)|].
    destruct (pa_free a c) as [|l0 [|l1 t]]; [discriminate|exact (IH _ _ _ H)|exact (IH _ _ _ H)].
Qed.

Lemma up_sweep_unchanged : forall r a a', up_sweep r a false = Some (a', false) -> a' = a.
Proof.
  induction r as [|c r IH]; intros a a' H; cbn [up_sweep] in H.
  - injection H as H. symmetry. exact H.
  - destruct (pa_sat a c); [exact (IH _ _ H)|].
    destruct (pa_free a c) as [|l0 [|l1 t]]; [discriminate| |exact (IH _ _ H)].
    apply up_sweep_flag in H. discriminate.
Qed.

(* the flag of the loop: the last sweep left the assignment unchanged *)
Lemma up_loop_fixpoint : forall k cls a a', up_loop k cls a = Some (a', true) ->
  up_sweep cls a' false = Some (a', false).
Proof.
  induction k as [|k IH]; intros cls a a' H; cbn [up_loop] in H; [discriminate|].
  destruct (up_sweep cls a false) as [[a1 ch]|] eqn:E; [|discriminate]. destruct ch.
  - exact (IH _ _ _ H).
  - injection H as H. subst a'. pose proof (up_sweep_unchanged _ _ _ E) as H1. subst a1. exact E.
Qed.

Lemma up_loop_mono : forall k j cls a, k <= j ->
  (up_loop k cls a = None -> up_loop j cls a = None) /\
  (forall a', up_loop k cls a = Some (a', true) -> up_loop j cls a = Some (a', true)).
Proof.
  induction k as [|k IH]; intros j cls a Hle.
  - cbn [up_loop]. split; [discriminate|]. intros a' H. discriminate.
  - destruct j as [|j]; [lia|]. cbn [up_loop].
    destruct (up_sweep cls a false) as [[a1 [|]]|].
    + apply IH. lia.
    + split; [discriminate|]. intros a' H. exact H.
    + split; [reflexivity|]. intros a' H. discriminate.
Qed.

Lemma filter_all_true : forall (l : list nat), filter (fun _ : nat => true) l = l.
Proof. induction l as [|x r IH]; [reflexivity|]. cbn [filter]. rewrite IH. reflexivity. Qed.

Theorem up_fuel_enough : forall cls a,
  (up_loop (up_fuel cls) cls a = None \/
   exists a', up_loop (up_fuel cls) cls a = Some (a', true) /\ up_sweep cls a' false = Some (a', false)) /\
  (forall k, up_fuel cls <= k -> up_loop k cls a = up_loop (up_fuel cls) cls a /\
                                 up_run_fuel k cls a = up_run cls a).
Proof.
  intros cls a.
  assert (H : up_loop (up_fuel cls) cls a = None \/ exists a', up_loop (up_fuel cls) cls a = Some (a', true)).
  { apply (up_loop_ends (map lit_var (concat cls))); [apply lits_in_concat|].
    unfold up_fuel, mu. pose proof (filter_length_le (unb a) (fun _ => true) (map lit_var (concat cls))
      (fun _ _ _ => eq_refl)) as Hl.
    rewrite filter_all_true, map_length in Hl. lia. }
  split.
  - destruct H as [H|[a' H]]; [left; exact H|]. right. exists a'. split; [exact H|].
    exact (up_loop_fixpoint _ _ _ _ H).
  - intros k Hk. destruct (up_loop_mono (up_fuel cls) k cls a Hk) as [M1 M2].
    assert (E : up_loop k cls a = up_loop (up_fuel cls) cls a).
    { destruct H as [H|[a' H]]; [rewrite H; exact (M1 H)|rewrite H; exact (M2 a' H)]. }
    split; [exact E|]. unfold up_run, up_run_fuel. rewrite E. reflexivity.
Qed.

(* ------------------------------------------------------------------ *)
(** * The statements of Properties/C10poly.v (the intended family spelled out per encoder) *)

Definition intended_of (e : enc) : af -> list nat -> Prop :=
  match e with
  | AuxCf | ExpCf => cfs | AuxAdm => adm | AuxCo | ExpCo | HybCo => co | StDefault => st
  end.

Lemma intended_of_basep : forall e, intended_of e = basep (enc_base e).
Proof. intros e. destruct e; reflexivity. Qed.

Theorem poly_intended_not_conflict_stmt : forall e thr range F n C S,
  1 <= thr -> compact_af F n -> enc_clauses e thr range F = Some C ->
  intended_of e F S ->
  up_run C (induced e n range F S) <> UpConflict /\
  forall k, up_run_fuel k C (induced e n range F S) <> UpConflict.
Proof.
  intros e thr range F n C S Ht HF HC HS. rewrite intended_of_basep in HS.
  split; [|intros k]; exact (poly_intended_not_conflict e thr range F n C S _ Ht HF HC HS).
Qed.

Theorem poly_unintended_not_model_stmt : forall e thr range F n C S,
  1 <= thr -> compact_af F n -> enc_clauses e thr range F = Some C ->
  incl S (args F) ->
  (up_run C (induced e n range F S) = UpModel -> intended_of e F S) /\
  (~ intended_of e F S -> up_run C (induced e n range F S) <> UpModel) /\
  (forall k, up_run_fuel k C (induced e n range F S) = UpModel -> intended_of e F S).
Proof.
  intros e thr range F n C S Ht HF HC Hi. rewrite intended_of_basep.
  split; [|split].
  - exact (poly_model_intended e thr range F n C S _ Ht HF HC Hi).
  - exact (poly_unintended_not_model e thr range F n C S _ Ht HF HC Hi).
  - intros k. exact (poly_model_intended e thr range F n C S k Ht HF HC Hi).
Qed.

Theorem poly_oracle_sets_stmt : forall e thr range F n C,
  1 <= thr -> compact_af F n -> enc_clauses e thr range F = Some C ->
  (e <> StDefault \/ g_stableb F = true ->
     up_run C (induced e n range F (lfp F)) <> UpConflict) /\
  (e = StDefault -> g_stableb F = false ->
     up_run C (induced e n range F (lfp F)) <> UpModel) /\
  (forall x b, In b (lfp F) -> att F b x ->
     up_run C (induced e n range F (x :: lfp F)) <> UpModel) /\
  (e = AuxCo \/ e = ExpCo \/ e = HybCo ->
     (lfp F <> [] -> up_run C (induced e n range F []) <> UpModel) /\
     ((exists a, In a (args F) /\ forall b, ~ att F b a) ->
        up_run C (induced e n range F []) <> UpModel) /\
     (lfp F = [] -> up_run C (induced e n range F []) <> UpConflict)).
Proof.
  intros e thr range F n C Ht HF HC.
  destruct (poly_oracle_sets e thr range F n C (up_fuel C) Ht HF HC) as [H1 [H2 [H3 H4]]].
  split; [|split; [|split]].
  - intros [H|H]; apply H1; [left|right; exact H]. destruct e; try discriminate. exfalso. apply H. reflexivity.
  - intros He. apply H2. rewrite He. reflexivity.
  - exact H3.
  - intros He. apply H4. destruct He as [He|[He|He]]; rewrite He; reflexivity.
Qed.
