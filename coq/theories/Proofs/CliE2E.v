(* C05 END TO END for all 21 problems (Model/Cli.v composed with the whole-framework theorem
   SolverTop.run_query_correct, AbortProofs.unknown_aborts and Spec/Theory.v):
     - [dispatch_supported], [dispatch_enc_ok]: every row of the dispatch of solve_command.rs lands on
       an entry point that exists, with an encoder that solver type accepts (the case-sensitive
       "SE-PR" test, hybrid -> exp for STG included);
     - [answer_ok]: what the semantics dictate for the PROBLEM (q, s), certificate included;
     - [all_problems_correct]: the classification of the result of [run_traced];
     - [wrapper_correct]: the same for the ICCMA'23 wrapper (certificates forced on). *)
From Coq Require Import String Ascii NArith List Bool Lia.
From Crusta Require Import Spec.AF Spec.SemFacts Spec.Theory Sat.Cnf Sat.Prog Model.Solvers Model.Cli.
From Crusta Require Import Proofs.SolverBasics Proofs.AbortProofs Proofs.CliProofs.
From Crusta Require Import Proofs.MaxExtPref Proofs.TopBase Proofs.TopMax Proofs.SolverTop.
Import ListNotations.

(* ------------------------------------------------------------------ vocabulary *)
(* the semantics under which the printed witness is an extension: the problem's semantics, except
   for DC-PR, which is answered by the complete solver (property C04 allows a complete extension
   containing the argument as witness of DC-PR) *)
Definition witness_sem (q : query) (s : sem) : sem :=
  match q, s with QDC, PR => CO | _, _ => s end.

(* what the semantics dictate for problem (q, s) on F, query arguments [al], certificate flag
   [cert]: the outcome [oc] that is rendered *)
Definition answer_ok (q : query) (s : sem) (cert : bool) (F : af) (al : list nat) (oc : outcome) : Prop :=
  match q, oc with
  | QSE, OExt (Some L) => ext s F L /\ NoDup L /\ incl L (args F)
  | QSE, OExt None => s = ST /\ forall S, ~ ext ST F S
  | QDC, OAcc b c =>
      (b = true <-> cred s F al) /\
      match c with
      | Some L => cert = true /\ b = true /\ ext (witness_sem QDC s) F L /\ NoDup L /\ incl L (args F) /\
                  exists a, In a al /\ In a L
      | None => cert = true -> b = false
      end
  | QDS, OAcc b c =>
      (b = true <-> skep s F al) /\
      match c with
      | Some L => cert = true /\ b = false /\ ext s F L /\ NoDup L /\ incl L (args F) /\
                  forall a, In a al -> ~ In a L
      | None => cert = true -> b = true
      end
  | _, _ => False
  end.

(* ------------------------------------------------------------------ the dispatch rows *)
Lemma dispatch_supported : forall q s, supported (solver_for q s) q.
Proof. intros q s. destruct q, s; exact I. Qed.

Lemma se_pr_is_se : forall raw q s,
  beqb raw (bs "SE-PR") = true -> read_problem_string raw = inr (q, s) -> q = QSE.
Proof.
  intros raw q s E H. apply beqb_eq in E. subst raw.
  change (read_problem_string (problem_string QSE PR) = inr (q, s)) in H.
  rewrite problem_string_read in H. injection H as <- _. reflexivity.
Qed.

(* the encoder built by create_encoder is admissible for the solver type that is used *)
Theorem dispatch_enc_ok : forall raw q s eo,
  read_problem_string raw = inr (q, s) ->
  enc_ok (solver_for q s) (encoder_for raw s eo).
Proof.
  intros raw q s eo H.
  destruct s.
  - (* GR *) destruct q; exact I.
  - (* CO *) destruct q; cbn [solver_for enc_ok encoder_for]; try exact I; destruct eo; reflexivity.
  - (* PR *)
    cbn [encoder_for]. destruct (beqb raw (bs "SE-PR")) eqn:E.
    + rewrite (se_pr_is_se raw q PR E H). cbn [solver_for enc_ok]. unfold pr_enc.
      destruct eo; cbn [enc_base]; auto.
    + destruct q; cbn [solver_for enc_ok]; unfold pr_enc; destruct eo; cbn [enc_base]; auto.
  - (* ST *) destruct q; exact I.
  - (* SST *) destruct q; cbn [solver_for enc_ok encoder_for]; destruct eo; reflexivity.
  - (* STG *) destruct q; cbn [solver_for enc_ok encoder_for]; destruct eo; reflexivity.
  - (* ID *) destruct q; cbn [solver_for enc_ok encoder_for]; unfold pr_enc; destruct eo; cbn [enc_base]; auto.
Qed.

Lemma dispatch_al_ok : forall q s F al,
  (forall a, In a al -> In a (args F)) -> al_ok (solver_for q s) q F al.
Proof.
  intros q s F al H. unfold al_ok. destruct q; [exact I| |]; destruct (solver_for _ s); try exact I; exact H.
Qed.

(* from the specification of the solver type used to the specification of the problem asked *)
Theorem outcome_spec_answer : forall q s cert F al oc, wf F ->
  outcome_spec (solver_for q s) q cert F al oc -> answer_ok q s cert F al oc.
Proof.
  intros q s cert F al oc Hwf H.
  destruct q.
  - (* SE *)
    destruct oc as [[L|]|b c]; cbn [outcome_spec se_spec answer_ok] in *; try contradiction.
    + destruct H as (He & Hn & Hi). split; [|split; assumption].
      destruct s; cbn [solver_for] in He; try exact He.
      cbn [ext] in *. apply (gr_co F L Hwf He).
    + destruct H as [Hs Hno]. destruct s; cbn [solver_for] in Hs, Hno; try discriminate.
      split; [reflexivity|exact Hno].
  - (* DC *)
    destruct oc as [r|b c]; cbn [outcome_spec answer_ok] in *; [contradiction|].
    unfold acc_spec in H. cbn [qpol fst snd] in H. destruct H as [Hb Hc].
    destruct s; cbn [solver_for witness_sem] in *; try (split; [exact Hb|exact Hc]).
    (* DC-PR through the complete solver *)
    split; [rewrite Hb; apply (cred_co_pr F al Hwf)|exact Hc].
  - (* DS *)
    destruct oc as [r|b c]; cbn [outcome_spec answer_ok] in *; [contradiction|].
    unfold acc_spec in H. cbn [qpol fst snd negb] in H. destruct H as [Hb Hc].
    destruct s; cbn [solver_for] in *; try (split; [exact Hb|exact Hc]).
    (* DS-CO through the grounded solver *)
    split; [rewrite Hb; apply (skep_gr_co F al Hwf)|].
    destruct c as [L|]; [|exact Hc].
    destruct Hc as (H1 & H2 & H3 & H4 & H5 & H6).
    split; [exact H1|]. split; [exact H2|]. split; [|split; [exact H4|split; [exact H5|exact H6]]].
    cbn [ext] in *. apply (gr_co F L Hwf H3).
Qed.

(* [answer_ok] spelled out (the form used in Properties/C05.v) *)
Lemma answer_ok_spelled : forall q s cert F al oc,
  answer_ok q s cert F al oc <->
  match q, oc with
  | QSE, OExt (Some L) => ext s F L /\ NoDup L /\ incl L (args F)
  | QSE, OExt None => s = ST /\ forall S, ~ ext ST F S
  | QDC, OAcc b c =>
      (b = true <-> cred s F al) /\
      match c with
      | Some L => cert = true /\ b = true /\
                  ext (match s with PR => CO | _ => s end) F L /\ NoDup L /\ incl L (args F) /\
                  exists a, In a al /\ In a L
      | None => cert = true -> b = false
      end
  | QDS, OAcc b c =>
      (b = true <-> skep s F al) /\
      match c with
      | Some L => cert = true /\ b = false /\ ext s F L /\ NoDup L /\ incl L (args F) /\
                  forall a, In a al -> ~ In a L
      | None => cert = true -> b = true
      end
  | _, _ => False
  end.
Proof.
  intros q s cert F al oc. destruct q, oc as [[L|]|b [L|]]; cbn [answer_ok witness_sem]; try reflexivity;
    destruct s; reflexivity.
Qed.

(* every row of the dispatch: the entry point exists and the encoder is admissible *)
Theorem dispatch_rows_ok : forall raw q s eo,
  read_problem_string raw = inr (q, s) ->
  supported (solver_for q s) q /\ enc_ok (solver_for q s) (encoder_for raw s eo).
Proof. intros raw q s eo H. split; [apply dispatch_supported|apply dispatch_enc_ok; exact H]. Qed.

(* ------------------------------------------------------------------ the log *)
Lemma no_unknown_rev : forall l, no_unknown l -> forall k a, ~ In (k, ESolve a Unknown) (rev l).
Proof.
  intros l H k a Hin. apply in_rev in Hin. unfold no_unknown in H. rewrite Forall_forall in H.
  apply (H _ Hin). exists a. reflexivity.
Qed.

(* ------------------------------------------------------------------ goal 1: all 21 problems *)
Section E2E.
Variable oracle : nat -> cnf -> list lit -> answer.
Variable thr : nat.
Variable d : discipline.
Variable fuel : nat.

Theorem all_problems_correct : forall o inst i q s al F,
  valid_oracle oracle -> 1 <= thr ->
  view_good (i_g i) F -> (forall a, In a al -> In a (args F)) ->
  validate o inst = inr (i, q, s, al) ->
  match run_traced oracle thr d fuel o inst with
  | (Exit0 out, log) =>
      (exists oc, out = render (writer_of (o_reader o)) (i_label i) oc /\
                  answer_ok q s (o_cert o) F al oc) /\
      (forall k a, ~ In (k, ESolve a Unknown) log)
  | (ExitNonZero, log) =>
      exists k a log', log = log' ++ [(k, ESolve a Unknown)] /\
                       forall k' a', ~ In (k', ESolve a' Unknown) log'
  | (ModelOutOfFuel, log) =>
      ~ fuel_ok (solver_for q s) (encoder_for (o_problem o) s (o_encoding o))
                (query_comps (solver_for q s) q (o_cert o) (i_g i) al) fuel
  end.
Proof.
  intros o inst i q s al F Hvalid Hthr Hvg Hal V.
  unfold run_traced. rewrite V. unfold query_prog.
  destruct (validate_inr o inst i q s al V) as (_ & _ & Hp & _).
  pose proof (run_query_correct oracle thr Hthr Hvalid F (i_g i) Hvg fuel (solver_for q s) q (o_cert o)
                (encoder_for (o_problem o) s (o_encoding o)) al (init_st d)
                (dispatch_supported q s) (dispatch_enc_ok _ q s _ Hp)
                (dispatch_al_ok q s F al Hal)) as Hr.
  pose proof (unknown_aborts oracle thr d fuel (solver_for q s) q (o_cert o)
                (encoder_for (o_problem o) s (o_encoding o)) (i_g i) al) as Hu.
  unfold Prog.run in *.
  destruct (run_query oracle thr fuel (solver_for q s) q (o_cert o)
              (encoder_for (o_problem o) s (o_encoding o)) (i_g i) al (init_st d))
    as [oc st'|st'|st'|st']; cbn [run_ok] in Hr; unfold log_of; cbn [final_st].
  - destruct Hr as [Hspec _]. split.
    + exists oc. split; [reflexivity|].
      apply outcome_spec_answer; [exact (vg_wf _ _ Hvg)|exact Hspec].
    + apply no_unknown_rev. exact Hu.
  - destruct Hu as (k & a & r0 & E & Hn). exists k, a, (rev r0). rewrite E. cbn [rev].
    split; [reflexivity|]. apply no_unknown_rev. exact Hn.
  - contradiction.
  - exact (proj2 Hr).
Qed.

(* the same with the result alone *)
Corollary all_problems_exit0 : forall o inst i q s al F out,
  valid_oracle oracle -> 1 <= thr ->
  view_good (i_g i) F -> (forall a, In a al -> In a (args F)) ->
  validate o inst = inr (i, q, s, al) ->
  run oracle thr d fuel o inst = Exit0 out ->
  exists oc, out = render (writer_of (o_reader o)) (i_label i) oc /\ answer_ok q s (o_cert o) F al oc.
Proof.
  intros o inst i q s al F out Hvalid Hthr Hvg Hal V. unfold run.
  pose proof (all_problems_correct o inst i q s al F Hvalid Hthr Hvg Hal V) as H.
  destruct (run_traced oracle thr d fuel o inst) as [[out'| |] log]; cbn [fst]; try discriminate.
  intros E. injection E as <-. exact (proj1 H).
Qed.

(* with a certificate requested, a witness is printed exactly with the witnessed status *)
Lemma answer_ok_cert_present : forall q s F al b c,
  answer_ok q s true F al (OAcc b c) ->
  match q with
  | QSE => False
  | QDC => b = true <-> exists L, c = Some L
  | QDS => b = false <-> exists L, c = Some L
  end.
Proof.
  intros q s F al b c H. destruct q; cbn [answer_ok] in H; [exact H| |]; destruct H as [_ H].
  - destruct c as [L|].
    + split; [intros _; exists L; reflexivity|intros _; apply H].
    + split; [intros E; rewrite (H eq_refl) in E; discriminate|intros [L HL]; discriminate].
  - destruct c as [L|].
    + split; [intros _; exists L; reflexivity|intros _; apply H].
    + split; [intros E; rewrite (H eq_refl) in E; discriminate|intros [L HL]; discriminate].
Qed.
(* without a certificate requested, none is printed *)
Lemma answer_ok_nocert_absent : forall q s F al b c,
  answer_ok q s false F al (OAcc b c) -> c = None.
Proof.
  intros q s F al b c H. destruct q; cbn [answer_ok] in H; [contradiction| |]; destruct H as [_ H];
    (destruct c as [L|]; [destruct H as [H _]; discriminate|reflexivity]).
Qed.

(* ------------------------------------------------------------------ goal 3: the wrapper *)
Theorem wrapper_correct : forall real o file inst i q s al F,
  parse_wrapper real = CSolve o file ->
  valid_oracle oracle -> 1 <= thr ->
  view_good (i_g i) F -> (forall a, In a al -> In a (args F)) ->
  validate o inst = inr (i, q, s, al) ->
  exec oracle thr d fuel (parse_wrapper real) inst = Some (run oracle thr d fuel o inst) /\
  match run_traced oracle thr d fuel o inst with
  | (Exit0 out, log) =>
      (exists oc, out = render WIccma (i_label i) oc /\ answer_ok q s true F al oc /\
                  match q, oc with
                  | QDC, OAcc b c => b = true <-> exists L, c = Some L
                  | QDS, OAcc b c => b = false <-> exists L, c = Some L
                  | _, _ => True
                  end) /\
      (forall k a, ~ In (k, ESolve a Unknown) log)
  | (ExitNonZero, log) =>
      exists k a log', log = log' ++ [(k, ESolve a Unknown)] /\
                       forall k' a', ~ In (k', ESolve a' Unknown) log'
  | (ModelOutOfFuel, log) =>
      ~ fuel_ok (solver_for q s) (encoder_for (o_problem o) s EncAbsent)
                (query_comps (solver_for q s) q true (i_g i) al) fuel
  end.
Proof.
  intros real o file inst i q s al F Hw Hvalid Hthr Hvg Hal V.
  destruct (wrapper_forces_options real o file Hw) as (Hr & Hc & _ & He).
  split; [rewrite Hw; reflexivity|].
  pose proof (all_problems_correct o inst i q s al F Hvalid Hthr Hvg Hal V) as H.
  rewrite Hr, Hc, He in H. cbn [writer_of] in H.
  destruct (run_traced oracle thr d fuel o inst) as [[out| |] log]; try exact H.
  destruct H as [[oc [Ho Hoc]] Hlog]. split; [|exact Hlog].
  exists oc. split; [exact Ho|]. split; [exact Hoc|].
  destruct q, oc as [r|b c]; try exact I; exact (answer_ok_cert_present _ s F al b c Hoc).
Qed.

End E2E.

Print Assumptions dispatch_enc_ok.
Print Assumptions outcome_spec_answer.
Print Assumptions all_problems_correct.
Print Assumptions wrapper_correct.
