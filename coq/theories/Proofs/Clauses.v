(* Clause-by-clause corollaries for Properties/C01 C02 C03 C04 C06 C07 C11 C18: each sentence of a
   property text that was only a consequence of a general theorem, as a short explicit statement.
   Everything follows from SolverTop.run_query_correct (through the top_* theorems) and Spec/Theory.v. *)
From Crusta Require Import Spec.AF Spec.SemFacts Spec.Theory Spec.Invariance.
From Crusta Require Import Sat.Cnf Sat.Prog Model.Encoders Model.Graph Model.Solvers.
From Crusta Require Import Proofs.ProgLaws Proofs.EncSpec Proofs.SolverBasics Proofs.Decomp Proofs.MaxExtPref
  Proofs.TopBase Proofs.TopMax Proofs.SolverTop Proofs.Corollaries.
From Coq Require Import Lia.
Import ListNotations.
Open Scope prog_scope.

Section Clauses.
Variable oracle : nat -> cnf -> list lit -> answer.
Variable thr : nat.
Variable g : gview.
Variable F : af.
Hypothesis Hvalid : valid_oracle oracle.
Hypothesis Hthr : 1 <= thr.
Hypothesis Hvg : view_good g F.

Let Hwf : wf F := vg_wf g F Hvg.

(* what a completed single-extension run returned *)
Lemma se_done : forall s e al fuel cert st0 o t, supported s QSE -> enc_ok s e ->
  run_query oracle thr fuel s QSE cert e g al st0 = Done o t ->
  exists r, o = OExt r /\ se_spec s F r.
Proof.
  intros s e al fuel cert st0 o t Hs He E.
  pose proof (top_single_extension oracle thr g F Hvalid Hthr Hvg s e al fuel cert st0 Hs He) as R.
  rewrite E in R. destruct o as [[L|]|b c]; [| |contradiction]; eexists; (split; [reflexivity|exact R]).
Qed.

(* what a completed acceptance run returned *)
Lemma acc_done : forall s q e al fuel cert st0 o t, q <> QSE -> supported s q -> enc_ok s e -> al_ok s q F al ->
  run_query oracle thr fuel s q cert e g al st0 = Done o t ->
  exists b c, o = OAcc b c /\ acc_spec s (qpol q) cert F al (b, c).
Proof.
  intros s q e al fuel cert st0 o t Hq Hs He Ha E.
  pose proof (run_query_correct oracle thr Hthr Hvalid F g Hvg fuel s q cert e al st0 Hs He Ha) as R.
  rewrite E in R. destruct R as [R _].
  destruct q; [congruence| |]; destruct o as [r|b c]; cbn [outcome_spec] in R; try contradiction;
    exists b, c; (split; [reflexivity|exact R]).
Qed.

Lemma acc_status : forall s q e al fuel cert st0 b c t, q <> QSE -> supported s q -> enc_ok s e -> al_ok s q F al ->
  run_query oracle thr fuel s q cert e g al st0 = Done (OAcc b c) t ->
  (b = true <-> sem_status s q F al).
Proof.
  intros s q e al fuel cert st0 b c t Hq Hs He Ha E.
  apply (done_status oracle thr g F s q e al fuel cert st0 b c t); [unfold query_ok; tauto|exact Hq|exact E].
Qed.

(* ------------------------------------------------------------------------------------------ *)
(** * C01 *)

(* "otherwise an extension is always returned": for every semantics but ST a completed
   single-extension run returns a set *)
Theorem se_always_returned : forall s e al fuel cert st0, supported s QSE -> enc_ok s e -> s <> ST ->
  match run_query oracle thr fuel s QSE cert e g al st0 with
  | Done (OExt (Some L)) _ => ext s F L
  | Done _ _ => False
  | Panic _ => False
  | _ => True
  end.
Proof.
  intros s e al fuel cert st0 Hs He Hst.
  pose proof (top_single_extension oracle thr g F Hvalid Hthr Hvg s e al fuel cert st0 Hs He) as R.
  destruct (run_query oracle thr fuel s QSE cert e g al st0) as [[[L|]|b c] t|t|t|t]; try exact R.
  - exact (proj1 R).
  - destruct R as [R _]. exact (Hst R).
Qed.

(* "'No extension' is reported only when the framework has none": the stable solver answers
   'no extension' exactly when F has no stable extension *)
Theorem se_none_iff_no_stable : forall e al fuel cert st0 r t,
  run_query oracle thr fuel ST QSE cert e g al st0 = Done (OExt r) t ->
  (r = None <-> forall S, ~ st F S).
Proof.
  intros e al fuel cert st0 r t E.
  destruct (se_done ST e al fuel cert st0 _ t I I E) as [r' [Er R]]. injection Er as <-.
  destruct r as [L|]; cbn [se_spec] in R.
  - split; [discriminate|]. intros H. exfalso. exact (H L (proj1 R)).
  - split; [intros _; exact (proj2 R)|intros _; reflexivity].
Qed.

(* "for GR and ID the unique extension is returned": the returned set is an extension and every
   extension has exactly its members *)
Theorem se_unique_returned : forall s e al fuel cert st0 o t, s = GR \/ s = ID -> enc_ok s e ->
  run_query oracle thr fuel s QSE cert e g al st0 = Done o t ->
  exists L, o = OExt (Some L) /\ ext s F L /\ NoDup L /\ incl L (args F) /\
            forall S, ext s F S -> forall a, In a S <-> In a L.
Proof.
  intros s e al fuel cert st0 o t Hs He E.
  assert (Hsup : supported s QSE) by (destruct Hs as [-> | ->]; exact I).
  destruct (se_done s e al fuel cert st0 o t Hsup He E) as [r [-> R]].
  destruct r as [L|]; cbn [se_spec] in R.
  - exists L. destruct R as (R1 & R2 & R3). split; [reflexivity|]. repeat (split; [assumption|]).
    intros S HS. destruct Hs as [-> | ->]; cbn [ext] in *.
    + exact (gr_unique2 F S L Hwf HS R1).
    + exact (idl_unique F S L Hwf HS R1).
  - destruct R as [R _]. destruct Hs as [-> | ->]; discriminate.
Qed.

(* CO-SE is served by the grounded solver: its answer is a complete extension *)
Theorem se_grounded_is_complete : forall e al fuel cert st0 o t,
  run_query oracle thr fuel GR QSE cert e g al st0 = Done o t ->
  exists L, o = OExt (Some L) /\ co F L /\ NoDup L /\ incl L (args F).
Proof.
  intros e al fuel cert st0 o t E.
  destruct (se_unique_returned GR e al fuel cert st0 o t (or_introl eq_refl) I E) as (L & -> & H1 & H2 & H3 & _).
  exists L. split; [reflexivity|]. split; [exact (gr_co F L Hwf H1)|]. split; assumption.
Qed.

(* ------------------------------------------------------------------------------------------ *)
(** * C02 *)

(* one argument: YES exactly when at least one extension contains it *)
Theorem dc_single : forall s e a fuel cert st0 b c t, supported s QDC -> enc_ok s e -> al_ok s QDC F [a] ->
  run_query oracle thr fuel s QDC cert e g [a] st0 = Done (OAcc b c) t ->
  (b = true <-> exists S, ext s F S /\ In a S).
Proof.
  intros s e a fuel cert st0 b c t Hs He Ha E.
  rewrite (acc_status s QDC e [a] fuel cert st0 b c t ltac:(discriminate) Hs He Ha E).
  unfold sem_status, cred. cbn [qpol]. split.
  - intros [S [HS [x [[<-|[]] Hx]]]]. exists S. split; assumption.
  - intros [S [HS Hx]]. exists S. split; [exact HS|]. exists a. split; [now left|exact Hx].
Qed.

(* GR / ID: membership in THE grounded / ideal extension *)
Theorem dc_unique_membership : forall s e al fuel cert st0 b c t G, s = GR \/ s = ID -> enc_ok s e ->
  al_ok s QDC F al -> ext s F G ->
  run_query oracle thr fuel s QDC cert e g al st0 = Done (OAcc b c) t ->
  (b = true <-> exists a, In a al /\ In a G).
Proof.
  intros s e al fuel cert st0 b c t G Hs He Ha HG E.
  assert (Hsup : supported s QDC) by (destruct Hs as [-> | ->]; exact I).
  rewrite (acc_status s QDC e al fuel cert st0 b c t ltac:(discriminate) Hsup He Ha E).
  unfold sem_status, cred. cbn [qpol]. split.
  - intros [S [HS [a [Ha1 Ha2]]]]. exists a. split; [exact Ha1|].
    assert (Heq : forall x, In x S <-> In x G).
    { destruct Hs as [-> | ->]; cbn [ext] in *;
        [exact (gr_unique2 F S G Hwf HS HG)|exact (idl_unique F S G Hwf HS HG)]. }
    apply Heq. exact Ha2.
  - intros [a [Ha1 Ha2]]. exists G. split; [exact HG|]. exists a. split; assumption.
Qed.

(* "NO for every argument when no stable extension exists" *)
Theorem dc_stable_none : forall e al fuel cert st0 b c t, (forall S, ~ st F S) ->
  run_query oracle thr fuel ST QDC cert e g al st0 = Done (OAcc b c) t ->
  b = false.
Proof.
  intros e al fuel cert st0 b c t Hno E.
  pose proof (acc_status ST QDC e al fuel cert st0 b c t ltac:(discriminate) I I I E) as H.
  destruct b; [|reflexivity]. exfalso. apply (st_none_not_cred F al Hno). apply H. reflexivity.
Qed.

(* ------------------------------------------------------------------------------------------ *)
(** * C03 *)

(* one argument: YES exactly when every extension contains it *)
Theorem ds_single : forall s e a fuel cert st0 b c t, supported s QDS -> enc_ok s e -> al_ok s QDS F [a] ->
  run_query oracle thr fuel s QDS cert e g [a] st0 = Done (OAcc b c) t ->
  (b = true <-> forall S, ext s F S -> In a S).
Proof.
  intros s e a fuel cert st0 b c t Hs He Ha E.
  rewrite (acc_status s QDS e [a] fuel cert st0 b c t ltac:(discriminate) Hs He Ha E).
  unfold sem_status, skep. cbn [qpol]. split.
  - intros H S HS. destruct (H S HS) as [x [[<-|[]] Hx]]. exact Hx.
  - intros H S HS. exists a. split; [now left|exact (H S HS)].
Qed.

(* "when the framework has no stable extension every argument is skeptically accepted under ST" *)
Theorem ds_stable_none : forall e al fuel cert st0 b c t, (forall S, ~ st F S) ->
  run_query oracle thr fuel ST QDS cert e g al st0 = Done (OAcc b c) t ->
  b = true.
Proof.
  intros e al fuel cert st0 b c t Hno E.
  apply (acc_status ST QDS e al fuel cert st0 b c t ltac:(discriminate) I I I E).
  exact (st_none_skep F al Hno).
Qed.

(* "DS-CO coincides with membership in the grounded extension": DS-CO is answered by the grounded
   solver; the status of a completed DS-GR run is skeptical acceptance under CO, i.e. membership
   of a listed argument in the grounded extension *)
Theorem ds_complete_via_grounded : forall e al fuel cert st0 b c t G, gr F G ->
  run_query oracle thr fuel GR QDS cert e g al st0 = Done (OAcc b c) t ->
  (b = true <-> skep CO F al) /\ (b = true <-> exists a, In a al /\ In a G).
Proof.
  intros e al fuel cert st0 b c t G HG E.
  pose proof (acc_status GR QDS e al fuel cert st0 b c t ltac:(discriminate) I I I E) as H.
  unfold sem_status in H. cbn [qpol] in H. split.
  - rewrite H. exact (skep_gr_co F al Hwf).
  - rewrite H. unfold skep. cbn [ext]. split.
    + intros Hs. exact (Hs G HG).
    + intros [a [Ha1 Ha2]] S HS. exists a. split; [exact Ha1|].
      apply (gr_unique2 F S G Hwf HS HG). exact Ha2.
Qed.

(* ------------------------------------------------------------------------------------------ *)
(** * C04 *)

(* certificate requested, credulous YES: a certificate is returned, it is an extension under the
   queried semantics containing a listed argument, made of arguments of F, each once *)
Theorem cert_credulous_yes : forall s e al fuel st0 c t, supported s QDC -> enc_ok s e -> al_ok s QDC F al ->
  run_query oracle thr fuel s QDC true e g al st0 = Done (OAcc true c) t ->
  exists L, c = Some L /\ ext s F L /\ (exists a, In a al /\ In a L) /\ NoDup L /\ incl L (args F).
Proof.
  intros s e al fuel st0 c t Hs He Ha E.
  destruct (acc_done s QDC e al fuel true st0 _ t ltac:(discriminate) Hs He Ha E) as (b' & c' & Eo & _ & R).
  injection Eo as <- <-. cbn [snd fst qpol] in R. destruct c as [L|].
  - exists L. destruct R as (_ & _ & R1 & R2 & R3 & R4). tauto.
  - specialize (R eq_refl). discriminate.
Qed.

(* certificate requested, skeptical NO: an extension omitting every listed argument *)
Theorem cert_skeptical_no : forall s e al fuel st0 c t, supported s QDS -> enc_ok s e -> al_ok s QDS F al ->
  run_query oracle thr fuel s QDS true e g al st0 = Done (OAcc false c) t ->
  exists L, c = Some L /\ ext s F L /\ (forall a, In a al -> ~ In a L) /\ NoDup L /\ incl L (args F).
Proof.
  intros s e al fuel st0 c t Hs He Ha E.
  destruct (acc_done s QDS e al fuel true st0 _ t ltac:(discriminate) Hs He Ha E) as (b' & c' & Eo & _ & R).
  injection Eo as <- <-. cbn [snd fst qpol] in R. destruct c as [L|].
  - exists L. destruct R as (_ & _ & R1 & R2 & R3 & R4). tauto.
  - specialize (R eq_refl). discriminate.
Qed.

(* "a NO credulous or YES skeptical answer carries no certificate"; nor does any answer when no
   certificate was requested *)
Theorem cert_absent : forall s q e al fuel cert st0 b c t, q <> QSE -> supported s q -> enc_ok s e -> al_ok s q F al ->
  run_query oracle thr fuel s q cert e g al st0 = Done (OAcc b c) t ->
  (q = QDC /\ b = false) \/ (q = QDS /\ b = true) \/ cert = false ->
  c = None.
Proof.
  intros s q e al fuel cert st0 b c t Hq Hs He Ha E Hcase.
  destruct (acc_done s q e al fuel cert st0 _ t Hq Hs He Ha E) as (b' & c' & Eo & _ & R).
  injection Eo as <- <-. cbn [snd fst] in R. destruct c as [L|]; [|reflexivity]. exfalso.
  destruct R as (R1 & R2 & _).
  destruct Hcase as [[-> ->] | [[-> ->] | ->]]; cbn [qpol] in R2; discriminate.
Qed.

(* "for DC-PR a complete extension, which is a sufficient witness": the certificate of the complete
   solver (which answers DC-PR) is a complete extension containing a listed argument, and it is
   contained in a preferred extension, which therefore contains that argument too *)
Theorem cert_preferred_witness : forall e al fuel cert st0 b L t, enc_ok CO e -> al_ok CO QDC F al ->
  run_query oracle thr fuel CO QDC cert e g al st0 = Done (OAcc b (Some L)) t ->
  b = true /\ co F L /\ (exists a, In a al /\ In a L) /\
  exists P, pr F P /\ incl L P /\ exists a, In a al /\ In a P.
Proof.
  intros e al fuel cert st0 b L t He Ha E.
  destruct (acc_done CO QDC e al fuel cert st0 _ t ltac:(discriminate) I He Ha E) as (b' & c' & Eo & _ & R).
  injection Eo as <- <-. cbn [snd fst qpol] in R. destruct R as (_ & Rb & Rco & _ & _ & [a [Ha1 Ha2]]).
  cbn [ext] in Rco. split; [exact Rb|]. split; [exact Rco|]. split; [exists a; tauto|].
  destruct (adm_extends_pr F L Hwf (co_adm F L Rco)) as [P [HP HLP]].
  exists P. split; [exact HP|]. split; [exact HLP|]. exists a. split; [exact Ha1|exact (HLP a Ha2)].
Qed.

End Clauses.
