(* Clause-by-clause corollaries for Properties/C01 C02 C03 C04 C06 C07 C11 C18: each sentence of a
   property text that was only a consequence of a general theorem, as a short explicit statement.
   Everything follows from SolverTop.run_query_correct (through the top_* theorems) and Spec/Theory.v. *)
From Crusta Require Import Spec.AF Spec.SemFacts Spec.Theory Spec.Invariance.
From Crusta Require Import Sat.Cnf Sat.Prog Model.Encoders Model.Graph Model.Solvers.
From Crusta Require Import Proofs.ProgLaws Proofs.EncSpec Proofs.SolverBasics Proofs.Decomp Proofs.MaxExtPref
  Proofs.TopBase Proofs.TopMax Proofs.SolverTop Proofs.Corollaries.
From Crusta Require Import Proofs.EncAll Proofs.MaxExtCore Proofs.MaxExtIdeal Proofs.MaxExtRange.
From Coq Require Import Lia.
Import ListNotations.
Open Scope prog_scope.

Section Clauses.
Variable oracle : nat -> cnf -> list lit -> answer.
Variable thr : nat.
Variable g : gview.
Variable F : af.
Hypothesis Hvalid : valid_oracle oracle.
Hypothesis Hthr : 1 <= thr.
Hypothesis Hvg : view_good g F.

Let Hwf : wf F := vg_wf g F Hvg.

(* what a completed single-extension run returned *)
Lemma se_done : forall s e al fuel cert st0 o t, supported s QSE -> enc_ok s e ->
  run_query oracle thr fuel s QSE cert e g al st0 = Done o t ->
  exists r, o = OExt r /\ se_spec s F r.
Proof.
  intros s e al fuel cert st0 o t Hs He E.
  pose proof (top_single_extension oracle thr g F Hvalid Hthr Hvg s e al fuel cert st0 Hs He) as R.
  rewrite E in R. destruct o as [[L|]|b c]; [| |contradiction]; eexists; (split; [reflexivity|exact R]).
Qed.

(* what a completed acceptance run returned *)
Lemma acc_done : forall s q e al fuel cert st0 o t, q <> QSE -> supported s q -> enc_ok s e -> al_ok s q F al ->
  run_query oracle thr fuel s q cert e g al st0 = Done o t ->
  exists b c, o = OAcc b c /\ acc_spec s (qpol q) cert F al (b, c).
Proof.
  intros s q e al fuel cert st0 o t Hq Hs He Ha E.
  pose proof (run_query_correct oracle thr Hthr Hvalid F g Hvg fuel s q cert e al st0 Hs He Ha) as R.
  rewrite E in R. destruct R as [R _].
  destruct q; [congruence| |]; destruct o as [r|b c]; cbn [outcome_spec] in R; try contradiction;
    exists b, c; (split; [reflexivity|exact R]).
Qed.

Lemma acc_status : forall s q e al fuel cert st0 b c t, q <> QSE -> supported s q -> enc_ok s e -> al_ok s q F al ->
  run_query oracle thr fuel s q cert e g al st0 = Done (OAcc b c) t ->
  (b = true <-> sem_status s q F al).
Proof.
  intros s q e al fuel cert st0 b c t Hq Hs He Ha E.
  apply (done_status oracle thr g F s q e al fuel cert st0 b c t); [unfold query_ok; tauto|exact Hq|exact E].
Qed.

(* ------------------------------------------------------------------------------------------ *)
(** * C01 *)

(* "otherwise an extension is always returned": for every semantics but ST a completed
   single-extension run returns a set *)
Theorem se_always_returned : forall s e al fuel cert st0, supported s QSE -> enc_ok s e -> s <> ST ->
  match run_query oracle thr fuel s QSE cert e g al st0 with
  | Done (OExt (Some L)) _ => ext s F L
  | Done _ _ => False
  | Panic _ => False
  | _ => True
  end.
Proof.
  intros s e al fuel cert st0 Hs He Hst.
  pose proof (top_single_extension oracle thr g F Hvalid Hthr Hvg s e al fuel cert st0 Hs He) as R.
  destruct (run_query oracle thr fuel s QSE cert e g al st0) as [[[L|]|b c] t|t|t|t]; try exact R.
  - exact (proj1 R).
  - destruct R as [R _]. exact (Hst R).
Qed.

(* "'No extension' is reported only when the framework has none": the stable solver answers
   'no extension' exactly when F has no stable extension *)
Theorem se_none_iff_no_stable : forall e al fuel cert st0 r t,
  run_query oracle thr fuel ST QSE cert e g al st0 = Done (OExt r) t ->
  (r = None <-> forall S, ~ st F S).
Proof.
  intros e al fuel cert st0 r t E.
  destruct (se_done ST e al fuel cert st0 _ t I I E) as [r' [Er R]]. injection Er as <-.
  destruct r as [L|]; cbn [se_spec] in R.
  - split; [discriminate|]. intros H. exfalso. exact (H L (proj1 R)).
  - split; [intros _; exact (proj2 R)|intros _; reflexivity].
Qed.

(* "for GR and ID the unique extension is returned": the returned set is an extension and every
   extension has exactly its members *)
Theorem se_unique_returned : forall s e al fuel cert st0 o t, s = GR \/ s = ID -> enc_ok s e ->
  run_query oracle thr fuel s QSE cert e g al st0 = Done o t ->
  exists L, o = OExt (Some L) /\ ext s F L /\ NoDup L /\ incl L (args F) /\
            forall S, ext s F S -> forall a, In a S <-> In a L.
Proof.
  intros s e al fuel cert st0 o t Hs He E.
  assert (Hsup : supported s QSE) by (destruct Hs as [-> | ->]; exact I).
  destruct (se_done s e al fuel cert st0 o t Hsup He E) as [r [-> R]].
  destruct r as [L|]; cbn [se_spec] in R.
  - exists L. destruct R as (R1 & R2 & R3). split; [reflexivity|]. repeat (split; [assumption|]).
    intros S HS. destruct Hs as [-> | ->]; cbn [ext] in *.
    + exact (gr_unique2 F S L Hwf HS R1).
    + exact (idl_unique F S L Hwf HS R1).
  - destruct R as [R _]. destruct Hs as [-> | ->]; discriminate.
Qed.

(* CO-SE is served by the grounded solver: its answer is a complete extension *)
Theorem se_grounded_is_complete : forall e al fuel cert st0 o t,
  run_query oracle thr fuel GR QSE cert e g al st0 = Done o t ->
  exists L, o = OExt (Some L) /\ co F L /\ NoDup L /\ incl L (args F).
Proof.
  intros e al fuel cert st0 o t E.
  destruct (se_unique_returned GR e al fuel cert st0 o t (or_introl eq_refl) I E) as (L & -> & H1 & H2 & H3 & _).
  exists L. split; [reflexivity|]. split; [exact (gr_co F L Hwf H1)|]. split; assumption.
Qed.

(* ------------------------------------------------------------------------------------------ *)
(** * C02 *)

(* one argument: YES exactly when at least one extension contains it *)
Theorem dc_single : forall s e a fuel cert st0 b c t, supported s QDC -> enc_ok s e -> al_ok s QDC F [a] ->
  run_query oracle thr fuel s QDC cert e g [a] st0 = Done (OAcc b c) t ->
  (b = true <-> exists S, ext s F S /\ In a S).
Proof.
  intros s e a fuel cert st0 b c t Hs He Ha E.
  rewrite (acc_status s QDC e [a] fuel cert st0 b c t ltac:(discriminate) Hs He Ha E).
  unfold sem_status, cred. cbn [qpol]. split.
  - intros [S [HS [x [[<-|[]] Hx]]]]. exists S. split; assumption.
  - intros [S [HS Hx]]. exists S. split; [exact HS|]. exists a. split; [now left|exact Hx].
Qed.

(* GR / ID: membership in THE grounded / ideal extension *)
Theorem dc_unique_membership : forall s e al fuel cert st0 b c t G, s = GR \/ s = ID -> enc_ok s e ->
  al_ok s QDC F al -> ext s F G ->
  run_query oracle thr fuel s QDC cert e g al st0 = Done (OAcc b c) t ->
  (b = true <-> exists a, In a al /\ In a G).
Proof.
  intros s e al fuel cert st0 b c t G Hs He Ha HG E.
  assert (Hsup : supported s QDC) by (destruct Hs as [-> | ->]; exact I).
  rewrite (acc_status s QDC e al fuel cert st0 b c t ltac:(discriminate) Hsup He Ha E).
  unfold sem_status, cred. cbn [qpol]. split.
  - intros [S [HS [a [Ha1 Ha2]]]]. exists a. split; [exact Ha1|].
    assert (Heq : forall x, In x S <-> In x G).
    { destruct Hs as [-> | ->]; cbn [ext] in *;
        [exact (gr_unique2 F S G Hwf HS HG)|exact (idl_unique F S G Hwf HS HG)]. }
    apply Heq. exact Ha2.
  - intros [a [Ha1 Ha2]]. exists G. split; [exact HG|]. exists a. split; assumption.
Qed.

(* "NO for every argument when no stable extension exists" *)
Theorem dc_stable_none : forall e al fuel cert st0 b c t, (forall S, ~ st F S) ->
  run_query oracle thr fuel ST QDC cert e g al st0 = Done (OAcc b c) t ->
  b = false.
Proof.
  intros e al fuel cert st0 b c t Hno E.
  pose proof (acc_status ST QDC e al fuel cert st0 b c t ltac:(discriminate) I I I E) as H.
  destruct b; [|reflexivity]. exfalso. apply (st_none_not_cred F al Hno). apply H. reflexivity.
Qed.

(* ------------------------------------------------------------------------------------------ *)
(** * C03 *)

(* one argument: YES exactly when every extension contains it *)
Theorem ds_single : forall s e a fuel cert st0 b c t, supported s QDS -> enc_ok s e -> al_ok s QDS F [a] ->
  run_query oracle thr fuel s QDS cert e g [a] st0 = Done (OAcc b c) t ->
  (b = true <-> forall S, ext s F S -> In a S).
Proof.
  intros s e a fuel cert st0 b c t Hs He Ha E.
  rewrite (acc_status s QDS e [a] fuel cert st0 b c t ltac:(discriminate) Hs He Ha E).
  unfold sem_status, skep. cbn [qpol]. split.
  - intros H S HS. destruct (H S HS) as [x [[<-|[]] Hx]]. exact Hx.
  - intros H S HS. exists a. split; [now left|exact (H S HS)].
Qed.

(* "when the framework has no stable extension every argument is skeptically accepted under ST" *)
Theorem ds_stable_none : forall e al fuel cert st0 b c t, (forall S, ~ st F S) ->
  run_query oracle thr fuel ST QDS cert e g al st0 = Done (OAcc b c) t ->
  b = true.
Proof.
  intros e al fuel cert st0 b c t Hno E.
  apply (acc_status ST QDS e al fuel cert st0 b c t ltac:(discriminate) I I I E).
  exact (st_none_skep F al Hno).
Qed.

(* "DS-CO coincides with membership in the grounded extension": DS-CO is answered by the grounded
   solver; the status of a completed DS-GR run is skeptical acceptance under CO, i.e. membership
   of a listed argument in the grounded extension *)
Theorem ds_complete_via_grounded : forall e al fuel cert st0 b c t G, gr F G ->
  run_query oracle thr fuel GR QDS cert e g al st0 = Done (OAcc b c) t ->
  (b = true <-> skep CO F al) /\ (b = true <-> exists a, In a al /\ In a G).
Proof.
  intros e al fuel cert st0 b c t G HG E.
  pose proof (acc_status GR QDS e al fuel cert st0 b c t ltac:(discriminate) I I I E) as H.
  unfold sem_status in H. cbn [qpol] in H. split.
  - rewrite H. exact (skep_gr_co F al Hwf).
  - rewrite H. unfold skep. cbn [ext]. split.
    + intros Hs. exact (Hs G HG).
    + intros [a [Ha1 Ha2]] S HS. exists a. split; [exact Ha1|].
      apply (gr_unique2 F S G Hwf HS HG). exact Ha2.
Qed.

(* ------------------------------------------------------------------------------------------ *)
(** * C04 *)

(* certificate requested, credulous YES: a certificate is returned, it is an extension under the
   queried semantics containing a listed argument, made of arguments of F, each once *)
Theorem cert_credulous_yes : forall s e al fuel st0 c t, supported s QDC -> enc_ok s e -> al_ok s QDC F al ->
  run_query oracle thr fuel s QDC true e g al st0 = Done (OAcc true c) t ->
  exists L, c = Some L /\ ext s F L /\ (exists a, In a al /\ In a L) /\ NoDup L /\ incl L (args F).
Proof.
  intros s e al fuel st0 c t Hs He Ha E.
  destruct (acc_done s QDC e al fuel true st0 _ t ltac:(discriminate) Hs He Ha E) as (b' & c' & Eo & _ & R).
  injection Eo as <- <-. cbn [snd fst qpol] in R. destruct c as [L|].
  - exists L. destruct R as (_ & _ & R1 & R2 & R3 & R4). tauto.
  - specialize (R eq_refl). discriminate.
Qed.

(* certificate requested, skeptical NO: an extension omitting every listed argument *)
Theorem cert_skeptical_no : forall s e al fuel st0 c t, supported s QDS -> enc_ok s e -> al_ok s QDS F al ->
  run_query oracle thr fuel s QDS true e g al st0 = Done (OAcc false c) t ->
  exists L, c = Some L /\ ext s F L /\ (forall a, In a al -> ~ In a L) /\ NoDup L /\ incl L (args F).
Proof.
  intros s e al fuel st0 c t Hs He Ha E.
  destruct (acc_done s QDS e al fuel true st0 _ t ltac:(discriminate) Hs He Ha E) as (b' & c' & Eo & _ & R).
  injection Eo as <- <-. cbn [snd fst qpol] in R. destruct c as [L|].
  - exists L. destruct R as (_ & _ & R1 & R2 & R3 & R4). tauto.
  - specialize (R eq_refl). discriminate.
Qed.

(* "a NO credulous or YES skeptical answer carries no certificate"; nor does any answer when no
   certificate was requested *)
Theorem cert_absent : forall s q e al fuel cert st0 b c t, q <> QSE -> supported s q -> enc_ok s e -> al_ok s q F al ->
  run_query oracle thr fuel s q cert e g al st0 = Done (OAcc b c) t ->
  (q = QDC /\ b = false) \/ (q = QDS /\ b = true) \/ cert = false ->
  c = None.
Proof.
  intros s q e al fuel cert st0 b c t Hq Hs He Ha E Hcase.
  destruct (acc_done s q e al fuel cert st0 _ t Hq Hs He Ha E) as (b' & c' & Eo & _ & R).
  injection Eo as <- <-. cbn [snd fst] in R. destruct c as [L|]; [|reflexivity]. exfalso.
  destruct R as (R1 & R2 & _).
  destruct Hcase as [[-> ->] | [[-> ->] | ->]]; cbn [qpol] in R2; discriminate.
Qed.

(* "for DC-PR a complete extension, which is a sufficient witness": the certificate of the complete
   solver (which answers DC-PR) is a complete extension containing a listed argument, and it is
   contained in a preferred extension, which therefore contains that argument too *)
Theorem cert_preferred_witness : forall e al fuel cert st0 b L t, enc_ok CO e -> al_ok CO QDC F al ->
  run_query oracle thr fuel CO QDC cert e g al st0 = Done (OAcc b (Some L)) t ->
  b = true /\ co F L /\ (exists a, In a al /\ In a L) /\
  exists P, pr F P /\ incl L P /\ exists a, In a al /\ In a P.
Proof.
  intros e al fuel cert st0 b L t He Ha E.
  destruct (acc_done CO QDC e al fuel cert st0 _ t ltac:(discriminate) I He Ha E) as (b' & c' & Eo & _ & R).
  injection Eo as <- <-. cbn [snd fst qpol] in R. destruct R as (_ & Rb & Rco & _ & _ & [a [Ha1 Ha2]]).
  cbn [ext] in Rco. split; [exact Rb|]. split; [exact Rco|]. split; [exists a; tauto|].
  destruct (adm_extends_pr F L Hwf (co_adm F L Rco)) as [P [HP HLP]].
  exists P. split; [exact HP|]. split; [exact HLP|]. exists a. split; [exact Ha1|exact (HLP a Ha2)].
Qed.

End Clauses.

(* ------------------------------------------------------------------------------------------ *)
(** * C06: one dimension varied at a time *)

Section OneFramework.
Variable g : gview.
Variable F : af.
Hypothesis Hvg : view_good g F.

(* "whichever SAT encoding is selected" *)
Theorem encoding_independent : forall oracle thr, valid_oracle oracle -> 1 <= thr ->
  forall s q e1 e2 al fuel cert st0 b1 c1 t1 b2 c2 t2,
  q <> QSE -> supported s q -> enc_ok s e1 -> enc_ok s e2 -> al_ok s q F al ->
  run_query oracle thr fuel s q cert e1 g al st0 = Done (OAcc b1 c1) t1 ->
  run_query oracle thr fuel s q cert e2 g al st0 = Done (OAcc b2 c2) t2 ->
  b1 = b2.
Proof.
  intros oracle thr Hv Ht s q e1 e2 al fuel cert st0 b1 c1 t1 b2 c2 t2 Hq Hs He1 He2 Ha E1 E2.
  exact (top_status_function_of_semantics oracle oracle thr thr g g F s q e1 e2 al fuel fuel cert cert
           st0 st0 b1 c1 t1 b2 c2 t2 Hv Hv Ht Ht Hvg Hvg Hq Hs He1 He2 Ha E1 E2).
Qed.

(* "whichever SAT backend is used": a backend is an oracle (its answers) and an n_vars discipline *)
Theorem backend_independent : forall o1 o2 d1 d2 thr, valid_oracle o1 -> valid_oracle o2 -> 1 <= thr ->
  forall s q e al fuel cert b1 c1 t1 b2 c2 t2,
  q <> QSE -> supported s q -> enc_ok s e -> al_ok s q F al ->
  run_query o1 thr fuel s q cert e g al (init_st d1) = Done (OAcc b1 c1) t1 ->
  run_query o2 thr fuel s q cert e g al (init_st d2) = Done (OAcc b2 c2) t2 ->
  b1 = b2.
Proof.
  intros o1 o2 d1 d2 thr Hv1 Hv2 Ht s q e al fuel cert b1 c1 t1 b2 c2 t2 Hq Hs He Ha E1 E2.
  exact (top_status_function_of_semantics o1 o2 thr thr g g F s q e e al fuel fuel cert cert
           _ _ b1 c1 t1 b2 c2 t2 Hv1 Hv2 Ht Ht Hvg Hvg Hq Hs He He Ha E1 E2).
Qed.

(* "whether or not a certificate is requested" *)
Theorem certificate_flag_independent : forall oracle thr, valid_oracle oracle -> 1 <= thr ->
  forall s q e al fuel st0 b1 c1 t1 b2 c2 t2,
  q <> QSE -> supported s q -> enc_ok s e -> al_ok s q F al ->
  run_query oracle thr fuel s q true e g al st0 = Done (OAcc b1 c1) t1 ->
  run_query oracle thr fuel s q false e g al st0 = Done (OAcc b2 c2) t2 ->
  b1 = b2.
Proof.
  intros oracle thr Hv Ht s q e al fuel st0 b1 c1 t1 b2 c2 t2 Hq Hs He Ha E1 E2.
  exact (top_status_function_of_semantics oracle oracle thr thr g g F s q e e al fuel fuel true false
           st0 st0 b1 c1 t1 b2 c2 t2 Hv Hv Ht Ht Hvg Hvg Hq Hs He He Ha E1 E2).
Qed.
End OneFramework.

(* the three encodings of the property text are admissible for every solver type that takes an
   encoder of the complete / admissible family (all but STG, whose encoders are conflict-free based) *)
Lemma three_encodings_admissible : forall s, s <> STG ->
  enc_ok s AuxCo /\ enc_ok s ExpCo /\ enc_ok s HybCo.
Proof.
  intros s Hs. unfold enc_ok, pr_enc.
  destruct s; cbn [enc_base]; try congruence; repeat split; try exact I; try reflexivity; left; reflexivity.
Qed.

(* ------------------------------------------------------------------------------------------ *)
(** * C07 *)

Section Lists.
Variable oracle : nat -> cnf -> list lit -> answer.
Variable thr : nat.
Variable g : gview.
Variable F : af.
Hypothesis Hvalid : valid_oracle oracle.
Hypothesis Hthr : 1 <= thr.
Hypothesis Hvg : view_good g F.

(* the disjunction, in the words of the property text *)
Theorem lists_in_words : forall s q e al fuel cert st0 b c t,
  q <> QSE -> supported s q -> enc_ok s e -> al_ok s q F al ->
  run_query oracle thr fuel s q cert e g al st0 = Done (OAcc b c) t ->
  (b = true <-> if qpol q then exists S, ext s F S /\ exists a, In a al /\ In a S
                else forall S, ext s F S -> exists a, In a al /\ In a S).
Proof.
  intros s q e al fuel cert st0 b c t Hq Hs He Ha E.
  exact (acc_status oracle thr g F Hvalid Hthr Hvg s q e al fuel cert st0 b c t Hq Hs He Ha E).
Qed.
End Lists.

(* ------------------------------------------------------------------------------------------ *)
(** * C11: consistency across semantics, at the level of the solver model *)

Section Consistency.
Variable g : gview.
Variable F : af.
Hypothesis Hvg : view_good g F.
Let Hwf : wf F := vg_wf g F Hvg.

(* GR within ID within every PR answer: three completed single-extension runs *)
Theorem se_gr_in_id_in_pr :
  forall o1 o2 o3 thr1 thr2 thr3, valid_oracle o1 -> valid_oracle o2 -> valid_oracle o3 ->
  1 <= thr1 -> 1 <= thr2 -> 1 <= thr3 ->
  forall e1 e2 e3 al1 al2 al3 fuel1 fuel2 fuel3 cert1 cert2 cert3 st1 st2 st3 r1 r2 r3 t1 t2 t3,
  enc_ok ID e2 -> enc_ok PR e3 ->
  run_query o1 thr1 fuel1 GR QSE cert1 e1 g al1 st1 = Done (OExt r1) t1 ->
  run_query o2 thr2 fuel2 ID QSE cert2 e2 g al2 st2 = Done (OExt r2) t2 ->
  run_query o3 thr3 fuel3 PR QSE cert3 e3 g al3 st3 = Done (OExt r3) t3 ->
  exists G I P, r1 = Some G /\ r2 = Some I /\ r3 = Some P /\ incl G I /\ incl I P.
Proof.
  intros o1 o2 o3 thr1 thr2 thr3 Hv1 Hv2 Hv3 Ht1 Ht2 Ht3
         e1 e2 e3 al1 al2 al3 fuel1 fuel2 fuel3 cert1 cert2 cert3 st1 st2 st3 r1 r2 r3 t1 t2 t3 He2 He3 E1 E2 E3.
  destruct (se_done o1 thr1 g F Hv1 Ht1 Hvg GR e1 al1 fuel1 cert1 st1 _ t1 I I E1) as [r1' [X1 R1]].
  destruct (se_done o2 thr2 g F Hv2 Ht2 Hvg ID e2 al2 fuel2 cert2 st2 _ t2 I He2 E2) as [r2' [X2 R2]].
  destruct (se_done o3 thr3 g F Hv3 Ht3 Hvg PR e3 al3 fuel3 cert3 st3 _ t3 I He3 E3) as [r3' [X3 R3]].
  injection X1 as <-. injection X2 as <-. injection X3 as <-.
  destruct r1 as [G|]; [|destruct R1; discriminate].
  destruct r2 as [Il|]; [|destruct R2; discriminate].
  destruct r3 as [P|]; [|destruct R3; discriminate].
  exists G, Il, P. repeat (split; [reflexivity|]).
  exact (gr_idl_pr F G Il P Hwf (proj1 R1) (proj1 R2) (proj1 R3)).
Qed.

(* DC-CO equals DC-PR: the one run of the complete solver (which is how the library answers DC-PR)
   carries the status of both questions *)
Theorem dc_co_is_dc_pr : forall oracle thr, valid_oracle oracle -> 1 <= thr ->
  forall e al fuel cert st0 b c t, enc_ok CO e -> al_ok CO QDC F al ->
  run_query oracle thr fuel CO QDC cert e g al st0 = Done (OAcc b c) t ->
  (b = true <-> cred CO F al) /\ (b = true <-> cred PR F al).
Proof.
  intros oracle thr Hv Ht e al fuel cert st0 b c t He Ha E.
  pose proof (acc_status oracle thr g F Hv Ht Hvg CO QDC e al fuel cert st0 b c t ltac:(discriminate) I He Ha E) as H.
  unfold sem_status in H. cbn [qpol] in H. split; [exact H|]. rewrite H. exact (cred_co_pr F al Hwf).
Qed.

(* skeptical acceptance implies credulous acceptance when an extension exists: a completed DS run
   that says YES and a completed DC run of the same solver type on the same arguments *)
Theorem ds_yes_implies_dc_yes :
  forall o1 o2 thr1 thr2, valid_oracle o1 -> valid_oracle o2 -> 1 <= thr1 -> 1 <= thr2 ->
  forall s e1 e2 al fuel1 fuel2 cert1 cert2 st1 st2 c1 t1 b2 c2 t2,
  supported s QDS -> supported s QDC -> enc_ok s e1 -> enc_ok s e2 -> al_ok s QDS F al ->
  (exists S, ext s F S) ->
  run_query o1 thr1 fuel1 s QDS cert1 e1 g al st1 = Done (OAcc true c1) t1 ->
  run_query o2 thr2 fuel2 s QDC cert2 e2 g al st2 = Done (OAcc b2 c2) t2 ->
  b2 = true.
Proof.
  intros o1 o2 thr1 thr2 Hv1 Hv2 Ht1 Ht2 s e1 e2 al fuel1 fuel2 cert1 cert2 st1 st2 c1 t1 b2 c2 t2
         Hs1 Hs2 He1 He2 Ha Hex E1 E2.
  assert (Ha2 : al_ok s QDC F al) by (unfold al_ok in *; exact Ha).
  pose proof (acc_status o1 thr1 g F Hv1 Ht1 Hvg s QDS e1 al fuel1 cert1 st1 true c1 t1 ltac:(discriminate) Hs1 He1 Ha E1) as H1.
  pose proof (acc_status o2 thr2 g F Hv2 Ht2 Hvg s QDC e2 al fuel2 cert2 st2 b2 c2 t2 ltac:(discriminate) Hs2 He2 Ha2 E2) as H2.
  unfold sem_status in H1, H2. cbn [qpol] in H1, H2. apply H2.
  apply (skep_cred s F al Hex). apply H1. reflexivity.
Qed.

(* the same for PR, whose credulous question is answered by the complete solver *)
Theorem ds_pr_yes_implies_dc_yes :
  forall o1 o2 thr1 thr2, valid_oracle o1 -> valid_oracle o2 -> 1 <= thr1 -> 1 <= thr2 ->
  forall e1 e2 al fuel1 fuel2 cert1 cert2 st1 st2 c1 t1 b2 c2 t2,
  enc_ok PR e1 -> enc_ok CO e2 -> al_ok PR QDS F al ->
  run_query o1 thr1 fuel1 PR QDS cert1 e1 g al st1 = Done (OAcc true c1) t1 ->
  run_query o2 thr2 fuel2 CO QDC cert2 e2 g al st2 = Done (OAcc b2 c2) t2 ->
  b2 = true.
Proof.
  intros o1 o2 thr1 thr2 Hv1 Hv2 Ht1 Ht2 e1 e2 al fuel1 fuel2 cert1 cert2 st1 st2 c1 t1 b2 c2 t2
         He1 He2 Ha E1 E2.
  assert (Ha2 : al_ok CO QDC F al) by (unfold al_ok in *; exact Ha).
  pose proof (acc_status o1 thr1 g F Hv1 Ht1 Hvg PR QDS e1 al fuel1 cert1 st1 true c1 t1 ltac:(discriminate) I He1 Ha E1) as H1.
  destruct (dc_co_is_dc_pr o2 thr2 Hv2 Ht2 e2 al fuel2 cert2 st2 b2 c2 t2 He2 Ha2 E2) as [_ H2].
  unfold sem_status in H1. cbn [qpol] in H1. apply H2.
  apply (skep_cred PR F al (Theory.pr_exists F Hwf)). apply H1. reflexivity.
Qed.

(* ST, SST and STG coincide whenever a stable extension exists: same extensions ... *)
Lemma ext_stable_family : forall s S, s = ST \/ s = SST \/ s = STG -> (exists T, st F T) ->
  (ext s F S <-> st F S).
Proof.
  intros s S [-> |[-> | ->]] Hex; cbn [ext]; [reflexivity|exact (sst_st_collapse F S Hwf Hex)|exact (stg_st_collapse F S Hwf Hex)].
Qed.

(* ... hence the same statuses: two completed runs of the same acceptance query by two solver
   types among ST, SST, STG *)
Theorem stable_family_statuses_coincide :
  forall o1 o2 thr1 thr2, valid_oracle o1 -> valid_oracle o2 -> 1 <= thr1 -> 1 <= thr2 ->
  forall s1 s2 q e1 e2 al fuel1 fuel2 cert1 cert2 st1 st2 b1 c1 t1 b2 c2 t2,
  s1 = ST \/ s1 = SST \/ s1 = STG -> s2 = ST \/ s2 = SST \/ s2 = STG ->
  q <> QSE -> enc_ok s1 e1 -> enc_ok s2 e2 -> incl al (args F) ->
  (exists T, st F T) ->
  run_query o1 thr1 fuel1 s1 q cert1 e1 g al st1 = Done (OAcc b1 c1) t1 ->
  run_query o2 thr2 fuel2 s2 q cert2 e2 g al st2 = Done (OAcc b2 c2) t2 ->
  b1 = b2.
Proof.
  intros o1 o2 thr1 thr2 Hv1 Hv2 Ht1 Ht2 s1 s2 q e1 e2 al fuel1 fuel2 cert1 cert2 st1 st2 b1 c1 t1 b2 c2 t2
         Hs1 Hs2 Hq He1 He2 Hal Hex E1 E2.
  assert (Hsup1 : supported s1 q) by (destruct Hs1 as [-> |[-> | ->]]; destruct q; exact I).
  assert (Hsup2 : supported s2 q) by (destruct Hs2 as [-> |[-> | ->]]; destruct q; exact I).
  pose proof (acc_status o1 thr1 g F Hv1 Ht1 Hvg s1 q e1 al fuel1 cert1 st1 b1 c1 t1 Hq Hsup1 He1 (al_ok_incl s1 q F al Hal) E1) as H1.
  pose proof (acc_status o2 thr2 g F Hv2 Ht2 Hvg s2 q e2 al fuel2 cert2 st2 b2 c2 t2 Hq Hsup2 He2 (al_ok_incl s2 q F al Hal) E2) as H2.
  apply (bool_iff_eq b1 b2 _ _ H1 H2). unfold sem_status, cred, skep. destruct (qpol q).
  - split; intros [S [HS Hm]]; exists S; (split; [|exact Hm]).
    + apply (ext_stable_family s2 S Hs2 Hex). apply (ext_stable_family s1 S Hs1 Hex). exact HS.
    + apply (ext_stable_family s1 S Hs1 Hex). apply (ext_stable_family s2 S Hs2 Hex). exact HS.
  - split; intros H S HS; apply H.
    + apply (ext_stable_family s1 S Hs1 Hex). apply (ext_stable_family s2 S Hs2 Hex). exact HS.
    + apply (ext_stable_family s2 S Hs2 Hex). apply (ext_stable_family s1 S Hs1 Hex). exact HS.
Qed.

(* and the single-extension answers of the SST / STG solvers are then stable extensions *)
Theorem stable_family_se : forall oracle thr, valid_oracle oracle -> 1 <= thr ->
  forall s e al fuel cert st0 r t, s = SST \/ s = STG -> enc_ok s e -> (exists T, st F T) ->
  run_query oracle thr fuel s QSE cert e g al st0 = Done (OExt r) t ->
  exists L, r = Some L /\ st F L.
Proof.
  intros oracle thr Hv Ht s e al fuel cert st0 r t Hs He Hex E.
  assert (Hsup : supported s QSE) by (destruct Hs as [-> | ->]; exact I).
  destruct (se_done oracle thr g F Hv Ht Hvg s e al fuel cert st0 _ t Hsup He E) as [r' [X R]].
  injection X as <-. destruct r as [L|]; cbn [se_spec] in R.
  - exists L. split; [reflexivity|].
    apply (ext_stable_family s L); [destruct Hs as [-> | ->]; tauto|exact Hex|exact (proj1 R)].
  - destruct R as [R _]. destruct Hs as [-> | ->]; discriminate.
Qed.

End Consistency.

(* ------------------------------------------------------------------------------------------ *)
(** * C18 *)

(* "CO and ST need at most two calls per component" *)
Theorem two_calls_per_component : forall oracle thr g F,
  valid_oracle oracle -> 1 <= thr -> view_good g F ->
  forall s q e al fuel cert st0, s = CO \/ s = ST -> supported s q -> enc_ok s e -> al_ok s q F al ->
  match run_query oracle thr fuel s q cert e g al st0 with
  | Done _ s' | Abort s' | OutOfFuel s' =>
      calls s' <= calls st0 + 2 * length (query_comps s q cert g al)
  | Panic _ => False
  end.
Proof.
  intros oracle thr g F Hv Ht Hvg s q e al fuel cert st0 Hs Hsup He Ha.
  destruct (top_call_bound oracle thr g F Hv Ht Hvg s q e al fuel cert st0 Hsup He Ha) as [_ R].
  assert (Hs' : s = ST \/ s = CO) by tauto.
  rewrite (total_bound_two s e _ Hs') in R. exact R.
Qed.

(* the per-component bounds, spelled out: 0 for GR, 2 for CO and ST, and for the others a function
   of |base| = the number of candidate sets of the encoder's base family (conflict-free, admissible
   or complete sets of the component), of |PR| = the number of its preferred extensions, and - for
   the range-based semantics - of its number n of arguments *)
Theorem comp_bound_values : forall e c,
  let nb := length (all_base (enc_base e) (c_af c)) in
  let np := length (all_exts PR (c_af c)) in
  comp_bound GR e c = 0 /\ comp_bound CO e c = 2 /\ comp_bound ST e c = 2 /\
  comp_bound PR e c = nb + np + 1 /\
  comp_bound ID e c = 2 * nb + np + 2 /\
  comp_bound SST e c = (length (c_ids c) + 2) * nb + 3 /\
  comp_bound STG e c = (length (c_ids c) + 2) * nb + 3.
Proof.
  intros e c nb np. unfold comp_bound, id_bound, rg_bound, pr_bound. fold nb np.
  repeat split; try reflexivity. lia.
Qed.

Lemma filter_len_le A (f h : A -> bool) (l : list A) :
  (forall x, f x = true -> h x = true) -> length (filter f l) <= length (filter h l).
Proof.
  intros H. induction l as [|x r IH]; [apply le_n|]. cbn [filter].
  destruct (f x) eqn:Ef; [rewrite (H x Ef); cbn [length]; lia|destruct (h x); cbn [length]; lia].
Qed.

(* ... and |PR| <= |base| for the complete / admissible families the PR and ID solvers take: the
   whole bound is linear in the number of candidate sets *)
Theorem pr_count_le_base : forall b F, wf F -> b = BCo \/ b = BAdm ->
  length (all_exts PR F) <= length (all_base b F).
Proof.
  intros b F Hwf Hb. rewrite all_exts_eq. unfold all_base. apply filter_len_le.
  intros S HS. apply (extb_ext PR) in HS. cbn [ext] in HS. apply baseb_basep.
  destruct Hb as [-> | ->]; cbn [basep]; [exact (pr_co F S Hwf HS)|exact (pr_adm F S HS)].
Qed.

(* "no candidate set is ever examined twice": the step behind the bounds of PR and ID.  While a
   MaximalExtensionComputer works on a component F (ids 0..n-1) the SAT session holds the encoder's
   clauses C followed by one blocking clause per set examined so far ([Bs]; [bclause e n selv B] says
   "some argument outside B is accepted, or the selector is true").  A Sat answer under
   assumptions that switch the selector off and force the current set [cur] decodes to a set of the
   base family that contains [cur] and is NOT contained in any set examined before - in particular
   it differs from each of them. *)
Theorem sat_answer_is_new_candidate : forall oracle, valid_oracle oracle ->
  forall thr e F n, 1 <= thr -> compact_af F n ->
  forall C selv allowedb s Bs asm cur m,
  enc_clauses e thr false F = Some C -> 0 < selv ->
  cls s = C ++ map (bclause e n selv) Bs ->
  asm_ok e n selv allowedb asm cur -> (forall a, In a cur -> a < n) ->
  answer_of oracle s asm = Sat m ->
  let S := assignment_to_extension n e m in
  basep (enc_base e) F S /\ incl cur S /\ forall B, In B Bs -> ~ incl S B.
Proof.
  intros oracle Hv thr e F n Ht HF C selv allowedb s Bs asm cur m HC Hsel Hcls Hasm Hcur Hans S.
  destruct (sat_refines oracle Hv e F n C selv
              (fun v Hm => all_sound e thr F n Ht HF C v HC Hm) Hsel allowedb s Bs asm cur m
              Hcls Hasm Hcur Hans) as [[H1 _] [H2 H3]].
  split; [exact H1|]. split; [exact H2|exact H3].
Qed.

Print Assumptions se_always_returned.
Print Assumptions se_none_iff_no_stable.
Print Assumptions se_unique_returned.
Print Assumptions se_grounded_is_complete.
Print Assumptions dc_single.
Print Assumptions dc_unique_membership.
Print Assumptions dc_stable_none.
Print Assumptions ds_single.
Print Assumptions ds_stable_none.
Print Assumptions ds_complete_via_grounded.
Print Assumptions cert_credulous_yes.
Print Assumptions cert_skeptical_no.
Print Assumptions cert_absent.
Print Assumptions cert_preferred_witness.
Print Assumptions encoding_independent.
Print Assumptions backend_independent.
Print Assumptions certificate_flag_independent.
Print Assumptions three_encodings_admissible.
Print Assumptions lists_in_words.
Print Assumptions se_gr_in_id_in_pr.
Print Assumptions dc_co_is_dc_pr.
Print Assumptions ds_yes_implies_dc_yes.
Print Assumptions ds_pr_yes_implies_dc_yes.
Print Assumptions stable_family_statuses_coincide.
Print Assumptions stable_family_se.
Print Assumptions two_calls_per_component.
Print Assumptions comp_bound_values.
Print Assumptions pr_count_le_base.
Print Assumptions sat_answer_is_new_candidate.
