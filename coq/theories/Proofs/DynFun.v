(* The functional theorem of C08 / C09 for the dynamic complete and stable solvers (standard encoder):
   after any history, every answer - computed by a SAT call or served from the cache - is the answer
   the semantics dictate for the specification store of the whole history, certificates included.
   Part A: from the clause-set invariant (DynFunDefs.clause_inv) + the table invariant + the template
           theorems (DynEnc.v) to "the models of the session under the current assumptions are the
           complete / stable extensions of the current framework".
   Part B: decoding of assignments (certificates, cache lists).
   Part C: the cache invariant over histories.   Part D: the theorems. *)
From Crusta Require Import Model.Dynamic Spec.SemFacts Spec.Invariance Proofs.ProgLaws Proofs.StoreBase Proofs.StoreProofs
  Proofs.EncBase Proofs.SolverBasics Proofs.DynDefs Proofs.DynBase Proofs.DynProofs Proofs.DynEnc Proofs.DynSafe
  Proofs.DynStore Proofs.DynFunDefs Proofs.DynInv Proofs.CompProofs.
From Coq Require Import Lia ZifyBool.

Section DynFun.
Variable L : Type.
Variable leqb : L -> L -> bool.
Hypothesis leqb_spec : forall x y, leqb x y = true <-> x = y.

Notation fw := (fw L).
Notation Inv := (Inv L).
Notation get_argument := (get_argument L leqb).
Notation iter_attacks := (iter_attacks L).
Notation has := (has_argument_with_id L).

(* ================================================================ Part A *)
Section Bridge.
Variable af : fw.
Variable e : denc.
Variable C : cnf.
Variable dv : nat -> option bool.
Variable atk : nat -> list nat.
Hypothesis Ht : tables_ok L af e.
Hypothesis Hinv : Inv af.
Hypothesis Hz : vz e.
(* the clause-set invariant, opened *)
Hypothesis H2 : forall x, live_var e x -> dv x = None.
Hypothesis H3 : forall a, has af a = true -> tbl_var (e_a2s e) a <> None.
Hypothesis H4 : forall a, has af a = true ->
  (forall b, In b (atk a) <-> attacks_of L af b a) /\ incl (group e a (atk a)) C.
Hypothesis H5 : forall c, In c C -> dead_clause dv c \/ exists a, has af a = true /\ In c (group e a (atk a)).

Let ids := live_ids L af.
Let F := @af_of L af.

Lemma ids_has a : In a ids <-> has af a = true.
Proof. symmetry. apply (has_live_ids L af a Hinv). Qed.

Lemma live_v a : has af a = true -> exists v, tbl_var (e_a2v e) a = Some v /\ avar e a = v.
Proof.
  intros Ha. apply (t_live L af e Ht) in Ha. destruct (tbl_var (e_a2v e) a) as [v|] eqn:E; [|congruence].
  exists v. split; [reflexivity|]. apply (avar_some e a v E).
Qed.
Lemma live_s a : has af a = true -> exists s, tbl_var (e_a2s e) a = Some s /\ svar e a = s.
Proof.
  intros Ha. apply H3 in Ha. destruct (tbl_var (e_a2s e) a) as [s|] eqn:E; [|congruence].
  exists s. split; [reflexivity|]. apply (svar_some e a s E).
Qed.

Lemma avar_pos a : 0 < avar e a.
Proof.
  unfold avar. destruct (tbl_var (e_a2v e) a) as [v|] eqn:E; [|lia].
  destruct v; [|lia]. pose proof (t_arg L af e Ht _ _ E) as H. unfold vz in Hz. congruence.
Qed.
Lemma svar_pos a : 0 < svar e a.
Proof.
  unfold svar. destruct (tbl_var (e_a2s e) a) as [v|] eqn:E; [|lia].
  destruct v; [|lia]. pose proof (t_sel L af e Ht _ _ E) as H. unfold vz in Hz. congruence.
Qed.

Lemma atk_live a b : In a ids -> In b (atk a) -> In b ids.
Proof.
  intros Ha Hb. apply ids_has in Ha. apply (proj1 (H4 a Ha)) in Hb.
  apply ids_has. exact (proj1 (attack_live L af b a Hinv Hb)).
Qed.

Lemma bridge_equiv : af_equiv (tF ids atk) F.
Proof.
  split; [intros a; reflexivity|]. intros b a. rewrite tF_att. unfold att, F, af_of. cbn [atts]. split.
  - intros [Ha Hb]. apply ids_has in Ha. apply (proj1 (H4 a Ha)). exact Hb.
  - intros Hin. destruct (attack_live L af b a Hinv Hin) as [_ Ha]. split; [apply ids_has, Ha|].
    apply (proj1 (H4 a Ha)). exact Hin.
Qed.

(* the variables in use are pairwise distinct *)
Lemma av_inj a b : In a ids -> In b ids -> avar e a = avar e b -> a = b.
Proof.
  intros Ha Hb E. apply ids_has in Ha, Hb. destruct (live_v a Ha) as (v & Hv & Ev), (live_v b Hb) as (w & Hw & Ew).
  destruct (tables_distinct L af e Ht) as (D1 & _). apply (D1 a b v); congruence.
Qed.
Lemma sel_av a b : In a ids -> In b ids -> svar e a <> avar e b.
Proof.
  intros Ha Hb E. apply ids_has in Ha, Hb. destruct (live_s a Ha) as (v & Hv & Ev), (live_v b Hb) as (w & Hw & Ew).
  destruct (tables_distinct L af e Ht) as (_ & _ & D3 & _). apply (D3 b a w v Hw Hv). congruence.
Qed.
Lemma av_disj a b : e_sem e <> DST -> In a ids -> In b ids -> avar e a <> S (avar e b).
Proof.
  intros Hs Ha Hb E. apply ids_has in Ha, Hb. destruct (live_v a Ha) as (v & Hv & Ev), (live_v b Hb) as (w & Hw & Ew).
  destruct (tables_distinct L af e Ht) as (_ & _ & _ & D4 & _). apply (D4 Hs b a w v Hw Hv). congruence.
Qed.
Lemma sel_disj a b : e_sem e <> DST -> In a ids -> In b ids -> svar e a <> S (avar e b).
Proof.
  intros Hs Ha Hb E. apply ids_has in Ha, Hb. destruct (live_s a Ha) as (v & Hv & Ev), (live_v b Hb) as (w & Hw & Ew).
  destruct (tables_distinct L af e Ht) as (_ & _ & _ & _ & D5 & _). apply (D5 Hs b a w v Hw Hv). congruence.
Qed.

(* liveness of the variables a group mentions *)
Lemma lv_av a : In a ids -> live_var e (avar e a).
Proof. intros Ha. apply ids_has in Ha. destruct (live_v a Ha) as (v & Hv & <-). left. eauto. Qed.
Lemma lv_disj a : e_sem e <> DST -> In a ids -> live_var e (S (avar e a)).
Proof.
  intros Hs Ha. apply ids_has in Ha. destruct (live_v a Ha) as (v & Hv & Ev). right. left. split; [exact Hs|].
  exists a, v. split; [exact Hv|congruence].
Qed.
Lemma lv_sel a : In a ids -> live_var e (svar e a).
Proof. intros Ha. apply ids_has in Ha. destruct (live_s a Ha) as (v & Hv & <-). right. right. eauto. Qed.

Lemma assum_sel x : In x (e_assum e) -> exists a, In a ids /\ x = zlit (svar e a).
Proof.
  intros Hx. apply (t_assum L af e Ht) in Hx. destruct Hx as (a & s & Hs & ->). exists a. split.
  - apply ids_has. apply (t_live L af e Ht), (t_sel_live L af e Ht). congruence.
  - now rewrite (svar_some e a s Hs).
Qed.
Lemma sel_assum a : In a ids -> In (zlit (svar e a)) (e_assum e).
Proof.
  intros Ha. apply ids_has in Ha. destruct (live_s a Ha) as (s & Hs & ->). apply (t_assum L af e Ht). eauto.
Qed.

Lemma sel_true (m : val) : (forall x, In x (e_assum e) -> vtrue m x = true) -> forall a, In a ids -> m (svar e a) = true.
Proof. intros Hm a Ha. specialize (Hm _ (sel_assum a Ha)). rewrite vtrue_zlit in Hm by apply svar_pos. exact Hm. Qed.

Lemma group_co a : e_sem e <> DST -> group e a (atk a) = co_group atk (avar e) (svar e) a.
Proof. intros Hs. unfold group, grp, co_group. destruct (e_sem e); try congruence; reflexivity. Qed.
Lemma group_st a : e_sem e = DST -> group e a (atk a) = st_group atk (avar e) (svar e) a.
Proof. intros Hs. unfold group, grp, st_group. rewrite Hs. reflexivity. Qed.

Lemma group_models (m : val) a : vmodels m C = true -> In a ids -> vmodels m (group e a (atk a)) = true.
Proof.
  intros Hm Ha. apply ids_has in Ha. apply vmodels_forall. intros c Hc.
  apply (proj1 (vmodels_forall m C) Hm). apply (proj2 (H4 a Ha)). exact Hc.
Qed.

(* ---- soundness: a model of the session under the assumptions decodes to an extension *)
Theorem bridge_sound_co (m : val) :
  e_sem e <> DST -> vmodels m C = true -> (forall x, In x (e_assum e) -> vtrue m x = true) ->
  co F (S_of ids (avar e) m).
Proof.
  intros Hs Hm Ha. apply (proj1 (ext_af_equiv CO _ _ _ bridge_equiv)). cbn [ext].
  apply (co_template_sound ids atk atk_live (avar e) (svar e) avar_pos svar_pos m (sel_true m Ha)).
  intros a Hi. rewrite <- (group_co a Hs). apply group_models; assumption.
Qed.
Theorem bridge_sound_st (m : val) :
  e_sem e = DST -> vmodels m C = true -> (forall x, In x (e_assum e) -> vtrue m x = true) ->
  st F (S_of ids (avar e) m).
Proof.
  intros Hs Hm Ha. apply (proj1 (ext_af_equiv ST _ _ _ bridge_equiv)). cbn [ext].
  apply (st_template_sound ids atk atk_live (avar e) (svar e) avar_pos svar_pos m (sel_true m Ha)).
  intros a Hi. rewrite <- (group_st a Hs). apply group_models; assumption.
Qed.

(* ---- completeness: every extension has a model of the WHOLE session under the assumptions: the
   canonical model of the template theorem on the live variables, the forced values on the dead ones *)
Definition with_dead (m0 : val) : val := fun x => match dv x with Some b => b | None => m0 x end.

Lemma with_dead_live m0 x : live_var e x -> with_dead m0 x = m0 x.
Proof. intros Hx. unfold with_dead. now rewrite (H2 x Hx). Qed.

Lemma with_dead_clause m0 c : dead_clause dv c -> vsat_clause (with_dead m0) c = true.
Proof.
  intros (l & Hl & Hd). apply vsat_exists. exists l. split; [exact Hl|].
  unfold dead_lit in Hd. unfold vtrue, with_dead in *. destruct (dv (lit_var l)) as [b|]; [exact Hd|destruct Hd].
Qed.

Lemma co_group_agree (m m0 : val) a :
  e_sem e <> DST -> In a ids -> (forall x, live_var e x -> m x = m0 x) -> m0 (svar e a) = true ->
  vmodels m0 (co_group atk (avar e) (svar e) a) = true -> vmodels m (co_group atk (avar e) (svar e) a) = true.
Proof.
  intros Hs Ha Hag Hsel H0. unfold co_group in *. apply vmodels_cons_iff in H0. destruct H0 as [Hb H0].
  assert (Ea : m (avar e a) = m0 (avar e a)) by (apply Hag, lv_av, Ha).
  assert (Ed : m (S (avar e a)) = m0 (S (avar e a))) by (apply Hag, lv_disj; assumption).
  assert (Es : m (svar e a) = true) by (rewrite (Hag _ (lv_sel a Ha)); exact Hsel).
  assert (Eb : forall b, In b (atk a) -> m (avar e b) = m0 (avar e b) /\ m (S (avar e b)) = m0 (S (avar e b))).
  { intros b Hb'. pose proof (atk_live a b Ha Hb') as Hbi. split; apply Hag; [apply lv_av|apply lv_disj]; assumption. }
  apply vmodels_cons_iff. split.
  - rewrite vsat_binary, !vtrue_znlit in *. rewrite Ea, Ed. exact Hb.
  - apply (co_clauses_spec (avar e) avar_pos m0 (svar e a) (avar e a) (atk a) (svar_pos a) (avar_pos a) Hsel) in H0.
    apply (co_clauses_spec (avar e) avar_pos m (svar e a) (avar e a) (atk a) (svar_pos a) (avar_pos a) Es).
    destruct H0 as (K1 & K2 & K3 & K4). rewrite Ea, Ed. repeat split.
    + intros b Hb' Hv. rewrite (proj2 (Eb b Hb')). auto.
    + destruct K2 as [K2|(b & Hb' & K2)]; [left; exact K2|right]. exists b. split; [exact Hb'|].
      rewrite (proj2 (Eb b Hb')). exact K2.
    + intros b Hb' Hv. rewrite (proj1 (Eb b Hb')) in Hv. eauto.
    + intros Hd. destruct (K4 Hd) as (b & Hb' & K). exists b. split; [exact Hb'|]. rewrite (proj1 (Eb b Hb')). exact K.
Qed.

Lemma st_group_agree (m m0 : val) a :
  In a ids -> (forall x, live_var e x -> m x = m0 x) -> m0 (svar e a) = true ->
  vmodels m0 (st_group atk (avar e) (svar e) a) = true -> vmodels m (st_group atk (avar e) (svar e) a) = true.
Proof.
  intros Ha Hag Hsel H0. unfold st_group in *.
  assert (Ea : m (avar e a) = m0 (avar e a)) by (apply Hag, lv_av, Ha).
  assert (Es : m (svar e a) = true) by (rewrite (Hag _ (lv_sel a Ha)); exact Hsel).
  assert (Eb : forall b, In b (atk a) -> m (avar e b) = m0 (avar e b)).
  { intros b Hb'. apply Hag, lv_av. eapply atk_live; eassumption. }
  apply (st_clauses_spec (avar e) avar_pos m0 (svar e a) (avar e a) (atk a) (svar_pos a) (avar_pos a) Hsel) in H0.
  apply (st_clauses_spec (avar e) avar_pos m (svar e a) (avar e a) (atk a) (svar_pos a) (avar_pos a) Es).
  destruct H0 as (K1 & K2). rewrite Ea. split.
  - intros b Hb' Hv Hvb. rewrite (Eb b Hb') in Hvb. eauto.
  - destruct K2 as [K2|(b & Hb' & K2)]; [left; exact K2|right]. exists b. split; [exact Hb'|]. rewrite (Eb b Hb'). exact K2.
Qed.

Theorem bridge_complete_co X :
  e_sem e <> DST -> co F X ->
  exists m : val, vmodels m C = true /\ (forall x, In x (e_assum e) -> vtrue m x = true) /\
                  forall a, In a ids -> (m (avar e a) = true <-> In a X).
Proof.
  intros Hs HX. apply (proj2 (ext_af_equiv CO _ _ _ bridge_equiv)) in HX. cbn [ext] in HX.
  destruct (co_template_complete ids atk atk_live (avar e) (svar e) avar_pos svar_pos av_inj
              (fun a b => av_disj a b Hs) sel_av (fun a b => sel_disj a b Hs) X HX) as (M1 & M2 & M3).
  set (m0 := model_of ids atk (avar e) X) in *. exists (with_dead m0).
  assert (Hag : forall x, live_var e x -> with_dead m0 x = m0 x) by (intros x; apply with_dead_live).
  split; [|split].
  - apply vmodels_forall. intros c Hc. destruct (H5 c Hc) as [Hd|(a & Ha & Hin)]; [apply with_dead_clause, Hd|].
    apply ids_has in Ha. rewrite (group_co a Hs) in Hin.
    pose proof (co_group_agree (with_dead m0) m0 a Hs Ha Hag (M2 a Ha) (M1 a Ha)) as Hg.
    apply (proj1 (vmodels_forall _ _) Hg c Hin).
  - intros x Hx. destruct (assum_sel x Hx) as (a & Ha & ->). rewrite vtrue_zlit by apply svar_pos.
    rewrite (Hag _ (lv_sel a Ha)). apply M2, Ha.
  - intros a Ha. rewrite (Hag _ (lv_av a Ha)). apply M3, Ha.
Qed.

Theorem bridge_complete_st X :
  e_sem e = DST -> st F X ->
  exists m : val, vmodels m C = true /\ (forall x, In x (e_assum e) -> vtrue m x = true) /\
                  forall a, In a ids -> (m (avar e a) = true <-> In a X).
Proof.
  intros Hs HX. apply (proj2 (ext_af_equiv ST _ _ _ bridge_equiv)) in HX. cbn [ext] in HX.
  destruct (st_template_complete ids atk atk_live (avar e) (svar e) avar_pos svar_pos av_inj sel_av X HX)
    as (M1 & M2 & M3).
  set (m0 := st_model_of ids (avar e) X) in *. exists (with_dead m0).
  assert (Hag : forall x, live_var e x -> with_dead m0 x = m0 x) by (intros x; apply with_dead_live).
  split; [|split].
  - apply vmodels_forall. intros c Hc. destruct (H5 c Hc) as [Hd|(a & Ha & Hin)]; [apply with_dead_clause, Hd|].
    apply ids_has in Ha. rewrite (group_st a Hs) in Hin.
    pose proof (st_group_agree (with_dead m0) m0 a Ha Hag (M2 a Ha) (M1 a Ha)) as Hg.
    apply (proj1 (vmodels_forall _ _) Hg c Hin).
  - intros x Hx. destruct (assum_sel x Hx) as (a & Ha & ->). rewrite vtrue_zlit by apply svar_pos.
    rewrite (Hag _ (lv_sel a Ha)). apply M2, Ha.
  - intros a Ha. rewrite (Hag _ (lv_av a Ha)). apply M3, Ha.
Qed.

End Bridge.

End DynFun.
