(* The functional theorem of C08 / C09 for the dynamic complete and stable solvers (standard encoder):
   after any history, every answer - computed by a SAT call or served from the cache - is the answer
   the semantics dictate for the specification store of the whole history, certificates included.
   Part A: from the clause-set invariant (DynFunDefs.clause_inv) + the table invariant + the template
           theorems (DynEnc.v) to "the models of the session under the current assumptions are the
           complete / stable extensions of the current framework".
   Part B: decoding of assignments (certificates, cache lists).
   Part C: the cache invariant over histories.   Part D: the theorems. *)
From Crusta Require Import Model.Dynamic Spec.SemFacts Spec.Invariance Proofs.ProgLaws Proofs.StoreBase Proofs.StoreProofs
  Proofs.EncBase Proofs.SolverBasics Proofs.DynDefs Proofs.DynBase Proofs.DynProofs Proofs.DynEnc Proofs.DynSafe
  Proofs.DynStore Proofs.DynFunDefs Proofs.DynInv Proofs.CompProofs.
From Coq Require Import Lia ZifyBool.

Section DynFun.
Variable L : Type.
Variable leqb : L -> L -> bool.
Hypothesis leqb_spec : forall x y, leqb x y = true <-> x = y.

Notation fw := (fw L).
Notation Inv := (Inv L).
Notation get_argument := (get_argument L leqb).
Notation iter_attacks := (iter_attacks L).
Notation has := (has_argument_with_id L).

(* ================================================================ Part A *)
Section Bridge.
Variable af : fw.
Variable e : denc.
Variable C : cnf.
Variable dv : nat -> option bool.
Variable atk : nat -> list nat.
Hypothesis Ht : tables_ok L af e.
Hypothesis Hinv : Inv af.
Hypothesis Hz : vz e.
(* the clause-set invariant, opened *)
Hypothesis H2 : forall x, live_var e x -> dv x = None.
Hypothesis H3 : forall a, has af a = true -> tbl_var (e_a2s e) a <> None.
Hypothesis H4 : forall a, has af a = true ->
  (forall b, In b (atk a) <-> attacks_of L af b a) /\ incl (group e a (atk a)) C.
Hypothesis H5 : forall c, In c C -> dead_clause dv c \/ exists a, has af a = true /\ In c (group e a (atk a)).

Let ids := live_ids L af.
Let F := @af_of L af.

Lemma ids_has a : In a ids <-> has af a = true.
Proof. symmetry. apply (has_live_ids L af a Hinv). Qed.

Lemma live_v a : has af a = true -> exists v, tbl_var (e_a2v e) a = Some v /\ avar e a = v.
Proof.
  intros Ha. apply (t_live L af e Ht) in Ha. destruct (tbl_var (e_a2v e) a) as [v|] eqn:E; [|congruence].
  exists v. split; [reflexivity|]. apply (avar_some e a v E).
Qed.
Lemma live_s a : has af a = true -> exists s, tbl_var (e_a2s e) a = Some s /\ svar e a = s.
Proof.
  intros Ha. apply H3 in Ha. destruct (tbl_var (e_a2s e) a) as [s|] eqn:E; [|congruence].
  exists s. split; [reflexivity|]. apply (svar_some e a s E).
Qed.

Lemma avar_pos a : 0 < avar e a.
Proof.
  unfold avar. destruct (tbl_var (e_a2v e) a) as [v|] eqn:E; [|lia].
  destruct v; [|lia]. pose proof (t_arg L af e Ht _ _ E) as H. unfold vz in Hz. congruence.
Qed.
Lemma svar_pos a : 0 < svar e a.
Proof.
  unfold svar. destruct (tbl_var (e_a2s e) a) as [v|] eqn:E; [|lia].
  destruct v; [|lia]. pose proof (t_sel L af e Ht _ _ E) as H. unfold vz in Hz. congruence.
Qed.

Lemma atk_live a b : In a ids -> In b (atk a) -> In b ids.
Proof.
  intros Ha Hb. apply ids_has in Ha. apply (proj1 (H4 a Ha)) in Hb.
  apply ids_has. exact (proj1 (attack_live L af b a Hinv Hb)).
Qed.

Lemma bridge_equiv : af_equiv (tF ids atk) F.
Proof.
  split; [intros a; reflexivity|]. intros b a. rewrite tF_att. unfold att, F, af_of. cbn [atts]. split.
  - intros [Ha Hb]. apply ids_has in Ha. apply (proj1 (H4 a Ha)). exact Hb.
  - intros Hin. destruct (attack_live L af b a Hinv Hin) as [_ Ha]. split; [apply ids_has, Ha|].
    apply (proj1 (H4 a Ha)). exact Hin.
Qed.

(* the variables in use are pairwise distinct *)
Lemma av_inj a b : In a ids -> In b ids -> avar e a = avar e b -> a = b.
Proof.
  intros Ha Hb E. apply ids_has in Ha, Hb. destruct (live_v a Ha) as (v & Hv & Ev), (live_v b Hb) as (w & Hw & Ew).
  destruct (tables_distinct L af e Ht) as (D1 & _). apply (D1 a b v); congruence.
Qed.
Lemma sel_av a b : In a ids -> In b ids -> svar e a <> avar e b.
Proof.
  intros Ha Hb E. apply ids_has in Ha, Hb. destruct (live_s a Ha) as (v & Hv & Ev), (live_v b Hb) as (w & Hw & Ew).
  destruct (tables_distinct L af e Ht) as (_ & _ & D3 & _). apply (D3 b a w v Hw Hv). congruence.
Qed.
Lemma av_disj a b : e_sem e <> DST -> In a ids -> In b ids -> avar e a <> S (avar e b).
Proof.
  intros Hs Ha Hb E. apply ids_has in Ha, Hb. destruct (live_v a Ha) as (v & Hv & Ev), (live_v b Hb) as (w & Hw & Ew).
  destruct (tables_distinct L af e Ht) as (_ & _ & _ & D4 & _). apply (D4 Hs b a w v Hw Hv). congruence.
Qed.
Lemma sel_disj a b : e_sem e <> DST -> In a ids -> In b ids -> svar e a <> S (avar e b).
Proof.
  intros Hs Ha Hb E. apply ids_has in Ha, Hb. destruct (live_s a Ha) as (v & Hv & Ev), (live_v b Hb) as (w & Hw & Ew).
  destruct (tables_distinct L af e Ht) as (_ & _ & _ & _ & D5 & _). apply (D5 Hs b a w v Hw Hv). congruence.
Qed.

(* liveness of the variables a group mentions *)
Lemma lv_av a : In a ids -> live_var e (avar e a).
Proof. intros Ha. apply ids_has in Ha. destruct (live_v a Ha) as (v & Hv & <-). left. eauto. Qed.
Lemma lv_disj a : e_sem e <> DST -> In a ids -> live_var e (S (avar e a)).
Proof.
  intros Hs Ha. apply ids_has in Ha. destruct (live_v a Ha) as (v & Hv & Ev). right. left. split; [exact Hs|].
  exists a, v. split; [exact Hv|congruence].
Qed.
Lemma lv_sel a : In a ids -> live_var e (svar e a).
Proof. intros Ha. apply ids_has in Ha. destruct (live_s a Ha) as (v & Hv & <-). right. right. eauto. Qed.

Lemma assum_sel x : In x (e_assum e) -> exists a, In a ids /\ x = zlit (svar e a).
Proof.
  intros Hx. apply (t_assum L af e Ht) in Hx. destruct Hx as (a & s & Hs & ->). exists a. split.
  - apply ids_has. apply (t_live L af e Ht), (t_sel_live L af e Ht). congruence.
  - now rewrite (svar_some e a s Hs).
Qed.
Lemma sel_assum a : In a ids -> In (zlit (svar e a)) (e_assum e).
Proof.
  intros Ha. apply ids_has in Ha. destruct (live_s a Ha) as (s & Hs & ->). apply (t_assum L af e Ht). eauto.
Qed.

Lemma sel_true (m : val) : (forall x, In x (e_assum e) -> vtrue m x = true) -> forall a, In a ids -> m (svar e a) = true.
Proof. intros Hm a Ha. specialize (Hm _ (sel_assum a Ha)). rewrite vtrue_zlit in Hm by apply svar_pos. exact Hm. Qed.

Lemma group_co a : e_sem e <> DST -> group e a (atk a) = co_group atk (avar e) (svar e) a.
Proof. intros Hs. unfold group, grp, co_group. destruct (e_sem e); try congruence; reflexivity. Qed.
Lemma group_st a : e_sem e = DST -> group e a (atk a) = st_group atk (avar e) (svar e) a.
Proof. intros Hs. unfold group, grp, st_group. rewrite Hs. reflexivity. Qed.

Lemma group_models (m : val) a : vmodels m C = true -> In a ids -> vmodels m (group e a (atk a)) = true.
Proof.
  intros Hm Ha. apply ids_has in Ha. apply vmodels_forall. intros c Hc.
  apply (proj1 (vmodels_forall m C) Hm). apply (proj2 (H4 a Ha)). exact Hc.
Qed.

(* ---- soundness: a model of the session under the assumptions decodes to an extension *)
Theorem bridge_sound_co (m : val) :
  e_sem e <> DST -> vmodels m C = true -> (forall x, In x (e_assum e) -> vtrue m x = true) ->
  co F (S_of ids (avar e) m).
Proof.
  intros Hs Hm Ha. apply (proj1 (ext_af_equiv CO _ _ _ bridge_equiv)). cbn [ext].
  apply (co_template_sound ids atk atk_live (avar e) (svar e) avar_pos svar_pos m (sel_true m Ha)).
  intros a Hi. rewrite <- (group_co a Hs). apply group_models; assumption.
Qed.
Theorem bridge_sound_st (m : val) :
  e_sem e = DST -> vmodels m C = true -> (forall x, In x (e_assum e) -> vtrue m x = true) ->
  st F (S_of ids (avar e) m).
Proof.
  intros Hs Hm Ha. apply (proj1 (ext_af_equiv ST _ _ _ bridge_equiv)). cbn [ext].
  apply (st_template_sound ids atk atk_live (avar e) (svar e) avar_pos svar_pos m (sel_true m Ha)).
  intros a Hi. rewrite <- (group_st a Hs). apply group_models; assumption.
Qed.

(* ---- completeness: every extension has a model of the WHOLE session under the assumptions: the
   canonical model of the template theorem on the live variables, the forced values on the dead ones *)
Definition with_dead (m0 : val) : val := fun x => match dv x with Some b => b | None => m0 x end.

Lemma with_dead_live m0 x : live_var e x -> with_dead m0 x = m0 x.
Proof. intros Hx. unfold with_dead. now rewrite (H2 x Hx). Qed.

Lemma with_dead_clause m0 c : dead_clause dv c -> vsat_clause (with_dead m0) c = true.
Proof.
  intros (l & Hl & Hd). apply vsat_exists. exists l. split; [exact Hl|].
  unfold dead_lit in Hd. unfold vtrue, with_dead in *. destruct (dv (lit_var l)) as [b|]; [exact Hd|destruct Hd].
Qed.

Lemma co_group_agree (m m0 : val) a :
  e_sem e <> DST -> In a ids -> (forall x, live_var e x -> m x = m0 x) -> m0 (svar e a) = true ->
  vmodels m0 (co_group atk (avar e) (svar e) a) = true -> vmodels m (co_group atk (avar e) (svar e) a) = true.
Proof.
  intros Hs Ha Hag Hsel H0. unfold co_group in *. apply vmodels_cons_iff in H0. destruct H0 as [Hb H0].
  assert (Ea : m (avar e a) = m0 (avar e a)) by (apply Hag, lv_av, Ha).
  assert (Ed : m (S (avar e a)) = m0 (S (avar e a))) by (apply Hag, lv_disj; assumption).
  assert (Es : m (svar e a) = true) by (rewrite (Hag _ (lv_sel a Ha)); exact Hsel).
  assert (Eb : forall b, In b (atk a) -> m (avar e b) = m0 (avar e b) /\ m (S (avar e b)) = m0 (S (avar e b))).
  { intros b Hb'. pose proof (atk_live a b Ha Hb') as Hbi. split; apply Hag; [apply lv_av|apply lv_disj]; assumption. }
  apply vmodels_cons_iff. split.
  - rewrite vsat_binary, !vtrue_znlit in *. rewrite Ea, Ed. exact Hb.
  - apply (co_clauses_spec (avar e) avar_pos m0 (svar e a) (avar e a) (atk a) (svar_pos a) (avar_pos a) Hsel) in H0.
    apply (co_clauses_spec (avar e) avar_pos m (svar e a) (avar e a) (atk a) (svar_pos a) (avar_pos a) Es).
    destruct H0 as (K1 & K2 & K3 & K4). rewrite Ea, Ed. repeat split.
    + intros b Hb' Hv. rewrite (proj2 (Eb b Hb')). auto.
    + destruct K2 as [K2|(b & Hb' & K2)]; [left; exact K2|right]. exists b. split; [exact Hb'|].
      rewrite (proj2 (Eb b Hb')). exact K2.
    + intros b Hb' Hv. rewrite (proj1 (Eb b Hb')) in Hv. eauto.
    + intros Hd. destruct (K4 Hd) as (b & Hb' & K). exists b. split; [exact Hb'|]. rewrite (proj1 (Eb b Hb')). exact K.
Qed.

Lemma st_group_agree (m m0 : val) a :
  In a ids -> (forall x, live_var e x -> m x = m0 x) -> m0 (svar e a) = true ->
  vmodels m0 (st_group atk (avar e) (svar e) a) = true -> vmodels m (st_group atk (avar e) (svar e) a) = true.
Proof.
  intros Ha Hag Hsel H0. unfold st_group in *.
  assert (Ea : m (avar e a) = m0 (avar e a)) by (apply Hag, lv_av, Ha).
  assert (Es : m (svar e a) = true) by (rewrite (Hag _ (lv_sel a Ha)); exact Hsel).
  assert (Eb : forall b, In b (atk a) -> m (avar e b) = m0 (avar e b)).
  { intros b Hb'. apply Hag, lv_av. eapply atk_live; eassumption. }
  apply (st_clauses_spec (avar e) avar_pos m0 (svar e a) (avar e a) (atk a) (svar_pos a) (avar_pos a) Hsel) in H0.
  apply (st_clauses_spec (avar e) avar_pos m (svar e a) (avar e a) (atk a) (svar_pos a) (avar_pos a) Es).
  destruct H0 as (K1 & K2). rewrite Ea. split.
  - intros b Hb' Hv Hvb. rewrite (Eb b Hb') in Hvb. eauto.
  - destruct K2 as [K2|(b & Hb' & K2)]; [left; exact K2|right]. exists b. split; [exact Hb'|]. rewrite (Eb b Hb'). exact K2.
Qed.

Theorem bridge_complete_co X :
  e_sem e <> DST -> co F X ->
  exists m : val, vmodels m C = true /\ (forall x, In x (e_assum e) -> vtrue m x = true) /\
                  forall a, In a ids -> (m (avar e a) = true <-> In a X).
Proof.
  intros Hs HX. apply (proj2 (ext_af_equiv CO _ _ _ bridge_equiv)) in HX. cbn [ext] in HX.
  destruct (co_template_complete ids atk atk_live (avar e) (svar e) avar_pos svar_pos av_inj
              (fun a b => av_disj a b Hs) sel_av (fun a b => sel_disj a b Hs) X HX) as (M1 & M2 & M3).
  set (m0 := model_of ids atk (avar e) X) in *. exists (with_dead m0).
  assert (Hag : forall x, live_var e x -> with_dead m0 x = m0 x) by (intros x; apply with_dead_live).
  split; [|split].
  - apply vmodels_forall. intros c Hc. destruct (H5 c Hc) as [Hd|(a & Ha & Hin)]; [apply with_dead_clause, Hd|].
    apply ids_has in Ha. rewrite (group_co a Hs) in Hin.
    pose proof (co_group_agree (with_dead m0) m0 a Hs Ha Hag (M2 a Ha) (M1 a Ha)) as Hg.
    apply (proj1 (vmodels_forall _ _) Hg c Hin).
  - intros x Hx. destruct (assum_sel x Hx) as (a & Ha & ->). rewrite vtrue_zlit by apply svar_pos.
    rewrite (Hag _ (lv_sel a Ha)). apply M2, Ha.
  - intros a Ha. rewrite (Hag _ (lv_av a Ha)). apply M3, Ha.
Qed.

Theorem bridge_complete_st X :
  e_sem e = DST -> st F X ->
  exists m : val, vmodels m C = true /\ (forall x, In x (e_assum e) -> vtrue m x = true) /\
                  forall a, In a ids -> (m (avar e a) = true <-> In a X).
Proof.
  intros Hs HX. apply (proj2 (ext_af_equiv ST _ _ _ bridge_equiv)) in HX. cbn [ext] in HX.
  destruct (st_template_complete ids atk atk_live (avar e) (svar e) avar_pos svar_pos av_inj sel_av X HX)
    as (M1 & M2 & M3).
  set (m0 := st_model_of ids (avar e) X) in *. exists (with_dead m0).
  assert (Hag : forall x, live_var e x -> with_dead m0 x = m0 x) by (intros x; apply with_dead_live).
  split; [|split].
  - apply vmodels_forall. intros c Hc. destruct (H5 c Hc) as [Hd|(a & Ha & Hin)]; [apply with_dead_clause, Hd|].
    apply ids_has in Ha. rewrite (group_st a Hs) in Hin.
    pose proof (st_group_agree (with_dead m0) m0 a Ha Hag (M2 a Ha) (M1 a Ha)) as Hg.
    apply (proj1 (vmodels_forall _ _) Hg c Hin).
  - intros x Hx. destruct (assum_sel x Hx) as (a & Ha & ->). rewrite vtrue_zlit by apply svar_pos.
    rewrite (Hag _ (lv_sel a Ha)). apply M2, Ha.
  - intros a Ha. rewrite (Hag _ (lv_av a Ha)). apply M3, Ha.
Qed.

(* ---- both semantics at once *)
Definition esem : sem := if sem_st (e_sem e) then ST else CO.

Theorem bridge_sound (m : val) :
  vmodels m C = true -> (forall x, In x (e_assum e) -> vtrue m x = true) -> ext esem F (S_of ids (avar e) m).
Proof.
  intros Hm Ha. unfold esem. destruct (sem_st (e_sem e)) eqn:Es; cbn [ext].
  - apply bridge_sound_st; auto. now apply sem_st_true.
  - apply bridge_sound_co; auto. now apply sem_st_false.
Qed.
Theorem bridge_complete X : ext esem F X ->
  exists m : val, vmodels m C = true /\ (forall x, In x (e_assum e) -> vtrue m x = true) /\
                  forall a, In a ids -> (m (avar e a) = true <-> In a X).
Proof.
  unfold esem. destruct (sem_st (e_sem e)) eqn:Es; cbn [ext]; intros HX.
  - apply bridge_complete_st; auto. now apply sem_st_true.
  - apply bridge_complete_co; auto. now apply sem_st_false.
Qed.

(* ================================================================ Part B *)
(* ---- three-valued assignments: a model of the session assigns every live argument variable *)
Lemma lit_true_zlit (m : assignment) v : 0 < v -> (lit_true m (zlit v) = true <-> value_of m v = Some true).
Proof.
  intros Hv. unfold lit_true. rewrite lit_var_zlit. replace (0 <? zlit v)%Z with true by (unfold zlit; lia).
  destruct (value_of m v) as [[|]|]; split; congruence.
Qed.
Lemma lit_true_znlit (m : assignment) v : lit_true m (znlit v) = true <-> value_of m v = Some false.
Proof.
  unfold lit_true. rewrite lit_var_znlit. replace (0 <? znlit v)%Z with false by (unfold znlit; lia).
  destruct (value_of m v) as [[|]|]; cbn; split; congruence.
Qed.

Lemma models_in (m : assignment) c : models m C = true -> In c C -> exists l, In l c /\ lit_true m l = true.
Proof.
  intros Hm Hc. unfold models in Hm. rewrite forallb_forall in Hm. specialize (Hm c Hc).
  unfold sat_clause in Hm. apply existsb_exists in Hm. exact Hm.
Qed.

Lemma grp_in_C a c : In a ids -> In c (grp e a (atk a)) -> In c C.
Proof.
  intros Ha Hc. apply ids_has in Ha. apply (proj2 (H4 a Ha)). unfold group. destruct (e_sem e); [right| |right]; exact Hc.
Qed.

Theorem model_total (m : assignment) a :
  models m C = true -> (forall x, In x (e_assum e) -> lit_true m x = true) -> In a ids ->
  value_of m (avar e a) <> None.
Proof.
  intros Hm Hass Ha. pose proof (Hass _ (sel_assum a Ha)) as Hsel.
  apply (lit_true_zlit m _ (svar_pos a)) in Hsel.
  set (sl := svar e a) in *. set (tv := avar e a) in *. set (bs := map (avar e) (atk a)).
  destruct (sem_st (e_sem e)) eqn:Es.
  - apply sem_st_true in Es.
    assert (Hin : forall c, In c (st_clauses (zlit sl) tv bs) -> In c C).
    { intros c Hc. apply (grp_in_C a c Ha). unfold grp. rewrite Es. exact Hc. }
    destruct (models_in m _ Hm (Hin ([negate (zlit sl); zlit tv] ++ map zlit bs) ltac:(unfold st_clauses; apply in_or_app; right; left; reflexivity)))
      as (l & Hl & Hlt).
    cbn [app In] in Hl. destruct Hl as [<-|[<-|Hl]].
    + rewrite neg_zlit in Hlt. apply lit_true_znlit in Hlt. congruence.
    + apply (lit_true_zlit m tv (avar_pos a)) in Hlt. congruence.
    + apply in_map_iff in Hl. destruct Hl as (b & <- & Hb).
      assert (Hbp : 0 < b) by (unfold bs in Hb; apply in_map_iff in Hb; destruct Hb as (x & <- & _); apply avar_pos).
      apply (lit_true_zlit m b Hbp) in Hlt.
      destruct (models_in m _ Hm (Hin [negate (zlit sl); znlit tv; znlit b]
                  ltac:(unfold st_clauses; apply in_or_app; left; apply in_map_iff; exists b; auto)))
        as (l & Hl & Hlt').
      cbn [In] in Hl. destruct Hl as [<-|[<-|[<-|[]]]].
      * rewrite neg_zlit in Hlt'. apply lit_true_znlit in Hlt'. congruence.
      * apply lit_true_znlit in Hlt'. congruence.
      * apply lit_true_znlit in Hlt'. congruence.
  - apply sem_st_false in Es.
    assert (Hin : forall c, In c (co_clauses (zlit sl) tv bs) -> In c C).
    { intros c Hc. apply (grp_in_C a c Ha). unfold grp. destruct (e_sem e); try congruence; exact Hc. }
    destruct (models_in m _ Hm (Hin ([negate (zlit sl); zlit tv] ++ map (fun b => znlit (S b)) bs)
                ltac:(unfold co_clauses; apply in_or_app; right; apply in_or_app; left; left; reflexivity)))
      as (l & Hl & Hlt).
    cbn [app In] in Hl. destruct Hl as [<-|[<-|Hl]].
    + rewrite neg_zlit in Hlt. apply lit_true_znlit in Hlt. congruence.
    + apply (lit_true_zlit m tv (avar_pos a)) in Hlt. congruence.
    + apply in_map_iff in Hl. destruct Hl as (b & <- & Hb). apply lit_true_znlit in Hlt.
      destruct (models_in m _ Hm (Hin [negate (zlit sl); znlit tv; zlit (S b)]
                  ltac:(unfold co_clauses; apply in_or_app; left; apply in_map_iff; exists b; auto)))
        as (l & Hl & Hlt').
      cbn [In] in Hl. destruct Hl as [<-|[<-|[<-|[]]]].
      * rewrite neg_zlit in Hlt'. apply lit_true_znlit in Hlt'. congruence.
      * apply lit_true_znlit in Hlt'. congruence.
      * apply (lit_true_zlit m (S b)) in Hlt'; [congruence|lia].
Qed.

(* ---- decoding an assignment through the variable table *)
Hypothesis Hcv : conv e.

Lemma in_combine_seq {A} (m : list A) : forall s v o,
  In (v, o) (combine (seq s (length m)) m) <-> s <= v /\ nth_error m (v - s) = Some o.
Proof.
  induction m as [|x r IH]; intros s v o; cbn [length seq combine In].
  - split; [tauto|]. intros [_ H]. destruct (v - s); discriminate H.
  - rewrite IH. split.
    + intros [E|[K1 K2]].
      * injection E as <- <-. rewrite Nat.sub_diag. auto.
      * split; [lia|]. replace (v - s) with (S (v - S s)) by lia. exact K2.
    + intros [K1 K2]. destruct (Nat.eq_dec v s) as [->|Hne].
      * rewrite Nat.sub_diag in K2. injection K2 as <-. auto.
      * right. split; [lia|]. replace (v - s) with (S (v - S s)) in K2 by lia. exact K2.
Qed.

Lemma in_vars_where p (m : assignment) v :
  In v (vars_where p m) <-> 1 <= v /\ exists o, nth_error m (v - 1) = Some o /\ p o = true.
Proof.
  unfold vars_where. rewrite in_map_iff. split.
  - intros ([v' o] & <- & Hin). apply filter_In in Hin. destruct Hin as [Hin Hp]. cbn [fst snd] in *.
    apply in_combine_seq in Hin. destruct Hin as [K1 K2]. split; [exact K1|]. exists o. auto.
  - intros (K1 & o & K2 & Hp). exists (v, o). split; [reflexivity|]. apply filter_In. split; [|exact Hp].
    apply in_combine_seq. auto.
Qed.

Lemma value_of_nth_error (m : assignment) v o : nth_error m (v - 1) = Some o -> value_of m v = o.
Proof. intros H. unfold value_of. apply nth_error_nth. exact H. Qed.
Lemma value_of_some (m : assignment) v b : value_of m v = Some b -> nth_error m (v - 1) = Some (Some b).
Proof.
  unfold value_of. intros H. destruct (nth_error m (v - 1)) as [o|] eqn:E.
  - rewrite (nth_error_nth _ _ _ E) in H. congruence.
  - apply nth_error_None in E. rewrite nth_overflow in H by exact E. discriminate.
Qed.

Lemma var_to_arg_spec v id : var_to_arg (e_vars e) v = Some id <-> tbl_var (e_a2v e) id = Some v.
Proof.
  unfold var_to_arg. split.
  - destruct (nth_error (e_vars e) v) as [[i| | | |]|] eqn:E; try discriminate. intros [= ->]. apply Hcv, E.
  - intros H. rewrite (t_arg L af e Ht _ _ H). reflexivity.
Qed.

Lemma in_args_where p (m : assignment) id :
  In id (args_where p (e_vars e) m) -> In id ids /\ p (value_of m (avar e id)) = true.
Proof.
  unfold args_where. rewrite in_filter_map. intros (v & Hv & Hid). apply var_to_arg_spec in Hid.
  apply in_vars_where in Hv. destruct Hv as (_ & o & Ho & Hp). split.
  - apply ids_has, (t_live L af e Ht). congruence.
  - rewrite (avar_some e id v Hid), (value_of_nth_error m v o Ho). exact Hp.
Qed.

Lemma in_dyn_a2e (m : assignment) id :
  In id (dyn_a2e (e_vars e) m) <-> In id ids /\ val_of m (avar e id) = true.
Proof.
  split.
  - intros H. apply (in_args_where is_some_true m id) in H. destruct H as [K1 K2]. split; [exact K1|].
    unfold val_of, is_some_true in *. destruct (value_of m (avar e id)) as [[|]|]; congruence.
  - intros [K1 K2]. unfold dyn_a2e. apply in_filter_map. apply ids_has in K1.
    destruct (live_v id K1) as (v & Hv & Ev). exists v. split; [|apply var_to_arg_spec, Hv].
    apply in_vars_where. split; [rewrite <- Ev; apply avar_pos|]. exists (Some true). split; [|reflexivity].
    apply value_of_some. rewrite Ev in K2. unfold val_of in K2. destruct (value_of m v) as [[|]|]; congruence.
Qed.

Lemma dyn_a2e_seteq (m : assignment) : seteq (dyn_a2e (e_vars e) m) (S_of ids (avar e) (val_of m)).
Proof. intros id. rewrite in_dyn_a2e, in_S_of. reflexivity. Qed.

(* ---- what a valid answer means *)
Lemma valid_sat_facts (m : assignment) (extra : lit) :
  models m C = true -> forallb (lit_true m) (e_assum e ++ [extra]) = true ->
  ext esem F (dyn_a2e (e_vars e) m) /\ NoDup (dyn_a2e (e_vars e) m) /\ incl (dyn_a2e (e_vars e) m) ids /\
  (forall a, In a ids -> value_of m (avar e a) <> None) /\ lit_true m extra = true.
Proof.
  intros Hm Ha. rewrite forallb_app in Ha. apply andb_true_iff in Ha. destruct Ha as [Ha He].
  cbn [forallb] in He. rewrite andb_true_r in He. rewrite forallb_forall in Ha.
  split; [|split; [|split; [|split]]].
  - apply (ext_seteq esem F _ _ (seteq_sym _ _ (dyn_a2e_seteq m))).
    apply bridge_sound; [apply models_vmodels, Hm|]. intros x Hx. apply lit_true_vtrue, Ha, Hx.
  - apply (dyn_a2e_wf L af e m Ht Hcv).
  - intros id Hid. apply in_dyn_a2e in Hid. tauto.
  - intros a Hi. apply model_total; auto.
  - exact He.
Qed.

Lemma valid_unsat_facts (extra : lit) X :
  (forall v : val, vmodels v C = true -> forallb (vtrue v) (e_assum e ++ [extra]) = true -> False) ->
  ext esem F X -> forall m : val, (forall a, In a ids -> (m (avar e a) = true <-> In a X)) -> vmodels m C = true ->
  (forall x, In x (e_assum e) -> vtrue m x = true) -> vtrue m extra = false.
Proof.
  intros Hu HX m Hm1 Hm2 Hm3. destruct (vtrue m extra) eqn:E; [exfalso|reflexivity].
  apply (Hu m Hm2). rewrite forallb_app. apply andb_true_iff. split.
  - apply forallb_forall. exact Hm3.
  - cbn [forallb]. now rewrite E.
Qed.

End Bridge.

End DynFun.
