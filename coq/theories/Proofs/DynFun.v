(* The functional theorem of C08 / C09 for the dynamic complete and stable solvers (standard encoder):
   after any history, every answer - computed by a SAT call or served from the cache - is the answer
   the semantics dictate for the specification store of the whole history, certificates included.
   Part A: from the clause-set invariant (DynFunDefs.clause_inv) + the table invariant + the template
           theorems (DynEnc.v) to "the models of the session under the current assumptions are the
           complete / stable extensions of the current framework".
   Part B: decoding of assignments (certificates, cache lists).
   Part C: the cache invariant over histories.   Part D: the theorems. *)
From Crusta Require Import Model.Dynamic Spec.SemFacts Spec.Invariance Proofs.ProgLaws Proofs.StoreBase Proofs.StoreProofs
  Proofs.EncBase Proofs.SolverBasics Proofs.DynDefs Proofs.DynBase Proofs.DynProofs Proofs.DynEnc Proofs.DynSafe
  Proofs.DynStore Proofs.DynFunDefs Proofs.DynInv Proofs.CompProofs Proofs.TopMax.
From Coq Require Import Lia ZifyBool.

Section DynFun.
Variable L : Type.
Variable leqb : L -> L -> bool.
Hypothesis leqb_spec : forall x y, leqb x y = true <-> x = y.

Notation fw := (fw L).
Notation Inv := (Inv L).
Notation get_argument := (get_argument L leqb).
Notation iter_attacks := (iter_attacks L).
Notation has := (has_argument_with_id L).

(* ================================================================ Part A *)
Section Bridge.
Variable af : fw.
Variable e : denc.
Variable C : cnf.
Variable dv : nat -> option bool.
Variable atk : nat -> list nat.
Hypothesis Ht : tables_ok L af e.
Hypothesis Hinv : Inv af.
Hypothesis Hz : vz e.
(* the clause-set invariant, opened *)
Hypothesis H2 : forall x, live_var e x -> dv x = None.
Hypothesis H3 : forall a, has af a = true -> tbl_var (e_a2s e) a <> None.
Hypothesis H4 : forall a, has af a = true ->
  (forall b, In b (atk a) <-> attacks_of L af b a) /\ incl (group e a (atk a)) C.
Hypothesis H5 : forall c, In c C -> dead_clause dv c \/ exists a, has af a = true /\ In c (group e a (atk a)).

Let ids := live_ids L af.
Let F := @af_of L af.

Lemma ids_has a : In a ids <-> has af a = true.
Proof. symmetry. apply (has_live_ids L af a Hinv). Qed.

Lemma live_v a : has af a = true -> exists v, tbl_var (e_a2v e) a = Some v /\ avar e a = v.
Proof.
  intros Ha. apply (t_live L af e Ht) in Ha. destruct (tbl_var (e_a2v e) a) as [v|] eqn:E; [|congruence].
  exists v. split; [reflexivity|]. apply (avar_some e a v E).
Qed.
Lemma live_s a : has af a = true -> exists s, tbl_var (e_a2s e) a = Some s /\ svar e a = s.
Proof.
  intros Ha. apply H3 in Ha. destruct (tbl_var (e_a2s e) a) as [s|] eqn:E; [|congruence].
  exists s. split; [reflexivity|]. apply (svar_some e a s E).
Qed.

Lemma avar_pos a : 0 < avar e a.
Proof.
  unfold avar. destruct (tbl_var (e_a2v e) a) as [v|] eqn:E; [|lia].
  destruct v; [|lia]. pose proof (t_arg L af e Ht _ _ E) as H. unfold vz in Hz. congruence.
Qed.
Lemma svar_pos a : 0 < svar e a.
Proof.
  unfold svar. destruct (tbl_var (e_a2s e) a) as [v|] eqn:E; [|lia].
  destruct v; [|lia]. pose proof (t_sel L af e Ht _ _ E) as H. unfold vz in Hz. congruence.
Qed.

Lemma atk_live a b : In a ids -> In b (atk a) -> In b ids.
Proof.
  intros Ha Hb. apply ids_has in Ha. apply (proj1 (H4 a Ha)) in Hb.
  apply ids_has. exact (proj1 (attack_live L af b a Hinv Hb)).
Qed.

Lemma bridge_equiv : af_equiv (tF ids atk) F.
Proof.
  split; [intros a; reflexivity|]. intros b a. rewrite tF_att. unfold att, F, af_of. cbn [atts]. split.
  - intros [Ha Hb]. apply ids_has in Ha. apply (proj1 (H4 a Ha)). exact Hb.
  - intros Hin. destruct (attack_live L af b a Hinv Hin) as [_ Ha]. split; [apply ids_has, Ha|].
    apply (proj1 (H4 a Ha)). exact Hin.
Qed.

(* the variables in use are pairwise distinct *)
Lemma av_inj a b : In a ids -> In b ids -> avar e a = avar e b -> a = b.
Proof.
  intros Ha Hb E. apply ids_has in Ha, Hb. destruct (live_v a Ha) as (v & Hv & Ev), (live_v b Hb) as (w & Hw & Ew).
  destruct (tables_distinct L af e Ht) as (D1 & _). apply (D1 a b v); congruence.
Qed.
Lemma sel_av a b : In a ids -> In b ids -> svar e a <> avar e b.
Proof.
  intros Ha Hb E. apply ids_has in Ha, Hb. destruct (live_s a Ha) as (v & Hv & Ev), (live_v b Hb) as (w & Hw & Ew).
  destruct (tables_distinct L af e Ht) as (_ & _ & D3 & _). apply (D3 b a w v Hw Hv). congruence.
Qed.
Lemma av_disj a b : e_sem e <> DST -> In a ids -> In b ids -> avar e a <> S (avar e b).
Proof.
  intros Hs Ha Hb E. apply ids_has in Ha, Hb. destruct (live_v a Ha) as (v & Hv & Ev), (live_v b Hb) as (w & Hw & Ew).
  destruct (tables_distinct L af e Ht) as (_ & _ & _ & D4 & _). apply (D4 Hs b a w v Hw Hv). congruence.
Qed.
Lemma sel_disj a b : e_sem e <> DST -> In a ids -> In b ids -> svar e a <> S (avar e b).
Proof.
  intros Hs Ha Hb E. apply ids_has in Ha, Hb. destruct (live_s a Ha) as (v & Hv & Ev), (live_v b Hb) as (w & Hw & Ew).
  destruct (tables_distinct L af e Ht) as (_ & _ & _ & _ & D5 & _). apply (D5 Hs b a w v Hw Hv). congruence.
Qed.

(* liveness of the variables a group mentions *)
Lemma lv_av a : In a ids -> live_var e (avar e a).
Proof. intros Ha. apply ids_has in Ha. destruct (live_v a Ha) as (v & Hv & <-). left. eauto. Qed.
Lemma lv_disj a : e_sem e <> DST -> In a ids -> live_var e (S (avar e a)).
Proof.
  intros Hs Ha. apply ids_has in Ha. destruct (live_v a Ha) as (v & Hv & Ev). right. left. split; [exact Hs|].
  exists a, v. split; [exact Hv|congruence].
Qed.
Lemma lv_sel a : In a ids -> live_var e (svar e a).
Proof. intros Ha. apply ids_has in Ha. destruct (live_s a Ha) as (v & Hv & <-). right. right. eauto. Qed.

Lemma assum_sel x : In x (e_assum e) -> exists a, In a ids /\ x = zlit (svar e a).
Proof.
  intros Hx. apply (t_assum L af e Ht) in Hx. destruct Hx as (a & s & Hs & ->). exists a. split.
  - apply ids_has. apply (t_live L af e Ht), (t_sel_live L af e Ht). congruence.
  - now rewrite (svar_some e a s Hs).
Qed.
Lemma sel_assum a : In a ids -> In (zlit (svar e a)) (e_assum e).
Proof.
  intros Ha. apply ids_has in Ha. destruct (live_s a Ha) as (s & Hs & ->). apply (t_assum L af e Ht). eauto.
Qed.

Lemma sel_true (m : val) : (forall x, In x (e_assum e) -> vtrue m x = true) -> forall a, In a ids -> m (svar e a) = true.
Proof. intros Hm a Ha. specialize (Hm _ (sel_assum a Ha)). rewrite vtrue_zlit in Hm by apply svar_pos. exact Hm. Qed.

Lemma group_co a : e_sem e <> DST -> group e a (atk a) = co_group atk (avar e) (svar e) a.
Proof. intros Hs. unfold group, grp, co_group. destruct (e_sem e); try congruence; reflexivity. Qed.
Lemma group_st a : e_sem e = DST -> group e a (atk a) = st_group atk (avar e) (svar e) a.
Proof. intros Hs. unfold group, grp, st_group. rewrite Hs. reflexivity. Qed.

Lemma group_models (m : val) a : vmodels m C = true -> In a ids -> vmodels m (group e a (atk a)) = true.
Proof.
  intros Hm Ha. apply ids_has in Ha. apply vmodels_forall. intros c Hc.
  apply (proj1 (vmodels_forall m C) Hm). apply (proj2 (H4 a Ha)). exact Hc.
Qed.

(* ---- soundness: a model of the session under the assumptions decodes to an extension *)
Theorem bridge_sound_co (m : val) :
  e_sem e <> DST -> vmodels m C = true -> (forall x, In x (e_assum e) -> vtrue m x = true) ->
  co F (S_of ids (avar e) m).
Proof.
  intros Hs Hm Ha. apply (proj1 (ext_af_equiv CO _ _ _ bridge_equiv)). cbn [ext].
  apply (co_template_sound ids atk atk_live (avar e) (svar e) avar_pos svar_pos m (sel_true m Ha)).
  intros a Hi. rewrite <- (group_co a Hs). apply group_models; assumption.
Qed.
Theorem bridge_sound_st (m : val) :
  e_sem e = DST -> vmodels m C = true -> (forall x, In x (e_assum e) -> vtrue m x = true) ->
  st F (S_of ids (avar e) m).
Proof.
  intros Hs Hm Ha. apply (proj1 (ext_af_equiv ST _ _ _ bridge_equiv)). cbn [ext].
  apply (st_template_sound ids atk atk_live (avar e) (svar e) avar_pos svar_pos m (sel_true m Ha)).
  intros a Hi. rewrite <- (group_st a Hs). apply group_models; assumption.
Qed.

(* ---- completeness: every extension has a model of the WHOLE session under the assumptions: the
   canonical model of the template theorem on the live variables, the forced values on the dead ones *)
Definition with_dead (m0 : val) : val := fun x => match dv x with Some b => b | None => m0 x end.

Lemma with_dead_live m0 x : live_var e x -> with_dead m0 x = m0 x.
Proof. intros Hx. unfold with_dead. now rewrite (H2 x Hx). Qed.

Lemma with_dead_clause m0 c : dead_clause dv c -> vsat_clause (with_dead m0) c = true.
Proof.
  intros (l & Hl & Hd). apply vsat_exists. exists l. split; [exact Hl|].
  unfold dead_lit in Hd. unfold vtrue, with_dead in *. destruct (dv (lit_var l)) as [b|]; [exact Hd|destruct Hd].
Qed.

Lemma co_group_agree (m m0 : val) a :
  e_sem e <> DST -> In a ids -> (forall x, live_var e x -> m x = m0 x) -> m0 (svar e a) = true ->
  vmodels m0 (co_group atk (avar e) (svar e) a) = true -> vmodels m (co_group atk (avar e) (svar e) a) = true.
Proof.
  intros Hs Ha Hag Hsel H0. unfold co_group in *. apply vmodels_cons_iff in H0. destruct H0 as [Hb H0].
  assert (Ea : m (avar e a) = m0 (avar e a)) by (apply Hag, lv_av, Ha).
  assert (Ed : m (S (avar e a)) = m0 (S (avar e a))) by (apply Hag, lv_disj; assumption).
  assert (Es : m (svar e a) = true) by (rewrite (Hag _ (lv_sel a Ha)); exact Hsel).
  assert (Eb : forall b, In b (atk a) -> m (avar e b) = m0 (avar e b) /\ m (S (avar e b)) = m0 (S (avar e b))).
  { intros b Hb'. pose proof (atk_live a b Ha Hb') as Hbi. split; apply Hag; [apply lv_av|apply lv_disj]; assumption. }
  apply vmodels_cons_iff. split.
  - rewrite vsat_binary, !vtrue_znlit in *. rewrite Ea, Ed. exact Hb.
  - apply (co_clauses_spec (avar e) avar_pos m0 (svar e a) (avar e a) (atk a) (svar_pos a) (avar_pos a) Hsel) in H0.
    apply (co_clauses_spec (avar e) avar_pos m (svar e a) (avar e a) (atk a) (svar_pos a) (avar_pos a) Es).
    destruct H0 as (K1 & K2 & K3 & K4). rewrite Ea, Ed. repeat split.
    + intros b Hb' Hv. rewrite (proj2 (Eb b Hb')). auto.
    + destruct K2 as [K2|(b & Hb' & K2)]; [left; exact K2|right]. exists b. split; [exact Hb'|].
      rewrite (proj2 (Eb b Hb')). exact K2.
    + intros b Hb' Hv. rewrite (proj1 (Eb b Hb')) in Hv. eauto.
    + intros Hd. destruct (K4 Hd) as (b & Hb' & K). exists b. split; [exact Hb'|]. rewrite (proj1 (Eb b Hb')). exact K.
Qed.

Lemma st_group_agree (m m0 : val) a :
  In a ids -> (forall x, live_var e x -> m x = m0 x) -> m0 (svar e a) = true ->
  vmodels m0 (st_group atk (avar e) (svar e) a) = true -> vmodels m (st_group atk (avar e) (svar e) a) = true.
Proof.
  intros Ha Hag Hsel H0. unfold st_group in *.
  assert (Ea : m (avar e a) = m0 (avar e a)) by (apply Hag, lv_av, Ha).
  assert (Es : m (svar e a) = true) by (rewrite (Hag _ (lv_sel a Ha)); exact Hsel).
  assert (Eb : forall b, In b (atk a) -> m (avar e b) = m0 (avar e b)).
  { intros b Hb'. apply Hag, lv_av. eapply atk_live; eassumption. }
  apply (st_clauses_spec (avar e) avar_pos m0 (svar e a) (avar e a) (atk a) (svar_pos a) (avar_pos a) Hsel) in H0.
  apply (st_clauses_spec (avar e) avar_pos m (svar e a) (avar e a) (atk a) (svar_pos a) (avar_pos a) Es).
  destruct H0 as (K1 & K2). rewrite Ea. split.
  - intros b Hb' Hv Hvb. rewrite (Eb b Hb') in Hvb. eauto.
  - destruct K2 as [K2|(b & Hb' & K2)]; [left; exact K2|right]. exists b. split; [exact Hb'|]. rewrite (Eb b Hb'). exact K2.
Qed.

Theorem bridge_complete_co X :
  e_sem e <> DST -> co F X ->
  exists m : val, vmodels m C = true /\ (forall x, In x (e_assum e) -> vtrue m x = true) /\
                  forall a, In a ids -> (m (avar e a) = true <-> In a X).
Proof.
  intros Hs HX. apply (proj2 (ext_af_equiv CO _ _ _ bridge_equiv)) in HX. cbn [ext] in HX.
  destruct (co_template_complete ids atk atk_live (avar e) (svar e) avar_pos svar_pos av_inj
              (fun a b => av_disj a b Hs) sel_av (fun a b => sel_disj a b Hs) X HX) as (M1 & M2 & M3).
  set (m0 := model_of ids atk (avar e) X) in *. exists (with_dead m0).
  assert (Hag : forall x, live_var e x -> with_dead m0 x = m0 x) by (intros x; apply with_dead_live).
  split; [|split].
  - apply vmodels_forall. intros c Hc. destruct (H5 c Hc) as [Hd|(a & Ha & Hin)]; [apply with_dead_clause, Hd|].
    apply ids_has in Ha. rewrite (group_co a Hs) in Hin.
    pose proof (co_group_agree (with_dead m0) m0 a Hs Ha Hag (M2 a Ha) (M1 a Ha)) as Hg.
    apply (proj1 (vmodels_forall _ _) Hg c Hin).
  - intros x Hx. destruct (assum_sel x Hx) as (a & Ha & ->). rewrite vtrue_zlit by apply svar_pos.
    rewrite (Hag _ (lv_sel a Ha)). apply M2, Ha.
  - intros a Ha. rewrite (Hag _ (lv_av a Ha)). apply M3, Ha.
Qed.

Theorem bridge_complete_st X :
  e_sem e = DST -> st F X ->
  exists m : val, vmodels m C = true /\ (forall x, In x (e_assum e) -> vtrue m x = true) /\
                  forall a, In a ids -> (m (avar e a) = true <-> In a X).
Proof.
  intros Hs HX. apply (proj2 (ext_af_equiv ST _ _ _ bridge_equiv)) in HX. cbn [ext] in HX.
  destruct (st_template_complete ids atk atk_live (avar e) (svar e) avar_pos svar_pos av_inj sel_av X HX)
    as (M1 & M2 & M3).
  set (m0 := st_model_of ids (avar e) X) in *. exists (with_dead m0).
  assert (Hag : forall x, live_var e x -> with_dead m0 x = m0 x) by (intros x; apply with_dead_live).
  split; [|split].
  - apply vmodels_forall. intros c Hc. destruct (H5 c Hc) as [Hd|(a & Ha & Hin)]; [apply with_dead_clause, Hd|].
    apply ids_has in Ha. rewrite (group_st a Hs) in Hin.
    pose proof (st_group_agree (with_dead m0) m0 a Ha Hag (M2 a Ha) (M1 a Ha)) as Hg.
    apply (proj1 (vmodels_forall _ _) Hg c Hin).
  - intros x Hx. destruct (assum_sel x Hx) as (a & Ha & ->). rewrite vtrue_zlit by apply svar_pos.
    rewrite (Hag _ (lv_sel a Ha)). apply M2, Ha.
  - intros a Ha. rewrite (Hag _ (lv_av a Ha)). apply M3, Ha.
Qed.

(* ---- both semantics at once *)
Definition esem : sem := if sem_st (e_sem e) then ST else CO.

Theorem bridge_sound (m : val) :
  vmodels m C = true -> (forall x, In x (e_assum e) -> vtrue m x = true) -> ext esem F (S_of ids (avar e) m).
Proof.
  intros Hm Ha. unfold esem. destruct (sem_st (e_sem e)) eqn:Es; cbn [ext].
  - apply bridge_sound_st; auto. now apply sem_st_true.
  - apply bridge_sound_co; auto. now apply sem_st_false.
Qed.
Theorem bridge_complete X : ext esem F X ->
  exists m : val, vmodels m C = true /\ (forall x, In x (e_assum e) -> vtrue m x = true) /\
                  forall a, In a ids -> (m (avar e a) = true <-> In a X).
Proof.
  unfold esem. destruct (sem_st (e_sem e)) eqn:Es; cbn [ext]; intros HX.
  - apply bridge_complete_st; auto. now apply sem_st_true.
  - apply bridge_complete_co; auto. now apply sem_st_false.
Qed.

(* ================================================================ Part B *)
(* ---- three-valued assignments: a model of the session assigns every live argument variable *)
Lemma lit_true_zlit (m : assignment) v : 0 < v -> (lit_true m (zlit v) = true <-> value_of m v = Some true).
Proof.
  intros Hv. unfold lit_true. rewrite lit_var_zlit. replace (0 <? zlit v)%Z with true by (unfold zlit; lia).
  destruct (value_of m v) as [[|]|]; split; congruence.
Qed.
Lemma lit_true_znlit (m : assignment) v : lit_true m (znlit v) = true <-> value_of m v = Some false.
Proof.
  unfold lit_true. rewrite lit_var_znlit. replace (0 <? znlit v)%Z with false by (unfold znlit; lia).
  destruct (value_of m v) as [[|]|]; cbn; split; congruence.
Qed.

Lemma models_in (m : assignment) c : models m C = true -> In c C -> exists l, In l c /\ lit_true m l = true.
Proof.
  intros Hm Hc. unfold models in Hm. rewrite forallb_forall in Hm. specialize (Hm c Hc).
  unfold sat_clause in Hm. apply existsb_exists in Hm. exact Hm.
Qed.

Lemma grp_in_C a c : In a ids -> In c (grp e a (atk a)) -> In c C.
Proof.
  intros Ha Hc. apply ids_has in Ha. apply (proj2 (H4 a Ha)). unfold group. destruct (e_sem e); [right| |right]; exact Hc.
Qed.

Theorem model_total (m : assignment) a :
  models m C = true -> (forall x, In x (e_assum e) -> lit_true m x = true) -> In a ids ->
  value_of m (avar e a) <> None.
Proof.
  intros Hm Hass Ha. pose proof (Hass _ (sel_assum a Ha)) as Hsel.
  apply (lit_true_zlit m _ (svar_pos a)) in Hsel.
  set (sl := svar e a) in *. set (tv := avar e a) in *. set (bs := map (avar e) (atk a)).
  destruct (sem_st (e_sem e)) eqn:Es.
  - apply sem_st_true in Es.
    assert (Hin : forall c, In c (st_clauses (zlit sl) tv bs) -> In c C).
    { intros c Hc. apply (grp_in_C a c Ha). unfold grp. rewrite Es. exact Hc. }
    destruct (models_in m _ Hm (Hin ([negate (zlit sl); zlit tv] ++ map zlit bs) ltac:(unfold st_clauses; apply in_or_app; right; left; reflexivity)))
      as (l & Hl & Hlt).
    cbn [app In] in Hl. destruct Hl as [<-|[<-|Hl]].
    + rewrite neg_zlit in Hlt. apply lit_true_znlit in Hlt. congruence.
    + apply (lit_true_zlit m tv (avar_pos a)) in Hlt. congruence.
    + apply in_map_iff in Hl. destruct Hl as (b & <- & Hb).
      assert (Hbp : 0 < b) by (unfold bs in Hb; apply in_map_iff in Hb; destruct Hb as (x & <- & _); apply avar_pos).
      apply (lit_true_zlit m b Hbp) in Hlt.
      destruct (models_in m _ Hm (Hin [negate (zlit sl); znlit tv; znlit b]
                  ltac:(unfold st_clauses; apply in_or_app; left; apply in_map_iff; exists b; auto)))
        as (l & Hl & Hlt').
      cbn [In] in Hl. destruct Hl as [<-|[<-|[<-|[]]]].
      * rewrite neg_zlit in Hlt'. apply lit_true_znlit in Hlt'. congruence.
      * apply lit_true_znlit in Hlt'. congruence.
      * apply lit_true_znlit in Hlt'. congruence.
  - apply sem_st_false in Es.
    assert (Hin : forall c, In c (co_clauses (zlit sl) tv bs) -> In c C).
    { intros c Hc. apply (grp_in_C a c Ha). unfold grp. destruct (e_sem e); try congruence; exact Hc. }
    destruct (models_in m _ Hm (Hin ([negate (zlit sl); zlit tv] ++ map (fun b => znlit (S b)) bs)
                ltac:(unfold co_clauses; apply in_or_app; right; apply in_or_app; left; left; reflexivity)))
      as (l & Hl & Hlt).
    cbn [app In] in Hl. destruct Hl as [<-|[<-|Hl]].
    + rewrite neg_zlit in Hlt. apply lit_true_znlit in Hlt. congruence.
    + apply (lit_true_zlit m tv (avar_pos a)) in Hlt. congruence.
    + apply in_map_iff in Hl. destruct Hl as (b & <- & Hb). apply lit_true_znlit in Hlt.
      destruct (models_in m _ Hm (Hin [negate (zlit sl); znlit tv; zlit (S b)]
                  ltac:(unfold co_clauses; apply in_or_app; left; apply in_map_iff; exists b; auto)))
        as (l & Hl & Hlt').
      cbn [In] in Hl. destruct Hl as [<-|[<-|[<-|[]]]].
      * rewrite neg_zlit in Hlt'. apply lit_true_znlit in Hlt'. congruence.
      * apply lit_true_znlit in Hlt'. congruence.
      * apply (lit_true_zlit m (S b)) in Hlt'; [congruence|lia].
Qed.

(* ---- decoding an assignment through the variable table *)
Hypothesis Hcv : conv e.

Lemma in_combine_seq {A} (m : list A) : forall s v o,
  In (v, o) (combine (seq s (length m)) m) <-> s <= v /\ nth_error m (v - s) = Some o.
Proof.
  induction m as [|x r IH]; intros s v o; cbn [length seq combine In].
  - split; [tauto|]. intros [_ H]. destruct (v - s); discriminate H.
  - rewrite IH. split.
    + intros [E|[K1 K2]].
      * injection E as <- <-. rewrite Nat.sub_diag. auto.
      * split; [lia|]. replace (v - s) with (S (v - S s)) by lia. exact K2.
    + intros [K1 K2]. destruct (Nat.eq_dec v s) as [->|Hne].
      * rewrite Nat.sub_diag in K2. injection K2 as <-. auto.
      * right. split; [lia|]. replace (v - s) with (S (v - S s)) in K2 by lia. exact K2.
Qed.

Lemma in_vars_where p (m : assignment) v :
  In v (vars_where p m) <-> 1 <= v /\ exists o, nth_error m (v - 1) = Some o /\ p o = true.
Proof.
  unfold vars_where. rewrite in_map_iff. split.
  - intros ([v' o] & <- & Hin). apply filter_In in Hin. destruct Hin as [Hin Hp]. cbn [fst snd] in *.
    apply in_combine_seq in Hin. destruct Hin as [K1 K2]. split; [exact K1|]. exists o. auto.
  - intros (K1 & o & K2 & Hp). exists (v, o). split; [reflexivity|]. apply filter_In. split; [|exact Hp].
    apply in_combine_seq. auto.
Qed.

Lemma value_of_nth_error (m : assignment) v o : nth_error m (v - 1) = Some o -> value_of m v = o.
Proof. intros H. unfold value_of. apply nth_error_nth. exact H. Qed.
Lemma value_of_some (m : assignment) v b : value_of m v = Some b -> nth_error m (v - 1) = Some (Some b).
Proof.
  unfold value_of. intros H. destruct (nth_error m (v - 1)) as [o|] eqn:E.
  - rewrite (nth_error_nth _ _ _ E) in H. congruence.
  - apply nth_error_None in E. rewrite nth_overflow in H by exact E. discriminate.
Qed.

Lemma var_to_arg_spec v id : var_to_arg (e_vars e) v = Some id <-> tbl_var (e_a2v e) id = Some v.
Proof.
  unfold var_to_arg. split.
  - destruct (nth_error (e_vars e) v) as [[i| | | |]|] eqn:E; try discriminate. intros [= ->]. apply Hcv, E.
  - intros H. rewrite (t_arg L af e Ht _ _ H). reflexivity.
Qed.

Lemma in_args_where p (m : assignment) id :
  In id (args_where p (e_vars e) m) -> In id ids /\ p (value_of m (avar e id)) = true.
Proof.
  unfold args_where. rewrite in_filter_map. intros (v & Hv & Hid). apply var_to_arg_spec in Hid.
  apply in_vars_where in Hv. destruct Hv as (_ & o & Ho & Hp). split.
  - apply ids_has, (t_live L af e Ht). congruence.
  - rewrite (avar_some e id v Hid), (value_of_nth_error m v o Ho). exact Hp.
Qed.

Lemma in_dyn_a2e (m : assignment) id :
  In id (dyn_a2e (e_vars e) m) <-> In id ids /\ val_of m (avar e id) = true.
Proof.
  split.
  - intros H. apply (in_args_where is_some_true m id) in H. destruct H as [K1 K2]. split; [exact K1|].
    unfold val_of, is_some_true in *. destruct (value_of m (avar e id)) as [[|]|]; congruence.
  - intros [K1 K2]. unfold dyn_a2e. apply in_filter_map. apply ids_has in K1.
    destruct (live_v id K1) as (v & Hv & Ev). exists v. split; [|apply var_to_arg_spec, Hv].
    apply in_vars_where. split; [rewrite <- Ev; apply avar_pos|]. exists (Some true). split; [|reflexivity].
    apply value_of_some. rewrite Ev in K2. unfold val_of in K2. destruct (value_of m v) as [[|]|]; congruence.
Qed.

Lemma dyn_a2e_seteq (m : assignment) : seteq (dyn_a2e (e_vars e) m) (S_of ids (avar e) (val_of m)).
Proof. intros id. rewrite in_dyn_a2e, in_S_of. reflexivity. Qed.

(* ---- what a valid answer means *)
Lemma valid_sat_facts (m : assignment) (extra : lit) :
  models m C = true -> forallb (lit_true m) (e_assum e ++ [extra]) = true ->
  ext esem F (dyn_a2e (e_vars e) m) /\ NoDup (dyn_a2e (e_vars e) m) /\ incl (dyn_a2e (e_vars e) m) ids /\
  (forall a, In a ids -> value_of m (avar e a) <> None) /\ lit_true m extra = true.
Proof.
  intros Hm Ha. rewrite forallb_app in Ha. apply andb_true_iff in Ha. destruct Ha as [Ha He].
  cbn [forallb] in He. rewrite andb_true_r in He. rewrite forallb_forall in Ha.
  split; [|split; [|split; [|split]]].
  - apply (ext_seteq esem F _ _ (seteq_sym _ _ (dyn_a2e_seteq m))).
    apply bridge_sound; [apply models_vmodels, Hm|]. intros x Hx. apply lit_true_vtrue, Ha, Hx.
  - apply (dyn_a2e_wf L af e m Ht Hcv).
  - intros id Hid. apply in_dyn_a2e in Hid. tauto.
  - intros a Hi. apply model_total; auto.
  - exact He.
Qed.

Lemma valid_unsat_facts (extra : lit) X :
  (forall v : val, vmodels v C = true -> forallb (vtrue v) (e_assum e ++ [extra]) = true -> False) ->
  ext esem F X -> forall m : val, (forall a, In a ids -> (m (avar e a) = true <-> In a X)) -> vmodels m C = true ->
  (forall x, In x (e_assum e) -> vtrue m x = true) -> vtrue m extra = false.
Proof.
  intros Hu HX m Hm1 Hm2 Hm3. destruct (vtrue m extra) eqn:E; [exfalso|reflexivity].
  apply (Hu m Hm2). rewrite forallb_app. apply andb_true_iff. split.
  - apply forallb_forall. exact Hm3.
  - cbn [forallb]. now rewrite E.
Qed.

(* ---- the four outcomes of a SAT call of the complete / stable solver *)
Lemma sat_cred (m : assignment) id v :
  models m C = true -> forallb (lit_true m) (e_assum e ++ [zlit v]) = true ->
  In id ids -> tbl_var (e_a2v e) id = Some v ->
  ext esem F (dyn_a2e (e_vars e) m) /\ NoDup (dyn_a2e (e_vars e) m) /\ incl (dyn_a2e (e_vars e) m) ids /\
  In id (dyn_a2e (e_vars e) m) /\
  (forall i, In i (args_where not_some_false (e_vars e) m) -> In i (dyn_a2e (e_vars e) m)).
Proof.
  intros Hm Ha Hid Hv. destruct (valid_sat_facts m (zlit v) Hm Ha) as (K1 & K2 & K3 & K4 & K5).
  split; [exact K1|]. split; [exact K2|]. split; [exact K3|]. split.
  - apply in_dyn_a2e. split; [exact Hid|]. rewrite (avar_some e id v Hv).
    assert (Hp : 0 < v) by (rewrite <- (avar_some e id v Hv); apply avar_pos).
    apply (lit_true_zlit m v Hp) in K5. unfold val_of. now rewrite K5.
  - intros i Hi. apply in_args_where in Hi. destruct Hi as [Hi Hp]. apply in_dyn_a2e. split; [exact Hi|].
    specialize (K4 i Hi). unfold val_of, not_some_false in *. destruct (value_of m (avar e i)) as [[|]|]; congruence.
Qed.

Lemma unsat_cred id v :
  (forall w : val, vmodels w C = true -> forallb (vtrue w) (e_assum e ++ [zlit v]) = true -> False) ->
  In id ids -> tbl_var (e_a2v e) id = Some v -> ~ cred esem F [id].
Proof.
  intros Hu Hid Hv (X & HX & a & [<-|[]] & Ha).
  destruct (bridge_complete X HX) as (m & M1 & M2 & M3).
  pose proof (valid_unsat_facts (zlit v) X Hu HX m M3 M1 M2) as Hf.
  assert (Hp : 0 < v) by (rewrite <- (avar_some e id v Hv); apply avar_pos).
  rewrite vtrue_zlit in Hf by exact Hp. rewrite <- (avar_some e id v Hv) in Hf.
  rewrite (proj2 (M3 id Hid) Ha) in Hf. discriminate.
Qed.

Lemma sat_skep (m : assignment) id v :
  models m C = true -> forallb (lit_true m) (e_assum e ++ [znlit v]) = true ->
  In id ids -> tbl_var (e_a2v e) id = Some v ->
  ext esem F (dyn_a2e (e_vars e) m) /\ NoDup (dyn_a2e (e_vars e) m) /\ incl (dyn_a2e (e_vars e) m) ids /\
  ~ In id (dyn_a2e (e_vars e) m) /\
  (forall i, In i (args_where not_some_true (e_vars e) m) -> ~ In i (dyn_a2e (e_vars e) m)).
Proof.
  intros Hm Ha Hid Hv. destruct (valid_sat_facts m (znlit v) Hm Ha) as (K1 & K2 & K3 & K4 & K5).
  split; [exact K1|]. split; [exact K2|]. split; [exact K3|]. split.
  - intros Hin. apply in_dyn_a2e in Hin. destruct Hin as [_ Hin]. rewrite (avar_some e id v Hv) in Hin.
    apply lit_true_znlit in K5. unfold val_of in Hin. rewrite K5 in Hin. discriminate.
  - intros i Hi Hin. apply in_args_where in Hi. destruct Hi as [Hi Hp]. apply in_dyn_a2e in Hin. destruct Hin as [_ Hin].
    unfold val_of, not_some_true, is_some_true in *. destruct (value_of m (avar e i)) as [[|]|]; cbn in *; congruence.
Qed.

Lemma unsat_skep id v :
  (forall w : val, vmodels w C = true -> forallb (vtrue w) (e_assum e ++ [znlit v]) = true -> False) ->
  In id ids -> tbl_var (e_a2v e) id = Some v -> skep esem F [id].
Proof.
  intros Hu Hid Hv X HX. exists id. split; [left; reflexivity|].
  destruct (in_dec Nat.eq_dec id X) as [Hin|Hn]; [exact Hin|exfalso].
  destruct (bridge_complete X HX) as (m & M1 & M2 & M3).
  pose proof (valid_unsat_facts (znlit v) X Hu HX m M3 M1 M2) as Hf.
  rewrite vtrue_znlit in Hf. rewrite <- (avar_some e id v Hv) in Hf. apply negb_false_iff in Hf.
  apply Hn. apply (M3 id Hid). exact Hf.
Qed.

End Bridge.

(* ================================================================ Part C *)
Notation dsolver := (dsolver L).
Notation reach := (DynDefs.reach L leqb).
Notation vreach := (DynFunDefs.vreach L leqb).
Notation fresh := (DynDefs.fresh_fw L leqb).
Notation run_ops := (Store.run_ops L leqb).
Notation trailing := (DynDefs.trailing L).
Notation pending := (DynDefs.pending L).
Notation ev_apply := (DynDefs.ev_apply L leqb).

Definition sem_of (k : dkind) : sem := match k with KSt => ST | _ => CO end.
Definition dsem_of (k : dkind) : dsem := match k with KSt => DST | KPr => DPR | _ => DCO end.

(* ---- the encoder of a solver of kind k works for the semantics of k *)
Definition sem_buf (sm : dsem) (b : dbuf L) : Prop :=
  match b_enc L b with XStd e => e_sem e = sm | XAtt _ => True end.

Lemma update_encoding_sem sm (af : fw) b :
  enc_inv L af b -> sem_buf sm b -> okm (update_encoding L leqb af b) (fun r => sem_buf sm (snd r)).
Proof.
  unfold enc_inv, sem_buf, update_encoding. destruct (b_enc L b) as [e|e].
  - intros [Ht _] Hs. apply tables_ok_split in Ht.
    eapply okm_bind; [apply fold_std_replay_ok; exact Ht|]. intros [[af' e'] upd] (K1 & K2 & K3). cbn [fst snd] in *.
    eapply okm_bind.
    + apply fold_update_attacks_to_ok. apply tabs_enable. exact K1.
    + intros e'' (_ & _ & K6). apply okm_ret. cbn [snd buf_with b_enc enc_enable e_sem] in *. congruence.
  - intros _ _. apply okm_bind_any. intros st. apply okm_bind_any. intros e'. apply okm_ret. cbn [snd buf_with b_enc]. exact I.
Qed.

Lemma sem_reach k s os : reach k s os -> std_kind k -> sem_buf (dsem_of k) (s_buf L s).
Proof.
  induction 1 as [ps ps' s Hn|s os o Hr IH|s os oracle thr fuel q cert l ps ps' s' a Hr IH Hq]; intros Hk.
  - unfold dyn_new in Hn. destruct Hk as [-> |[-> | ->]];
      apply bind_Done in Hn; destruct Hn as (u & ps1 & _ & Hn); apply Done_inj in Hn; destruct Hn as [<- _];
      reflexivity.
  - specialize (IH Hk). pose proof (reach_frame_inv L leqb _ _ _ Hr) as [Hkind _ _ _].
    assert (Hnd : not_dummy (s_kind L s)) by (rewrite Hkind; destruct Hk as [-> |[-> | ->]]; exact I).
    destruct (update_touches_no_encoder L leqb s o Hnd) as (_ & Hen & _).
    unfold sem_buf in *. rewrite Hen. exact IH.
  - specialize (IH Hk). assert (Hnd : not_dummy k) by (destruct Hk as [-> |[-> | ->]]; exact I).
    pose proof (enc_inv_reach L leqb _ _ _ Hr Hnd) as Hinv.
    pose proof (dyn_query_shape L leqb oracle thr fuel s q cert l _ (update_encoding_sem _ _ _ Hinv IH) _ _ _ Hq) as Hp.
    unfold pushed in Hp. cbn [fst] in Hp. destruct Hp as [->|(af & buf & ev & Hc & ->)]; [exact IH|].
    cbn [s_buf snd] in *. unfold sem_buf, buf_push, buf_with in *. cbn [b_enc]. exact Hc.
Qed.

Lemma esem_of_kind k e : k = KCo \/ k = KSt -> e_sem e = dsem_of k -> esem e = sem_of k.
Proof. intros [-> | ->] E; unfold esem; rewrite E; reflexivity. Qed.

(* ---- the state in which a SAT call is made *)
Record ready (af : fw) (e : denc) (ps : Prog.st) : Prop := {
  rd_tab : tables_ok L af e; rd_inv : Inv af; rd_vz : vz e; rd_cv : conv e;
  rd_ci : clause_inv L af e (cls ps) (session_n_vars (sess ps)) }.

Lemma query_ready oracle thr k (s : dsolver) ps os af buf ps1 :
  vreach oracle thr k s ps os -> k = KCo \/ k = KSt ->
  update_encoding L leqb (s_af L s) (s_buf L s) ps = Done (af, buf) ps1 ->
  exists e, b_enc L buf = XStd e /\ ready af e ps1 /\ esem e = sem_of k /\
    af = run_ops fresh os /\ b_buffer L buf = b_buffer L (s_buf L s) /\
    b_next L buf = length (b_buffer L (s_buf L s)).
Proof.
  intros Hv Hk Hue. assert (Hsk : std_kind k) by (unfold std_kind; tauto).
  assert (Hnd : not_dummy k) by (destruct Hk as [-> | ->]; exact I).
  pose proof (vreach_reach L leqb _ _ _ _ _ _ Hv) as Hr.
  pose proof (vreach_VI L leqb leqb_spec _ _ _ _ _ _ Hv Hk) as Hvi.
  pose proof (std_kind_reach L leqb _ _ _ Hr Hsk) as Hstd.
  destruct (b_enc L (s_buf L s)) as [e0|e0] eqn:Ee0; [|destruct Hstd].
  destruct (reach_RS L leqb leqb_spec k s os ps e0 Hr Hsk Ee0 Hvi) as [Hrs Hu].
  destruct (update_encoding_RS L leqb leqb_spec _ _ _ _ _ _ _ Ee0 Hrs Hu Hue) as (e & He & [Ht Hinv Hz Hbd (dv & atk & Hc)] & _).
  exists e. split; [exact He|].
  pose proof (enc_inv_reach L leqb _ _ _ Hr Hnd) as Hei. pose proof (conv_reach L leqb _ _ _ Hr Hnd) as Hcv.
  pose proof (update_encoding_conv L leqb _ _ Hei Hcv _ _ _ Hue) as Hcv'. unfold conv_buf in Hcv'. cbn [snd] in Hcv'. rewrite He in Hcv'.
  pose proof (update_encoding_sem _ _ _ Hei (sem_reach _ _ _ Hr Hsk) _ _ _ Hue) as Hs'. unfold sem_buf in Hs'. cbn [snd] in Hs'. rewrite He in Hs'.
  destruct (update_encoding_spec L leqb _ _ _ _ _ Hue) as (E1 & E2 & E3 & _). cbn [fst snd] in E1, E2, E3.
  pose proof (reach_frame_inv L leqb _ _ _ Hr) as [Hkind _ Hsy Hsp].
  pose proof (proj2 (tables_ok_split L af e) Ht) as Ht'.
  split; [|split; [apply esem_of_kind; assumption|split; [|auto]]].
  - split; auto. exact (cinv_clause_inv L _ _ _ _ _ _ Hc Ht').
  - rewrite E1. unfold DynDefs.synced in Hsy. unfold DynDefs.spec_fw in Hsp. rewrite Hkind in Hsy, Hsp.
    destruct Hk as [-> | ->]; congruence.
Qed.

(* ---- cached entries *)
(* an entry with a stored extension is sound for a framework when the extension is one of its
   extensions (for the semantics of the solver), duplicate-free, made of live arguments, contains every
   argument listed as accepted and none listed as refused *)
Definition cache_ok (sm : sem) (af : fw) (ev : devent L) : Prop :=
  match ev with
  | DCred _ acc refused (Some X) | DSkep _ acc refused (Some X) =>
      ext sm (af_of af) X /\ NoDup X /\ incl X (live_ids L af) /\
      (forall l id, lmem L leqb l acc = true -> get_argument af l = Some id -> In id X) /\
      (forall l id, lmem L leqb l refused = true -> get_argument af l = Some id -> ~ In id X)
  | _ => True
  end.

Lemma label_of_get (af : fw) i l id : Inv af -> label_of L af i = Some l -> get_argument af l = Some id -> i = id.
Proof.
  intros Hinv Hl Hg. unfold label_of in Hl. destruct (nth i (slots (ls af)) None) as [[i' l']|] eqn:Ei; [|discriminate].
  injection Hl as ->. pose proof (find_label_Some L leqb leqb_spec af l id Hinv Hg) as Hid.
  exact (label_slot_unique L _ _ _ _ _ (inv_lab L af Hinv) Ei Hid eq_refl).
Qed.
Lemma labels_sound (af : fw) ids ls l id :
  Inv af -> labels_of L af ids = Some ls -> lmem L leqb l ls = true -> get_argument af l = Some id -> In id ids.
Proof.
  intros Hinv Hls Hm Hg. apply (lmem_In L leqb leqb_spec) in Hm.
  destruct (labels_of_In L af ids ls l Hls Hm) as (i & Hi & Hl).
  rewrite <- (label_of_get af i l id Hinv Hl Hg). exact Hi.
Qed.

Lemma valid_answer oracle ps a : valid_oracle oracle ->
  match answer_of oracle ps a with
  | Sat m => models m (cls ps) = true /\ forallb (lit_true m) a = true
  | Unsat => forall v : val, vmodels v (cls ps) = true -> forallb (vtrue v) a = true -> False
  | Unknown => True
  end.
Proof. intros Hv. unfold answer_of. fold (cls ps). apply Hv. Qed.

Lemma dc_answer oracle (af : fw) e ps l id v :
  valid_oracle oracle -> ready af e ps -> get_argument af l = Some id -> tbl_var (e_a2v e) id = Some v ->
  match answer_of oracle ps (e_assum e ++ [zlit v]) with
  | Sat m => ext (esem e) (af_of af) (dyn_a2e (e_vars e) m) /\ NoDup (dyn_a2e (e_vars e) m) /\
             incl (dyn_a2e (e_vars e) m) (live_ids L af) /\ In id (dyn_a2e (e_vars e) m) /\
             forall acc, labels_of L af (args_where not_some_false (e_vars e) m) = Some acc ->
                         cache_ok (esem e) af (DCred L acc [] (Some (dyn_a2e (e_vars e) m)))
  | Unsat => ~ cred (esem e) (af_of af) [id]
  | Unknown => True
  end.
Proof.
  intros Hvalid [Ht Hinv Hz Hcv (dv & atk & H1 & H2 & H3 & H4 & H5)] Hg Hv.
  assert (Hid : In id (live_ids L af)).
  { apply (has_live_ids L af id Hinv). eapply (get_argument_live L leqb leqb_spec); eassumption. }
  pose proof (valid_answer oracle ps (e_assum e ++ [zlit v]) Hvalid) as Ha.
  destruct (answer_of oracle ps (e_assum e ++ [zlit v])) as [m| |]; [| |exact I].
  - destruct Ha as [Hm Hl].
    destruct (sat_cred af e (cls ps) atk Ht Hinv Hz H3 H4 Hcv m id v Hm Hl Hid Hv) as (K1 & K2 & K3 & K4 & K5).
    split; [exact K1|]. split; [exact K2|]. split; [exact K3|]. split; [exact K4|].
    intros acc Hacc. cbn [cache_ok]. split; [exact K1|]. split; [exact K2|]. split; [exact K3|]. split.
    + intros l' id' Hm' Hg'. apply K5. eapply labels_sound; eassumption.
    + intros l' id' Hm'. discriminate Hm'.
  - exact (unsat_cred af e (cls ps) dv atk Ht Hinv Hz H2 H3 H4 H5 id v Ha Hid Hv).
Qed.

Lemma ds_answer oracle (af : fw) e ps l id v :
  valid_oracle oracle -> ready af e ps -> get_argument af l = Some id -> tbl_var (e_a2v e) id = Some v ->
  match answer_of oracle ps (e_assum e ++ [znlit v]) with
  | Sat m => ext (esem e) (af_of af) (dyn_a2e (e_vars e) m) /\ NoDup (dyn_a2e (e_vars e) m) /\
             incl (dyn_a2e (e_vars e) m) (live_ids L af) /\ ~ In id (dyn_a2e (e_vars e) m) /\
             forall refused, labels_of L af (args_where not_some_true (e_vars e) m) = Some refused ->
                             cache_ok (esem e) af (DSkep L [] refused (Some (dyn_a2e (e_vars e) m)))
  | Unsat => skep (esem e) (af_of af) [id]
  | Unknown => True
  end.
Proof.
  intros Hvalid [Ht Hinv Hz Hcv (dv & atk & H1 & H2 & H3 & H4 & H5)] Hg Hv.
  assert (Hid : In id (live_ids L af)).
  { apply (has_live_ids L af id Hinv). eapply (get_argument_live L leqb leqb_spec); eassumption. }
  pose proof (valid_answer oracle ps (e_assum e ++ [znlit v]) Hvalid) as Ha.
  destruct (answer_of oracle ps (e_assum e ++ [znlit v])) as [m| |]; [| |exact I].
  - destruct Ha as [Hm Hl].
    destruct (sat_skep af e (cls ps) atk Ht Hinv Hz H3 H4 Hcv m id v Hm Hl Hid Hv) as (K1 & K2 & K3 & K4 & K5).
    split; [exact K1|]. split; [exact K2|]. split; [exact K3|]. split; [exact K4|].
    intros refused Href. cbn [cache_ok]. split; [exact K1|]. split; [exact K2|]. split; [exact K3|]. split.
    + intros l' id' Hm'. discriminate Hm'.
    + intros l' id' Hm' Hg'. apply K5. eapply labels_sound; eassumption.
  - exact (unsat_skep af e (cls ps) dv atk Ht Hinv Hz H2 H3 H4 H5 id v Ha Hid Hv).
Qed.

Lemma cred_scan_hit (rb : list (devent L)) l b X :
  cred_scan L leqb rb l = (Some b, Some X) ->
  b = true /\ exists ev, In ev (trailing_rev L rb) /\ exists acc refused,
    (ev = DCred L acc refused (Some X) \/ ev = DSkep L acc refused (Some X)) /\ lmem L leqb l acc = true.
Proof.
  induction rb as [|ev r IH]; cbn [cred_scan]; [discriminate|].
  destruct ev as [x|x|x y|x y|acc refused o|acc refused o]; try discriminate; cbn [trailing_rev is_update_ev].
  - destruct o as [X0|].
    + destruct (lmem L leqb l acc) eqn:Em.
      * intros H. injection H as <- <-. split; [reflexivity|].
        exists (DCred L acc refused (Some X0)). split; [left; reflexivity|]. exists acc, refused. auto.
      * destruct (lmem L leqb l refused); [discriminate|].
        intros H. destruct (IH H) as (Hb & ev & Hin & Hev). split; [exact Hb|]. exists ev. split; [right; exact Hin|exact Hev].
    + destruct (lmem L leqb l refused); [discriminate|].
      intros H. destruct (IH H) as (Hb & ev & Hin & Hev). split; [exact Hb|]. exists ev. split; [right; exact Hin|exact Hev].
  - destruct o as [X0|].
    + destruct (lmem L leqb l acc) eqn:Em.
      * intros H. injection H as <- <-. split; [reflexivity|].
        exists (DSkep L acc refused (Some X0)). split; [left; reflexivity|]. exists acc, refused. auto.
      * intros H. destruct (IH H) as (Hb & ev & Hin & Hev). split; [exact Hb|]. exists ev. split; [right; exact Hin|exact Hev].
    + intros H. destruct (IH H) as (Hb & ev & Hin & Hev). split; [exact Hb|]. exists ev. split; [right; exact Hin|exact Hev].
Qed.

(* ---- the cache invariant: every trailing computation event is sound for the solver's own framework,
   and while there are such events nothing is left to replay *)
Definition CInv (sm : sem) (s : dsolver) : Prop :=
  (forall ev, In ev (trailing (s_buf L s)) -> cache_ok sm (s_af L s) ev) /\
  (trailing (s_buf L s) <> [] -> forall ev, In ev (pending (s_buf L s)) -> is_update_ev L ev = false).

Lemma pushed_CInv sm (s : dsolver) af buf ev :
  CInv sm s -> af = fold_left ev_apply (pending (s_buf L s)) (s_af L s) ->
  b_buffer L buf = b_buffer L (s_buf L s) -> b_next L buf = length (b_buffer L (s_buf L s)) ->
  is_update_ev L ev = false -> cache_ok sm af ev ->
  CInv sm (pushed_state L s af buf ev).
Proof.
  intros [C1 C2] Haf Hb Hn Hev Hok. unfold CInv, pushed_state, DynDefs.trailing, DynDefs.pending, buf_push, buf_with.
  cbn [s_buf s_af b_buffer b_next]. rewrite Hb, trailing_snoc, Hev. split.
  - intros ev' [<-|Hin]; [exact Hok|].
    assert (Hne : trailing (s_buf L s) <> []).
    { unfold DynDefs.trailing. intros E. rewrite E in Hin. destruct Hin. }
    rewrite Haf, (fold_no_update L leqb _ _ (C2 Hne)). apply C1. exact Hin.
  - intros _ ev'. rewrite Hn, skipn_app, skipn_all, Nat.sub_diag. cbn [skipn app]. intros [<-|[]]. exact Hev.
Qed.

Theorem vreach_CInv oracle thr k s ps os :
  valid_oracle oracle -> vreach oracle thr k s ps os -> k = KCo \/ k = KSt -> CInv (sem_of k) s.
Proof.
  intros Hvalid Hv Hk.
  induction Hv as [ps0 s ps Hn|s ps os o Hr IH|s ps os fuel q cert l s' a ps' Hr IH Hq].
  - unfold dyn_new in Hn. destruct Hk as [-> | ->];
      apply bind_Done in Hn; destruct Hn as (u & ps1 & _ & Hn); apply Done_inj in Hn; destruct Hn as [<- _];
      (split; cbn [s_buf s_af]; unfold DynDefs.trailing; cbn; [tauto|congruence]).
  - pose proof (vreach_reach L leqb _ _ _ _ _ _ Hr) as Hr'.
    pose proof (reach_frame_inv L leqb _ _ _ Hr') as [Hkind _ _ _].
    unfold dyn_update. pose proof (buf_update_spec L leqb (s_buf L s) o) as Hb. cbv zeta in Hb.
    destruct Hb as (_ & _ & _ & _ & Hcase). rewrite Hkind.
    assert (G : CInv (sem_of k) {| s_kind := s_kind L s; s_af := s_af L s; s_buf := fst (buf_update L leqb (s_buf L s) o) |}).
    { destruct Hcase as [(_ & ev & Hev & Hbf & _)|(_ & ->)]; [|destruct s; exact IH].
      unfold CInv, DynDefs.trailing. cbn [s_buf s_af]. rewrite Hbf, trailing_snoc, Hev.
      split; [intros ev' []|congruence]. }
    destruct Hk as [-> | ->]; destruct (buf_update L leqb (s_buf L s) o) as [b r]; cbn [fst snd] in *; exact G.
  - pose proof (vreach_reach L leqb _ _ _ _ _ _ Hr) as Hr'.
    pose proof (reach_frame_inv L leqb _ _ _ Hr') as [Hkind _ _ _].
    destruct (dyn_query_std_inv L leqb oracle thr fuel s q cert l ps s' a ps' (ltac:(rewrite Hkind; exact Hk)) Hq)
      as (ans & _ & [[_ Hdc]|[_ [_ Hds]]]).
    + destruct (dc_query_inv L leqb oracle s l ps s' ans ps' Hdc) as
        [(b & X & _ & -> & _ & _)|(_ & af & buf & ps1 & Hue & Hrest)]; [exact IH|].
      destruct (query_ready oracle thr k s ps os af buf ps1 Hr Hk Hue) as (e & He & Hrd & Hsem & Haf & Hbf & Hnx).
      destruct (update_encoding_spec L leqb _ _ _ _ _ Hue) as (E1 & _). cbn [fst] in E1.
      destruct (Hrest e He) as (id & v & Hid & Hvv & _ & Hans).
      pose proof (dc_answer oracle af e ps1 l id v Hvalid Hrd Hid Hvv) as Hda.
      destruct (answer_of oracle ps1 (e_assum e ++ [zlit v])) as [m| |]; [| |destruct Hans].
      * destruct Hans as (acc & Hacc & -> & _). destruct Hda as (_ & _ & _ & _ & Hok).
        apply pushed_CInv; auto. rewrite <- Hsem. apply Hok, Hacc.
      * destruct Hans as (-> & _). apply pushed_CInv; auto. exact I.
    + destruct (st_ds_query_inv L leqb oracle s l ps s' ans ps' Hds) as
        [(b & X & _ & -> & _ & _)|(_ & af & buf & ps1 & Hue & Hrest)]; [exact IH|].
      destruct (query_ready oracle thr k s ps os af buf ps1 Hr Hk Hue) as (e & He & Hrd & Hsem & Haf & Hbf & Hnx).
      destruct (update_encoding_spec L leqb _ _ _ _ _ Hue) as (E1 & _). cbn [fst] in E1.
      destruct (Hrest e He) as (id & v & Hid & Hvv & _ & Hans).
      pose proof (ds_answer oracle af e ps1 l id v Hvalid Hrd Hid Hvv) as Hda.
      destruct (answer_of oracle ps1 (e_assum e ++ [znlit v])) as [m| |]; [| |destruct Hans].
      * destruct Hans as (refused & Href & -> & _). destruct Hda as (_ & _ & _ & _ & Hok).
        apply pushed_CInv; auto. rewrite <- Hsem. apply Hok, Href.
      * destruct Hans as (refused & -> & _). apply pushed_CInv; auto. exact I.
Qed.

(* ================================================================ Part D *)
Definition qpol (q : query) : bool := match q with QDC => true | _ => false end.

(* what an answer (status, optional certificate) must be for argument id of framework F under
   semantics sm; pol = true: credulous acceptance, pol = false: skeptical acceptance *)
Definition answer_ok (sm : sem) (pol cert : bool) (F : af) (id : nat) (r : bool * option (list nat)) : Prop :=
  (fst r = true <-> if pol then cred sm F [id] else skep sm F [id]) /\
  match snd r with
  | Some X => cert = true /\ fst r = pol /\ ext sm F X /\ NoDup X /\ incl X (args F) /\
              (if pol then In id X else ~ In id X)
  | None => cert = true -> fst r = negb pol
  end.

Lemma answer_ok_strip sm pol cert F id ans :
  answer_ok sm pol true F id ans -> answer_ok sm pol cert F id (if cert then ans else (fst ans, None)).
Proof.
  destruct cert; [auto|]. intros [H1 _]. split; [exact H1|]. cbn [snd]. discriminate.
Qed.

Lemma hit_framework k (s : dsolver) os sm :
  reach k s os -> k = KCo \/ k = KSt -> CInv sm s -> trailing (s_buf L s) <> [] -> s_af L s = run_ops fresh os.
Proof.
  intros Hr Hk [_ C2] Hne. pose proof (reach_frame_inv L leqb _ _ _ Hr) as [Hkind _ Hsy Hsp].
  unfold DynDefs.synced in Hsy. unfold DynDefs.spec_fw in Hsp. rewrite Hkind in Hsy, Hsp.
  rewrite (fold_no_update L leqb _ _ (C2 Hne)) in Hsy. destruct Hk as [-> | ->]; congruence.
Qed.

Lemma trailing_ne (s : dsolver) ev : In ev (trailing (s_buf L s)) -> trailing (s_buf L s) <> [].
Proof. intros Hin E. rewrite E in Hin. destruct Hin. Qed.

(* THE FUNCTIONAL THEOREM *)
Theorem dyn_functional oracle thr k s ps os fuel q cert l id s' b c ps' :
  valid_oracle oracle -> vreach oracle thr k s ps os ->
  (k = KCo /\ q = QDC) \/ (k = KSt /\ (q = QDC \/ q = QDS)) ->
  get_argument (run_ops fresh os) l = Some id ->
  dyn_query oracle L leqb thr fuel s q cert l ps = Done (s', (b, c)) ps' ->
  answer_ok (sem_of k) (qpol q) cert (af_of (run_ops fresh os)) id (b, c).
Proof.
  intros Hvalid Hv Hkq Hl Hq.
  assert (Hk : k = KCo \/ k = KSt) by tauto.
  pose proof (vreach_reach L leqb _ _ _ _ _ _ Hv) as Hr.
  pose proof (reach_frame_inv L leqb _ _ _ Hr) as [Hkind _ _ _].
  pose proof (vreach_CInv oracle thr k s ps os Hvalid Hv Hk) as Hci.
  destruct (dyn_query_std_inv L leqb oracle thr fuel s q cert l ps s' (b, c) ps' (ltac:(rewrite Hkind; exact Hk)) Hq)
    as (ans & -> & [[-> Hdc]|[Hks [-> Hds]]]); apply answer_ok_strip; cbn [qpol].
  - (* credulous acceptance *)
    destruct (dc_query_inv L leqb oracle s l ps s' ans ps' Hdc) as
      [(b0 & X & Hhit & _ & -> & _)|(_ & af & buf & ps1 & Hue & Hrest)].
    + unfold is_cred in Hhit. destruct (cred_scan_hit _ _ _ _ Hhit) as (-> & ev & Hin & acc & refused & Hev & Hm).
      fold (trailing (s_buf L s)) in Hin. pose proof (proj1 Hci ev Hin) as Hok.
      rewrite (hit_framework k s os _ Hr Hk Hci (trailing_ne s ev Hin)) in Hok.
      assert (G : ext (sem_of k) (af_of (run_ops fresh os)) X /\ NoDup X /\ incl X (live_ids L (run_ops fresh os)) /\ In id X).
      { destruct Hev as [-> | ->]; cbn [cache_ok] in Hok; destruct Hok as (K1 & K2 & K3 & K4 & _); eauto 6. }
      destruct G as (K1 & K2 & K3 & K4). split; cbn [fst snd].
      * split; [intros _|reflexivity]. exists X. split; [exact K1|]. exists id. split; [left; reflexivity|exact K4].
      * auto 7.
    + destruct (query_ready oracle thr k s ps os af buf ps1 Hv Hk Hue) as (e & He & Hrd & Hsem & Haf & _).
      destruct (Hrest e He) as (id' & v & Hid & Hvv & _ & Hans).
      assert (id' = id) by (rewrite Haf in Hid; congruence). subst id'.
      pose proof (dc_answer oracle af e ps1 l id v Hvalid Hrd Hid Hvv) as Hda. rewrite Hsem, Haf in Hda.
      destruct (answer_of oracle ps1 (e_assum e ++ [zlit v])) as [m| |]; [| |destruct Hans].
      * destruct Hans as (acc & _ & _ & ->). destruct Hda as (K1 & K2 & K3 & K4 & _). split; cbn [fst snd].
        -- split; [intros _|reflexivity]. eexists. split; [exact K1|]. exists id. split; [left; reflexivity|exact K4].
        -- auto 7.
      * destruct Hans as (_ & ->). split; cbn [fst snd]; [|reflexivity]. split; [discriminate|]. intros H. contradiction.
  - (* skeptical acceptance (stable) *)
    destruct (st_ds_query_inv L leqb oracle s l ps s' ans ps' Hds) as
      [(b0 & X & Hhit & _ & -> & _)|(_ & af & buf & ps1 & Hue & Hrest)].
    + unfold is_skep in Hhit. destruct (skep_scan_hit L leqb _ _ _ _ Hhit) as (-> & ev & Hin & acc & refused & Hev & Hm).
      fold (trailing (s_buf L s)) in Hin. pose proof (proj1 Hci ev Hin) as Hok.
      rewrite (hit_framework k s os _ Hr Hk Hci (trailing_ne s ev Hin)) in Hok.
      assert (G : ext (sem_of k) (af_of (run_ops fresh os)) X /\ NoDup X /\ incl X (live_ids L (run_ops fresh os)) /\ ~ In id X).
      { destruct Hev as [-> | ->]; cbn [cache_ok] in Hok; destruct Hok as (K1 & K2 & K3 & _ & K5); eauto 6. }
      destruct G as (K1 & K2 & K3 & K4). split; cbn [fst snd].
      * split; [discriminate|]. intros Hsk. destruct (Hsk X K1) as (a & [<-|[]] & Ha). contradiction.
      * auto 7.
    + destruct (query_ready oracle thr k s ps os af buf ps1 Hv Hk Hue) as (e & He & Hrd & Hsem & Haf & _).
      destruct (Hrest e He) as (id' & v & Hid & Hvv & _ & Hans).
      assert (id' = id) by (rewrite Haf in Hid; congruence). subst id'.
      pose proof (ds_answer oracle af e ps1 l id v Hvalid Hrd Hid Hvv) as Hda. rewrite Hsem, Haf in Hda.
      destruct (answer_of oracle ps1 (e_assum e ++ [znlit v])) as [m| |]; [| |destruct Hans].
      * destruct Hans as (refused & _ & _ & ->). destruct Hda as (K1 & K2 & K3 & K4 & _). split; cbn [fst snd].
        -- split; [discriminate|]. intros Hsk. destruct (Hsk _ K1) as (a & [<-|[]] & Ha). contradiction.
        -- auto 7.
      * destruct Hans as (refused & _ & ->). split; cbn [fst snd]; [|reflexivity]. split; [intros _; exact Hda|reflexivity].
Qed.

(* ================================================================ Part E: corollaries *)
(* the same, in the vocabulary of the static solver theorems (Proofs/TopMax.v: acc_spec) *)
Corollary dyn_functional_acc_spec oracle thr k s ps os fuel q cert l id s' b c ps' :
  valid_oracle oracle -> vreach oracle thr k s ps os ->
  (k = KCo /\ q = QDC) \/ (k = KSt /\ (q = QDC \/ q = QDS)) ->
  get_argument (run_ops fresh os) l = Some id ->
  dyn_query oracle L leqb thr fuel s q cert l ps = Done (s', (b, c)) ps' ->
  acc_spec (sem_of k) (qpol q) cert (af_of (run_ops fresh os)) [id] (b, c).
Proof.
  intros Hvalid Hv Hkq Hl Hq.
  destruct (dyn_functional oracle thr k s ps os fuel q cert l id s' b c ps' Hvalid Hv Hkq Hl Hq) as [H1 H2].
  split; [exact H1|]. cbn [fst snd] in *. destruct c as [X|]; [|exact H2].
  destruct H2 as (K1 & K2 & K3 & K4 & K5 & K6). repeat (split; [assumption|]).
  destruct (qpol q).
  - exists id. split; [left; reflexivity|exact K6].
  - intros a [<-|[]]. exact K6.
Qed.

(* "earlier queries, cached results and retired SAT variables never influence a later answer": the
   status is a function of the specification store alone - two histories (whatever their queries,
   oracles, thresholds, fuels, certificate flags) that lead to the same abstract framework give the
   same status for the same argument *)
Corollary dyn_status_history_independent
  oracle1 oracle2 thr1 thr2 k s1 s2 ps1 ps2 os1 os2 fuel1 fuel2 q cert1 cert2 l1 l2 id s1' s2' b1 b2 c1 c2 ps1' ps2' :
  valid_oracle oracle1 -> valid_oracle oracle2 ->
  vreach oracle1 thr1 k s1 ps1 os1 -> vreach oracle2 thr2 k s2 ps2 os2 ->
  (k = KCo /\ q = QDC) \/ (k = KSt /\ (q = QDC \/ q = QDS)) ->
  af_equiv (af_of (run_ops fresh os1)) (af_of (run_ops fresh os2)) ->
  get_argument (run_ops fresh os1) l1 = Some id -> get_argument (run_ops fresh os2) l2 = Some id ->
  dyn_query oracle1 L leqb thr1 fuel1 s1 q cert1 l1 ps1 = Done (s1', (b1, c1)) ps1' ->
  dyn_query oracle2 L leqb thr2 fuel2 s2 q cert2 l2 ps2 = Done (s2', (b2, c2)) ps2' ->
  b1 = b2.
Proof.
  intros Hv1 Hv2 Hr1 Hr2 Hkq Heq Hl1 Hl2 Hq1 Hq2.
  destruct (dyn_functional _ _ _ _ _ _ _ _ _ _ _ _ _ _ _ Hv1 Hr1 Hkq Hl1 Hq1) as [A1 _].
  destruct (dyn_functional _ _ _ _ _ _ _ _ _ _ _ _ _ _ _ Hv2 Hr2 Hkq Hl2 Hq2) as [A2 _].
  cbn [fst] in A1, A2.
  assert (E : b1 = true <-> b2 = true).
  { rewrite A1, A2. destruct (qpol q); [apply cred_af_equiv|apply skep_af_equiv]; exact Heq. }
  destruct b1, b2; try reflexivity; [symmetry|]; apply E; reflexivity.
Qed.

(* ---- C09: redundant and rejected updates are invisible in every later answer *)
Lemma step_noop (f : fw) (o : op L) : Inv f -> classify L leqb (abs L f) o <> UValid -> fst (step L leqb f o) = f.
Proof.
  intros Hinv Hc. pose proof (s_step_classes L leqb (abs L f) o) as Hs.
  destruct (step_ok L leqb leqb_spec f o Hinv) as (_ & Hres & _).
  destruct (classify L leqb (abs L f) o) eqn:Ec; [congruence| |].
  - (* redundant *)
    destruct o as [l|l|a b|a b]; cbn [classify] in Ec; cbn [Store.step fst].
    + destruct (s_find L leqb (abs L f) l) as [id|] eqn:Ef; [|discriminate].
      apply (new_argument_existing L leqb f l id). unfold Store.get_argument.
      rewrite (find_label_sfind L leqb f l Hinv). exact Ef.
    + destruct (s_find L leqb (abs L f) l); discriminate.
    + destruct (s_find L leqb (abs L f) a) as [x|] eqn:Ea; [|discriminate].
      destruct (s_find L leqb (abs L f) b) as [y|] eqn:Eb; [|discriminate].
      destruct (s_has_att L (abs L f) (x, y)) eqn:Eh; [|discriminate].
      unfold Store.new_attack. rewrite !(find_label_sfind L leqb f _ Hinv), Ea, Eb.
      rewrite (has_att_spec L f x y Hinv), Eh. reflexivity.
    + destruct (s_find L leqb (abs L f) a); [|discriminate]. destruct (s_find L leqb (abs L f) b); [|discriminate].
      destruct (s_has_att L (abs L f) _); discriminate.
  - (* invalid *)
    apply step_not_ok_unchanged. rewrite Hres, Hs. cbn [snd]. discriminate.
Qed.

Lemma run_ops_effective os : forall f : fw, Inv f -> run_ops f (effective L leqb f os) = run_ops f os.
Proof.
  induction os as [|o r IH]; intros f Hinv; cbn [effective]; [reflexivity|].
  unfold Store.run_ops at 2. cbn [fold_left]. fold (run_ops (fst (step L leqb f o)) r).
  destruct (classify L leqb (abs L f) o) eqn:Ec.
  - unfold Store.run_ops at 1. cbn [fold_left]. fold (run_ops (fst (step L leqb f o)) (effective L leqb (fst (step L leqb f o)) r)).
    apply IH. apply (step_ok L leqb leqb_spec f o Hinv).
  - rewrite (step_noop f o Hinv) by congruence. apply IH, Hinv.
  - rewrite (step_noop f o Hinv) by congruence. apply IH, Hinv.
Qed.

(* every answer is the one the semantics dictate for the framework built by the VALID updates only *)
Corollary dyn_functional_effective oracle thr k s ps os fuel q cert l s' b c ps' :
  valid_oracle oracle -> vreach oracle thr k s ps os ->
  (k = KCo /\ q = QDC) \/ (k = KSt /\ (q = QDC \/ q = QDS)) ->
  let f := run_ops fresh (effective L leqb fresh os) in
  forall id, get_argument f l = Some id ->
  dyn_query oracle L leqb thr fuel s q cert l ps = Done (s', (b, c)) ps' ->
  answer_ok (sem_of k) (qpol q) cert (af_of f) id (b, c).
Proof.
  intros Hvalid Hv Hkq f id. unfold f.
  rewrite (run_ops_effective os fresh (init_inv L leqb leqb_spec [])).
  apply dyn_functional; assumption.
Qed.

(* a redundant or rejected update anywhere in a history changes no later store, hence no later answer *)
Corollary noop_update_invisible os o os' :
  classify L leqb (abs L (run_ops fresh os)) o <> UValid ->
  run_ops fresh (os ++ o :: os') = run_ops fresh (os ++ os').
Proof.
  intros Hc. unfold Store.run_ops. rewrite !fold_left_app. cbn [fold_left]. fold (run_ops fresh os).
  rewrite (step_noop (run_ops fresh os) o (fresh_inv L leqb leqb_spec os) Hc). reflexivity.
Qed.

End DynFun.
