(* Correctness of the single-component queries of the complete and stable solvers for every valid
   SAT oracle: the selector-guarded disjunction query, and StableSemanticsSolver's per-component
   step (plain / credulous / skeptical).  Built on the encoder theorems (C10). *)
From Crusta Require Import Spec.AF Sat.Cnf Sat.Prog Model.Encoders Model.Graph Model.Solvers.
From Crusta Require Import Proofs.ProgLaws Proofs.EncSpec Proofs.EncBase Proofs.EncAll Proofs.SolverBasics.
From Coq Require Import ZifyBool.
Import ListNotations.
Open Scope prog_scope.

Section Cc.
Variable oracle : nat -> cnf -> list lit -> answer.
Variable thr : nat.
Hypothesis Hthr : 1 <= thr.
Hypothesis Hvalid : valid_oracle oracle.
Notation wpT := (wp (fun _ => True) (fun _ => True) (fun _ => True)).

Section Guarded.
Variable e : enc.
Variable F : af.
Variable n : nat.
Hypothesis HF : compact_af F n.
Variable C : cnf.
Hypothesis HC : enc_clauses e thr false F = Some C.
Variable la : list nat.
Hypothesis Hla : forall a, In a la -> a < n.

Notation base := (basep (enc_base e) F).
Notation a2e := (assignment_to_extension n e).

Definition guard_clause (selv : nat) : clause := map (arg_to_lit e) la ++ [negate (zlit selv)].

Lemma vsat_guard_clause (v : val) selv : 0 < selv ->
  vsat_clause v (guard_clause selv) = true <->
  (exists a, In a la /\ v (arg_var e a) = true) \/ v selv = false.
Proof.
  intros Hs. unfold guard_clause. rewrite vsat_app, Bool.orb_true_iff, vsat_single.
  change (negate (zlit selv)) with (znlit selv). rewrite vtrue_znlit, Bool.negb_true_iff.
  rewrite vsat_exists. split; intros [H|H]; auto; left.
  - destruct H as [l [Hl Ht]]. apply in_map_iff in Hl. destruct Hl as [a [<- Ha]].
    exists a. split; [exact Ha|]. now rewrite (vtrue_arg e) in Ht.
  - destruct H as [a [Ha Ht]]. exists (arg_to_lit e a). split; [now apply in_map|].
    now rewrite (vtrue_arg e).
Qed.

Lemma guarded_spec (close : bool) s (Q : option assignment -> Prog.st -> Prop) :
  cls s = C -> sess_bounded s ->
  (forall r s',
     let selv := 1 + session_n_vars (sess s) in
     match r with
     | Some m => base (a2e m) /\ meets la (a2e m) = true
     | None => forall S, base S -> meets la S = false
     end ->
     cls s' = C ++ [guard_clause selv] ++ (if close then [[negate (zlit selv)]] else []) ->
     bounded C (selv - 1) -> sess_bounded s' ->
     Q r s') ->
  wpT (guarded_disj oracle e (ret la) close) Q s.
Proof.
  intros Hcls Hsb HQ. unfold guarded_disj.
  rewrite wp_bind, wp_n_vars. cbv zeta. rewrite wp_bind, wp_ret, wp_bind, wp_add_clause, wp_bind.
  set (nv := session_n_vars (sess s)). set (selv := 1 + nv).
  set (s1 := st_nvars s). set (s2 := st_add s1 (guard_clause selv)).
  assert (Hfresh : bounded C nv).
  { rewrite <- Hcls. now apply nvars_fresh. }
  assert (Hc2 : cls s2 = C ++ [guard_clause selv]).
  { unfold s2. rewrite cls_add. unfold s1. now rewrite cls_nvars, Hcls. }
  assert (Hsb2 : sess_bounded s2) by (unfold s2, s1; now apply sb_add, sb_nvars).
  change (map (arg_to_lit e) la ++ [negate (zlit selv)]) with (guard_clause selv).
  fold s1. fold s2. rewrite wp_solve.
  assert (Hselpos : 0 < selv) by (unfold selv; lia).
  assert (Hfin : forall r,
     match r with
     | Some m => base (a2e m) /\ meets la (a2e m) = true
     | None => forall S, base S -> meets la S = false
     end ->
     wpT ((if close then add_clause [negate (zlit selv)] else ret tt);;; ret r) Q
         (st_solved oracle s2 [zlit selv])).
  { intros r Hr. rewrite wp_bind. destruct close.
    - rewrite wp_add_clause, wp_ret. apply HQ; fold nv; fold selv.
      + exact Hr.
      + rewrite cls_add, cls_solved, Hc2, <- app_assoc. reflexivity.
      + replace (selv - 1) with nv by (unfold selv; lia). exact Hfresh.
      + now apply sb_add, sb_solved.
    - rewrite !wp_ret. apply HQ; fold nv; fold selv.
      + exact Hr.
      + rewrite cls_solved, Hc2, app_nil_r. reflexivity.
      + replace (selv - 1) with nv by (unfold selv; lia). exact Hfresh.
      + now apply sb_solved. }
  destruct (answer_of oracle s2 [zlit selv]) as [m| |] eqn:Ha; [| |exact I].
  - (* satisfiable *)
    apply Hfin.
    destruct (sat_assumptions oracle Hvalid s2 _ m Ha) as [Has Hm].
    rewrite Hc2 in Hm. rewrite vmodels_app in Hm. apply andb_prop in Hm. destruct Hm as [HmC Hmg].
    cbn [forallb] in Has. rewrite Bool.andb_true_r in Has.
    rewrite (vtrue_zlit _ _ Hselpos) in Has.
    split.
    + rewrite (a2e_ext e n). exact (all_sound e thr F n Hthr HF C _ HC HmC).
    + rewrite vmodels_single in Hmg. apply (vsat_guard_clause _ _ Hselpos) in Hmg.
      destruct Hmg as [[a [Hal Hav]]|Hsf]; [|congruence].
      apply (meets_spec). exists a. split; [exact Hal|]. apply (in_a2e e n). split; [now apply Hla|exact Hav].
  - (* unsatisfiable *)
    apply Hfin. intros S HS.
    destruct (meets la S) eqn:Hmeet; [exfalso|reflexivity].
    apply meets_spec in Hmeet. destruct Hmeet as [a [Hal HaS]].
    destruct (all_complete e thr F n Hthr HF C S HC HS) as [v [Hv Hargs]].
    apply (unsat_elim oracle Hvalid s2 [zlit selv] (upd v selv true) Ha).
    + rewrite Hc2, vmodels_app. apply andb_true_intro. split.
      * rewrite (vmodels_upd v selv true C nv Hfresh); [exact Hv|unfold selv; lia].
      * rewrite vmodels_single. apply (vsat_guard_clause _ _ Hselpos). left. exists a.
        split; [exact Hal|]. unfold upd. destruct (Nat.eqb (arg_var e a) selv); [reflexivity|].
        apply Hargs; [now apply Hla|exact HaS].
    + cbn [forallb]. rewrite (vtrue_zlit _ _ Hselpos), upd_same. reflexivity.
Qed.

End Guarded.

(* the query of CompleteSemanticsSolver (and of every solver that delegates DC to it) on an encoded
   component: fresh session, encoding, guarded disjunction *)
Section CoQuery.
Variable e : enc.
Variable F : af.
Variable n : nat.
Hypothesis HF : compact_af F n.
Variable la : list nat.
Hypothesis Hla : forall a, In a la -> a < n.
Notation base := (basep (enc_base e) F).
Notation a2e := (assignment_to_extension n e).

Lemma encode_af_some : exists r C, encode_af e thr false F = Some (r, C).
Proof.
  destruct (encode_af e thr false F) as [[r C]|] eqn:E; [now exists r, C|].
  exfalso. assert (H : enc_clauses e thr false F = None) by (unfold enc_clauses; now rewrite E).
  apply all_defined in H. destruct H as [_ H]. discriminate.
Qed.

Lemma cred_query_spec (close : bool) s :
  cls s = [] -> sess_bounded s ->
  wpT (encode_m thr e false F ;;; guarded_disj oracle e (ret la) close)
      (fun r _ => match r with
                  | Some m => base (a2e m) /\ meets la (a2e m) = true
                  | None => forall S, base S -> meets la S = false
                  end) s.
Proof.
  intros Hc Hsb. destruct encode_af_some as [r [C HE]].
  pose proof (enc_clauses_some thr e false F r C HE) as HC.
  rewrite wp_bind. rewrite (wp_encode_m thr _ _ _ e false F r C _ _ HE).
  apply (guarded_spec e F n HF C HC la Hla close).
  - now rewrite cls_encoded, Hc.
  - now apply sb_encoded.
  - intros r' s' selv Hr _ _ _. exact Hr.
Qed.

End CoQuery.

(* ------------------------------------------------------------------------------------------ *)
(* StableSemanticsSolver, one connected component *)
Section Stable.
Variable c : comp.
Variable n : nat.
Hypothesis HF : compact_af (c_af c) n.
Notation F := (c_af c).
Notation a2e := (assignment_to_extension n StDefault).

Definition st_cc_post (la : list nat) (pol : bool) (r : option (assignment * bool)) : Prop :=
  match r with
  | Some (m, acc) =>
      st F (a2e m) /\
      (if pol then (acc = true -> meets la (a2e m) = true) /\
                   (acc = false -> forall S, st F S -> meets la S = false)
       else acc = false /\ meets la (a2e m) = false)
  | None =>
      if pol then forall S, ~ st F S
      else forall S, st F S -> meets la S = true
  end.

Lemma meets_nil S : meets [] S = false.
Proof. reflexivity. Qed.

Lemma st_encode_some : exists C, encode_af StDefault thr false F = Some (None, C).
Proof. unfold encode_af, encode. eexists. reflexivity. Qed.

Lemma st_cc_spec la pol s :
  (forall a, In a la -> a < n) ->
  wpT (st_cc oracle thr c la pol) (fun r _ => st_cc_post la pol r) s.
Proof.
  intros Hla. unfold st_cc. destruct st_encode_some as [C HE].
  pose proof (enc_clauses_some thr StDefault false F None C HE) as HC.
  rewrite wp_bind, wp_new_solver, wp_bind. rewrite (wp_encode_m thr _ _ _ StDefault false F None C _ _ HE).
  set (s1 := st_encoded (st_new s) None C).
  assert (Hc1 : cls s1 = C) by (unfold s1; now rewrite cls_encoded, cls_new).
  assert (Hsb1 : sess_bounded s1) by (unfold s1; apply sb_encoded, sb_new).
  assert (Hplain : forall s' D a, cls s' = C ++ D ->
            forall m, answer_of oracle s' a = Sat m -> st F (a2e m)).
  { intros s' D a Hc m Ha.
    exact (plain_sat oracle thr StDefault F n HF Hthr C HC Hvalid s' a m D Hc Ha). }
  assert (Hcompl : forall S, st F S ->
            exists v : val, vmodels v C = true /\ forall a, a < n -> (v (arg_var StDefault a) = true <-> In a S)).
  { intros S HS. exact (all_complete StDefault thr F n Hthr HF C S HC HS). }
  destruct la as [|x xs].
  - (* no listed argument in this component *)
    rewrite wp_bind, wp_solve. destruct (answer_of oracle s1 []) as [m| |] eqn:Ha; [| |exact I].
    + rewrite wp_ret. cbn [option_map st_cc_post]. split.
      * apply (Hplain s1 [] [] ); [now rewrite app_nil_r|exact Ha].
      * destruct pol; [split; [discriminate|intros _ S _; reflexivity]|split; reflexivity].
    + rewrite wp_ret. cbn [option_map st_cc_post].
      assert (Hno : forall S, ~ st F S).
      { intros S HS. destruct (Hcompl S HS) as [v [Hv _]].
        apply (unsat_elim oracle Hvalid s1 [] v Ha); [now rewrite Hc1|reflexivity]. }
      destruct pol; [exact Hno|]. intros S HS. now destruct (Hno S).
  - set (la := x :: xs) in *. destruct pol.
    + (* credulous: guarded disjunction, then a plain solve when it fails *)
      rewrite wp_bind.
      apply (guarded_spec StDefault F n HF C HC la Hla true s1 _ Hc1 Hsb1).
      intros r s' selv Hr Hcs Hfresh Hsb'. destruct r as [m|].
      * rewrite wp_ret. cbn [st_cc_post]. destruct Hr as [Hb Hm]. split; [exact Hb|].
        split; [intros _; exact Hm|discriminate].
      * rewrite wp_bind, wp_solve.
        destruct (answer_of oracle s' []) as [m| |] eqn:Ha; [| |exact I].
        -- rewrite wp_ret. cbn [option_map st_cc_post]. split.
           ++ apply (Hplain s' _ [] Hcs m Ha).
           ++ split; [discriminate|intros _; exact Hr].
        -- rewrite wp_ret. cbn [option_map st_cc_post]. intros S HS.
           destruct (Hcompl S HS) as [v [Hv _]].
           assert (Hselpos : 0 < selv) by (unfold selv; lia).
           apply (unsat_elim oracle Hvalid s' [] (upd v selv false) Ha); [|reflexivity].
           rewrite Hcs, !vmodels_app. cbn [vmodels forallb]. rewrite !Bool.andb_true_r.
           apply andb_true_intro. split; [|apply andb_true_intro; split].
           ++ rewrite (vmodels_upd v selv false C (selv - 1) Hfresh); [exact Hv|lia].
           ++ apply (vsat_guard_clause StDefault la _ _ Hselpos). right. apply upd_same.
           ++ rewrite vsat_single. change (negate (zlit selv)) with (znlit selv).
              rewrite vtrue_znlit, upd_same. reflexivity.
    + (* skeptical: the listed arguments are assumed out *)
      rewrite wp_bind, wp_solve.
      set (asm := map (fun a => negate (arg_to_lit StDefault a)) la).
      destruct (answer_of oracle s1 asm) as [m| |] eqn:Ha; [| |exact I].
      * rewrite wp_ret. cbn [option_map st_cc_post]. split.
        -- apply (Hplain s1 [] asm); [now rewrite app_nil_r|exact Ha].
        -- split; [reflexivity|]. apply meets_false. intros a Hal Hin.
           destruct (sat_assumptions oracle Hvalid s1 asm m Ha) as [Has _].
           rewrite forallb_forall in Has.
           specialize (Has (negate (arg_to_lit StDefault a))).
           rewrite (vtrue_neg_arg StDefault) in Has.
           apply (in_a2e StDefault n) in Hin. destruct Hin as [_ Hin].
           assert (Hx : negb (val_of m (arg_var StDefault a)) = true).
           { apply Has. unfold asm. apply in_map_iff. now exists a. }
           rewrite Hin in Hx. discriminate.
      * rewrite wp_ret. cbn [option_map st_cc_post]. intros S HS.
        destruct (meets la S) eqn:Hmeet; [reflexivity|exfalso].
        pose proof (proj1 (meets_false la S) Hmeet) as Hmeet'.
        destruct (Hcompl S HS) as [v [Hv Hargs]].
        apply (unsat_elim oracle Hvalid s1 asm v Ha); [now rewrite Hc1|].
        apply forallb_forall. intros l Hl. unfold asm in Hl. apply in_map_iff in Hl.
        destruct Hl as [a [<- Hal]]. rewrite (vtrue_neg_arg StDefault).
        destruct (v (arg_var StDefault a)) eqn:Hva; [|reflexivity].
        exfalso. apply (Hmeet' a Hal). apply Hargs; [now apply Hla|exact Hva].
Qed.

End Stable.
End Cc.
