(* Component gluing: the extensions of a framework are exactly the unions of the (renamed)
   extensions of its connected components, for each of the seven semantics.
   Derived from Spec/Invariance.v: presentation invariance (A), renaming by [cc_global c] (B) and
   the n-ary disjoint union (C).  [comp] / [cc_global] are those of Model/Graph.v. *)
From Coq Require Import List Arith Bool Lia Setoid.
From Crusta Require Import Spec.AF Spec.SemFacts Spec.Invariance Model.Graph.
Import ListNotations.

(* ------------------------------------------------------------------ *)
(** * The decomposition predicate and its boolean checker *)

Record decomp_ok (F : af) (ccs : list comp) : Prop := {
  d_compact : forall c, In c ccs ->
    args (c_af c) = seq 0 (length (c_ids c)) /\ atts_ok (length (c_ids c)) (atts (c_af c));
  d_nodup : NoDup (concat (map c_ids ccs));
  d_cover : forall a, In a (args F) <-> In a (concat (map c_ids ccs));
  d_att : forall c, In c ccs -> forall i j,
    i < length (c_ids c) -> j < length (c_ids c) ->
    (att (c_af c) i j <-> att F (cc_global c i) (cc_global c j));
  d_nocross : forall a b, att F a b ->
    exists c, In c ccs /\ In a (c_ids c) /\ In b (c_ids c) }.

Fixpoint nodupb (l : list nat) : bool :=
  match l with
  | [] => true
  | x :: r => negb (memb x r) && nodupb r
  end.

Fixpoint list_eqb (l l' : list nat) : bool :=
  match l, l' with
  | [], [] => true
  | x :: r, y :: r' => Nat.eqb x y && list_eqb r r'
  | _, _ => false
  end.

Definition comp_okb (F : af) (c : comp) : bool :=
  let n := length (c_ids c) in
  list_eqb (args (c_af c)) (seq 0 n) && atts_okb n (atts (c_af c)) &&
  forallb (fun i => forallb (fun j =>
             Bool.eqb (attb (c_af c) i j) (attb F (cc_global c i) (cc_global c j)))
           (seq 0 n)) (seq 0 n).

Definition decomp_okb (F : af) (ccs : list comp) : bool :=
  let all := concat (map c_ids ccs) in
  forallb (comp_okb F) ccs && nodupb all && subsetb (args F) all && subsetb all (args F) &&
  forallb (fun p => existsb (fun c => memb (fst p) (c_ids c) && memb (snd p) (c_ids c)) ccs)
          (atts F).

Lemma nodupb_NoDup : forall l, nodupb l = true -> NoDup l.
Proof.
  induction l as [|x r IH]; cbn [nodupb]; intros H; [constructor|].
  apply andb_true_iff in H. destruct H as [H1 H2]. apply negb_true_iff in H1.
  constructor; [apply memb_false; exact H1 | apply IH; exact H2].
Qed.

Lemma list_eqb_eq : forall l l', list_eqb l l' = true -> l = l'.
Proof.
  induction l as [|x r IH]; intros [|y r'] H; cbn [list_eqb] in H; try discriminate; [reflexivity|].
  apply andb_true_iff in H. destruct H as [H1 H2]. apply Nat.eqb_eq in H1. subst y.
  f_equal. apply IH. exact H2.
Qed.

Lemma atts_okb_sound : forall n l, atts_okb n l = true -> atts_ok n l.
Proof.
  intros n l H a b Hab. unfold atts_okb in H. rewrite forallb_forall in H.
  specialize (H (a, b) Hab). cbn [fst snd] in H. apply andb_true_iff in H.
  destruct H as [H1 H2]. apply Nat.ltb_lt in H1. apply Nat.ltb_lt in H2. split; assumption.
Qed.

Theorem decomp_okb_sound : forall F ccs, decomp_okb F ccs = true -> decomp_ok F ccs.
Proof.
  intros F ccs H. unfold decomp_okb in H. cbv zeta in H.
  apply andb_true_iff in H. destruct H as [H Hcross].
  apply andb_true_iff in H. destruct H as [H Hsub2].
  apply andb_true_iff in H. destruct H as [H Hsub1].
  apply andb_true_iff in H. destruct H as [Hcomp Hnd].
  rewrite forallb_forall in Hcomp.
  assert (Hc : forall c, In c ccs ->
            (args (c_af c) = seq 0 (length (c_ids c)) /\
             atts_ok (length (c_ids c)) (atts (c_af c))) /\
            forall i j, i < length (c_ids c) -> j < length (c_ids c) ->
              (att (c_af c) i j <-> att F (cc_global c i) (cc_global c j))).
  { intros c Hin. specialize (Hcomp c Hin). unfold comp_okb in Hcomp. cbv zeta in Hcomp.
    apply andb_true_iff in Hcomp. destruct Hcomp as [Hcomp Hatt].
    apply andb_true_iff in Hcomp. destruct Hcomp as [Hargs Hok].
    split; [split; [apply list_eqb_eq; exact Hargs | apply atts_okb_sound; exact Hok]|].
    intros i j Hi Hj. rewrite forallb_forall in Hatt.
    assert (Hi' : In i (seq 0 (length (c_ids c)))) by (apply in_seq; lia).
    assert (Hj' : In j (seq 0 (length (c_ids c)))) by (apply in_seq; lia).
    specialize (Hatt i Hi'). rewrite forallb_forall in Hatt. specialize (Hatt j Hj').
    apply eqb_prop in Hatt. rewrite <- !attb_att, Hatt. reflexivity. }
  constructor.
  - intros c Hin. exact (proj1 (Hc c Hin)).
  - apply nodupb_NoDup. exact Hnd.
  - apply subsetb_incl in Hsub1. apply subsetb_incl in Hsub2. intros a. split; [apply Hsub1 | apply Hsub2].
  - intros c Hin. exact (proj2 (Hc c Hin)).
  - intros a b Hab. rewrite forallb_forall in Hcross. specialize (Hcross (a, b) Hab).
    cbn [fst snd] in Hcross. apply existsb_exists in Hcross. destruct Hcross as [c [Hin Hm]].
    apply andb_true_iff in Hm. destruct Hm as [Ha Hb]. apply memb_In in Ha. apply memb_In in Hb.
    exists c. split; [exact Hin|]. split; assumption.
Qed.

(* ------------------------------------------------------------------ *)
(** * List facts *)

Lemma map_nth_seq : forall (l : list nat), map (fun i => nth i l 0) (seq 0 (length l)) = l.
Proof.
  induction l as [|x r IH]; [reflexivity|].
  cbn [length seq map nth]. f_equal. rewrite <- seq_shift, map_map. exact IH.
Qed.

Lemma NoDup_concat_elt : forall (ls : list (list nat)) l,
  NoDup (concat ls) -> In l ls -> NoDup l.
Proof.
  induction ls as [|l1 r IH]; intros l Hnd Hin; [destruct Hin|].
  cbn [concat] in Hnd. destruct (NoDup_app_inv _ _ _ Hnd) as [H1 [H2 _]].
  destruct Hin as [Hl|Hl].
  - subst l. exact H1.
  - apply IH; assumption.
Qed.

Lemma comps_disjoint : forall (ccs : list comp) c c' x,
  NoDup (concat (map c_ids ccs)) -> In c ccs -> In c' ccs ->
  In x (c_ids c) -> In x (c_ids c') -> c = c'.
Proof.
  induction ccs as [|c1 r IH]; intros c c' x Hnd Hc Hc' Hx Hx'; [destruct Hc|].
  cbn [map concat] in Hnd. destruct (NoDup_app_inv _ _ _ Hnd) as [_ [Hr Hdis]].
  assert (Hin : forall d, In d r -> In x (c_ids d) -> In x (concat (map c_ids r))).
  { intros d Hd Hxd. apply in_concat. exists (c_ids d). split; [apply in_map; exact Hd | exact Hxd]. }
  destruct Hc as [Hc|Hc]; destruct Hc' as [Hc'|Hc'].
  - subst. reflexivity.
  - subst c1. exfalso. exact (Hdis x Hx (Hin c' Hc' Hx')).
  - subst c1. exfalso. exact (Hdis x Hx' (Hin c Hc Hx)).
  - exact (IH c c' x Hr Hc Hc' Hx Hx').
Qed.

(* ------------------------------------------------------------------ *)
(** * The component frameworks, renamed back to the original ids *)

Definition comp_global (c : comp) : af := rename (cc_global c) (c_af c).

(* the local (compact) trace of a set of original ids on a component *)
Definition comp_local (c : comp) (S : list nat) : list nat :=
  filter (fun i => memb (cc_global c i) S) (seq 0 (length (c_ids c))).

Lemma comp_eq_dec : forall c c' : comp, {c = c'} + {c <> c'}.
Proof. repeat decide equality. Defined.

Section Decomp.
  Variable F : af.
  Variable ccs : list comp.
  Hypothesis Hok : decomp_ok F ccs.

  Lemma comp_ids_NoDup : forall c, In c ccs -> NoDup (c_ids c).
  Proof.
    intros c Hc. apply (NoDup_concat_elt (map c_ids ccs)); [exact (d_nodup _ _ Hok)|].
    apply in_map. exact Hc.
  Qed.

  Lemma comp_af_wf : forall c, In c ccs -> wf (c_af c).
  Proof.
    intros c Hc. destruct (d_compact _ _ Hok c Hc) as [Ha Ho]. split.
    - rewrite Ha. apply seq_NoDup.
    - intros a b Hab. rewrite Ha. destruct (Ho a b Hab) as [H1 H2].
      split; apply in_seq; lia.
  Qed.

  Lemma cc_global_inj : forall c, In c ccs -> inj_on (cc_global c) (args (c_af c)).
  Proof.
    intros c Hc i j Hi Hj E. destruct (d_compact _ _ Hok c Hc) as [Ha _].
    rewrite Ha in Hi, Hj. apply in_seq in Hi. apply in_seq in Hj.
    unfold cc_global in E.
    apply (proj1 (NoDup_nth (c_ids c) 0) (comp_ids_NoDup c Hc)); [lia | lia | exact E].
  Qed.

  Lemma comp_global_args : forall c, In c ccs -> args (comp_global c) = c_ids c.
  Proof.
    intros c Hc. destruct (d_compact _ _ Hok c Hc) as [Ha _].
    unfold comp_global, rename. cbn [args]. rewrite Ha. unfold cc_global. apply map_nth_seq.
  Qed.

  Lemma comp_global_wf : forall c, In c ccs -> wf (comp_global c).
  Proof.
    intros c Hc. apply wf_rename; [apply comp_af_wf | apply cc_global_inj]; exact Hc.
  Qed.

  Lemma map_args_comp_global : map args (map comp_global ccs) = map c_ids ccs.
  Proof.
    rewrite map_map. apply map_ext_in. intros c Hc. apply comp_global_args. exact Hc.
  Qed.

  Lemma in_comp_ids : forall c a, In a (c_ids c) ->
    exists i, i < length (c_ids c) /\ cc_global c i = a.
  Proof. intros c a Ha. unfold cc_global. apply In_nth. exact Ha. Qed.

  Lemma cc_global_in : forall c i, i < length (c_ids c) -> In (cc_global c i) (c_ids c).
  Proof. intros c i Hi. unfold cc_global. apply nth_In. exact Hi. Qed.

  Lemma decomp_equiv : af_equiv F (big_union (map comp_global ccs)).
  Proof.
    split.
    - intros a. rewrite args_big_union, map_args_comp_global. apply (d_cover _ _ Hok).
    - intros a b. rewrite att_big_union. split.
      + intros Hab. destruct (d_nocross _ _ Hok a b Hab) as [c [Hc [Ha Hb]]].
        destruct (in_comp_ids c a Ha) as [i [Hi Ei]].
        destruct (in_comp_ids c b Hb) as [j [Hj Ej]]. subst a b.
        exists (comp_global c). split; [apply in_map; exact Hc|].
        unfold comp_global. apply att_rename. apply (d_att _ _ Hok c Hc i j Hi Hj). exact Hab.
      + intros [G [HG Hab]]. apply in_map_iff in HG. destruct HG as [c [E Hc]]. subst G.
        unfold comp_global in Hab. apply att_rename_inv in Hab.
        destruct Hab as [i [j [Ea [Eb Hij]]]]. subst a b.
        destruct (proj2 (d_compact _ _ Hok c Hc) i j Hij) as [Hi Hj].
        apply (d_att _ _ Hok c Hc i j Hi Hj). exact Hij.
  Qed.

  Lemma comp_local_incl : forall c S, In c ccs -> incl (comp_local c S) (args (c_af c)).
  Proof.
    intros c S Hc i Hi. rewrite (proj1 (d_compact _ _ Hok c Hc)).
    unfold comp_local in Hi. apply filter_In in Hi. tauto.
  Qed.

  Lemma comp_local_global : forall c S,
    seteq (map (cc_global c) (comp_local c S)) (restr (c_ids c) S).
  Proof.
    intros c S x. rewrite in_restr, in_map_iff. unfold comp_local. split.
    - intros [i [E Hi]]. apply filter_In in Hi. destruct Hi as [Hi Hm]. apply in_seq in Hi.
      apply memb_In in Hm. subst x. split; [apply cc_global_in; lia | exact Hm].
    - intros [Hx HS]. destruct (in_comp_ids c x Hx) as [i [Hi E]]. exists i.
      split; [exact E|]. apply filter_In. split; [apply in_seq; lia|].
      apply memb_In. rewrite E. exact HS.
  Qed.

  (* the full characterisation *)
  Theorem ext_decomp : forall s S,
    ext s F S <->
    incl S (args F) /\ forall c, In c ccs -> ext s (c_af c) (comp_local c S).
  Proof.
    intros s S. rewrite (ext_af_equiv s _ _ S decomp_equiv).
    assert (Hwfs : forall G, In G (map comp_global ccs) -> wf G).
    { intros G HG. apply in_map_iff in HG. destruct HG as [c [E Hc]]. subst G.
      apply comp_global_wf. exact Hc. }
    assert (Hnd : NoDup (concat (map args (map comp_global ccs)))).
    { rewrite map_args_comp_global. exact (d_nodup _ _ Hok). }
    rewrite (ext_big_union s _ S Hwfs Hnd). rewrite map_args_comp_global.
    assert (Hloc : forall c, In c ccs ->
              (ext s (comp_global c) (restr (args (comp_global c)) S) <->
               ext s (c_af c) (comp_local c S))).
    { intros c Hc. rewrite (comp_global_args c Hc).
      rewrite <- (ext_rename (cc_global c) (c_af c) (comp_af_wf c Hc) (cc_global_inj c Hc)
                    s (comp_local c S) (comp_local_incl c S Hc)).
      fold (comp_global c). split; apply ext_seteq.
      - apply seteq_sym. apply comp_local_global.
      - apply comp_local_global. }
    split.
    - intros [Hi Hall]. split.
      + intros a Ha. apply (d_cover _ _ Hok). apply Hi. exact Ha.
      + intros c Hc. apply (Hloc c Hc). apply Hall. apply in_map. exact Hc.
    - intros [Hi Hall]. split.
      + intros a Ha. apply (d_cover _ _ Hok). apply Hi. exact Ha.
      + intros G HG. apply in_map_iff in HG. destruct HG as [c [E Hc]]. subst G.
        apply (Hloc c Hc). apply Hall. exact Hc.
  Qed.

  (* the local trace of a gluing is the glued piece *)
  Lemma comp_local_glue : forall (Sc : comp -> list nat) c,
    (forall c', In c' ccs -> incl (Sc c') (seq 0 (length (c_ids c')))) -> In c ccs ->
    seteq (comp_local c (flat_map (fun c' => map (cc_global c') (Sc c')) ccs)) (Sc c).
  Proof.
    intros Sc c Hincl Hc i. unfold comp_local. rewrite filter_In, memb_In, in_flat_map. split.
    - intros [Hi [c' [Hc' Hx]]]. apply in_seq in Hi.
      apply in_map_iff in Hx. destruct Hx as [j [E Hj]].
      assert (Hjlt : j < length (c_ids c')).
      { apply (Hincl c' Hc') in Hj. apply in_seq in Hj. lia. }
      assert (c' = c).
      { apply (comps_disjoint ccs c' c (cc_global c i) (d_nodup _ _ Hok) Hc' Hc).
        - rewrite <- E. apply cc_global_in. exact Hjlt.
        - apply cc_global_in. lia. }
      subst c'. unfold cc_global in E.
      apply (proj1 (NoDup_nth (c_ids c) 0) (comp_ids_NoDup c Hc)) in E; [|exact Hjlt | lia].
      subst j. exact Hj.
    - intros Hi. split; [apply (Hincl c Hc); exact Hi|]. exists c. split; [exact Hc|].
      apply in_map. exact Hi.
  Qed.

  (* gluing: one extension per component gives an extension of the whole framework *)
  Theorem ext_glue : forall s (Sc : comp -> list nat),
    (forall c, In c ccs ->
       ext s (c_af c) (Sc c) /\ incl (Sc c) (seq 0 (length (c_ids c)))) ->
    ext s F (flat_map (fun c => map (cc_global c) (Sc c)) ccs).
  Proof.
    intros s Sc Hall. apply ext_decomp. split.
    - intros x Hx. apply in_flat_map in Hx. destruct Hx as [c [Hc Hx]].
      apply in_map_iff in Hx. destruct Hx as [i [E Hi]]. subst x.
      apply (d_cover _ _ Hok). apply in_concat. exists (c_ids c).
      split; [apply in_map; exact Hc|]. apply cc_global_in.
      apply (proj2 (Hall c Hc)) in Hi. apply in_seq in Hi. lia.
    - intros c Hc. destruct (Hall c Hc) as [Hext _].
      apply (ext_seteq s (c_af c) (Sc c)); [|exact Hext]. apply seteq_sym.
      apply comp_local_glue; [|exact Hc]. intros c' Hc'. exact (proj2 (Hall c' Hc')).
  Qed.

  (* projection: every extension of the framework restricts to an extension of each component *)
  Theorem ext_project : forall s S c,
    ext s F S -> In c ccs ->
    ext s (c_af c)
        (filter (fun i => memb (cc_global c i) S) (seq 0 (length (c_ids c)))).
  Proof.
    intros s S c HS Hc. apply ext_decomp in HS. destruct HS as [_ Hall]. exact (Hall c Hc).
  Qed.

  (* every extension is the gluing of its projections *)
  Theorem ext_glue_project : forall s S,
    ext s F S -> seteq S (flat_map (fun c => map (cc_global c) (comp_local c S)) ccs).
  Proof.
    intros s S HS x. pose proof (ext_incl s F S HS) as Hi. rewrite in_flat_map. split.
    - intros Hx. pose proof (proj1 (d_cover _ _ Hok x) (Hi x Hx)) as Hc.
      apply in_concat in Hc. destruct Hc as [l [Hl Hxl]]. apply in_map_iff in Hl.
      destruct Hl as [c [E Hc]]. subst l. exists c. split; [exact Hc|].
      apply (comp_local_global c S x). apply in_restr. split; assumption.
    - intros [c [Hc Hx]]. apply (comp_local_global c S x) in Hx. apply in_restr in Hx. tauto.
  Qed.

  Lemma comp_ext_incl : forall s c S, In c ccs -> ext s (c_af c) S ->
    incl S (seq 0 (length (c_ids c))).
  Proof.
    intros s c S Hc HS. rewrite <- (proj1 (d_compact _ _ Hok c Hc)). exact (ext_incl s _ S HS).
  Qed.

  (* a choice of one extension per component, with a prescribed one on [c] *)
  Lemma glue_choice : forall s c Sc0,
    (forall c', In c' ccs -> exists S, ext s (c_af c') S) ->
    ext s (c_af c) Sc0 ->
    exists Sc : comp -> list nat,
      Sc c = Sc0 /\ forall c', In c' ccs -> ext s (c_af c') (Sc c').
  Proof.
    intros s c Sc0 Hex H0.
    exists (fun c' => if comp_eq_dec c' c then Sc0 else hd [] (all_exts s (c_af c'))).
    split.
    - destruct (comp_eq_dec c c) as [_|Hn]; [reflexivity | exfalso; apply Hn; reflexivity].
    - intros c' Hc'. destruct (comp_eq_dec c' c) as [E|_]; [subst c'; exact H0|].
      destruct (Hex c' Hc') as [S HS].
      destruct (all_exts_complete s (c_af c') S HS) as [S' [HS' _]].
      apply all_exts_sound. destruct (all_exts s (c_af c')) as [|T r]; [destruct HS'|].
      left. reflexivity.
  Qed.

  (* queries about arguments of one component are answered on that component, provided every
     component has at least one extension (always true except for ST) *)
  Theorem cred_comp : forall s c A,
    In c ccs -> incl A (seq 0 (length (c_ids c))) ->
    (forall c', In c' ccs -> exists S, ext s (c_af c') S) ->
    (cred s F (map (cc_global c) A) <-> cred s (c_af c) A).
  Proof.
    intros s c A Hc HA Hex. unfold cred. split.
    - intros [S [HS [x [HxA HxS]]]]. exists (comp_local c S).
      split; [exact (ext_project s S c HS Hc)|].
      apply in_map_iff in HxA. destruct HxA as [a [E Ha]]. subst x. exists a.
      split; [exact Ha|]. unfold comp_local. apply filter_In.
      split; [apply HA; exact Ha | apply memb_In; exact HxS].
    - intros [Sc0 [H0 [a [HaA HaS]]]].
      destruct (glue_choice s c Sc0 Hex H0) as [Sc [E Hall]].
      exists (flat_map (fun c' => map (cc_global c') (Sc c')) ccs). split.
      + apply ext_glue. intros c' Hc'. split; [apply Hall; exact Hc'|].
        apply (comp_ext_incl s c' _ Hc'). apply Hall. exact Hc'.
      + exists (cc_global c a). split; [apply in_map; exact HaA|].
        apply in_flat_map. exists c. split; [exact Hc|]. apply in_map. rewrite E. exact HaS.
  Qed.

  Theorem skep_comp : forall s c A,
    In c ccs -> incl A (seq 0 (length (c_ids c))) ->
    (forall c', In c' ccs -> exists S, ext s (c_af c') S) ->
    (skep s F (map (cc_global c) A) <-> skep s (c_af c) A).
  Proof.
    intros s c A Hc HA Hex. unfold skep. split.
    - intros H Sc0 H0. destruct (glue_choice s c Sc0 Hex H0) as [Sc [E Hall]].
      assert (Hincl : forall c', In c' ccs -> incl (Sc c') (seq 0 (length (c_ids c')))).
      { intros c' Hc'. apply (comp_ext_incl s c' _ Hc'). apply Hall. exact Hc'. }
      destruct (H (flat_map (fun c' => map (cc_global c') (Sc c')) ccs)) as [x [HxA HxS]].
      { apply ext_glue. intros c' Hc'. split; [apply Hall; exact Hc' | apply Hincl; exact Hc']. }
      apply in_map_iff in HxA. destruct HxA as [a [Ex Ha]]. subst x. exists a.
      split; [exact Ha|]. rewrite <- E. apply (comp_local_glue Sc c Hincl Hc a).
      unfold comp_local. apply filter_In. split; [apply HA; exact Ha | apply memb_In; exact HxS].
    - intros H S HS. destruct (H _ (ext_project s S c HS Hc)) as [a [HaA HaS]].
      exists (cc_global c a). split; [apply in_map; exact HaA|].
      apply filter_In in HaS. apply memb_In. tauto.
  Qed.

  (* the ST corner: one component without stable extension and the framework has none *)
  Theorem st_comp_corner : forall c A,
    In c ccs -> (forall S, ~ st (c_af c) S) -> skep ST F A /\ ~ cred ST F A.
  Proof.
    intros c A Hc Hno. split.
    - intros S HS. exfalso. exact (Hno _ (ext_project ST S c HS Hc)).
    - intros [S [HS _]]. exact (Hno _ (ext_project ST S c HS Hc)).
  Qed.
End Decomp.

(* ------------------------------------------------------------------ *)
(** * The hypotheses are satisfiable *)

Example decomp_example_fw : af := {| args := [5; 7; 9]; atts := [(5, 7); (9, 9)] |}.
Example decomp_example_ccs : list comp :=
  [ {| c_ids := [7; 5]; c_af := {| args := [0; 1]; atts := [(1, 0)] |} |};
    {| c_ids := [9]; c_af := {| args := [0]; atts := [(0, 0)] |} |} ].

Example decomp_example_ok : decomp_ok decomp_example_fw decomp_example_ccs.
Proof. apply decomp_okb_sound. reflexivity. Qed.

Example decomp_example_glue :
  ext CO decomp_example_fw
      (flat_map (fun c => map (cc_global c) (if Nat.eqb (length (c_ids c)) 2 then [1] else []))
                decomp_example_ccs).
Proof.
  apply (ext_glue _ _ decomp_example_ok CO
           (fun c => if Nat.eqb (length (c_ids c)) 2 then [1] else [])).
  intros c [Hc|[Hc|[]]]; subst c; cbn [c_ids c_af length Nat.eqb seq].
  - split; [apply extb_ext; reflexivity|]. intros i [Hi|[]]. subst i. right. left. reflexivity.
  - split; [apply extb_ext; reflexivity|]. intros i [].
Qed.

(* ------------------------------------------------------------------ *)
Print Assumptions decomp_okb_sound.
Print Assumptions ext_decomp.
Print Assumptions ext_glue.
Print Assumptions ext_project.
Print Assumptions ext_glue_project.
Print Assumptions cred_comp.
Print Assumptions skep_comp.
Print Assumptions st_comp_corner.
