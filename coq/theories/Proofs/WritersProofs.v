(* Proofs about Model/Writers.v: the answers written by the two response writers read back to
   exactly the labels they contain; statuses. *)
From Crusta Require Import Spec.IoSpec Proofs.IoBase.
From Coq Require Import Lia ZifyBool.
Local Open Scope N_scope.

Lemma split_on_sep x w : forall rest, ~ In x w -> split_on x (w ++ x :: rest) = w :: split_on x rest.
Proof.
  induction w as [|c w IH]; intros rest Hn; cbn [app split_on].
  - rewrite N.eqb_refl. reflexivity.
  - destruct (c =? x) eqn:E.
    + apply N.eqb_eq in E. subst c. exfalso. apply Hn. left; reflexivity.
    + rewrite IH; [reflexivity|]. intros Hin. apply Hn. right; assumption.
Qed.
Lemma split_on_last x w : ~ In x w -> split_on x w = [w].
Proof.
  induction w as [|c w IH]; intros Hn; cbn [split_on]; [reflexivity|].
  destruct (c =? x) eqn:E.
  - apply N.eqb_eq in E. subst c. exfalso. apply Hn. left; reflexivity.
  - rewrite IH; [reflexivity|]. intros Hin. apply Hn. right; assumption.
Qed.

Lemma raw_lines_single a : ~ In 10 a -> raw_lines (a ++ [10]) = [(a, true)].
Proof. intros H. rewrite raw_lines_nl by assumption. reflexivity. Qed.

Lemma digits_not_in l x : Forall digit l -> (x = 10 \/ x = 32 \/ x = 44) -> ~ In x l.
Proof.
  intros H Hx Hin. rewrite Forall_forall in H. specialize (H _ Hin). unfold digit, is_digit in H. lia.
Qed.

(* ------------------------------------------------------------------ ICCMA'23 extension line *)
Definition w_tail (labels : list N) : list N := flat_map (fun n => 32 :: dec n) labels.

Lemma split_w_tail labels : forall w, ~ In 32 w -> split_on 32 (w ++ w_tail labels) = w :: map dec labels.
Proof.
  induction labels as [|n labels IH]; intros w Hw; cbn [w_tail flat_map map].
  - rewrite app_nil_r. apply split_on_last, Hw.
  - cbn [app]. rewrite split_on_sep by assumption. f_equal. fold (w_tail labels).
    apply IH. apply digits_not_in; [apply dec_digits|auto].
Qed.
Lemma w_tail_no_lf labels : ~ In 10 (w_tail labels).
Proof.
  unfold w_tail. intros Hin. apply in_flat_map in Hin. destruct Hin as [n [_ [H|H]]]; [discriminate|].
  revert H. apply digits_not_in; [apply dec_digits|auto].
Qed.
Lemma map_opt_parse_dec labels : map_opt parse_digits (map dec labels) = Some labels.
Proof.
  induction labels as [|n labels IH]; cbn [map map_opt]; [reflexivity|].
  rewrite IH. unfold parse_digits. pose proof (dec_nonnil n) as Hne. pose proof (dec_val n) as Hv.
  destruct (dec n); [congruence|]. rewrite Hv. reflexivity.
Qed.

Lemma parse_write_w labels : parse_w (write_w labels) = Some labels.
Proof.
  unfold write_w, parse_w. fold (w_tail labels).
  replace ([119] ++ w_tail labels ++ [10]) with ((119 :: w_tail labels) ++ [10]) by reflexivity.
  rewrite raw_lines_single.
  2:{ intros [H|H]; [discriminate|]. revert H. apply w_tail_no_lf. }
  change (119 :: w_tail labels) with ([119] ++ w_tail labels).
  rewrite split_w_tail by (intros [H|[]]; discriminate).
  cbn [str_eqb]. rewrite N.eqb_refl. cbn [andb]. apply map_opt_parse_dec.
Qed.

(* ------------------------------------------------------------------ Aspartix extension line *)
Definition label_ok (l : str) : Prop := l <> [] /\ Forall scalar l /\ ~ In 44 l /\ ~ In 10 l.

Lemma unsnoc_snoc a x : unsnoc (a ++ [x]) = Some (a, x).
Proof.
  induction a as [|c a IH]; [reflexivity|]. cbn [app unsnoc]. rewrite IH. reflexivity.
Qed.

Lemma join_comma_cons x r : r <> [] -> join_comma (x :: r) = x ++ [44] ++ join_comma r.
Proof. destruct r; [congruence|reflexivity]. Qed.

Lemma split_join items : items <> [] -> Forall (fun i => ~ In 44 i) items ->
  split_on 44 (join_comma items) = items.
Proof.
  induction items as [|x r IH]; intros Hne Hall; [congruence|].
  inversion Hall as [|? ? Hx Hr]; subst. destruct r as [|y r'].
  - cbn [join_comma]. apply split_on_last, Hx.
  - rewrite join_comma_cons by discriminate. cbn [app]. rewrite split_on_sep by assumption.
    f_equal. apply IH; [discriminate|assumption].
Qed.
Lemma join_no_lf items : Forall (fun i => ~ In 10 i) items -> ~ In 10 (join_comma items).
Proof.
  induction items as [|x r IH]; intros Hall; [intros []|].
  inversion Hall as [|? ? Hx Hr]; subst. destruct r as [|y r'].
  - exact Hx.
  - rewrite join_comma_cons by discriminate. intros Hin. apply in_app_or in Hin.
    destruct Hin as [H|[H|H]]; [auto|discriminate|]. revert H. apply IH, Hr.
Qed.
Lemma join_nonnil items : items <> [] -> Forall (fun i => i <> []) items -> join_comma items <> [].
Proof.
  destruct items as [|x r]; [congruence|]. intros _ Hall. inversion Hall as [|? ? Hx _]; subst.
  destruct r; cbn [join_comma]; [assumption|]. intros H. apply app_eq_nil in H. destruct H; auto.
Qed.

Lemma parse_write_bracket labels : Forall label_ok labels ->
  parse_bracket (write_bracket labels) = Some labels.
Proof.
  intros Hok. unfold write_bracket, parse_bracket.
  set (J := join_comma (map utf8_encode labels)).
  replace ([91] ++ J ++ [93; 10]) with ((91 :: J ++ [93]) ++ [10])
    by (cbn [app]; rewrite <- app_assoc; reflexivity).
  assert (Hno44 : Forall (fun i => ~ In 44 i) (map utf8_encode labels)).
  { apply Forall_forall. intros i Hi. apply in_map_iff in Hi. destruct Hi as [l [<- Hl]].
    rewrite Forall_forall in Hok. destruct (Hok _ Hl) as [_ [_ [H _]]]. apply encode_no_byte; [lia|assumption]. }
  assert (Hno10 : Forall (fun i => ~ In 10 i) (map utf8_encode labels)).
  { apply Forall_forall. intros i Hi. apply in_map_iff in Hi. destruct Hi as [l [<- Hl]].
    rewrite Forall_forall in Hok. destruct (Hok _ Hl) as [_ [_ [_ H]]]. apply encode_no_byte; [lia|assumption]. }
  assert (Hnn : Forall (fun i => i <> []) (map utf8_encode labels)).
  { apply Forall_forall. intros i Hi. apply in_map_iff in Hi. destruct Hi as [l [<- Hl]].
    rewrite Forall_forall in Hok. destruct (Hok _ Hl) as [H _]. apply encode_nonnil, H. }
  rewrite raw_lines_single.
  2:{ intros [H|H]; [discriminate|]. apply in_app_or in H. destruct H as [H|[H|[]]]; [|discriminate].
      revert H. apply join_no_lf, Hno10. }
  rewrite unsnoc_snoc.
  destruct labels as [|l labels]; [reflexivity|].
  assert (HJ : J <> []) by (apply join_nonnil; [discriminate|assumption]).
  destruct J as [|j J'] eqn:EJ; [congruence|]. rewrite <- EJ. unfold J.
  rewrite split_join by (try discriminate; assumption).
  clear EJ HJ J Hno44 Hno10 Hnn. induction (l :: labels) as [|x r IH]; [reflexivity|].
  inversion Hok as [|? ? Hx Hr]; subst. cbn [map map_opt]. rewrite (IH Hr).
  destruct Hx as [Hne [Hs _]]. unfold nonempty_decode.
  pose proof (encode_nonnil x Hne) as He. destruct (utf8_encode x) eqn:E; [congruence|].
  rewrite <- E, utf8_roundtrip by assumption. reflexivity.
Qed.

(* identifiers (the labels an Aspartix framework can have) satisfy [label_ok] *)
Lemma ident_label_ok l : is_ident l = true -> label_ok l.
Proof.
  intros H. assert (Hc : Forall (fun x => is_id_char x = true) l).
  { destruct l as [|c r]; [discriminate|]. cbn [is_ident] in H. apply andb_true_iff in H. destruct H as [H1 H2].
    constructor; [unfold is_id_char; rewrite H1; reflexivity|]. apply Forall_forall. rewrite forallb_forall in H2. exact H2. }
  split; [destruct l; [discriminate|discriminate]|]. split.
  - eapply Forall_impl; [|exact Hc]. intros c Hcc. apply id_char_scalar, Hcc.
  - rewrite Forall_forall in Hc. split; intros Hin.
    + apply (id_char_not 44 44 (Hc _ Hin)); auto 10.
    + apply (id_char_not 10 10 (Hc _ Hin)); auto 10.
Qed.

(* ------------------------------------------------------------------ statuses *)
Lemma status_exact b :
  write_status b = (if b then [89; 69; 83; 10] else [78; 79; 10]) /\ write_no = [78; 79; 10].
Proof. split; reflexivity. Qed.

(* ------------------------------------------------------------------ written frameworks *)
From Crusta Require Import Proofs.ReadersProofs Proofs.ApxProofs.

Lemma encode_ascii_cons c s : c < 128 -> utf8_encode (c :: s) = c :: utf8_encode s.
Proof.
  intros H. unfold utf8_encode. cbn [flat_map]. unfold utf8_encode_cp.
  rwb (c <? 128) true. reflexivity.
Qed.

Lemma render_lines_lf ls : render_lines ls [] true = flat_map (fun s => utf8_encode s ++ [10]) ls.
Proof.
  induction ls as [|s r IH]; [reflexivity|]. cbn [render_lines flat_map]. destruct r as [|s' r'].
  - cbn [hd eol flat_map]. rewrite app_nil_r. reflexivity.
  - cbn [hd tl eol]. rewrite IH, <- app_assoc. reflexivity.
Qed.

Definition canon_arg (l : str) : arg_line :=
  {| ar_pre := []; ar_b1 := []; ar_label := l; ar_b2 := []; ar_post := [] |}.
Definition canon_att (p : str * str) : att_aline :=
  {| at_pre := []; at_b1 := []; at_a := fst p; at_b2 := []; at_b3 := []; at_b := snd p; at_b4 := [];
     at_post := [] |}.
Definition canon_file (labels : list str) (pairs : list (str * str)) : apx_file :=
  {| a_decls := map (fun l => DArg (canon_arg l)) labels; a_atts := map (fun p => AAtt (canon_att p)) pairs |}.

Lemma canon_arg_bytes l :
  utf8_encode (render_arg_line (canon_arg l)) ++ [10] = Writers.arg_line str utf8_encode l.
Proof.
  unfold render_arg_line, canon_arg, Writers.arg_line. cbn [ar_pre ar_b1 ar_label ar_b2 ar_post app].
  rewrite !encode_ascii_cons by lia. rewrite encode_app.
  rewrite !encode_ascii_cons by lia. cbn [utf8_encode flat_map app]. rewrite <- app_assoc. reflexivity.
Qed.
Lemma canon_att_bytes p :
  utf8_encode (render_att_aline (canon_att p)) ++ [10] = Writers.att_line str utf8_encode (fst p) (snd p).
Proof.
  unfold render_att_aline, canon_att, Writers.att_line.
  cbn [at_pre at_b1 at_a at_b2 at_b3 at_b at_b4 at_post app].
  rewrite !encode_ascii_cons by lia. rewrite encode_app.
  rewrite !encode_ascii_cons by lia. rewrite encode_app.
  rewrite !encode_ascii_cons by lia. cbn [utf8_encode flat_map app]. rewrite <- !app_assoc. cbn [app].
  rewrite <- !app_assoc. reflexivity.
Qed.

Lemma flat_map_map {A B C} (g : B -> list C) (h : A -> B) l :
  flat_map g (map h l) = flat_map (fun x => g (h x)) l.
Proof. induction l as [|x l IH]; cbn [map flat_map]; [reflexivity|]. rewrite IH. reflexivity. Qed.

Lemma canon_bytes labels pairs :
  render_lines (apx_file_lines (canon_file labels pairs)) [] true =
  flat_map (Writers.arg_line str utf8_encode) labels ++
  flat_map (fun p => Writers.att_line str utf8_encode (fst p) (snd p)) pairs.
Proof.
  rewrite render_lines_lf. unfold apx_file_lines, canon_file. cbn [a_decls a_atts].
  rewrite flat_map_app, !map_map, !flat_map_map. cbn [decl_line atts_line]. f_equal.
  - apply flat_map_ext. intros l. apply canon_arg_bytes.
  - apply flat_map_ext. intros p. apply canon_att_bytes.
Qed.

Lemma canon_labels labels pairs : decl_labels (canon_file labels pairs) = labels.
Proof.
  unfold decl_labels, canon_file. cbn [a_decls]. rewrite flat_map_map. cbn [canon_arg ar_label].
  induction labels as [|l r IH]; cbn [flat_map app]; [reflexivity|]. rewrite IH. reflexivity.
Qed.
Lemma canon_pairs labels pairs : att_pairs (canon_file labels pairs) = pairs.
Proof.
  unfold att_pairs, canon_file. cbn [a_atts]. rewrite flat_map_map. cbn [canon_att at_a at_b].
  induction pairs as [|[a b] r IH]; cbn [flat_map app fst snd]; [reflexivity|]. rewrite IH. reflexivity.
Qed.

(* the bytes AspartixWriter::write_framework emits for labels [labels] and attacks [pairs] (one
   `arg(l).` line per label, then one `att(a,b).` line per pair) are read back by the Aspartix reader
   as the framework built from those labels and attacks *)
Lemma read_written labels pairs :
  Forall (fun l => is_ident l = true) labels ->
  (forall p, In p pairs -> In (fst p) labels /\ In (snd p) labels) ->
  read_apx (flat_map (Writers.arg_line str utf8_encode) labels ++
            flat_map (fun p => Writers.att_line str utf8_encode (fst p) (snd p)) pairs) =
  RdOk (apx_result labels pairs).
Proof.
  intros Hid Hin. rewrite <- canon_bytes.
  rewrite apx_faithful.
  - rewrite canon_labels, canon_pairs. reflexivity.
  - unfold apx_file_ok. rewrite canon_labels, canon_pairs. split; [|split; [|exact Hin]].
    + unfold canon_file. cbn [a_decls]. apply Forall_forall. intros i Hi. apply in_map_iff in Hi.
      destruct Hi as [l [<- Hl]]. cbn [decl_item_ok]. unfold arg_line_ok, canon_arg.
      cbn [ar_pre ar_b1 ar_label ar_b2 ar_post]. rewrite Forall_forall in Hid.
      repeat split; try constructor. apply Hid, Hl.
    + unfold canon_file. cbn [a_atts]. apply Forall_forall. intros i Hi. apply in_map_iff in Hi.
      destruct Hi as [p [<- Hp]]. cbn [atts_item_ok]. unfold att_aline_ok, canon_att.
      cbn [at_pre at_b1 at_a at_b2 at_b3 at_b at_b4 at_post]. rewrite Forall_forall in Hid.
      destruct (Hin p Hp) as [Ha Hb]. repeat split; try constructor; apply Hid; assumption.
  - intros H; discriminate.
Qed.

(* ================================================================== written stores (C14, full statement) *)
From Crusta Require Import Proofs.StoreBase Proofs.StoreProofs.

(* ------------------------------------------------------------------ written stores *)
(* the attacks of a store, in iteration order, as label pairs: [pairs] lists, for each attack
   (a, b) of [iter_attacks], the labels that [iter_args] gives to the ids a and b *)
Definition att_labels_are {L} (f : fw L) (pairs : list (L * L)) : Prop :=
  Forall2 (fun ids labs => In (fst ids, fst labs) (iter_args L f) /\ In (snd ids, snd labs) (iter_args L f))
          (iter_attacks L f) pairs.

Notation SInv := (StoreProofs.Inv str).

Lemma label_of_In (f : fw str) id l : SInv f ->
  (label_of str f id = Some l <-> In (id, l) (iter_args str f)).
Proof.
  intros Hinv. unfold label_of, iter_args, ls_iter. rewrite (live_slot str f id l Hinv). split.
  - destruct (nth id (slots (ls f)) None) as [[i l']|] eqn:E; [|discriminate].
    intros [= ->]. pose proof (inv_id str f Hinv id _ E) as Hi. cbn [fst] in Hi. subst i. reflexivity.
  - intros ->. reflexivity.
Qed.

Lemma att_lines_ok (f : fw str) : SInv f -> forall atts, incl atts (iter_attacks str f) ->
  exists pairs,
    Forall2 (fun ids labs => In (fst ids, fst labs) (iter_args str f) /\ In (snd ids, snd labs) (iter_args str f))
            atts pairs /\
    att_lines str utf8_encode f atts =
    Some (flat_map (fun p => Writers.att_line str utf8_encode (fst p) (snd p)) pairs).
Proof.
  intros Hinv. induction atts as [|[a b] r IH]; intros Hincl.
  - exists []. split; [constructor|reflexivity].
  - destruct IH as [pairs [HF Hl]]; [intros x Hx; apply Hincl; right; exact Hx|].
    assert (Hin : In (a, b) (iter_attacks str f)) by (apply Hincl; left; reflexivity).
    unfold iter_attacks in Hin. apply In_fs_nth in Hin. destruct Hin as [k Hk].
    destruct (inv_live str f Hinv k a b Hk) as [Ha [Hb _]].
    destruct (label_of str f a) as [la|] eqn:Ela.
    2:{ exfalso. unfold label_of in Ela. destruct (nth a (slots (ls f)) None) as [[i l]|]; [discriminate|congruence]. }
    destruct (label_of str f b) as [lb|] eqn:Elb.
    2:{ exfalso. unfold label_of in Elb. destruct (nth b (slots (ls f)) None) as [[i l]|]; [discriminate|congruence]. }
    exists ((la, lb) :: pairs). split.
    + constructor; [|exact HF]. cbn [fst snd]. split; apply (label_of_In f _ _ Hinv); assumption.
    + cbn [att_lines flat_map fst snd]. rewrite Ela, Elb, Hl. reflexivity.
Qed.

Lemma fst_functional {A B} (l : list (A * B)) k x y :
  NoDup (map fst l) -> In (k, x) l -> In (k, y) l -> x = y.
Proof.
  induction l as [|[k' z] l IH]; intros Hnd Hx Hy; [destruct Hx|].
  cbn [map fst] in Hnd. inversion Hnd as [|? ? Hn Hnd']; subst.
  destruct Hx as [Hx|Hx]; destruct Hy as [Hy|Hy].
  - congruence.
  - injection Hx as -> ->. exfalso. apply Hn. apply in_map_iff. exists (k, y). split; [reflexivity|assumption].
  - injection Hy as -> ->. exfalso. apply Hn. apply in_map_iff. exists (k, x). split; [reflexivity|assumption].
  - apply IH; assumption.
Qed.

Lemma Forall2_NoDup {A B} (R : A -> B -> Prop) l1 l2 :
  (forall x x' y, R x y -> R x' y -> x = x') -> Forall2 R l1 l2 -> NoDup l1 -> NoDup l2.
Proof.
  intros Hinj HF. induction HF as [|x y l1 l2 Hxy HF IH]; intros Hnd; [constructor|].
  inversion Hnd as [|? ? Hn Hnd']; subst. constructor; [|apply IH, Hnd'].
  intros Hin. apply Hn. clear IH Hnd Hnd' Hn.
  induction HF as [|x' y' l1 l2 Hxy' HF IH]; [destruct Hin|].
  destruct Hin as [->|Hin]; [left; eapply Hinj; eassumption|right; apply IH, Hin].
Qed.

Lemma Forall2_map_l {A B} (R : A -> B -> Prop) (g : B -> A) l :
  (forall p, In p l -> R (g p) p) -> Forall2 R (map g l) l.
Proof.
  induction l as [|p l IH]; intros H; cbn [map]; constructor.
  - apply H. left; reflexivity.
  - apply IH. intros q Hq. apply H. right; exact Hq.
Qed.

Lemma NoDup_map_on {A B} (g : A -> B) l :
  (forall x y, In x l -> In y l -> g x = g y -> x = y) -> NoDup l -> NoDup (map g l).
Proof.
  induction l as [|x l IH]; intros Hinj Hnd; cbn [map]; [constructor|].
  inversion Hnd as [|? ? Hn Hnd']; subst. constructor.
  - intros Hin. apply in_map_iff in Hin. destruct Hin as [y [Hy Hin]].
    assert (y = x) by (apply Hinj; [right; assumption|left; reflexivity|assumption]). subst y. contradiction.
  - apply IH; [|assumption]. intros a b Ha Hb. apply Hinj; right; assumption.
Qed.

(* the set-level run of a list of attack insertions between existing labels, none of them twice *)
Definition sid (s : sstore str) (l : str) : nat :=
  match s_find str str_eqb s l with Some k => k | None => 0 end.
Definition idp (s : sstore str) (p : str * str) : nat * nat := (sid s (fst p), sid s (snd p)).

Lemma fold_new_att pairs : forall s,
  (forall p, In p pairs -> s_find str str_eqb s (fst p) <> None /\ s_find str str_eqb s (snd p) <> None) ->
  NoDup (rel s ++ map (idp s) pairs) ->
  fold_left (fun s o => fst (s_step str str_eqb s o)) (map mkop pairs) s =
  {| next_id := next_id s; live := live s; rel := rel s ++ map (idp s) pairs |}.
Proof.
  induction pairs as [|[a b] r IH]; intros s Hfind Hnd; cbn [map fold_left].
  - rewrite app_nil_r. destruct s; reflexivity.
  - destruct (Hfind (a, b) (or_introl eq_refl)) as [Ha Hb]. cbn [fst snd] in Ha, Hb.
    cbn [mkop fst snd s_step].
    destruct (s_find str str_eqb s a) as [x|] eqn:Ex; [|congruence].
    destruct (s_find str str_eqb s b) as [y|] eqn:Ey; [|congruence].
    assert (Hidp : idp s (a, b) = (x, y)).
    { unfold idp, sid. cbn [fst snd]. rewrite Ex, Ey. reflexivity. }
    cbn [map] in Hnd. rewrite Hidp in Hnd.
    assert (Hno : s_has_att str s (x, y) = false).
    { destruct (s_has_att str s (x, y)) eqn:E; [|reflexivity]. exfalso.
      unfold s_has_att in E. apply existsb_exists in E. destruct E as [q [Hq Hpq]].
      apply (pair_eqb_eq (x, y) q) in Hpq. subst q.
      apply NoDup_remove_2 in Hnd. apply Hnd. apply in_or_app. left; assumption. }
    rewrite Hno. cbn [fst].
    set (s' := {| next_id := next_id s; live := live s; rel := rel s ++ [(x, y)] |}).
    assert (Hsame : forall l, s_find str str_eqb s' l = s_find str str_eqb s l) by reflexivity.
    assert (Hidp' : forall p, idp s' p = idp s p) by reflexivity.
    rewrite (IH s').
    + cbn [next_id live rel s']. rewrite (map_ext _ _ Hidp'), Hidp, <- app_assoc. reflexivity.
    + intros p Hp. rewrite !Hsame. apply Hfind. right; exact Hp.
    + cbn [rel s']. rewrite (map_ext _ _ Hidp'), <- app_assoc. exact Hnd.
Qed.

Lemma s_find_some (s : sstore str) l : In l (map snd (live s)) -> s_find str str_eqb s l <> None.
Proof.
  intros Hin. unfold s_find. destruct (find (fun p => str_eqb l (snd p)) (live s)) eqn:E; [discriminate|].
  exfalso. apply in_map_iff in Hin. destruct Hin as [p [<- Hp]].
  pose proof (find_none _ _ E p Hp) as Hf. cbn beta in Hf. rewrite str_eqb_refl in Hf. discriminate.
Qed.

Lemma sid_In (s : sstore str) l : In l (map snd (live s)) -> In (sid s l, l) (live s).
Proof.
  intros Hin. pose proof (s_find_some s l Hin) as Hs. unfold sid.
  destruct (s_find str str_eqb s l) as [k|] eqn:E; [|congruence].
  apply (s_find_In str str_eqb str_eqb_spec). exact E.
Qed.

(* shape of the framework the reader builds from distinct labels and distinct attacks *)
Lemma apx_result_shape labels pairs : NoDup labels -> NoDup pairs ->
  (forall p, In p pairs -> In (fst p) labels /\ In (snd p) labels) ->
  iter_args str (apx_result labels pairs) = numbered 0 labels /\
  att_labels_are (apx_result labels pairs) pairs.
Proof.
  intros Hndl Hndp Hin.
  set (f0 := fw_new_with_labels str str_eqb labels).
  assert (Hinv0 : SInv f0) by apply (init_inv str str_eqb str_eqb_spec).
  assert (Hlive0 : live (abs str f0) = numbered 0 labels).
  { unfold abs. cbn [live]. unfold f0. rewrite init_iter_args.
    rewrite (dedup_nodup str str_eqb str_eqb_spec); [reflexivity|exact Hndl]. }
  assert (Hrel0 : rel (abs str f0) = []) by reflexivity.
  assert (Hlab0 : map snd (live (abs str f0)) = labels) by (rewrite Hlive0; apply map_snd_numbered).
  pose proof (run_refines str str_eqb str_eqb_spec (map mkop pairs) f0 Hinv0) as Habs.
  change (run_ops str str_eqb f0 (map mkop pairs)) with (apx_result labels pairs) in Habs.
  assert (Hsid_inj : forall l l', In l labels -> In l' labels ->
            sid (abs str f0) l = sid (abs str f0) l' -> l = l').
  { intros l l' Hl Hl' He. rewrite <- Hlab0 in Hl, Hl'.
    pose proof (sid_In _ _ Hl) as H1. pose proof (sid_In _ _ Hl') as H2. rewrite He in H1.
    eapply fst_functional; [|exact H1|exact H2].
    rewrite Hlive0, map_fst_numbered. apply seq_NoDup. }
  rewrite fold_new_att in Habs.
  - assert (Hargs : iter_args str (apx_result labels pairs) = numbered 0 labels).
    { change (iter_args str (apx_result labels pairs)) with (live (abs str (apx_result labels pairs))).
      rewrite Habs. cbn [live]. exact Hlive0. }
    split; [exact Hargs|].
    unfold att_labels_are. rewrite Hargs.
    change (iter_attacks str (apx_result labels pairs)) with (rel (abs str (apx_result labels pairs))).
    rewrite Habs. cbn [rel]. rewrite Hrel0. cbn [app]. apply Forall2_map_l.
    intros p Hp. destruct (Hin p Hp) as [Ha Hb]. rewrite <- Hlive0. unfold idp. cbn [fst snd].
    split; apply sid_In; rewrite Hlab0; assumption.
  - intros p Hp. destruct (Hin p Hp) as [Ha Hb]. split; apply s_find_some; rewrite Hlab0; assumption.
  - rewrite Hrel0. cbn [app]. apply NoDup_map_on; [|exact Hndp].
    intros [a b] [a' b'] Hp Hp' He. unfold idp in He. cbn [fst snd] in He. injection He as E1 E2.
    destruct (Hin _ Hp) as [Ha Hb]. destruct (Hin _ Hp') as [Ha' Hb']. cbn [fst snd] in *.
    f_equal; apply Hsid_inj; assumption.
Qed.

(* what is written for a reachable store is read back as the same labels, in the same order, and
   the same attacks (as label pairs), in the same order *)
Lemma read_of_written_store (f : fw str) :
  (exists ls os, f = run_ops str str_eqb (fw_new_with_labels str str_eqb ls) os) ->
  Forall (fun p => is_ident (snd p) = true) (iter_args str f) ->
  exists bytes f' pairs,
    write_apx str utf8_encode f = Some bytes /\
    read_apx bytes = RdOk f' /\
    f' = apx_result (map snd (iter_args str f)) pairs /\
    iter_args str f' = numbered 0 (map snd (iter_args str f)) /\
    att_labels_are f pairs /\ att_labels_are f' pairs.
Proof.
  intros Hr Hid. pose proof (reach_inv str str_eqb str_eqb_spec f Hr) as Hinv.
  destruct (att_lines_ok f Hinv (iter_attacks str f) (incl_refl _)) as [pairs [HF Hl]].
  set (labels := map snd (iter_args str f)).
  assert (Hndl : NoDup labels) by exact (inv_lab str f Hinv).
  assert (Hin : forall p, In p pairs -> In (fst p) labels /\ In (snd p) labels).
  { clear Hl. induction HF as [|ids labs l1 l2 [H1 H2] HF IH]; intros p Hp; [destruct Hp|].
    destruct Hp as [<-|Hp]; [|apply IH, Hp].
    split; [exact (in_map snd _ _ H1)|exact (in_map snd _ _ H2)]. }
  assert (Hndp : NoDup pairs).
  { eapply Forall2_NoDup; [|exact HF|exact (inv_ndatt str f Hinv)].
    intros [a b] [a' b'] [la lb]. cbn [fst snd]. intros [H1 H2] [H1' H2'].
    f_equal; eapply snd_functional; try eassumption; exact Hndl. }
  destruct (apx_result_shape labels pairs Hndl Hndp Hin) as [Hargs Hatts].
  exists (flat_map (Writers.arg_line str utf8_encode) labels ++
          flat_map (fun p => Writers.att_line str utf8_encode (fst p) (snd p)) pairs),
         (apx_result labels pairs), pairs.
  split; [|split; [|split; [reflexivity|split; [exact Hargs|split; [exact HF|exact Hatts]]]]].
  - unfold write_apx. rewrite Hl. cbn [option_map]. unfold labels. rewrite flat_map_map. reflexivity.
  - apply read_written; [|exact Hin].
    unfold labels. apply Forall_forall. intros l Hl'. apply in_map_iff in Hl'. destruct Hl' as [p [<- Hp]].
    rewrite Forall_forall in Hid. apply Hid, Hp.
Qed.

(* set view: [la] attacks [lb] in the store [f] *)
Definition has_att_lab {L} (f : fw L) (la lb : L) : Prop :=
  exists a b, In (a, la) (iter_args L f) /\ In (b, lb) (iter_args L f) /\ In (a, b) (iter_attacks L f).

Lemma att_labels_set {L} (f : fw L) pairs :
  (forall k x y, In (k, x) (iter_args L f) -> In (k, y) (iter_args L f) -> x = y) ->
  att_labels_are f pairs -> forall la lb, has_att_lab f la lb <-> In (la, lb) pairs.
Proof.
  intros Hfun HF la lb. unfold has_att_lab, att_labels_are in *.
  induction HF as [|ids labs l1 l2 [H1 H2] HF IH].
  - split; [intros [a [b [_ [_ []]]]]|intros []].
  - split.
    + intros [a [b [Ha [Hb [Hab|Hab]]]]].
      * subst ids. cbn [fst snd] in H1, H2. left. destruct labs as [x y]. cbn [fst snd] in H1, H2.
        f_equal; eapply Hfun; eassumption.
      * right. apply IH. exists a, b. split; [assumption|]. split; assumption.
    + intros [Hl|Hl].
      * subst labs. cbn [fst snd] in H1, H2. exists (fst ids), (snd ids).
        split; [assumption|]. split; [assumption|]. left. destruct ids; reflexivity.
      * apply IH in Hl. destruct Hl as [a [b [Ha [Hb Hab]]]]. exists a, b.
        split; [assumption|]. split; [assumption|]. right. assumption.
Qed.

Lemma args_functional (f : fw str) : SInv f ->
  forall k x y, In (k, x) (iter_args str f) -> In (k, y) (iter_args str f) -> x = y.
Proof.
  intros Hinv k x y Hx Hy. unfold iter_args, ls_iter in Hx, Hy.
  apply (live_slot str f k x Hinv) in Hx. apply (live_slot str f k y Hinv) in Hy. congruence.
Qed.

(* the statement of Properties/C14.v *)
Lemma read_of_written_full (f : fw str) :
  (exists ls os, f = run_ops str str_eqb (fw_new_with_labels str str_eqb ls) os) ->
  Forall (fun p => is_ident (snd p) = true) (iter_args str f) ->
  exists bytes f' pairs,
    write_apx str utf8_encode f = Some bytes /\
    read_apx bytes = RdOk f' /\
    iter_args str f' = numbered 0 (map snd (iter_args str f)) /\
    att_labels_are f pairs /\ att_labels_are f' pairs /\
    (forall la lb, has_att_lab f' la lb <-> has_att_lab f la lb) /\
    n_arguments str f' = n_arguments str f /\ n_attacks str f' = n_attacks str f.
Proof.
  intros Hr Hid. destruct (read_of_written_store f Hr Hid) as [bytes [f' [pairs [H1 [H2 [H3 [H4 [H5 H6]]]]]]]].
  pose proof (reach_inv str str_eqb str_eqb_spec f Hr) as Hinv.
  assert (Hinv' : SInv f').
  { rewrite H3. unfold apx_result. apply (run_inv str str_eqb str_eqb_spec), (init_inv str str_eqb str_eqb_spec). }
  exists bytes, f', pairs.
  split; [exact H1|]. split; [exact H2|]. split; [exact H4|]. split; [exact H5|]. split; [exact H6|].
  split; [|split].
  - intros la lb.
    rewrite (att_labels_set f' pairs (args_functional f' Hinv') H6 la lb).
    rewrite (att_labels_set f pairs (args_functional f Hinv) H5 la lb). reflexivity.
  - assert (Hn : forall g, SInv g -> n_arguments str g = length (iter_args str g)).
    { intros g Hg. unfold n_arguments, ls_len, iter_args, ls_iter. pose proof (inv_nrem str g Hg). lia. }
    rewrite (Hn f' Hinv'), (Hn f Hinv), H4.
    assert (Hlen : forall (l : list str) off, length (numbered off l) = length l).
    { induction l as [|x l IH]; intros off; cbn [numbered length]; [reflexivity|]. rewrite IH. reflexivity. }
    rewrite Hlen, map_length. reflexivity.
  - assert (Hn : forall g, SInv g -> n_attacks str g = length (iter_attacks str g)).
    { intros g Hg. unfold n_attacks, iter_attacks. pose proof (inv_nrema str g Hg). lia. }
    rewrite (Hn f' Hinv'), (Hn f Hinv).
    assert (HFl : forall (A B : Type) (R : A -> B -> Prop) l1 l2, Forall2 R l1 l2 -> length l1 = length l2).
    { intros A B R l1 l2 HF. induction HF as [|x y l1 l2 _ _ IH]; cbn [length]; [reflexivity|]. rewrite IH. reflexivity. }
    unfold att_labels_are in H5, H6. apply HFl in H5, H6. congruence.
Qed.


(* set-level run of attack insertions, duplicates allowed *)
Lemma fold_new_att_set pairs : forall s,
  (forall p, In p pairs -> s_find str str_eqb s (fst p) <> None /\ s_find str str_eqb s (snd p) <> None) ->
  let s' := fold_left (fun s o => fst (s_step str str_eqb s o)) (map mkop pairs) s in
  live s' = live s /\
  forall q, In q (rel s') <-> In q (rel s) \/ In q (map (idp s) pairs).
Proof.
  induction pairs as [|[a b] r IH]; intros s Hfind; cbn [map fold_left].
  - split; [reflexivity|]. intros q. split; [auto|intros [H|[]]; exact H].
  - destruct (Hfind (a, b) (or_introl eq_refl)) as [Ha Hb]. cbn [fst snd] in Ha, Hb.
    cbn [mkop fst snd s_step].
    destruct (s_find str str_eqb s a) as [x|] eqn:Ex; [|congruence].
    destruct (s_find str str_eqb s b) as [y|] eqn:Ey; [|congruence].
    assert (Hidp : idp s (a, b) = (x, y)).
    { unfold idp, sid. cbn [fst snd]. rewrite Ex, Ey. reflexivity. }
    rewrite Hidp.
    assert (Hr : forall p, In p r -> s_find str str_eqb s (fst p) <> None /\ s_find str str_eqb s (snd p) <> None).
    { intros p Hp. apply Hfind. right; exact Hp. }
    destruct (s_has_att str s (x, y)) eqn:Ehas; cbn [fst].
    + destruct (IH s Hr) as [H1 H2]. split; [exact H1|]. intros q. rewrite H2. cbn [In].
      unfold s_has_att in Ehas. apply existsb_exists in Ehas. destruct Ehas as [q' [Hq' Hpq]].
      apply (pair_eqb_eq (x, y) q') in Hpq. subst q'.
      split; [tauto|]. intros [H|[H|H]]; [tauto|subst q; tauto|tauto].
    + set (s' := {| next_id := next_id s; live := live s; rel := rel s ++ [(x, y)] |}).
      assert (Hidp' : forall p, idp s' p = idp s p) by reflexivity.
      destruct (IH s') as [H1 H2]; [exact Hr|]. split; [exact H1|]. intros q. rewrite H2.
      cbn [rel s' In]. rewrite (map_ext _ _ Hidp'), in_app_iff. cbn [In]. tauto.
Qed.

(* the attack set of the framework the Aspartix reader returns, as label pairs: exactly the
   declared attacks (duplicate declarations and duplicate attack lines allowed) *)
Lemma apx_result_attacks decls atts :
  (forall p, In p atts -> In (fst p) decls /\ In (snd p) decls) ->
  NoDup (iter_attacks str (apx_result decls atts)) /\
  forall la lb, has_att_lab (apx_result decls atts) la lb <-> In (la, lb) atts.
Proof.
  intros Hin.
  set (f0 := fw_new_with_labels str str_eqb decls).
  assert (Hinv0 : SInv f0) by apply (init_inv str str_eqb str_eqb_spec).
  assert (Hinv : SInv (apx_result decls atts)).
  { unfold apx_result. apply (run_inv str str_eqb str_eqb_spec), Hinv0. }
  split; [exact (inv_ndatt str _ Hinv)|].
  assert (Hlive0 : live (abs str f0) = numbered 0 (dedup str_eqb [] decls)).
  { unfold abs. cbn [live]. unfold f0. apply init_iter_args. }
  assert (Hlab0 : forall l, In l decls -> In l (map snd (live (abs str f0)))).
  { intros l Hl. rewrite Hlive0, map_snd_numbered. apply dedup_In_iff. exact Hl. }
  pose proof (run_refines str str_eqb str_eqb_spec (map mkop atts) f0 Hinv0) as Habs.
  change (run_ops str str_eqb f0 (map mkop atts)) with (apx_result decls atts) in Habs.
  destruct (fold_new_att_set atts (abs str f0)) as [Hl Hr].
  { intros p Hp. destruct (Hin p Hp) as [Ha Hb]. split; apply s_find_some, Hlab0; assumption. }
  rewrite <- Habs in Hl, Hr.
  assert (Hfun : forall k x y, In (k, x) (live (abs str f0)) -> In (k, y) (live (abs str f0)) -> x = y).
  { intros k x y. apply fst_functional. rewrite Hlive0, map_fst_numbered. apply seq_NoDup. }
  intros la lb. unfold has_att_lab.
  change (iter_args str (apx_result decls atts)) with (live (abs str (apx_result decls atts))).
  change (iter_attacks str (apx_result decls atts)) with (rel (abs str (apx_result decls atts))).
  rewrite Hl. split.
  - intros [a [b [Ha [Hb Hab]]]]. apply Hr in Hab. destruct Hab as [[]|Hab].
    apply in_map_iff in Hab. destruct Hab as [[pa pb] [Hp Hpin]].
    unfold idp in Hp. cbn [fst snd] in Hp. injection Hp as <- <-.
    destruct (Hin _ Hpin) as [Hpa Hpb]. cbn [fst snd] in Hpa, Hpb.
    pose proof (sid_In _ _ (Hlab0 _ Hpa)) as H1. pose proof (sid_In _ _ (Hlab0 _ Hpb)) as H2.
    rewrite (Hfun _ _ _ Ha H1), (Hfun _ _ _ Hb H2). exact Hpin.
  - intros Hp. destruct (Hin _ Hp) as [Hpa Hpb]. cbn [fst snd] in Hpa, Hpb.
    exists (sid (abs str f0) la), (sid (abs str f0) lb).
    split; [apply sid_In, Hlab0, Hpa|]. split; [apply sid_In, Hlab0, Hpb|].
    apply Hr. right. apply in_map_iff. exists (la, lb). split; [reflexivity|exact Hp].
Qed.

(* ------------------------------------------------------------------ the hypotheses are satisfiable *)
Definition ex_iccma_file : iccma_file :=
  {| f_head := [[32; 99]]; f_pre := [9]; f_sep1 := [32]; f_sep2 := [32; 160];
     f_nfmt := {| nf_plus := true; nf_zeros := 1 |}; f_n := 2%nat; f_post := [];
     f_body := [BComment []; BAttack {| al_pre := []; al_fa := {| nf_plus := false; nf_zeros := 0 |}; al_a := 1%nat;
                                       al_sep := [9]; al_fb := {| nf_plus := true; nf_zeros := 2 |}; al_b := 2%nat;
                                       al_post := [32] |}];
     f_tail := [TEmpty; TComment [120]] |}.
Example ex_iccma_file_ok : iccma_file_ok ex_iccma_file.
Proof.
  unfold iccma_file_ok, ex_iccma_file, blanks, blank, clean, inline, scalar, att_line_ok, isize_max.
  cbn [f_head f_pre f_sep1 f_sep2 f_nfmt f_n f_post f_body f_tail].
  repeat split; repeat constructor; cbn [al_pre al_sep al_post al_a al_b];
    repeat constructor; try discriminate; try lia.
Qed.
Example ex_iccma_read :
  read_iccma (render_lines (iccma_file_lines ex_iccma_file) [true; false] false) =
  RdOk (iccma_fw 2 [(0, 1)%nat]).
Proof. exact (ReadersProofs.iccma_faithful ex_iccma_file [true; false] false ex_iccma_file_ok ltac:(discriminate)). Qed.

Definition ex_apx_file : apx_file :=
  {| a_decls := [DArg {| ar_pre := [32]; ar_b1 := []; ar_label := [97; 1635]; ar_b2 := [9]; ar_post := [] |};
                 DBlank [32; 32];
                 DArg {| ar_pre := []; ar_b1 := []; ar_label := [95]; ar_b2 := []; ar_post := [160] |};
                 DArg {| ar_pre := []; ar_b1 := []; ar_label := [95]; ar_b2 := []; ar_post := [] |}];
     a_atts := [AAtt {| at_pre := []; at_b1 := [32]; at_a := [95]; at_b2 := []; at_b3 := []; at_b := [97; 1635];
                        at_b4 := []; at_post := [] |}; ABlank []] |}.
Example ex_apx_file_ok : apx_file_ok ex_apx_file.
Proof.
  unfold apx_file_ok, ex_apx_file. cbn [a_decls a_atts]. split; [|split].
  - repeat constructor; cbn; try discriminate; try reflexivity.
  - repeat constructor; cbn; try discriminate; try reflexivity.
  - intros p [<-|[]]. cbn. auto.
Qed.
