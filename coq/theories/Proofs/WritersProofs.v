(* Proofs about Model/Writers.v: the answers written by the two response writers read back to
   exactly the labels they contain; statuses. *)
From Crusta Require Import Spec.IoSpec Proofs.IoBase.
From Coq Require Import Lia ZifyBool.
Local Open Scope N_scope.

Lemma split_on_sep x w : forall rest, ~ In x w -> split_on x (w ++ x :: rest) = w :: split_on x rest.
Proof.
  induction w as [|c w IH]; intros rest Hn; cbn [app split_on].
  - rewrite N.eqb_refl. reflexivity.
  - destruct (c =? x) eqn:E.
    + apply N.eqb_eq in E. subst c. exfalso. apply Hn. left; reflexivity.
    + rewrite IH; [reflexivity|]. intros Hin. apply Hn. right; assumption.
Qed.
Lemma split_on_last x w : ~ In x w -> split_on x w = [w].
Proof.
  induction w as [|c w IH]; intros Hn; cbn [split_on]; [reflexivity|].
  destruct (c =? x) eqn:E.
  - apply N.eqb_eq in E. subst c. exfalso. apply Hn. left; reflexivity.
  - rewrite IH; [reflexivity|]. intros Hin. apply Hn. right; assumption.
Qed.

Lemma raw_lines_single a : ~ In 10 a -> raw_lines (a ++ [10]) = [(a, true)].
Proof. intros H. rewrite raw_lines_nl by assumption. reflexivity. Qed.

Lemma digits_not_in l x : Forall digit l -> (x = 10 \/ x = 32 \/ x = 44) -> ~ In x l.
Proof.
  intros H Hx Hin. rewrite Forall_forall in H. specialize (H _ Hin). unfold digit, is_digit in H. lia.
Qed.

(* ------------------------------------------------------------------ ICCMA'23 extension line *)
Definition w_tail (labels : list N) : list N := flat_map (fun n => 32 :: dec n) labels.

Lemma split_w_tail labels : forall w, ~ In 32 w -> split_on 32 (w ++ w_tail labels) = w :: map dec labels.
Proof.
  induction labels as [|n labels IH]; intros w Hw; cbn [w_tail flat_map map].
  - rewrite app_nil_r. apply split_on_last, Hw.
  - cbn [app]. rewrite split_on_sep by assumption. f_equal. fold (w_tail labels).
    apply IH. apply digits_not_in; [apply dec_digits|auto].
Qed.
Lemma w_tail_no_lf labels : ~ In 10 (w_tail labels).
Proof.
  unfold w_tail. intros Hin. apply in_flat_map in Hin. destruct Hin as [n [_ [H|H]]]; [discriminate|].
  revert H. apply digits_not_in; [apply dec_digits|auto].
Qed.
Lemma map_opt_parse_dec labels : map_opt parse_digits (map dec labels) = Some labels.
Proof.
  induction labels as [|n labels IH]; cbn [map map_opt]; [reflexivity|].
  rewrite IH. unfold parse_digits. pose proof (dec_nonnil n) as Hne. pose proof (dec_val n) as Hv.
  destruct (dec n); [congruence|]. rewrite Hv. reflexivity.
Qed.

Lemma parse_write_w labels : parse_w (write_w labels) = Some labels.
Proof.
  unfold write_w, parse_w. fold (w_tail labels).
  replace ([119] ++ w_tail labels ++ [10]) with ((119 :: w_tail labels) ++ [10]) by reflexivity.
  rewrite raw_lines_single.
  2:{ intros [H|H]; [discriminate|]. revert H. apply w_tail_no_lf. }
  change (119 :: w_tail labels) with ([119] ++ w_tail labels).
  rewrite split_w_tail by (intros [H|[]]; discriminate).
  cbn [str_eqb]. rewrite N.eqb_refl. cbn [andb]. apply map_opt_parse_dec.
Qed.

(* ------------------------------------------------------------------ Aspartix extension line *)
Definition label_ok (l : str) : Prop := l <> [] /\ Forall scalar l /\ ~ In 44 l /\ ~ In 10 l.

Lemma unsnoc_snoc a x : unsnoc (a ++ [x]) = Some (a, x).
Proof.
  induction a as [|c a IH]; [reflexivity|]. cbn [app unsnoc]. rewrite IH. reflexivity.
Qed.

Lemma join_comma_cons x r : r <> [] -> join_comma (x :: r) = x ++ [44] ++ join_comma r.
Proof. destruct r; [congruence|reflexivity]. Qed.

Lemma split_join items : items <> [] -> Forall (fun i => ~ In 44 i) items ->
  split_on 44 (join_comma items) = items.
Proof.
  induction items as [|x r IH]; intros Hne Hall; [congruence|].
  inversion Hall as [|? ? Hx Hr]; subst. destruct r as [|y r'].
  - cbn [join_comma]. apply split_on_last, Hx.
  - rewrite join_comma_cons by discriminate. cbn [app]. rewrite split_on_sep by assumption.
    f_equal. apply IH; [discriminate|assumption].
Qed.
Lemma join_no_lf items : Forall (fun i => ~ In 10 i) items -> ~ In 10 (join_comma items).
Proof.
  induction items as [|x r IH]; intros Hall; [intros []|].
  inversion Hall as [|? ? Hx Hr]; subst. destruct r as [|y r'].
  - exact Hx.
  - rewrite join_comma_cons by discriminate. intros Hin. apply in_app_or in Hin.
    destruct Hin as [H|[H|H]]; [auto|discriminate|]. revert H. apply IH, Hr.
Qed.
Lemma join_nonnil items : items <> [] -> Forall (fun i => i <> []) items -> join_comma items <> [].
Proof.
  destruct items as [|x r]; [congruence|]. intros _ Hall. inversion Hall as [|? ? Hx _]; subst.
  destruct r; cbn [join_comma]; [assumption|]. intros H. apply app_eq_nil in H. destruct H; auto.
Qed.

Lemma parse_write_bracket labels : Forall label_ok labels ->
  parse_bracket (write_bracket labels) = Some labels.
Proof.
  intros Hok. unfold write_bracket, parse_bracket.
  set (J := join_comma (map utf8_encode labels)).
  replace ([91] ++ J ++ [93; 10]) with ((91 :: J ++ [93]) ++ [10])
    by (cbn [app]; rewrite <- app_assoc; reflexivity).
  assert (Hno44 : Forall (fun i => ~ In 44 i) (map utf8_encode labels)).
  { apply Forall_forall. intros i Hi. apply in_map_iff in Hi. destruct Hi as [l [<- Hl]].
    rewrite Forall_forall in Hok. destruct (Hok _ Hl) as [_ [_ [H _]]]. apply encode_no_byte; [lia|assumption]. }
  assert (Hno10 : Forall (fun i => ~ In 10 i) (map utf8_encode labels)).
  { apply Forall_forall. intros i Hi. apply in_map_iff in Hi. destruct Hi as [l [<- Hl]].
    rewrite Forall_forall in Hok. destruct (Hok _ Hl) as [_ [_ [_ H]]]. apply encode_no_byte; [lia|assumption]. }
  assert (Hnn : Forall (fun i => i <> []) (map utf8_encode labels)).
  { apply Forall_forall. intros i Hi. apply in_map_iff in Hi. destruct Hi as [l [<- Hl]].
    rewrite Forall_forall in Hok. destruct (Hok _ Hl) as [H _]. apply encode_nonnil, H. }
  rewrite raw_lines_single.
  2:{ intros [H|H]; [discriminate|]. apply in_app_or in H. destruct H as [H|[H|[]]]; [|discriminate].
      revert H. apply join_no_lf, Hno10. }
  rewrite unsnoc_snoc.
  destruct labels as [|l labels]; [reflexivity|].
  assert (HJ : J <> []) by (apply join_nonnil; [discriminate|assumption]).
  destruct J as [|j J'] eqn:EJ; [congruence|]. rewrite <- EJ. unfold J.
  rewrite split_join by (try discriminate; assumption).
  clear EJ HJ J Hno44 Hno10 Hnn. induction (l :: labels) as [|x r IH]; [reflexivity|].
  inversion Hok as [|? ? Hx Hr]; subst. cbn [map map_opt]. rewrite (IH Hr).
  destruct Hx as [Hne [Hs _]]. unfold nonempty_decode.
  pose proof (encode_nonnil x Hne) as He. destruct (utf8_encode x) eqn:E; [congruence|].
  rewrite <- E, utf8_roundtrip by assumption. reflexivity.
Qed.

(* identifiers (the labels an Aspartix framework can have) satisfy [label_ok] *)
Lemma ident_label_ok l : is_ident l = true -> label_ok l.
Proof.
  intros H. assert (Hc : Forall (fun x => is_id_char x = true) l).
  { destruct l as [|c r]; [discriminate|]. cbn [is_ident] in H. apply andb_true_iff in H. destruct H as [H1 H2].
    constructor; [unfold is_id_char; rewrite H1; reflexivity|]. apply Forall_forall. rewrite forallb_forall in H2. exact H2. }
  split; [destruct l; [discriminate|discriminate]|]. split.
  - eapply Forall_impl; [|exact Hc]. intros c Hcc. apply id_char_scalar, Hcc.
  - rewrite Forall_forall in Hc. split; intros Hin.
    + apply (id_char_not 44 44 (Hc _ Hin)); auto 10.
    + apply (id_char_not 10 10 (Hc _ Hin)); auto 10.
Qed.

(* ------------------------------------------------------------------ statuses *)
Lemma status_exact b :
  write_status b = (if b then [89; 69; 83; 10] else [78; 79; 10]) /\ write_no = [78; 79; 10].
Proof. split; reflexivity. Qed.

(* ------------------------------------------------------------------ written frameworks *)
From Crusta Require Import Proofs.ReadersProofs Proofs.ApxProofs.

Lemma encode_ascii_cons c s : c < 128 -> utf8_encode (c :: s) = c :: utf8_encode s.
Proof.
  intros H. unfold utf8_encode. cbn [flat_map]. unfold utf8_encode_cp.
  rwb (c <? 128) true. reflexivity.
Qed.

Lemma render_lines_lf ls : render_lines ls [] true = flat_map (fun s => utf8_encode s ++ [10]) ls.
Proof.
  induction ls as [|s r IH]; [reflexivity|]. cbn [render_lines flat_map]. destruct r as [|s' r'].
  - cbn [hd eol flat_map]. rewrite app_nil_r. reflexivity.
  - cbn [hd tl eol]. rewrite IH, <- app_assoc. reflexivity.
Qed.

Definition canon_arg (l : str) : arg_line :=
  {| ar_pre := []; ar_b1 := []; ar_label := l; ar_b2 := []; ar_post := [] |}.
Definition canon_att (p : str * str) : att_aline :=
  {| at_pre := []; at_b1 := []; at_a := fst p; at_b2 := []; at_b3 := []; at_b := snd p; at_b4 := [];
     at_post := [] |}.
Definition canon_file (labels : list str) (pairs : list (str * str)) : apx_file :=
  {| a_decls := map (fun l => DArg (canon_arg l)) labels; a_atts := map (fun p => AAtt (canon_att p)) pairs |}.

Lemma canon_arg_bytes l :
  utf8_encode (render_arg_line (canon_arg l)) ++ [10] = Writers.arg_line str utf8_encode l.
Proof.
  unfold render_arg_line, canon_arg, Writers.arg_line. cbn [ar_pre ar_b1 ar_label ar_b2 ar_post app].
  rewrite !encode_ascii_cons by lia. rewrite encode_app.
  rewrite !encode_ascii_cons by lia. cbn [utf8_encode flat_map app]. rewrite <- app_assoc. reflexivity.
Qed.
Lemma canon_att_bytes p :
  utf8_encode (render_att_aline (canon_att p)) ++ [10] = Writers.att_line str utf8_encode (fst p) (snd p).
Proof.
  unfold render_att_aline, canon_att, Writers.att_line.
  cbn [at_pre at_b1 at_a at_b2 at_b3 at_b at_b4 at_post app].
  rewrite !encode_ascii_cons by lia. rewrite encode_app.
  rewrite !encode_ascii_cons by lia. rewrite encode_app.
  rewrite !encode_ascii_cons by lia. cbn [utf8_encode flat_map app]. rewrite <- !app_assoc. cbn [app].
  rewrite <- !app_assoc. reflexivity.
Qed.

Lemma flat_map_map {A B C} (g : B -> list C) (h : A -> B) l :
  flat_map g (map h l) = flat_map (fun x => g (h x)) l.
Proof. induction l as [|x l IH]; cbn [map flat_map]; [reflexivity|]. rewrite IH. reflexivity. Qed.

Lemma canon_bytes labels pairs :
  render_lines (apx_file_lines (canon_file labels pairs)) [] true =
  flat_map (Writers.arg_line str utf8_encode) labels ++
  flat_map (fun p => Writers.att_line str utf8_encode (fst p) (snd p)) pairs.
Proof.
  rewrite render_lines_lf. unfold apx_file_lines, canon_file. cbn [a_decls a_atts].
  rewrite flat_map_app, !map_map, !flat_map_map. cbn [decl_line atts_line]. f_equal.
  - apply flat_map_ext. intros l. apply canon_arg_bytes.
  - apply flat_map_ext. intros p. apply canon_att_bytes.
Qed.

Lemma canon_labels labels pairs : decl_labels (canon_file labels pairs) = labels.
Proof.
  unfold decl_labels, canon_file. cbn [a_decls]. rewrite flat_map_map. cbn [canon_arg ar_label].
  induction labels as [|l r IH]; cbn [flat_map app]; [reflexivity|]. rewrite IH. reflexivity.
Qed.
Lemma canon_pairs labels pairs : att_pairs (canon_file labels pairs) = pairs.
Proof.
  unfold att_pairs, canon_file. cbn [a_atts]. rewrite flat_map_map. cbn [canon_att at_a at_b].
  induction pairs as [|[a b] r IH]; cbn [flat_map app fst snd]; [reflexivity|]. rewrite IH. reflexivity.
Qed.

(* the bytes AspartixWriter::write_framework emits for labels [labels] and attacks [pairs] (one
   `arg(l).` line per label, then one `att(a,b).` line per pair) are read back by the Aspartix reader
   as the framework built from those labels and attacks *)
Lemma read_written labels pairs :
  Forall (fun l => is_ident l = true) labels ->
  (forall p, In p pairs -> In (fst p) labels /\ In (snd p) labels) ->
  read_apx (flat_map (Writers.arg_line str utf8_encode) labels ++
            flat_map (fun p => Writers.att_line str utf8_encode (fst p) (snd p)) pairs) =
  RdOk (apx_result labels pairs).
Proof.
  intros Hid Hin. rewrite <- canon_bytes.
  rewrite apx_faithful.
  - rewrite canon_labels, canon_pairs. reflexivity.
  - unfold apx_file_ok. rewrite canon_labels, canon_pairs. split; [|split; [|exact Hin]].
    + unfold canon_file. cbn [a_decls]. apply Forall_forall. intros i Hi. apply in_map_iff in Hi.
      destruct Hi as [l [<- Hl]]. cbn [decl_item_ok]. unfold arg_line_ok, canon_arg.
      cbn [ar_pre ar_b1 ar_label ar_b2 ar_post]. rewrite Forall_forall in Hid.
      repeat split; try constructor. apply Hid, Hl.
    + unfold canon_file. cbn [a_atts]. apply Forall_forall. intros i Hi. apply in_map_iff in Hi.
      destruct Hi as [p [<- Hp]]. cbn [atts_item_ok]. unfold att_aline_ok, canon_att.
      cbn [at_pre at_b1 at_a at_b2 at_b3 at_b at_b4 at_post]. rewrite Forall_forall in Hid.
      destruct (Hin p Hp) as [Ha Hb]. repeat split; try constructor; apply Hid; assumption.
  - intros H; discriminate.
Qed.

(* ------------------------------------------------------------------ the hypotheses are satisfiable *)
Definition ex_iccma_file : iccma_file :=
  {| f_head := [[32; 99]]; f_pre := [9]; f_sep1 := [32]; f_sep2 := [32; 160];
     f_nfmt := {| nf_plus := true; nf_zeros := 1 |}; f_n := 2%nat; f_post := [];
     f_body := [BComment []; BAttack {| al_pre := []; al_fa := {| nf_plus := false; nf_zeros := 0 |}; al_a := 1%nat;
                                       al_sep := [9]; al_fb := {| nf_plus := true; nf_zeros := 2 |}; al_b := 2%nat;
                                       al_post := [32] |}];
     f_tail := [TEmpty; TComment [120]] |}.
Example ex_iccma_file_ok : iccma_file_ok ex_iccma_file.
Proof.
  unfold iccma_file_ok, ex_iccma_file, blanks, blank, clean, inline, scalar, att_line_ok, isize_max.
  cbn [f_head f_pre f_sep1 f_sep2 f_nfmt f_n f_post f_body f_tail].
  repeat split; repeat constructor; cbn [al_pre al_sep al_post al_a al_b];
    repeat constructor; try discriminate; try lia.
Qed.
Example ex_iccma_read :
  read_iccma (render_lines (iccma_file_lines ex_iccma_file) [true; false] false) =
  RdOk (iccma_fw 2 [(0, 1)%nat]).
Proof. exact (ReadersProofs.iccma_faithful ex_iccma_file [true; false] false ex_iccma_file_ok ltac:(discriminate)). Qed.

Definition ex_apx_file : apx_file :=
  {| a_decls := [DArg {| ar_pre := [32]; ar_b1 := []; ar_label := [97; 1635]; ar_b2 := [9]; ar_post := [] |};
                 DBlank [32; 32];
                 DArg {| ar_pre := []; ar_b1 := []; ar_label := [95]; ar_b2 := []; ar_post := [160] |};
                 DArg {| ar_pre := []; ar_b1 := []; ar_label := [95]; ar_b2 := []; ar_post := [] |}];
     a_atts := [AAtt {| at_pre := []; at_b1 := [32]; at_a := [95]; at_b2 := []; at_b3 := []; at_b := [97; 1635];
                        at_b4 := []; at_post := [] |}; ABlank []] |}.
Example ex_apx_file_ok : apx_file_ok ex_apx_file.
Proof.
  unfold apx_file_ok, ex_apx_file. cbn [a_decls a_atts]. split; [|split].
  - repeat constructor; cbn; try discriminate; try reflexivity.
  - repeat constructor; cbn; try discriminate; try reflexivity.
  - intros p [<-|[]]. cbn. auto.
Qed.
