(* Proofs about Sat/Dimacs.v: decimal round trips, splitting lemmas, print/parse round trip of
   instances (C16a).  The reply parser is treated in Proofs/ReplyProofs.v. *)
From Coq Require Import String Ascii Decimal DecimalFacts DecimalPos DecimalN DecimalZ ZifyBool Lia.
From Crusta Require Import Sat.Cnf Sat.Dimacs Sat.Dpll.
Import ListNotations.
Local Open Scope N_scope.

(* the spelled-out constants are the intended ASCII strings *)
Definition B (s : string) : bytes := map N_of_ascii (list_ascii_of_string s).
Lemma constants_ok :
  b_sat = B "s SATISFIABLE" /\ b_unsat = B "s UNSATISFIABLE" /\ b_v_sp = B "v " /\ b_c_sp = B "c " /\
  b_c = B "c" /\ b_v = B "v" /\ b_p = B "p" /\ b_cnf = B "cnf" /\ b_p_cnf_sp = B "p cnf " /\
  b_sp_0 = B " 0" /\ b_error = B "c error: ill-formed instance".
Proof. repeat split; reflexivity. Qed.

(* ------------------------------------------------------------------ byte lists *)
Lemma bytes_eqb_refl : forall a, bytes_eqb a a = true.
Proof. induction a as [|x a IH]; cbn [bytes_eqb]; [reflexivity|]. rewrite N.eqb_refl, IH. reflexivity. Qed.

Lemma bytes_eqb_eq : forall a b, bytes_eqb a b = true -> a = b.
Proof.
  induction a as [|x a IH]; destruct b as [|y b]; cbn [bytes_eqb]; intros H; try discriminate; [reflexivity|].
  apply andb_true_iff in H. destruct H as [H1 H2]. apply N.eqb_eq in H1. subst. f_equal. apply IH, H2.
Qed.

(* ------------------------------------------------------------------ fields *)
Definition nosep (sep : byte -> bool) (t : bytes) : bool := forallb (fun b => negb (sep b)) t.

Lemma fields_nonnil : forall sep l, fields sep l <> [].
Proof.
  intros sep l. destruct l as [|b r]; cbn [fields]; [discriminate|].
  destruct (sep b); [discriminate|]. destruct (fields sep r); discriminate.
Qed.

Lemma fields_app_sep : forall sep t s rest,
  nosep sep t = true -> sep s = true -> fields sep (t ++ s :: rest) = t :: fields sep rest.
Proof.
  intros sep t s rest. induction t as [|b t IH]; intros Ht Hs.
  - cbn [app fields]. rewrite Hs. reflexivity.
  - cbn [nosep forallb] in Ht. apply andb_true_iff in Ht. destruct Ht as [Hb Ht].
    cbn [app fields]. apply negb_true_iff in Hb. rewrite Hb. rewrite (IH Ht Hs). reflexivity.
Qed.

Lemma fields_nosep : forall sep t, nosep sep t = true -> fields sep t = [t].
Proof.
  intros sep t. induction t as [|b t IH]; intros Ht; [reflexivity|].
  cbn [nosep forallb] in Ht. apply andb_true_iff in Ht. destruct Ht as [Hb Ht].
  cbn [fields]. apply negb_true_iff in Hb. rewrite Hb. rewrite (IH Ht). reflexivity.
Qed.

(* a text made of separator-free pieces, each followed by a separator *)
Lemma fields_pieces : forall sep s (ps : list bytes),
  sep s = true -> forallb (nosep sep) ps = true ->
  fields sep (concat (map (fun p => p ++ [s]) ps)) = ps ++ [[]].
Proof.
  intros sep s ps Hs. induction ps as [|p ps IH]; intros H; [reflexivity|].
  cbn [forallb] in H. apply andb_true_iff in H. destruct H as [Hp Hps].
  cbn [map concat]. rewrite <- app_assoc. cbn [app].
  rewrite (fields_app_sep sep p s _ Hp Hs). rewrite (IH Hps). reflexivity.
Qed.

(* ------------------------------------------------------------------ digits *)
Definition is_digit (b : byte) : bool := (48 <=? b) && (b <=? 57).

Lemma uint_bytes_digits : forall d, forallb is_digit (uint_bytes d) = true.
Proof. induction d; cbn [uint_bytes forallb]; try reflexivity; rewrite IHd; reflexivity. Qed.

Lemma bytes_uint_uint_bytes : forall d, bytes_uint (uint_bytes d) = Some d.
Proof. induction d; cbn [uint_bytes bytes_uint]; try reflexivity; rewrite IHd; reflexivity. Qed.

Lemma uint_bytes_nil : forall d, uint_bytes d = [] -> d = Nil.
Proof. destruct d; cbn [uint_bytes]; intros H; try discriminate; reflexivity. Qed.

Lemma digits_nosep : forall sep t,
  (forall b, is_digit b = true -> sep b = false) -> forallb is_digit t = true -> nosep sep t = true.
Proof.
  intros sep t Hs. induction t as [|b t IH]; intros H; [reflexivity|].
  cbn [forallb] in H. apply andb_true_iff in H. destruct H as [Hb Ht].
  cbn [nosep forallb]. rewrite (Hs b Hb). cbn [negb andb]. apply IH, Ht.
Qed.

(* separators used by the parsers never are digits or the minus sign *)
Definition litbyte (b : byte) : bool := is_digit b || (b =? 45).
Lemma print_lit_litbytes : forall z, forallb litbyte (print_lit z) = true.
Proof.
  intros z. unfold print_lit. destruct (Z.to_int z) as [d|d].
  - generalize (uint_bytes_digits d). generalize (uint_bytes d). intros l. induction l as [|b l IH]; [reflexivity|].
    cbn [forallb]. intros H. apply andb_true_iff in H. destruct H as [Hb Hl]. unfold litbyte at 1. rewrite Hb. cbn [orb andb].
    apply IH, Hl.
  - cbn [forallb]. unfold litbyte at 1. replace (45 =? 45) with true by reflexivity. rewrite orb_true_r. cbn [andb].
    generalize (uint_bytes_digits d). generalize (uint_bytes d). intros l. induction l as [|b l IH]; [reflexivity|].
    cbn [forallb]. intros H. apply andb_true_iff in H. destruct H as [Hb Hl]. unfold litbyte at 1. rewrite Hb. cbn [orb andb].
    apply IH, Hl.
Qed.

Lemma litbytes_nosep : forall sep t,
  (forall b, litbyte b = true -> sep b = false) -> forallb litbyte t = true -> nosep sep t = true.
Proof.
  intros sep t Hs. induction t as [|b t IH]; intros H; [reflexivity|].
  cbn [forallb] in H. apply andb_true_iff in H. destruct H as [Hb Ht].
  cbn [nosep forallb]. rewrite (Hs b Hb). cbn [negb andb]. apply IH, Ht.
Qed.

Lemma litbyte_not : forall c b, litbyte b = true -> is_digit c = false -> c <> 45 -> (N.eqb b c) = false.
Proof.
  intros c b H Hc Hc'. apply N.eqb_neq. intros ->. unfold litbyte in H. rewrite Hc in H. cbn [orb] in H.
  apply N.eqb_eq in H. contradiction.
Qed.

Lemma litbyte_not_32 : forall b, litbyte b = true -> N.eqb 32 b = false.
Proof. intros b H. rewrite N.eqb_sym. apply litbyte_not; [exact H|reflexivity|discriminate]. Qed.
Lemma litbyte_not_10 : forall b, litbyte b = true -> N.eqb 10 b = false.
Proof. intros b H. rewrite N.eqb_sym. apply litbyte_not; [exact H|reflexivity|discriminate]. Qed.
Lemma litbyte_not_ws : forall b, litbyte b = true -> is_ws b = false.
Proof.
  intros b H. unfold is_ws.
  rewrite (litbyte_not 32 b H), (litbyte_not 9 b H), (litbyte_not 10 b H), (litbyte_not 12 b H), (litbyte_not 13 b H);
    try reflexivity; discriminate.
Qed.
Lemma digit_litbyte : forall b, is_digit b = true -> litbyte b = true.
Proof. intros b H. unfold litbyte. rewrite H. reflexivity. Qed.

Lemma print_nat_litbytes : forall n, forallb litbyte (print_nat n) = true.
Proof.
  intros n. unfold print_nat. generalize (uint_bytes_digits (N.to_uint (N.of_nat n))).
  generalize (uint_bytes (N.to_uint (N.of_nat n))). intros l. induction l as [|b l IH]; [reflexivity|].
  cbn [forallb]. intros H. apply andb_true_iff in H. destruct H as [Hb Hl]. rewrite (digit_litbyte b Hb). cbn [andb]. apply IH, Hl.
Qed.

(* ------------------------------------------------------------------ numbers round trip *)
Lemma parse_nat_print_nat : forall n, parse_nat_strict (print_nat n) = Some n.
Proof.
  intros n. unfold parse_nat_strict, print_nat at 1. rewrite bytes_uint_uint_bytes.
  rewrite DecimalN.Unsigned.of_to. rewrite Nnat.Nat2N.id. rewrite bytes_eqb_refl. reflexivity.
Qed.

Lemma pos_to_uint_head : forall p, exists b r, uint_bytes (Pos.to_uint p) = b :: r /\ is_digit b = true.
Proof.
  intros p. pose proof (DecimalPos.Unsigned.to_uint_nonnil p) as Hn.
  pose proof (uint_bytes_digits (Pos.to_uint p)) as Hd.
  destruct (uint_bytes (Pos.to_uint p)) as [|b r] eqn:E.
  - apply uint_bytes_nil in E. contradiction.
  - cbn [forallb] in Hd. apply andb_true_iff in Hd. destruct Hd as [Hb _]. exists b, r. split; [reflexivity|exact Hb].
Qed.

Lemma parse_Z_digits : forall b r u, is_digit b = true -> bytes_uint (b :: r) = Some u ->
  parse_Z (b :: r) = Some (Z.of_N (N.of_uint u)).
Proof.
  intros b r u Hb Hu. unfold parse_Z.
  assert (H45 : N.eqb b 45 = false) by (apply N.eqb_neq; intros ->; discriminate).
  assert (H43 : N.eqb b 43 = false) by (apply N.eqb_neq; intros ->; discriminate).
  unfold split_sign. rewrite H45, H43.
  cbn [snd fst]. rewrite Hu. reflexivity.
Qed.

Lemma parse_Z_print_lit : forall z, parse_Z (print_lit z) = Some z.
Proof.
  intros z. unfold print_lit. pose proof (DecimalZ.of_to z) as Hz.
  destruct z as [|p|p]; cbn [Z.to_int] in *.
  - reflexivity.
  - destruct (pos_to_uint_head p) as (b & r & E & Hb). rewrite E.
    rewrite (parse_Z_digits b r (Pos.to_uint p) Hb); [|rewrite <- E; apply bytes_uint_uint_bytes].
    f_equal. exact Hz.
  - destruct (pos_to_uint_head p) as (b & r & E & Hb).
    unfold parse_Z, split_sign. replace (N.eqb 45 45) with true by reflexivity. cbn [snd fst]. rewrite E. rewrite <- E. rewrite bytes_uint_uint_bytes.
    cbn [Z.of_int Z.of_uint] in Hz. f_equal. exact Hz.
Qed.

Lemma parse_lit_strict_print : forall z, z <> 0%Z -> parse_lit_strict (print_lit z) = Some z.
Proof.
  intros z Hz. unfold parse_lit_strict. rewrite parse_Z_print_lit. rewrite bytes_eqb_refl.
  replace (Z.eqb z 0) with false by (symmetry; apply Z.eqb_neq; exact Hz). reflexivity.
Qed.

Lemma parse_lit_strict_nonzero : forall tok z, parse_lit_strict tok = Some z -> lit_ok z = true.
Proof.
  intros tok z. unfold parse_lit_strict. destruct (parse_Z tok) as [z'|]; [|discriminate].
  destruct (negb (Z.eqb z' 0)) eqn:E; cbn [andb]; [|discriminate].
  destruct (bytes_eqb (print_lit z') tok); [|discriminate]. intros H. inversion H. subst. exact E.
Qed.

(* ------------------------------------------------------------------ clause lines *)
Definition clause_line (c : clause) : bytes := concat (map (fun l => print_lit l ++ [32]) c) ++ [48].

Lemma print_clause_line : forall c, print_clause c = clause_line c ++ [10].
Proof. intros c. unfold print_clause, clause_line. rewrite <- app_assoc. reflexivity. Qed.

Lemma clause_line_litbytes : forall c, forallb (fun b => litbyte b || (b =? 32)) (clause_line c) = true.
Proof.
  intros c. unfold clause_line. rewrite forallb_app. apply andb_true_iff. split; [|reflexivity].
  induction c as [|l c IH]; [reflexivity|]. cbn [map concat]. rewrite !forallb_app. rewrite IH.
  rewrite andb_true_r. apply andb_true_iff. split; [|reflexivity].
  generalize (print_lit_litbytes l). generalize (print_lit l). intros t. induction t as [|b t IHt]; [reflexivity|].
  cbn [forallb]. intros H. apply andb_true_iff in H. destruct H as [Hb Ht]. rewrite Hb. cbn [orb andb]. apply IHt, Ht.
Qed.

Lemma clause_line_no_lf : forall c, nosep (N.eqb 10) (clause_line c) = true.
Proof.
  intros c. generalize (clause_line_litbytes c). generalize (clause_line c). intros t. unfold nosep.
  induction t as [|b t IH]; [reflexivity|]. cbn [forallb]. intros H. apply andb_true_iff in H. destruct H as [Hb Ht].
  rewrite (IH Ht). rewrite andb_true_r. apply negb_true_iff. apply orb_true_iff in Hb. destruct Hb as [Hb|Hb].
  - apply litbyte_not_10, Hb.
  - apply N.eqb_eq in Hb. subst. reflexivity.
Qed.

Lemma fields_clause_line : forall c, fields (N.eqb 32) (clause_line c) = map print_lit c ++ [[48]].
Proof.
  intros c. unfold clause_line. induction c as [|l c IH]; [reflexivity|].
  cbn [map concat]. rewrite <- !app_assoc. cbn [app].
  rewrite fields_app_sep; [|apply litbytes_nosep; [apply litbyte_not_32|apply print_lit_litbytes]|reflexivity].
  rewrite IH. reflexivity.
Qed.

Lemma map_opt_print : forall c, clause_ok c = true -> map_opt parse_lit_strict (map print_lit c) = Some c.
Proof.
  induction c as [|l c IH]; intros H; [reflexivity|].
  cbn [clause_ok forallb] in H. apply andb_true_iff in H. destruct H as [Hl Hc].
  cbn [map map_opt]. rewrite parse_lit_strict_print.
  - fold (clause_ok c) in Hc. rewrite (IH Hc). reflexivity.
  - unfold lit_ok in Hl. apply negb_true_iff in Hl. apply Z.eqb_neq in Hl. exact Hl.
Qed.

Lemma parse_clause_line_print : forall c, clause_ok c = true -> parse_clause_line (clause_line c) = Some c.
Proof.
  intros c Hc. unfold parse_clause_line. rewrite fields_clause_line. rewrite rev_unit.
  replace (bytes_eqb [48] [48]) with true by reflexivity. rewrite rev_involutive. apply map_opt_print, Hc.
Qed.

Lemma parse_clause_line_ok : forall ln c, parse_clause_line ln = Some c -> clause_ok c = true.
Proof.
  intros ln c. unfold parse_clause_line. destruct (rev (fields (N.eqb 32) ln)) as [|last rinit]; [discriminate|].
  destruct (bytes_eqb last [48]); [|discriminate]. generalize (rev rinit). intros toks. revert c.
  induction toks as [|t toks IH]; intros c H.
  - inversion H. reflexivity.
  - cbn [map_opt] in H. destruct (parse_lit_strict t) as [z|] eqn:Ez; [|discriminate].
    destruct (map_opt parse_lit_strict toks) as [zs|]; [|discriminate]. inversion H. subst.
    cbn [clause_ok forallb]. rewrite (parse_lit_strict_nonzero t z Ez). cbn [andb]. apply (IH zs eq_refl).
Qed.

(* ------------------------------------------------------------------ whole instances *)
Definition header_line (nv nc : nat) : bytes := b_p_cnf_sp ++ print_nat nv ++ [32] ++ print_nat nc.

Lemma print_instance_lines : forall nv f,
  print_instance nv f = concat (map (fun p => p ++ [10]) (header_line nv (length f) :: map clause_line f)).
Proof.
  intros nv f. unfold print_instance, print_preamble, header_line, print_clauses. cbn [map concat].
  rewrite <- !app_assoc. do 5 (apply f_equal). induction f as [|c f IH]; [reflexivity|].
  cbn [map concat]. rewrite print_clause_line, IH. reflexivity.
Qed.

Lemma header_no_lf : forall nv nc, nosep (N.eqb 10) (header_line nv nc) = true.
Proof.
  intros nv nc. unfold header_line, nosep. rewrite !forallb_app. repeat (apply andb_true_iff; split); try reflexivity.
  - apply (litbytes_nosep (N.eqb 10)); [apply litbyte_not_10|apply print_nat_litbytes].
  - apply (litbytes_nosep (N.eqb 10)); [apply litbyte_not_10|apply print_nat_litbytes].
Qed.

Lemma fields_header : forall nv nc,
  fields (N.eqb 32) (header_line nv nc) = [b_p; b_cnf; print_nat nv; print_nat nc].
Proof.
  intros nv nc. unfold header_line.
  change (b_p_cnf_sp ++ print_nat nv ++ [32] ++ print_nat nc)
    with (b_p ++ 32 :: (b_cnf ++ 32 :: (print_nat nv ++ 32 :: print_nat nc))).
  rewrite fields_app_sep; [|reflexivity|reflexivity].
  rewrite fields_app_sep; [|reflexivity|reflexivity].
  rewrite fields_app_sep; [|apply litbytes_nosep; [apply litbyte_not_32|apply print_nat_litbytes]|reflexivity].
  rewrite fields_nosep; [reflexivity|]. apply litbytes_nosep; [apply litbyte_not_32|apply print_nat_litbytes].
Qed.

Lemma map_opt_clause_lines : forall f, cnf_ok f = true -> map_opt parse_clause_line (map clause_line f) = Some f.
Proof.
  induction f as [|c f IH]; intros H; [reflexivity|].
  cbn [cnf_ok forallb] in H. apply andb_true_iff in H. destruct H as [Hc Hf].
  cbn [map map_opt]. rewrite (parse_clause_line_print c Hc). fold (cnf_ok f) in Hf. rewrite (IH Hf). reflexivity.
Qed.

(* C16a, text level: the strict parser inverts the printer *)
Theorem parse_print_instance : forall nv f,
  cnf_ok f = true -> (cnf_max f <= nv)%nat -> parse_instance (print_instance nv f) = Some (nv, f).
Proof.
  intros nv f Hok Hmax. unfold parse_instance. rewrite print_instance_lines.
  rewrite (fields_pieces (N.eqb 10) 10); [|reflexivity|].
  2:{ cbn [forallb]. rewrite header_no_lf. cbn [andb]. clear. induction f as [|c f IH]; [reflexivity|].
      cbn [map forallb]. rewrite clause_line_no_lf, IH. reflexivity. }
  cbn [app]. rewrite rev_unit. rewrite rev_involutive. rewrite fields_header.
  replace (bytes_eqb b_p b_p) with true by reflexivity. replace (bytes_eqb b_cnf b_cnf) with true by reflexivity.
  cbn [andb]. rewrite !parse_nat_print_nat. rewrite (map_opt_clause_lines f Hok).
  rewrite Nat.eqb_refl. cbn [andb]. apply Nat.leb_le in Hmax. rewrite Hmax. reflexivity.
Qed.

(* what an accepted instance guarantees (used when vdpll runs on arbitrary input) *)
Lemma map_opt_clause_lines_ok : forall lines f, map_opt parse_clause_line lines = Some f -> cnf_ok f = true.
Proof.
  induction lines as [|ln lines IH]; intros f H.
  - inversion H. reflexivity.
  - cbn [map_opt] in H. destruct (parse_clause_line ln) as [c|] eqn:Ec; [|discriminate].
    destruct (map_opt parse_clause_line lines) as [cs|]; [|discriminate]. inversion H. subst.
    cbn [cnf_ok forallb]. rewrite (parse_clause_line_ok ln c Ec). cbn [andb]. apply (IH cs eq_refl).
Qed.

Theorem parse_instance_sound : forall text nv f,
  parse_instance text = Some (nv, f) -> cnf_ok f = true /\ (cnf_max f <= nv)%nat.
Proof.
  intros text nv f. unfold parse_instance.
  destruct (fields (N.eqb 10) text) as [|hdr rest]; [discriminate|].
  destruct (rev rest) as [|l0 rlines]; [discriminate|]. destruct l0; [|discriminate].
  destruct (fields (N.eqb 32) hdr) as [|p [|c [|a [|b [|x y]]]]]; try discriminate.
  destruct (bytes_eqb p b_p && bytes_eqb c b_cnf); [|discriminate].
  destruct (parse_nat_strict a) as [nv'|]; [|discriminate].
  destruct (parse_nat_strict b) as [nc'|]; [|discriminate].
  destruct (map_opt parse_clause_line (rev rlines)) as [cls|] eqn:E; [|discriminate].
  destruct (Nat.eqb (length cls) nc' && Nat.leb (cnf_max cls) nv') eqn:E2; [|discriminate].
  intros H. inversion H. subst. apply andb_true_iff in E2. destruct E2 as [_ E2]. apply Nat.leb_le in E2.
  split; [apply (map_opt_clause_lines_ok _ _ E)|exact E2].
Qed.

(* the assumptions are printed as unit clauses *)
Lemma print_assumptions_units : forall a, concat (map print_assumption a) = print_clauses (units a).
Proof.
  induction a as [|l a IH]; [reflexivity|].
  unfold print_clauses in *. cbn [map concat units]. rewrite IH. f_equal.
  unfold print_assumption, print_clause. cbn [map concat]. rewrite app_nil_r. rewrite <- app_assoc. reflexivity.
Qed.

Lemma print_clauses_app : forall f g, print_clauses (f ++ g) = print_clauses f ++ print_clauses g.
Proof. intros f g. unfold print_clauses. rewrite map_app, concat_app. reflexivity. Qed.
