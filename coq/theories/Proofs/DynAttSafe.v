(* "The solver stays usable" for the two solvers with assumptions on attacks: in every reachable
   state a supported query (DC for KCoAtt; DC and DS for KStAtt) on an argument of the current
   framework never reaches a panic of the model, whatever the SAT solver answers - provided the slot
   factor is at least 1 (DynAttDefs.factor_ok; otherwise the re-encoding underflows, see the example
   in Properties/C08att.v).  Analogue of Proofs/DynSafe.v, which covers the standard encoder. *)
From Crusta Require Import Model.Dynamic Proofs.StoreBase Proofs.StoreProofs Proofs.DynDefs Proofs.DynBase
  Proofs.DynProofs Proofs.DynSafe Proofs.DynAttDefs Proofs.DynAttTables.
From Coq Require Import Lia ZifyBool.

Lemma np_fold_m {A B} (f : A -> B -> Prog.M A) (l : list B) :
  (forall a x, np (f a x)) -> forall a, np (fold_m f l a).
Proof.
  intros Hf. induction l as [|x r IH]; intros a; cbn [fold_m]; [apply np_ret|].
  apply np_bind_any; [apply Hf|exact IH].
Qed.
Lemma np_reserve n : np (reserve n). Proof. intros s. exact I. Qed.

Lemma np_st_inner n a bs : forall cl, np (st_inner n a bs cl).
Proof.
  induction bs as [|b r IH]; intros cl; cbn [st_inner]; [apply np_ret|].
  apply np_bind_any; [apply np_n_vars|]. intros nv.
  repeat (apply np_bind_any; [apply np_add_clause|intros _]). apply IH.
Qed.
Lemma np_co_inner1 n a bs : forall cl, np (co_inner1 n a bs cl).
Proof.
  induction bs as [|b r IH]; intros cl; cbn [co_inner1]; [apply np_ret|].
  apply np_bind_any; [apply np_n_vars|]. intros nv.
  repeat (apply np_bind_any; [apply np_add_clause|intros _]). apply IH.
Qed.
Lemma np_co_inner2 n a bs : forall cl, np (co_inner2 n a bs cl).
Proof.
  induction bs as [|b r IH]; intros cl; cbn [co_inner2]; [apply np_ret|].
  apply np_bind_any; [apply np_n_vars|]. intros nv.
  repeat (apply np_bind_any; [apply np_add_clause|intros _]). apply IH.
Qed.

Section AttSafe.
Variable L : Type.
Variable leqb : L -> L -> bool.
Hypothesis leqb_spec : forall x y, leqb x y = true <-> x = y.

Notation fw := (fw L).
Notation Inv := (Inv L).
Notation get_argument := (get_argument L leqb).
Notation att_tables_ok := (att_tables_ok L).
Notation att_pre := (att_pre L).
Notation ev_apply := (DynDefs.ev_apply L leqb).
Notation ev_ok := (ev_ok L leqb).
Notation replayable := (replayable L leqb).
Notation pending := (DynDefs.pending L).
Notation reach := (DynDefs.reach L leqb).
Notation fresh := (DynDefs.fresh_fw L leqb).
Notation run_ops := (Store.run_ops L leqb).

(* ---------------------------------------------------------------- the encoder operations *)
Lemma np_att_new_argument af e l : att_pre af e -> np (att_new_argument L leqb af e l).
Proof.
  intros Hp. unfold att_new_argument. destruct (get_argument af l) eqn:Eg; [apply np_ret|].
  destruct (a_need e || Nat.leb (a_n e) (a_next e)) eqn:En; [apply np_ret|].
  apply orb_false_iff in En. destruct En as [En1 En2]. apply Nat.leb_gt in En2.
  destruct Hp as [[Hn _]|Ht]; [congruence|].
  destruct (new_argument_fresh_slots L leqb af l Eg) as [_ Hmax]. rewrite Hmax.
  pose proof (at_vars_len L af e Ht) as Hlen.
  assert (H1 : Nat.ltb (a_next e) (length (a_vars e)) = true) by (apply Nat.ltb_lt; lia).
  rewrite H1. destruct (a_sem e) eqn:Es; try apply np_ret.
  rewrite length_set_nth.
  assert (H2 : Nat.ltb (a_next e + a_n e * (1 + a_n e)) (length (a_vars e)) = true) by (apply Nat.ltb_lt; lia).
  rewrite H2. apply np_ret.
Qed.

Lemma np_att_remove_argument af e l : att_pre af e -> np (att_remove_argument L leqb af e l).
Proof.
  intros Hp. unfold att_remove_argument. destruct (get_argument af l) as [id|]; [|apply np_ret].
  destruct (Store.remove_argument L leqb af l) as [af' [| |]]; try apply np_ret.
  destruct (Nat.ltb id (length (a_a2v e))) eqn:Elt; [|apply np_ret]. apply Nat.ltb_lt in Elt.
  destruct (nth id (a_a2v e) None) as [v|] eqn:Env; [|apply np_ret].
  assert (Hv : tbl_var (a_a2v e) id = Some v).
  { unfold tbl_var. rewrite (nth_error_nth' _ None Elt), Env. reflexivity. }
  pose proof (tables_pre_weak L af e Hp id v Hv) as Hlt. apply Nat.ltb_lt in Hlt. rewrite Hlt.
  apply np_bind_any; [apply np_add_clause|intros _; apply np_ret].
Qed.

Lemma att_remove_argument_result af e l :
  get_argument af l <> None -> okm (att_remove_argument L leqb af e l) (fun r => snd r = ROk).
Proof.
  intros Hg. unfold att_remove_argument. destruct (get_argument af l) as [id|] eqn:Eg; [|congruence].
  pose proof (remove_argument_found L leqb af l id Eg) as Hok.
  destruct (Store.remove_argument L leqb af l) as [af' [| |]]; cbn [snd] in Hok; try discriminate Hok.
  destruct (Nat.ltb _ _); [|apply okm_ret; reflexivity].
  destruct (nth _ _ _); [|apply okm_ret; reflexivity].
  destruct (Nat.ltb _ _); [|apply okm_panic].
  apply okm_bind_any. intros _. apply okm_ret. reflexivity.
Qed.

Lemma np_att_replay af e ev : att_pre af e -> ev_ok af ev -> np (att_replay L leqb (af, e) ev).
Proof.
  intros Hp Hok. unfold att_replay. destruct ev as [l|l|a b|a b|x y z|x y z]; cbn [DynSafe.ev_ok] in Hok.
  - apply np_att_new_argument. exact Hp.
  - eapply np_bind; [apply np_att_remove_argument; exact Hp| |].
    + apply att_remove_argument_result. apply (remove_argument_ok_label L leqb). exact Hok.
    + intros r Hr. apply np_unwrap_ok. exact Hr.
  - apply np_bind_any; [apply np_unwrap_ok; exact Hok|intros p; apply np_ret].
  - apply np_bind_any; [apply np_unwrap_ok; exact Hok|intros p; apply np_ret].
  - apply np_ret.
  - apply np_ret.
Qed.

Lemma np_fold_att_replay evs : forall af e,
  Inv af -> att_pre af e -> replayable af evs -> np (fold_m (att_replay L leqb) evs (af, e)).
Proof.
  induction evs as [|ev r IH]; intros af e Hinv Hp Hrep; cbn [fold_m]; [apply np_ret|].
  destruct Hrep as [Hok Hrest].
  eapply (np_bind _ _ (fun st => fst st = ev_apply af ev /\ replay_post L e st)).
  - apply np_att_replay; assumption.
  - apply okm_conj; [apply (att_replay_af L leqb)|apply (att_replay_ok L leqb leqb_spec); assumption].
  - intros [af1 e1] (Haf & Hinv1 & Hp1 & _). cbn [fst snd] in *. subst af1. apply IH; assumption.
Qed.

(* the re-encoding: the only panics are the unsupported semantics and the underflow of n - n_args *)
Lemma factor_le na num den : 0 < den -> den <= num -> na <= na * num / den.
Proof.
  intros Hd Hn. apply Nat.div_le_lower_bound; [lia|].
  rewrite (Nat.mul_comm den na). apply Nat.mul_le_mono_l. exact Hn.
Qed.

Lemma np_att_update_encoding af e :
  a_sem e <> DPR -> 0 < a_den e -> a_den e <= a_num e -> np (att_update_encoding L af e).
Proof.
  intros Hs Hd Hn. unfold att_update_encoding. destruct (negb (a_need e)); [apply np_ret|].
  pose proof (factor_le (n_arguments L af) (a_num e) (a_den e) Hd Hn) as Hle.
  apply Nat.ltb_ge in Hle.
  destruct (a_sem e); [| |congruence].
  - apply np_bind_any; [apply np_new_solver|intros _]. apply np_bind_any; [apply np_reserve|intros _].
    rewrite Hle.
    apply np_bind_any.
    { apply np_fold_m. intros _ v. apply np_bind_any; [apply np_add_clause|intros _].
      apply np_bind_any; [apply np_co_inner1|intros cl; apply np_add_clause]. }
    intros _. apply np_bind_any; [|intros _; apply np_ret].
    apply np_fold_m. intros _ v. apply np_bind_any; [apply np_co_inner2|intros cl; apply np_add_clause].
  - apply np_bind_any; [apply np_new_solver|intros _]. apply np_bind_any; [apply np_reserve|intros _].
    rewrite Hle.
    apply np_bind_any; [|intros _; apply np_ret].
    apply np_fold_m. intros _ v. apply np_bind_any; [apply np_st_inner|intros cl; apply np_add_clause].
Qed.

Lemma np_update_encoding_att k af b :
  att_kind k -> factor_ok k -> Inv af -> att_inv L leqb k af b -> replayable af (pending b) ->
  np (update_encoding L leqb af b).
Proof.
  intros Hk [Hd Hn] Hinv (e & He & (P1 & P2 & P3) & Hst) Hrep. unfold update_encoding. rewrite He.
  assert (Hp : att_pre af e) by (destruct Hst as [Hi|Ht]; [apply (initial_pre L leqb); exact Hi|right; exact Ht]).
  eapply np_bind; [apply np_fold_att_replay; assumption|apply (fold_att_replay_ok L leqb leqb_spec _ af e Hinv Hp)|].
  intros [af' e'] (_ & _ & (S1 & S2 & S3)). cbn [fst snd] in *.
  apply np_bind_any; [|intros e''; apply np_ret].
  apply np_att_update_encoding.
  - rewrite S1, P1. destruct k; cbn; try discriminate; destruct Hk.
  - rewrite S3, P3. exact Hd.
  - rewrite S2, S3, P2, P3. exact Hn.
Qed.

(* ---------------------------------------------------------------- the queries *)
Lemma att_args_live (af : fw) e p m :
  att_tables_ok af e ->
  forall id, In id (args_where p (a_vars e) m) -> has_argument_with_id L af id = true.
Proof.
  intros Ht id Hin. unfold args_where in Hin. destruct (filter_map_In _ _ _ Hin) as (v & _ & Hv).
  unfold var_to_arg in Hv. destruct (nth_error (a_vars e) v) as [[iv| | | |]|] eqn:Ev; try discriminate.
  injection Hv as ->. apply (at_live L af e Ht). rewrite (at_conv L af e Ht _ _ Ev). discriminate.
Qed.

Lemma np_x_arg_var_att af e l id :
  att_tables_ok af e -> Inv af -> get_argument af l = Some id -> np (x_arg_var L leqb af (XAtt e) l).
Proof.
  intros Ht Hinv Hg. unfold x_arg_var. rewrite Hg. cbn [opt_m]. intros s. unfold bind, ret. cbn [x_a2v].
  assert (H : tbl_var (a_a2v e) id <> None)
    by (apply (at_live L af e Ht); eapply (get_argument_live L leqb leqb_spec); eassumption).
  destruct (tbl_var (a_a2v e) id); [exact I|congruence].
Qed.

Lemma np_x_assumptions_att af e : att_tables_ok af e -> Inv af -> np (x_assumptions L af (XAtt e)).
Proof.
  intros Ht Hinv. cbn [x_assumptions]. apply np_opt_m.
  destruct (att_assumptions_some L af e Hinv Ht) as (idx & _ & _ & ->). discriminate.
Qed.

Section Queries.
Variable oracle : nat -> cnf -> list lit -> answer.
Variable s : dsolver L.
Variable l : L.
Variable P : fw * dbuf L -> Prop.
Hypothesis HP : okm (update_encoding L leqb (s_af L s) (s_buf L s)) P.
Hypothesis HPpost : forall r, P r ->
  Inv (fst r) /\ get_argument (fst r) l <> None /\
  exists e, b_enc L (snd r) = XAtt e /\ att_tables_ok (fst r) e.
Hypothesis Hnp : np (update_encoding L leqb (s_af L s) (s_buf L s)).

Lemma np_dc_query_att : np (dc_query oracle L leqb s l).
Proof.
  unfold dc_query. destruct (is_cred L leqb (s_buf L s) l) as [[b|] [e|]]; try apply np_ret.
  all: eapply np_bind; [exact Hnp|exact HP|]; intros [af buf] Hr;
    destruct (HPpost _ Hr) as (Hinv & Hg & e0 & He & Ht); cbn [fst snd] in *; rewrite He;
    (apply np_bind_any; [apply np_x_assumptions_att; assumption|]); intros asm;
    destruct (get_argument af l) as [id|] eqn:Eg; try congruence;
    (apply np_bind_any; [apply (np_x_arg_var_att af e0 l id Ht Hinv Eg)|]); intros v;
    (apply np_bind_any; [apply np_solve|]); intros [m|]; [|apply np_ret];
    (apply np_bind_any; [|intros acc; apply np_ret]);
    apply np_opt_m, (labels_of_live L); cbn [x_vars]; apply (att_args_live af e0 _ m Ht).
Qed.

Lemma np_st_ds_query_att : np (st_ds_query oracle L leqb s l).
Proof.
  unfold st_ds_query. destruct (is_skep L leqb (s_buf L s) l) as [[b|] [e|]]; try apply np_ret.
  all: eapply np_bind; [exact Hnp|exact HP|]; intros [af buf] Hr;
    destruct (HPpost _ Hr) as (Hinv & Hg & e0 & He & Ht); cbn [fst snd] in *; rewrite He;
    (apply np_bind_any; [apply np_x_assumptions_att; assumption|]); intros asm;
    destruct (get_argument af l) as [id|] eqn:Eg; try congruence;
    (apply np_bind_any; [apply (np_x_arg_var_att af e0 l id Ht Hinv Eg)|]); intros v;
    (apply np_bind_any; [apply np_solve|]); intros [m|].
  all: try (apply np_bind_any; [|intros acc; apply np_ret];
            apply np_opt_m, (labels_of_live L); cbn [x_vars]; apply (att_args_live af e0 _ m Ht)).
  all: cbn [opt_m]; intros ps; unfold bind, ret;
    assert (Hl : labels_of L af (map snd (iter_attacks_from L af id)) <> None)
      by (apply (labels_of_live L); intros b0 Hb0; eapply (targets_live L); eassumption);
    destruct (labels_of L af (map snd (iter_attacks_from L af id))); [exact I|congruence].
Qed.
End Queries.

(* ---------------------------------------------------------------- reachable states *)
Lemma att_rep_reach k s os :
  reach k s os -> att_kind k -> replayable (s_af L s) (pending (s_buf L s)).
Proof.
  induction 1 as [ps ps' s Hn|s os o Hr IH|s os oracle thr fuel q cert l ps ps' s' a Hr IH Hq]; intros Hk.
  - unfold dyn_new in Hn. destruct k; try destruct Hk;
      apply bind_Done in Hn; destruct Hn as (u & ps1 & _ & Hn); apply Done_inj in Hn; destruct Hn as [<- _];
      cbn [s_af s_buf]; exact I.
  - specialize (IH Hk). pose proof (reach_frame_inv L leqb _ _ _ Hr) as [Hkind Hn Hs Hf].
    assert (Hsy : fold_left ev_apply (pending (s_buf L s)) (s_af L s) = b_shadow L (s_buf L s)).
    { unfold DynDefs.synced in Hs. rewrite Hkind in Hs. destruct k; try destruct Hk; exact Hs. }
    pose proof (buf_update_spec L leqb (s_buf L s) o) as Hb. cbv zeta in Hb. destruct Hb as (_ & _ & Hnx & _ & Hcase).
    pose proof (buf_update_ev_ok L leqb (s_buf L s) o) as Hev.
    unfold dyn_update. rewrite Hkind.
    assert (G : replayable (s_af L s) (pending (fst (buf_update L leqb (s_buf L s) o)))).
    { destruct Hcase as [(Hok & _)|(_ & ->)]; [|exact IH].
      destruct (Hev Hok) as (ev & Hbf & Hevok).
      unfold DynDefs.pending at 1. rewrite Hnx, (pending_snoc L (s_buf L s) _ ev Hn Hbf).
      apply (replayable_snoc L leqb); [exact IH|]. rewrite Hsy. exact Hevok. }
    destruct k; try destruct Hk;
      destruct (buf_update L leqb (s_buf L s) o) as [b r]; cbn [fst snd s_af s_buf] in *; exact G.
  - specialize (IH Hk).
    pose proof (dyn_query_step L leqb _ _ _ _ _ _ _ _ _ _ Hq) as Hqs. cbn [fst] in Hqs.
    destruct Hqs as [->|(_ & _ & Haf & ev & Hev & Hbf & Hnx & _)]; [auto|].
    unfold DynDefs.pending. rewrite Hnx, Hbf, skipn_app, skipn_all, Nat.sub_diag. cbn [skipn app DynSafe.replayable].
    split; [|exact I]. destruct ev; try discriminate Hev; exact I.
Qed.

(* "the solver stays usable": goal 2 *)
Theorem att_query_never_panics k s os oracle thr fuel q cert l id ps :
  reach k s os -> att_kind k -> factor_ok k -> att_supported k q ->
  get_argument (run_ops fresh os) l = Some id ->
  match dyn_query oracle L leqb thr fuel s q cert l ps with Panic _ => False | _ => True end.
Proof.
  intros Hr Hk Hf Hq Hl.
  pose proof (reach_frame_inv L leqb _ _ _ Hr) as [Hkind Hn Hs Hfs].
  destruct (att_inv_reach L leqb leqb_spec k s os Hr Hk) as [Hinv Hi].
  pose proof (att_rep_reach k s os Hr Hk) as Hrep.
  assert (Hsy : fold_left ev_apply (pending (s_buf L s)) (s_af L s) = run_ops fresh os).
  { unfold DynDefs.synced in Hs. unfold DynDefs.spec_fw in Hfs. rewrite Hkind in Hs, Hfs.
    destruct k; try destruct Hk; congruence. }
  pose proof (np_update_encoding_att k _ _ Hk Hf Hinv Hi Hrep) as Hnp.
  set (P := fun r : fw * dbuf L => DynProofs.encoded L leqb (s_af L s) (s_buf L s) r /\
                                   (Inv (fst r) /\ att_post L k r)).
  assert (HP : okm (update_encoding L leqb (s_af L s) (s_buf L s)) P).
  { apply okm_conj; [apply update_encoding_spec|apply (update_encoding_att L leqb leqb_spec k); assumption]. }
  assert (HPpost : forall r, P r ->
     Inv (fst r) /\ get_argument (fst r) l <> None /\
     exists e0, b_enc L (snd r) = XAtt e0 /\ att_tables_ok (fst r) e0).
  { intros r ((Haf & _) & Hinv' & (e0 & He0 & _ & Ht0)). split; [exact Hinv'|]. split.
    - rewrite Haf, Hsy, Hl. discriminate.
    - exists e0. auto. }
  assert (Hstrip : forall m : Prog.M (dsolver L * answer_t), np m ->
            np (r <- m ;; ret (fst r, if cert then snd r else (fst (snd r), None)))).
  { intros m Hm. apply np_bind_any; [exact Hm|intros r; apply np_ret]. }
  unfold dyn_query. rewrite Hkind.
  destruct k; try destruct Hk; destruct q; try destruct Hq; apply Hstrip.
  - exact (np_dc_query_att oracle s l P HP HPpost Hnp).
  - exact (np_dc_query_att oracle s l P HP HPpost Hnp).
  - exact (np_st_ds_query_att oracle s l P HP HPpost Hnp).
Qed.

End AttSafe.
