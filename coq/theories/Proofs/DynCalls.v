(* C18 for the dynamic solvers: SAT calls and fuel of one query.
   Purely structural facts about the programs of Model/Dynamic.v, for EVERY solver state (reachable or
   not), oracle, program state, fuel and threshold: a query of the complete / stable dynamic solver
   (standard encoder or assumptions on attacks) makes at most ONE solve call however it ends, none
   when it is served from the cache, and never ends in OutOfFuel (these programs have no loop that
   consumes the model's fuel: every loop is a fold over a finite list).
   For the recompute wrapper the bound is the one of the static solver (DummyTop). *)
From Crusta Require Import Model.Dynamic Proofs.SolverBasics Proofs.TopBase Proofs.TopMax Proofs.SolverTop
  Proofs.DynDefs Proofs.DummyTop.
From Coq Require Import Lia.

(* [cb k m]: from any program state, m consumes at most k SAT answers - whether it returns, aborts
   on an Unknown answer or panics - and never runs out of fuel *)
Definition cb (k : nat) {A} (m : Prog.M A) : Prop :=
  forall s, match m s with
            | OutOfFuel _ => False
            | Done _ s' | Abort s' | Panic s' => calls s' <= calls s + k
            end.

Lemma cb_ret {A} (a : A) : cb 0 (ret a).
Proof. intros s. cbn. lia. Qed.
Lemma cb_panic {A} : cb 0 (@panic A).
Proof. intros s. cbn. lia. Qed.
Lemma cb_bind {A B} i j (m : Prog.M A) (k : A -> Prog.M B) :
  cb i m -> (forall a, cb j (k a)) -> cb (i + j) (bind m k).
Proof.
  intros Hm Hk s. unfold bind. specialize (Hm s). destruct (m s) as [a s1|s1|s1|s1]; try lia; try contradiction.
  specialize (Hk a s1). destruct (k a s1); try lia; contradiction.
Qed.
Lemma cb0_bind {A B} (m : Prog.M A) (k : A -> Prog.M B) :
  cb 0 m -> (forall a, cb 0 (k a)) -> cb 0 (bind m k).
Proof. intros Hm Hk. exact (cb_bind 0 0 m k Hm Hk). Qed.
Lemma cb_opt_m {A} (o : option A) : cb 0 (opt_m o).
Proof. destruct o; [apply cb_ret|apply cb_panic]. Qed.
Lemma cb_unwrap_ok {A} (r : A * result) : cb 0 (unwrap_ok r).
Proof. destruct r as [a [| |]]; [apply cb_ret|apply cb_panic|apply cb_panic]. Qed.
Lemma cb_add_clause c : cb 0 (add_clause c).
Proof. intros s. cbn. lia. Qed.
Lemma cb_n_vars : cb 0 n_vars.
Proof. intros s. cbn. lia. Qed.
Lemma cb_new_solver : cb 0 new_solver.
Proof. intros s. cbn. lia. Qed.
Lemma cb_reserve n : cb 0 (reserve n).
Proof. intros s. cbn. lia. Qed.
Lemma cb_add_clauses cs : cb 0 (add_clauses cs).
Proof. induction cs as [|c r IH]; cbn [add_clauses]; [apply cb_ret|]. apply cb0_bind; [apply cb_add_clause|intros _; exact IH]. Qed.
Lemma cb_fold_m {A B} (f : A -> B -> Prog.M A) (l : list B) : (forall a x, cb 0 (f a x)) -> forall a, cb 0 (fold_m f l a).
Proof.
  intros Hf. induction l as [|x r IH]; intros a; cbn [fold_m]; [apply cb_ret|].
  apply cb0_bind; [apply Hf|exact IH].
Qed.
(* the one primitive that consumes an answer *)
Lemma cb_solve oracle a : cb 1 (Prog.solve oracle a).
Proof. intros s. unfold Prog.solve. destruct (oracle (calls s) (rev (rclauses (sess s))) a); cbn; lia. Qed.

Ltac cb_step :=
  first [ apply cb_ret | apply cb_panic | apply cb_opt_m | apply cb_unwrap_ok | apply cb_add_clause
        | apply cb_n_vars | apply cb_add_clauses | apply cb_new_solver | apply cb_reserve
        | (apply cb0_bind; [|intro]) ].

Lemma cb_new_solver_var vars t : cb 0 (new_solver_var vars t).
Proof. unfold new_solver_var. repeat cb_step. Qed.
Lemma cb_alloc_arg_vars sm vars id : cb 0 (alloc_arg_vars sm vars id).
Proof.
  unfold alloc_arg_vars. apply cb0_bind; [apply cb_new_solver_var|]. intros r1.
  destruct sm; try apply cb_ret; (apply cb0_bind; [apply cb_new_solver_var|]; intros r2; repeat cb_step).
Qed.
Lemma cb_remove_selector e s : cb 0 (remove_selector e s).
Proof.
  unfold remove_selector. destruct (Nat.ltb _ _); [|apply cb_panic].
  apply cb0_bind; [apply cb_add_clause|]. intros _. destruct (position _ _); [apply cb_ret|apply cb_panic].
Qed.
Lemma cb_st_inner n a bs : forall cl, cb 0 (st_inner n a bs cl).
Proof. induction bs as [|b r IH]; intros cl; cbn [st_inner]; [apply cb_ret|]. repeat cb_step. apply IH. Qed.
Lemma cb_co_inner1 n a bs : forall cl, cb 0 (co_inner1 n a bs cl).
Proof. induction bs as [|b r IH]; intros cl; cbn [co_inner1]; [apply cb_ret|]. repeat cb_step. apply IH. Qed.
Lemma cb_co_inner2 n a bs : forall cl, cb 0 (co_inner2 n a bs cl).
Proof. induction bs as [|b r IH]; intros cl; cbn [co_inner2]; [apply cb_ret|]. repeat cb_step. apply IH. Qed.

Section Calls.
Variable L : Type.
Variable leqb : L -> L -> bool.
Variable oracle : nat -> cnf -> list lit -> answer.

Notation fw := (fw L).

(* ---- the standard encoder *)
Lemma cb_update_attacks_to (af : fw) e id : cb 0 (update_attacks_to L af e id).
Proof.
  unfold update_attacks_to. destruct (negb (e_upd e)); [apply cb_ret|].
  destruct (nth_error (e_a2s e) id) as [os|]; [|apply cb_panic].
  apply cb0_bind.
  - destruct os as [s|]; [|apply cb_ret]. apply cb0_bind; [apply cb_remove_selector|intros e'; apply cb_ret].
  - intros e1. apply cb0_bind; [apply cb_new_solver_var|]. intros [vars sv].
    destruct (negb _); [apply cb_panic|].
    match goal with |- cb 0 (match ?x with _ => _ end) => destruct x end; [|apply cb_panic].
    match goal with |- cb 0 (match ?x with _ => _ end) => destruct x end; [|apply cb_panic].
    repeat cb_step.
Qed.
Lemma cb_enc_new_argument (af : fw) e l : cb 0 (enc_new_argument L leqb af e l).
Proof.
  unfold enc_new_argument. destruct (get_argument L leqb af l); [apply cb_ret|].
  destruct (max_argument_id L _); [|apply cb_panic].
  apply cb0_bind; [apply cb_alloc_arg_vars|]. intros r.
  apply cb0_bind; [apply cb_update_attacks_to|intros e4; apply cb_ret].
Qed.
Lemma cb_enc_remove_argument (af : fw) e l : cb 0 (enc_remove_argument L leqb af e l).
Proof.
  unfold enc_remove_argument. destruct (get_argument L leqb af l); [|apply cb_ret].
  destruct (Store.remove_argument L leqb af l) as [af' [| |]]; try apply cb_ret.
  destruct (tbl_var _ _); [|apply cb_panic].
  apply cb0_bind.
  - match goal with |- cb 0 (match ?x with _ => _ end) => destruct x as [[s|]|] end;
      [|apply cb_ret|apply cb_panic].
    apply cb0_bind; [apply cb_remove_selector|intros e'; apply cb_ret].
  - intros e2. destruct (Nat.ltb _ _); [|apply cb_panic].
    apply cb0_bind; [apply cb_add_clause|]. intros _.
    apply cb0_bind; [apply cb_fold_m; intros a x; apply cb_update_attacks_to|intros e4; apply cb_ret].
Qed.
Lemma cb_enc_new_attack (af : fw) e a b : cb 0 (enc_new_attack L leqb af e a b).
Proof.
  unfold enc_new_attack. destruct (Store.new_attack L leqb af a b) as [af' [| |]]; [|apply cb_ret|apply cb_panic].
  destruct (get_argument L leqb af' b); [|apply cb_panic].
  apply cb0_bind; [apply cb_update_attacks_to|intros e'; apply cb_ret].
Qed.
Lemma cb_enc_remove_attack (af : fw) e a b : cb 0 (enc_remove_attack L leqb af e a b).
Proof.
  unfold enc_remove_attack. destruct (Store.remove_attack L leqb af a b) as [af' [| |]]; [|apply cb_ret|apply cb_panic].
  destruct (get_argument L leqb af' b); [|apply cb_panic].
  apply cb0_bind; [apply cb_update_attacks_to|intros e'; apply cb_ret].
Qed.
Lemma cb_std_replay st ev : cb 0 (std_replay L leqb st ev).
Proof.
  destruct st as [[af e] upd]. unfold std_replay. destruct ev as [l|l|x y|x y|x y z|x y z]; try apply cb_ret.
  - apply cb0_bind; [apply cb_enc_new_argument|]. intros r. repeat cb_step.
  - apply cb0_bind; [apply cb_opt_m|]. intros id. cbv zeta.
    apply cb0_bind; [apply cb_enc_remove_argument|]. intros r. repeat cb_step.
  - apply cb0_bind; [apply cb_enc_new_attack|]. intros r. repeat cb_step.
  - apply cb0_bind; [apply cb_enc_remove_attack|]. intros r. repeat cb_step.
Qed.

(* ---- the assumptions-on-attacks encoder *)
Lemma cb_att_new_argument (af : fw) e l : cb 0 (att_new_argument L leqb af e l).
Proof.
  unfold att_new_argument. destruct (get_argument L leqb af l); [apply cb_ret|].
  destruct (a_need e || _); [apply cb_ret|].
  destruct (max_argument_id L _); [|apply cb_panic].
  destruct (Nat.ltb _ _); [|apply cb_panic].
  destruct (a_sem e); try apply cb_ret. destruct (Nat.ltb _ _); [apply cb_ret|apply cb_panic].
Qed.
Lemma cb_att_remove_argument (af : fw) e l : cb 0 (att_remove_argument L leqb af e l).
Proof.
  unfold att_remove_argument. destruct (get_argument L leqb af l); [|apply cb_ret].
  destruct (Store.remove_argument L leqb af l) as [af' [| |]]; try apply cb_ret.
  destruct (Nat.ltb _ _); [|apply cb_ret]. destruct (nth _ _ _); [|apply cb_ret].
  destruct (Nat.ltb _ _); [|apply cb_panic]. repeat cb_step.
Qed.
Lemma cb_att_replay st ev : cb 0 (att_replay L leqb st ev).
Proof.
  destruct st as [af e]. unfold att_replay. destruct ev as [l|l|x y|x y|x y z|x y z]; try apply cb_ret.
  - apply cb_att_new_argument.
  - apply cb0_bind; [apply cb_att_remove_argument|intros r; apply cb_unwrap_ok].
  - repeat cb_step.
  - repeat cb_step.
Qed.
Lemma cb_att_update_encoding (af : fw) e : cb 0 (att_update_encoding L af e).
Proof.
  unfold att_update_encoding. destruct (negb (a_need e)); [apply cb_ret|].
  destruct (a_sem e); [| |apply cb_panic].
  - apply cb0_bind; [apply cb_new_solver|intros _]. apply cb0_bind; [apply cb_reserve|intros _].
    destruct (Nat.ltb _ _); [apply cb_panic|].
    apply cb0_bind.
    { apply cb_fold_m. intros _ v. apply cb0_bind; [apply cb_add_clause|intros _].
      apply cb0_bind; [apply cb_co_inner1|intros cl; apply cb_add_clause]. }
    intros _. apply cb0_bind; [|intros _; apply cb_ret].
    apply cb_fold_m. intros _ v. apply cb0_bind; [apply cb_co_inner2|intros cl; apply cb_add_clause].
  - apply cb0_bind; [apply cb_new_solver|intros _]. apply cb0_bind; [apply cb_reserve|intros _].
    destruct (Nat.ltb _ _); [apply cb_panic|].
    apply cb0_bind; [|intros _; apply cb_ret].
    apply cb_fold_m. intros _ v. apply cb0_bind; [apply cb_st_inner|intros cl; apply cb_add_clause].
Qed.

(* ---- update_encoding of either encoder: no SAT call, no fuel *)
Lemma cb_update_encoding (af : fw) b : cb 0 (update_encoding L leqb af b).
Proof.
  unfold update_encoding. destruct (b_enc L b) as [e|e].
  - apply cb0_bind; [apply cb_fold_m; intros a x; apply cb_std_replay|]. intros [[af' e'] upd].
    apply cb0_bind; [apply cb_fold_m; intros a x; apply cb_update_attacks_to|intros e''; apply cb_ret].
  - apply cb0_bind; [apply cb_fold_m; intros a x; apply cb_att_replay|]. intros st.
    apply cb0_bind; [apply cb_att_update_encoding|intros e'; apply cb_ret].
Qed.
Lemma cb_x_assumptions (af : fw) x : cb 0 (x_assumptions L af x).
Proof. destruct x; cbn [x_assumptions]; [apply cb_ret|apply cb_opt_m]. Qed.
Lemma cb_x_arg_var (af : fw) x l : cb 0 (x_arg_var L leqb af x l).
Proof. unfold x_arg_var. repeat cb_step. Qed.

(* ---- the two queries: the only solve call sits between update_encoding and the bookkeeping *)
Lemma cb_dc_query (s : dsolver L) l : cb 1 (dc_query oracle L leqb s l).
Proof.
  unfold dc_query.
  destruct (is_cred L leqb (s_buf L s) l) as [[b|] [e|]];
    try (intros ps; cbn; lia).
  all: apply (cb_bind 0 1); [apply cb_update_encoding|]; intros [af buf];
    apply (cb_bind 0 1); [apply cb_x_assumptions|]; intros asm;
    apply (cb_bind 0 1); [apply cb_x_arg_var|]; intros v;
    apply (cb_bind 1 0); [apply cb_solve|]; intros [m|]; repeat cb_step.
Qed.
Lemma cb_st_ds_query (s : dsolver L) l : cb 1 (st_ds_query oracle L leqb s l).
Proof.
  unfold st_ds_query.
  destruct (is_skep L leqb (s_buf L s) l) as [[b|] [e|]];
    try (intros ps; cbn; lia).
  all: apply (cb_bind 0 1); [apply cb_update_encoding|]; intros [af buf];
    apply (cb_bind 0 1); [apply cb_x_assumptions|]; intros asm;
    apply (cb_bind 0 1); [apply cb_x_arg_var|]; intros v;
    apply (cb_bind 1 0); [apply cb_solve|]; intros [m|]; repeat cb_step.
Qed.

(* the kinds this file is about: complete / stable solver, either encoder family *)
Definition one_call_kind (k : dkind) : Prop :=
  match k with KCo | KSt | KCoAtt _ _ | KStAtt _ _ => True | _ => False end.

Theorem dyn_query_one_call thr fuel (s : dsolver L) q cert l :
  one_call_kind (s_kind L s) -> cb 1 (dyn_query oracle L leqb thr fuel s q cert l).
Proof.
  intros Hk. unfold dyn_query.
  assert (Hstrip : forall m : Prog.M (dsolver L * answer_t), cb 1 m ->
            cb 1 (bind m (fun r => ret (fst r, if cert then snd r else (fst (snd r), None))))).
  { intros m Hm. apply (cb_bind 1 0); [exact Hm|intros r; apply cb_ret]. }
  destruct (s_kind L s); try destruct Hk; destruct q;
    first [apply Hstrip; first [apply cb_dc_query|apply cb_st_ds_query]|intros ps; cbn; lia].
Qed.

(* in the readable form: however the query ends *)
Theorem dyn_query_calls thr fuel (s : dsolver L) q cert l ps :
  one_call_kind (s_kind L s) ->
  match dyn_query oracle L leqb thr fuel s q cert l ps with
  | OutOfFuel _ => False
  | Done _ ps' | Abort ps' | Panic ps' => calls ps' <= calls ps + 1
  end.
Proof. intros Hk. exact (dyn_query_one_call thr fuel s q cert l Hk ps). Qed.

(* an answer served from the cache: no SAT call, nothing touched *)
Theorem dyn_query_cached_dc thr fuel (s : dsolver L) cert l b e ps :
  one_call_kind (s_kind L s) -> is_cred L leqb (s_buf L s) l = (Some b, Some e) ->
  dyn_query oracle L leqb thr fuel s QDC cert l ps = Done (s, (b, if cert then Some e else None)) ps.
Proof.
  intros Hk Hhit. unfold dyn_query. destruct (s_kind L s); try destruct Hk;
    unfold bind, dc_query; rewrite Hhit; unfold ret; cbn [fst snd]; destruct cert; reflexivity.
Qed.
Theorem dyn_query_cached_ds thr fuel (s : dsolver L) cert l b e ps :
  (s_kind L s = KSt \/ exists num den, s_kind L s = KStAtt num den) ->
  is_skep L leqb (s_buf L s) l = (Some b, Some e) ->
  dyn_query oracle L leqb thr fuel s QDS cert l ps = Done (s, (b, if cert then Some e else None)) ps.
Proof.
  intros Hk Hhit. unfold dyn_query. destruct Hk as [-> |(num & den & ->)];
    unfold bind, st_ds_query; rewrite Hhit; unfold ret; cbn [fst snd]; destruct cert; reflexivity.
Qed.

End Calls.

(* ---- the recompute wrapper: the bound of the static solver it runs on the store of the history *)
Section Dummy.
Variable L : Type.
Variable leqb : L -> L -> bool.
Hypothesis leqb_spec : forall x y, leqb x y = true <-> x = y.

Theorem dummy_query_calls sm s os :
  DynDefs.reach L leqb (KDummy sm) s os ->
  forall oracle thr fuel q cert l id ps,
  valid_oracle oracle -> 1 <= thr ->
  q <> QSE -> supported sm q -> enc_ok sm AuxCo ->
  get_argument L leqb (run_ops L leqb (DynDefs.fresh_fw L leqb) os) l = Some id ->
  let comps := query_comps sm q cert (view_of_fw (run_ops L leqb (DynDefs.fresh_fw L leqb) os)) [id] in
  let K := total_bound sm AuxCo comps in
  match dyn_query oracle L leqb thr fuel s q cert l ps with
  | Done _ ps' | Abort ps' => calls ps' <= calls ps + K
  | Panic _ => False
  | OutOfFuel ps' =>
      calls ps' <= calls ps + K /\ ~ (forall c, In c comps -> 2 * comp_bound sm AuxCo c + 4 <= fuel)
  end.
Proof.
  intros Hr oracle thr fuel q cert l id ps Hv Ht Hq Hs He Hl comps K.
  pose proof (DummyTop.dummy_query_functional L leqb leqb_spec sm s os Hr oracle thr fuel q cert l id ps
                Hv Ht Hq Hs He Hl) as H. cbv zeta in H. fold comps in H. fold K in H.
  destruct (dyn_query oracle L leqb thr fuel s q cert l ps) as [[s' [b c]] ps'|ps'|ps'|ps']; try exact H.
  destruct H as (_ & _ & _ & H). exact H.
Qed.

End Dummy.
