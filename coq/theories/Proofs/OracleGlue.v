(* The glue between C15 (the SAT solver objects honour the incremental solving contract) and the
   hypothesis [valid_oracle] of every solver theorem.
   Part A: [dpll_oracle], the oracle obtained from the verified reference solver (Sat/Dpll.v): valid;
           decided (never Unknown) exactly on the queries without the literal 0; and NO valid oracle
           can be decided on all queries.
   Part B: a solver object that honours the contract of C15 answers every solve call as a valid oracle
           would (for every history), and induces a valid oracle; instances: BufferedSatSolver over any
           correct solving function (vdpll), CadicalSolver's wrapper over any correct backend.
   Part C: queries of the model are well formed (no literal 0): with [dpll_oracle] nothing aborts.
   Part D: the unconditional end-to-end corollaries. *)
From Crusta Require Import Sat.Cnf Sat.Prog Sat.Dimacs Sat.Dpll Model.SatObjects Model.SatSpec.
From Crusta Require Import Proofs.DpllProofs Proofs.SatObjProofs Proofs.EncBase Proofs.SolverBasics Proofs.SolverWholeEx.
From Crusta Require Proofs.Clauses2.
From Coq Require Import Lia ZifyBool.
Import ListNotations.

(* ================================================================ Part A *)
Definition query_wf (C : cnf) (a : list lit) : bool := cnf_ok C && clause_ok a.

(* the reference solver as an oracle: the i-th answer does not depend on i; a query that mentions the
   literal 0 (not a DIMACS literal; crustabri's Literal is a NonZeroIsize) is left undecided *)
Definition dpll_oracle (i : nat) (C : cnf) (a : list lit) : answer :=
  if query_wf C a then match Dpll.solve C a with Some m => Sat m | None => Unsat end else Unknown.

Lemma cnf_ok_lit_ok f : cnf_ok f = forallb (forallb lit_ok) f.
Proof. reflexivity. Qed.

Lemma no_model_no_valuation f a :
  cnf_ok (f ++ units a) = true -> (forall m, models m (f ++ units a) = false) ->
  forall v : val, vmodels v f = true -> forallb (vtrue v) a = true -> False.
Proof.
  intros Hok Hno v Hv Ha.
  pose proof (Hno (assignment_of (cnf_max (f ++ units a)) v)) as H.
  rewrite (models_assignment_of _ v _ Hok (le_n _)) in H.
  rewrite EncBase.vmodels_app, Hv, vmodels_units, Ha in H. discriminate.
Qed.

Theorem dpll_oracle_valid : valid_oracle dpll_oracle.
Proof.
  intros i C a. unfold dpll_oracle, query_wf.
  destruct (cnf_ok C && clause_ok a) eqn:Hwf; [|exact I].
  apply andb_true_iff in Hwf. destruct Hwf as [HC Ha].
  destruct (Dpll.solve C a) as [m|] eqn:E.
  - destruct (solve_sound _ _ _ E) as [Hm _]. rewrite models_app, DpllProofs.models_units in Hm.
    apply andb_true_iff in Hm. exact Hm.
  - apply no_model_no_valuation; [rewrite cnf_ok_app, cnf_ok_units, HC, Ha; reflexivity|].
    exact (solve_complete C a HC Ha E).
Qed.

(* decided exactly on the well-formed queries *)
Theorem dpll_oracle_unknown_iff i C a : dpll_oracle i C a = Unknown <-> query_wf C a = false.
Proof.
  unfold dpll_oracle. destruct (query_wf C a); [|tauto]. destruct (Dpll.solve C a); split; discriminate.
Qed.
Corollary dpll_oracle_decided i C a : cnf_ok C = true -> clause_ok a = true -> dpll_oracle i C a <> Unknown.
Proof. intros HC Ha H. apply dpll_oracle_unknown_iff in H. unfold query_wf in H. rewrite HC, Ha in H. discriminate H. Qed.

(* "valid and never Unknown" is not satisfiable: on the clauses [0] and [1] (the literal 0 is read as
   "not variable 0" by valuations, and aliases variable 1 in assignments) no Sat and no Unsat answer is
   valid, so EVERY valid oracle leaves this query undecided *)
Theorem no_valid_oracle_is_total oracle : valid_oracle oracle -> forall i, oracle i [[0%Z]; [1%Z]] [] = Unknown.
Proof.
  intros Hv i. specialize (Hv i [[0%Z]; [1%Z]] []). destruct (oracle i [[0%Z]; [1%Z]] []) as [m| |]; [| |reflexivity]; exfalso.
  - destruct Hv as [Hm _]. destruct m as [|[[|]|] r]; vm_compute in Hm; discriminate Hm.
  - apply (Hv (fun x => Nat.eqb x 1)); reflexivity.
Qed.

(* ================================================================ Part B *)
(* what [valid_oracle] demands of the answer to the query (C, a), on an observation of a solver object *)
Definition obs_valid (C : cnf) (a : list lit) (ob : sobs) : Prop :=
  match ob with
  | ObsAns (Sat m) => models m C = true /\ forallb (lit_true m) a = true
  | ObsAns Unsat => forall v : val, vmodels v C = true -> forallb (vtrue v) a = true -> False
  | ObsAns Unknown => True
  | _ => False
  end.

(* the contract of ONE solve call (C15: [contract_ok]) gives exactly that, for the clauses added so
   far in the session and the assumptions of the call.  The model returned may be PARTIAL and padded
   (CadicalSolver pads reserved-only variables with None): [models] only needs a true literal in every
   clause, which the contract provides; no totality is assumed *)
Lemma contract_obs_valid done a ob :
  hist_ok done = true -> clause_ok a = true ->
  contract_ok done (OSolve a) ob -> obs_valid (clauses_of done) a ob.
Proof.
  intros Hd Ha Hc. destruct ob as [| |[m| |]|]; cbn [contract_ok obs_valid] in *; try exact Hc.
  - destruct Hc as [Hm _]. unfold query in Hm. rewrite models_app, DpllProofs.models_units in Hm.
    apply andb_true_iff in Hm. exact Hm.
  - apply no_model_no_valuation; [exact (query_ok done a Hd Ha)|exact Hc].
Qed.

(* a solver object: a step function and an initial state; it HONOURS THE CONTRACT on the histories
   accepted by a guard g (the size bound of the external solver) *)
Section Object.
Variable St : Type.
Variable step : St -> sop -> St * sobs.
Variable s0 : St.
Variable g : list sop -> bool.

Definition honours : Prop :=
  forall ops, hist_ok ops = true -> g ops = true -> all_ok [] ops (snd (run_obj step s0 ops)).

(* every solve call of every history is answered as [valid_oracle] demands *)
Theorem honours_each_call : honours -> forall pre a post,
  hist_ok (pre ++ OSolve a :: post) = true -> g (pre ++ OSolve a :: post) = true ->
  exists ob, nth_error (snd (run_obj step s0 (pre ++ OSolve a :: post))) (length pre) = Some ob /\
             obs_valid (clauses_of pre) a ob.
Proof.
  intros Hh pre a post Hok Hg.
  destruct (Clauses2.all_ok_at pre [] _ _ (OSolve a) post (Hh _ Hok Hg) eq_refl) as (ob & H1 & H2).
  exists ob. split; [exact H1|]. cbn [app] in H2.
  rewrite hist_ok_app in Hok. apply andb_true_iff in Hok. destruct Hok as [Hpre Hrest].
  cbn [hist_ok forallb op_ok] in Hrest. apply andb_true_iff in Hrest.
  apply contract_obs_valid; [exact Hpre|exact (proj1 Hrest)|exact H2].
Qed.

(* the oracle the object induces: put the clauses into a new session, solve under the assumptions *)
Definition session_of (C : cnf) (a : list lit) : list sop := map OAdd C ++ [OSolve a].
Definition obj_oracle (i : nat) (C : cnf) (a : list lit) : answer :=
  if hist_ok (session_of C a) && g (session_of C a) then
    match nth_error (snd (run_obj step s0 (session_of C a))) (length C) with
    | Some (ObsAns r) => r
    | _ => Unknown
    end
  else Unknown.

Lemma clauses_of_adds C : clauses_of (map OAdd C) = C.
Proof. induction C as [|c r IH]; [reflexivity|]. cbn [map clauses_of]. now rewrite IH. Qed.

Theorem honours_valid_oracle : honours -> valid_oracle obj_oracle.
Proof.
  intros Hh i C a. unfold obj_oracle.
  destruct (hist_ok (session_of C a) && g (session_of C a)) eqn:E; [|exact I].
  apply andb_true_iff in E. destruct E as [Hok Hg]. unfold session_of in *.
  destruct (honours_each_call Hh (map OAdd C) a [] Hok Hg) as (ob & H1 & H2).
  rewrite map_length in H1. rewrite H1. rewrite clauses_of_adds in H2.
  destruct ob as [| |[m| |]|]; cbn [obs_valid] in H2; try exact I; exact H2.
Qed.
End Object.

(* (a) BufferedSatSolver / ExternalSatSolver over ANY correct solving function *)
Definition small_b (ops : list sop) : bool := (Z.of_nat (hist_nvars ops) <=? isize_max)%Z.
Theorem buffered_honours fn : solver_correct fn -> honours _ (buf_step fn) buf_new small_b.
Proof.
  intros Hc ops Hok Hs. apply buffered_contract; [exact Hc|exact Hok|]. unfold small, small_b in *. lia.
Qed.
Definition buffered_oracle (fn : bytes -> bytes) := obj_oracle _ (buf_step fn) buf_new small_b.
Corollary buffered_oracle_valid fn : solver_correct fn -> valid_oracle (buffered_oracle fn).
Proof. intros Hc. apply honours_valid_oracle, buffered_honours, Hc. Qed.
Corollary vdpll_oracle_valid : valid_oracle (buffered_oracle vdpll_fn).
Proof. apply buffered_oracle_valid, vdpll_correct. Qed.

(* (b) CadicalSolver's wrapper over a backend.  THE hypothesis about CaDiCaL (validated on every run
   by checks/C15.py, not proved): when asked about well-formed clauses f and assumptions a with
   max_variable() = mv >= every variable occurring, a SAT verdict comes with values value(1..mv)
   that, read as a (possibly partial) assignment, make a literal of every clause and every assumption
   true; an UNSAT verdict is given only if no assignment does.  If value(i) were None ("unassigned")
   for a variable a clause depends on, the first part would fail: that corner is INSIDE this
   hypothesis, nothing else is assumed. *)
Definition backend_correct (bk : backend) : Prop :=
  forall f a mv, cnf_ok (f ++ units a) = true -> cnf_max (f ++ units a) <= mv ->
  match bk f a mv with
  | BSat value => models (map value (seq 1 mv)) (f ++ units a) = true
  | BUnsat => forall m, models m (f ++ units a) = false
  | BUnknown => True
  end.

Lemma cad_contract_step_bk bk done s o : backend_correct bk -> cinv done s -> hist_ok (done ++ [o]) = true ->
  contract_ok done o (snd (cad_step bk s o)).
Proof.
  intros Hbk (C1 & C2 & C3) Hok. destruct o as [c|n|a|]; cbn [cad_step snd contract_ok]; try reflexivity.
  - rewrite hist_ok_app in Hok. apply andb_true_iff in Hok. destruct Hok as [Hd Ha]. cbn [hist_ok forallb op_ok] in Ha.
    rewrite andb_true_r in Ha. rewrite C1, C2, C3.
    pose proof (query_ok done a Hd Ha) as Qok. pose proof (query_max done a) as Qmax. unfold query in *.
    specialize (Hbk (clauses_of done) a (Nat.max (hist_seen done) (clause_max a)) Qok Qmax).
    destruct (bk (clauses_of done) a (Nat.max (hist_seen done) (clause_max a))) as [value| |]; cbn [snd].
    + split; [apply models_pad, Hbk|].
      rewrite app_length, map_length, seq_length, repeat_length. rewrite hist_nvars_app, (hist_nvars_split done).
      cbn [hist_nvars op_vars]. lia.
    + exact Hbk.
    + exact I.
  - unfold cad_n_vars. rewrite C2, C3, hist_nvars_split. reflexivity.
Qed.

Theorem cadical_honours bk : backend_correct bk -> honours _ (cad_step bk) cad_new (fun _ => true).
Proof.
  intros Hbk ops Hok _.
  assert (G : forall ops done s, cinv done s -> hist_ok (done ++ ops) = true ->
              all_ok done ops (snd (run_obj (cad_step bk) s ops))).
  { clear ops Hok. induction ops as [|o r IH]; intros done s I Hok; [exact Logic.I|].
    cbn [run_obj].
    assert (Hok1 : hist_ok (done ++ [o]) = true).
    { rewrite hist_ok_app in *. apply andb_true_iff in Hok. destruct Hok as [A B]. cbn [hist_ok forallb] in B.
      apply andb_true_iff in B. destruct B as [B _]. rewrite A. cbn [hist_ok forallb]. rewrite B. reflexivity. }
    pose proof (cad_contract_step_bk bk done s o Hbk I Hok1) as C.
    pose proof (cinv_step bk done s o I) as I1.
    destruct (cad_step bk s o) as [s1 ob]. cbn [fst snd] in *.
    specialize (IH (done ++ [o]) s1 I1). rewrite <- app_assoc in IH. cbn [app] in IH. specialize (IH Hok).
    destruct (run_obj (cad_step bk) s1 r) as [s2 obs]. cbn [snd] in *. split; assumption. }
  apply (G ops [] cad_new); [repeat split|exact Hok].
Qed.
Definition cadical_oracle (bk : backend) := obj_oracle _ (cad_step bk) cad_new (fun _ => true).
Corollary cadical_oracle_valid bk : backend_correct bk -> valid_oracle (cadical_oracle bk).
Proof. intros Hbk. apply honours_valid_oracle, cadical_honours, Hbk. Qed.

(* the reference solver is such a backend *)
Lemma map_nth_seq' (m : assignment) : map (fun i => nth (i - 1) m None) (seq 1 (length m)) = m.
Proof. apply map_nth_seq. Qed.
Theorem dpll_backend_correct : backend_correct dpll_backend.
Proof.
  intros f a mv Hok Hmax. unfold dpll_backend. destruct (solve_n mv f a) as [m|] eqn:E.
  - destruct (solve_n_sound _ _ _ _ E) as (Hm & Hlen & _). rewrite <- Hlen, map_nth_seq'. exact Hm.
  - exact (solve_n_complete _ _ _ Hok Hmax E).
Qed.
