(* The glue between C15 (the SAT solver objects honour the incremental solving contract) and the
   hypothesis [valid_oracle] of every solver theorem.
   Part A: [dpll_oracle], the oracle obtained from the verified reference solver (Sat/Dpll.v): valid;
           decided (never Unknown) exactly on the queries without the literal 0; and NO valid oracle
           can be decided on all queries.
   Part B: a solver object that honours the contract of C15 answers every solve call as a valid oracle
           would (for every history), and induces a valid oracle; instances: BufferedSatSolver over any
           correct solving function (vdpll), CadicalSolver's wrapper over any correct backend.
   Part C: queries of the model are well formed (no literal 0): with [dpll_oracle] nothing aborts.
   Part D: the unconditional end-to-end corollaries. *)
From Crusta Require Import Sat.Cnf Sat.Prog Sat.Dimacs Sat.Dpll Model.SatObjects Model.SatSpec.
From Crusta Require Import Proofs.DpllProofs Proofs.SatObjProofs Proofs.EncBase Proofs.SolverBasics Proofs.SolverWholeEx.
From Crusta Require Proofs.Clauses2.
From Coq Require Import Lia ZifyBool.
Import ListNotations.

(* ================================================================ Part A *)
Definition query_wf (C : cnf) (a : list lit) : bool := cnf_ok C && clause_ok a.

(* the reference solver as an oracle: the i-th answer does not depend on i; a query that mentions the
   literal 0 (not a DIMACS literal; crustabri's Literal is a NonZeroIsize) is left undecided *)
Definition dpll_oracle (i : nat) (C : cnf) (a : list lit) : answer :=
  if query_wf C a then match Dpll.solve C a with Some m => Sat m | None => Unsat end else Unknown.

Lemma cnf_ok_lit_ok f : cnf_ok f = forallb (forallb lit_ok) f.
Proof. reflexivity. Qed.

Lemma no_model_no_valuation f a :
  cnf_ok (f ++ units a) = true -> (forall m, models m (f ++ units a) = false) ->
  forall v : val, vmodels v f = true -> forallb (vtrue v) a = true -> False.
Proof.
  intros Hok Hno v Hv Ha.
  pose proof (Hno (assignment_of (cnf_max (f ++ units a)) v)) as H.
  rewrite (models_assignment_of _ v _ Hok (le_n _)) in H.
  rewrite EncBase.vmodels_app, Hv, vmodels_units, Ha in H. discriminate.
Qed.

Theorem dpll_oracle_valid : valid_oracle dpll_oracle.
Proof.
  intros i C a. unfold dpll_oracle, query_wf.
  destruct (cnf_ok C && clause_ok a) eqn:Hwf; [|exact I].
  apply andb_true_iff in Hwf. destruct Hwf as [HC Ha].
  destruct (Dpll.solve C a) as [m|] eqn:E.
  - destruct (solve_sound _ _ _ E) as [Hm _]. rewrite models_app, DpllProofs.models_units in Hm.
    apply andb_true_iff in Hm. exact Hm.
  - apply no_model_no_valuation; [rewrite cnf_ok_app, cnf_ok_units, HC, Ha; reflexivity|].
    exact (solve_complete C a HC Ha E).
Qed.

(* decided exactly on the well-formed queries *)
Theorem dpll_oracle_unknown_iff i C a : dpll_oracle i C a = Unknown <-> query_wf C a = false.
Proof.
  unfold dpll_oracle. destruct (query_wf C a); [|tauto]. destruct (Dpll.solve C a); split; discriminate.
Qed.
Corollary dpll_oracle_decided i C a : cnf_ok C = true -> clause_ok a = true -> dpll_oracle i C a <> Unknown.
Proof. intros HC Ha H. apply dpll_oracle_unknown_iff in H. unfold query_wf in H. rewrite HC, Ha in H. discriminate H. Qed.

(* "valid and never Unknown" is not satisfiable: on the clauses [0] and [1] (the literal 0 is read as
   "not variable 0" by valuations, and aliases variable 1 in assignments) no Sat and no Unsat answer is
   valid, so EVERY valid oracle leaves this query undecided *)
Theorem no_valid_oracle_is_total oracle : valid_oracle oracle -> forall i, oracle i [[0%Z]; [1%Z]] [] = Unknown.
Proof.
  intros Hv i. specialize (Hv i [[0%Z]; [1%Z]] []). destruct (oracle i [[0%Z]; [1%Z]] []) as [m| |]; [| |reflexivity]; exfalso.
  - destruct Hv as [Hm _]. destruct m as [|[[|]|] r]; vm_compute in Hm; discriminate Hm.
  - apply (Hv (fun x => Nat.eqb x 1)); reflexivity.
Qed.

(* ================================================================ Part B *)
(* what [valid_oracle] demands of the answer to the query (C, a), on an observation of a solver object *)
Definition obs_valid (C : cnf) (a : list lit) (ob : sobs) : Prop :=
  match ob with
  | ObsAns (Sat m) => models m C = true /\ forallb (lit_true m) a = true
  | ObsAns Unsat => forall v : val, vmodels v C = true -> forallb (vtrue v) a = true -> False
  | ObsAns Unknown => True
  | _ => False
  end.

(* the contract of ONE solve call (C15: [contract_ok]) gives exactly that, for the clauses added so
   far in the session and the assumptions of the call.  The model returned may be PARTIAL and padded
   (CadicalSolver pads reserved-only variables with None): [models] only needs a true literal in every
   clause, which the contract provides; no totality is assumed *)
Lemma contract_obs_valid done a ob :
  hist_ok done = true -> clause_ok a = true ->
  contract_ok done (OSolve a) ob -> obs_valid (clauses_of done) a ob.
Proof.
  intros Hd Ha Hc. destruct ob as [| |[m| |]|]; cbn [contract_ok obs_valid] in *; try exact Hc.
  - destruct Hc as [Hm _]. unfold query in Hm. rewrite models_app, DpllProofs.models_units in Hm.
    apply andb_true_iff in Hm. exact Hm.
  - apply no_model_no_valuation; [exact (query_ok done a Hd Ha)|exact Hc].
Qed.

(* a solver object: a step function and an initial state; it HONOURS THE CONTRACT on the histories
   accepted by a guard g (the size bound of the external solver) *)
Section Object.
Variable St : Type.
Variable step : St -> sop -> St * sobs.
Variable s0 : St.
Variable g : list sop -> bool.

Definition honours : Prop :=
  forall ops, hist_ok ops = true -> g ops = true -> all_ok [] ops (snd (run_obj step s0 ops)).

(* every solve call of every history is answered as [valid_oracle] demands *)
Theorem honours_each_call : honours -> forall pre a post,
  hist_ok (pre ++ OSolve a :: post) = true -> g (pre ++ OSolve a :: post) = true ->
  exists ob, nth_error (snd (run_obj step s0 (pre ++ OSolve a :: post))) (length pre) = Some ob /\
             obs_valid (clauses_of pre) a ob.
Proof.
  intros Hh pre a post Hok Hg.
  destruct (Clauses2.all_ok_at pre [] _ _ (OSolve a) post (Hh _ Hok Hg) eq_refl) as (ob & H1 & H2).
  exists ob. split; [exact H1|]. cbn [app] in H2.
  rewrite hist_ok_app in Hok. apply andb_true_iff in Hok. destruct Hok as [Hpre Hrest].
  cbn [hist_ok forallb op_ok] in Hrest. apply andb_true_iff in Hrest.
  apply contract_obs_valid; [exact Hpre|exact (proj1 Hrest)|exact H2].
Qed.

(* the oracle the object induces: put the clauses into a new session, solve under the assumptions *)
Definition session_of (C : cnf) (a : list lit) : list sop := map OAdd C ++ [OSolve a].
Definition obj_oracle (i : nat) (C : cnf) (a : list lit) : answer :=
  if hist_ok (session_of C a) && g (session_of C a) then
    match nth_error (snd (run_obj step s0 (session_of C a))) (length C) with
    | Some (ObsAns r) => r
    | _ => Unknown
    end
  else Unknown.

Lemma clauses_of_adds C : clauses_of (map OAdd C) = C.
Proof. induction C as [|c r IH]; [reflexivity|]. cbn [map clauses_of]. now rewrite IH. Qed.

Theorem honours_valid_oracle : honours -> valid_oracle obj_oracle.
Proof.
  intros Hh i C a. unfold obj_oracle.
  destruct (hist_ok (session_of C a) && g (session_of C a)) eqn:E; [|exact I].
  apply andb_true_iff in E. destruct E as [Hok Hg]. unfold session_of in *.
  destruct (honours_each_call Hh (map OAdd C) a [] Hok Hg) as (ob & H1 & H2).
  rewrite map_length in H1. rewrite H1. rewrite clauses_of_adds in H2.
  destruct ob as [| |[m| |]|]; cbn [obs_valid] in H2; try exact I; exact H2.
Qed.
End Object.

(* (a) BufferedSatSolver / ExternalSatSolver over ANY correct solving function *)
Definition small_b (ops : list sop) : bool := (Z.of_nat (hist_nvars ops) <=? isize_max)%Z.
Theorem buffered_honours fn : solver_correct fn -> honours _ (buf_step fn) buf_new small_b.
Proof.
  intros Hc ops Hok Hs. apply buffered_contract; [exact Hc|exact Hok|]. unfold small, small_b in *. lia.
Qed.
Definition buffered_oracle (fn : bytes -> bytes) := obj_oracle _ (buf_step fn) buf_new small_b.
Corollary buffered_oracle_valid fn : solver_correct fn -> valid_oracle (buffered_oracle fn).
Proof. intros Hc. apply honours_valid_oracle, buffered_honours, Hc. Qed.
Corollary vdpll_oracle_valid : valid_oracle (buffered_oracle vdpll_fn).
Proof. apply buffered_oracle_valid, vdpll_correct. Qed.

(* (b) CadicalSolver's wrapper over a backend.  THE hypothesis about CaDiCaL (validated on every run
   by checks/C15.py, not proved): when asked about well-formed clauses f and assumptions a with
   max_variable() = mv >= every variable occurring, a SAT verdict comes with values value(1..mv)
   that, read as a (possibly partial) assignment, make a literal of every clause and every assumption
   true; an UNSAT verdict is given only if no assignment does.  If value(i) were None ("unassigned")
   for a variable a clause depends on, the first part would fail: that corner is INSIDE this
   hypothesis, nothing else is assumed. *)
Definition backend_correct (bk : backend) : Prop :=
  forall f a mv, cnf_ok (f ++ units a) = true -> cnf_max (f ++ units a) <= mv ->
  match bk f a mv with
  | BSat value => models (map value (seq 1 mv)) (f ++ units a) = true
  | BUnsat => forall m, models m (f ++ units a) = false
  | BUnknown => True
  end.

Lemma cad_contract_step_bk bk done s o : backend_correct bk -> cinv done s -> hist_ok (done ++ [o]) = true ->
  contract_ok done o (snd (cad_step bk s o)).
Proof.
  intros Hbk (C1 & C2 & C3) Hok. destruct o as [c|n|a|]; cbn [cad_step snd contract_ok]; try reflexivity.
  - rewrite hist_ok_app in Hok. apply andb_true_iff in Hok. destruct Hok as [Hd Ha]. cbn [hist_ok forallb op_ok] in Ha.
    rewrite andb_true_r in Ha. rewrite C1, C2, C3.
    pose proof (query_ok done a Hd Ha) as Qok. pose proof (query_max done a) as Qmax. unfold query in *.
    specialize (Hbk (clauses_of done) a (Nat.max (hist_seen done) (clause_max a)) Qok Qmax).
    destruct (bk (clauses_of done) a (Nat.max (hist_seen done) (clause_max a))) as [value| |]; cbn [snd].
    + split; [apply models_pad, Hbk|].
      rewrite app_length, map_length, seq_length, repeat_length. rewrite hist_nvars_app, (hist_nvars_split done).
      cbn [hist_nvars op_vars]. lia.
    + exact Hbk.
    + exact I.
  - unfold cad_n_vars. rewrite C2, C3, hist_nvars_split. reflexivity.
Qed.

Theorem cadical_honours bk : backend_correct bk -> honours _ (cad_step bk) cad_new (fun _ => true).
Proof.
  intros Hbk ops Hok _.
  assert (G : forall ops done s, cinv done s -> hist_ok (done ++ ops) = true ->
              all_ok done ops (snd (run_obj (cad_step bk) s ops))).
  { clear ops Hok. induction ops as [|o r IH]; intros done s I Hok; [exact Logic.I|].
    cbn [run_obj].
    assert (Hok1 : hist_ok (done ++ [o]) = true).
    { rewrite hist_ok_app in *. apply andb_true_iff in Hok. destruct Hok as [A B]. cbn [hist_ok forallb] in B.
      apply andb_true_iff in B. destruct B as [B _]. rewrite A. cbn [hist_ok forallb]. rewrite B. reflexivity. }
    pose proof (cad_contract_step_bk bk done s o Hbk I Hok1) as C.
    pose proof (cinv_step bk done s o I) as I1.
    destruct (cad_step bk s o) as [s1 ob]. cbn [fst snd] in *.
    specialize (IH (done ++ [o]) s1 I1). rewrite <- app_assoc in IH. cbn [app] in IH. specialize (IH Hok).
    destruct (run_obj (cad_step bk) s1 r) as [s2 obs]. cbn [snd] in *. split; assumption. }
  apply (G ops [] cad_new); [repeat split|exact Hok].
Qed.
Definition cadical_oracle (bk : backend) := obj_oracle _ (cad_step bk) cad_new (fun _ => true).
Corollary cadical_oracle_valid bk : backend_correct bk -> valid_oracle (cadical_oracle bk).
Proof. intros Hbk. apply honours_valid_oracle, cadical_honours, Hbk. Qed.

(* the reference solver is such a backend *)
Lemma map_nth_seq' (m : assignment) : map (fun i => nth (i - 1) m None) (seq 1 (length m)) = m.
Proof. apply map_nth_seq. Qed.
Theorem dpll_backend_correct : backend_correct dpll_backend.
Proof.
  intros f a mv Hok Hmax. unfold dpll_backend. destruct (solve_n mv f a) as [m|] eqn:E.
  - destruct (solve_n_sound _ _ _ _ E) as (Hm & Hlen & _). rewrite <- Hlen, map_nth_seq'. exact Hm.
  - exact (solve_n_complete _ _ _ Hok Hmax E).
Qed.

(* ================================================================ Part C *)
(* Every query the model puts to the SAT solver is well formed (no literal 0), hence decided by
   [dpll_oracle]: no run aborts.  [nab m Q]: from a state whose session holds well-formed clauses, m
   never aborts, leaves such a state, and returns values satisfying Q. *)
From Crusta Require Import Model.Encoders Model.Graph Model.Solvers Proofs.ProgLaws Proofs.EncSpec Proofs.EncAll
  Proofs.Decomp Proofs.TopBase.
Open Scope prog_scope.

Definition Iok (s : Prog.st) : Prop := cnf_ok (rclauses (sess s)) = true.
Lemma cnf_ok_rev f : cnf_ok (rev f) = cnf_ok f.
Proof.
  unfold cnf_ok. induction f as [|c r IH]; [reflexivity|]. cbn [rev forallb]. rewrite forallb_app, IH. cbn [forallb].
  rewrite andb_true_r. apply andb_comm.
Qed.

Definition nab {A} (m : Prog.M A) (Q : A -> Prop) : Prop :=
  forall s, Iok s -> match m s with Done a s' => Iok s' /\ Q a | Abort _ => False | _ => True end.
Notation T := (fun _ => True).

Lemma nab_ret {A} (a : A) (Q : A -> Prop) : Q a -> nab (ret a) Q.
Proof. intros H s Hs. cbn. auto. Qed.
Lemma nab_panic {A} (Q : A -> Prop) : nab panic Q.
Proof. intros s Hs. exact I. Qed.
Lemma nab_oof {A} (Q : A -> Prop) : nab out_of_fuel Q.
Proof. intros s Hs. exact I. Qed.
Lemma nab_bind {A B} (m : Prog.M A) (k : A -> Prog.M B) (P : A -> Prop) (Q : B -> Prop) :
  nab m P -> (forall a, P a -> nab (k a) Q) -> nab (bind m k) Q.
Proof.
  intros Hm Hk s Hs. unfold bind. specialize (Hm s Hs). destruct (m s) as [a s1|s1|s1|s1]; try exact Hm; try exact I.
  destruct Hm as [H1 H2]. exact (Hk a H2 s1 H1).
Qed.
Lemma nab_weaken {A} (m : Prog.M A) (P Q : A -> Prop) : nab m P -> (forall a, P a -> Q a) -> nab m Q.
Proof. intros H HPQ s Hs. specialize (H s Hs). destruct (m s); auto. destruct H. auto. Qed.
Lemma nab_new : nab new_solver T.
Proof. intros s Hs. cbn. split; [reflexivity|exact I]. Qed.
Lemma nab_reserve n : nab (reserve n) T.
Proof. intros s Hs. cbn. split; [exact Hs|exact I]. Qed.
Lemma nab_nvars : nab n_vars T.
Proof. intros s Hs. cbn. split; [exact Hs|exact I]. Qed.
Lemma nab_add c : clause_ok c = true -> nab (add_clause c) T.
Proof. intros Hc s Hs. cbn. split; [|exact I]. unfold Iok in *. cbn. rewrite Hc. exact Hs. Qed.
Lemma nab_adds cs : cnf_ok cs = true -> nab (add_clauses cs) T.
Proof.
  induction cs as [|c r IH]; intros H; cbn [add_clauses]; [apply nab_ret; exact I|].
  cbn [cnf_ok forallb] in H. apply andb_true_iff in H. destruct H as [H1 H2].
  eapply nab_bind; [apply nab_add; exact H1|]. intros _ _. apply IH. exact H2.
Qed.
Lemma nab_solve a : clause_ok a = true -> nab (Prog.solve dpll_oracle a) T.
Proof.
  intros Ha s Hs. unfold Prog.solve.
  pose proof (dpll_oracle_decided (calls s) (rev (rclauses (sess s))) a) as Hd.
  rewrite cnf_ok_rev in Hd. specialize (Hd Hs Ha).
  destruct (dpll_oracle (calls s) (rev (rclauses (sess s))) a); try congruence;
    (split; [|exact I]); unfold Iok, log_ev; cbn [sess]; destruct (disc s); exact Hs.
Qed.

(* ---- literals *)
Lemma lit_ok_zlit v : 0 < v -> lit_ok (zlit v) = true.
Proof. intros H. unfold lit_ok, zlit. lia. Qed.
Lemma lit_ok_negate l : lit_ok (negate l) = lit_ok l.
Proof. unfold lit_ok, negate. lia. Qed.
Lemma lit_ok_arg e a : lit_ok (arg_to_lit e a) = true.
Proof. apply lit_ok_zlit, arg_var_pos. Qed.
Lemma clause_ok_app a b : clause_ok (a ++ b) = clause_ok a && clause_ok b.
Proof. apply forallb_app. Qed.
Lemma clause_ok_map {A} (f : A -> lit) l : (forall x, In x l -> lit_ok (f x) = true) -> clause_ok (map f l) = true.
Proof. intros H. unfold clause_ok. apply forallb_forall. intros y Hy. apply in_map_iff in Hy. destruct Hy as (x & <- & Hx). auto. Qed.
Lemma clause_ok_single l : clause_ok [l] = lit_ok l.
Proof. cbn. apply andb_true_r. Qed.

(* ---- the MaximalExtensionComputer *)
Definition fl_ok (fl : flavour) : Prop := match fl with FIdeal forb => clause_ok forb = true | _ => True end.
Definition cok (c : computer) : Prop := lit_ok (c_sel c) = true /\ clause_ok (c_addl c) = true /\ fl_ok (c_fl c).
Lemma cok_with_cur c cur m s : cok c -> cok (with_cur c cur m s).
Proof. exact (fun H => H). Qed.
Lemma cok_with_state c s : cok c -> cok (with_state c s).
Proof. exact (fun H => H). Qed.

Lemma split_ext_ok e n has cur :
  clause_ok (fst (split_in_extension e n has cur)) = true /\ clause_ok (snd (split_in_extension e n has cur)) = true.
Proof. unfold split_in_extension. cbn [fst snd]. split; apply clause_ok_map; intros; apply lit_ok_arg. Qed.
Lemma first_range_var_pos e n frv : first_range_var e n = Some frv -> 0 < frv.
Proof. unfold first_range_var, aux_range, exp_range. destruct e; intros H; inversion H; lia. Qed.
Lemma split_range_ok c : clause_ok (fst (split_in_range c)) = true /\ clause_ok (snd (split_in_range c)) = true.
Proof.
  unfold split_in_range. destruct (first_range_var (c_e c) (c_n c)) as [frv|] eqn:E; [|split; reflexivity].
  apply first_range_var_pos in E. destruct (c_model c); cbn [fst snd]; split; apply clause_ok_map; intros x Hx;
    apply lit_ok_zlit; try lia; apply filter_In in Hx; destruct Hx as [Hx _]; apply in_seq in Hx; lia.
Qed.

Section Walk.
Variable thr : nat.
Hypothesis Hthr : 1 <= thr.
Notation oracle := dpll_oracle.

Lemma nab_encode e range F n : compact_af F n -> nab (encode_m thr e range F) T.
Proof.
  intros HF. unfold encode_m. destruct (encode_af e thr range F) as [[r C]|] eqn:E; [|apply nab_panic].
  assert (HC : cnf_ok C = true).
  { destruct (all_layout e thr range F n Hthr HF) as (H1 & _).
    assert (Ec : enc_clauses e thr range F = Some C) by (unfold enc_clauses; rewrite E; reflexivity).
    unfold cnf_ok, clause_ok. apply forallb_forall. intros c Hc. apply forallb_forall. intros l Hl.
    destruct (H1 C Ec c l Hc Hl) as [Hn _]. unfold lit_ok. lia. }
  eapply nab_bind; [|intros _ _; apply nab_adds; exact HC].
  destruct r; [apply nab_reserve|apply nab_ret; exact I].
Qed.

Lemma nab_new_computer e n has g a2e fl : fl_ok fl -> nab (new_computer e n has g a2e fl) cok.
Proof.
  intros Hfl. unfold new_computer. eapply nab_bind; [apply nab_nvars|]. intros nv _. apply nab_ret.
  unfold cok. cbn [c_sel c_addl c_fl]. split; [apply lit_ok_zlit; lia|]. split; [reflexivity|exact Hfl].
Qed.
Lemma nab_new_cc_computer e F fl : fl_ok fl -> nab (new_cc_computer e F fl) cok.
Proof. intros H. unfold new_cc_computer. apply nab_new_computer. exact H. Qed.
Lemma nab_solve_c c a : cok c -> clause_ok a = true -> nab (solve_c oracle c a) T.
Proof.
  intros (_ & Hl & _) Ha. unfold solve_c. eapply nab_bind; [apply nab_solve; rewrite clause_ok_app, Ha, Hl; reflexivity|].
  intros r _. apply nab_ret. exact I.
Qed.
Lemma sel_clause_ok c l : cok c -> clause_ok l = true -> clause_ok (l ++ [c_sel c]) = true.
Proof. intros (Hs & _) Hl. rewrite clause_ok_app, Hl, clause_ok_single. exact Hs. Qed.
Lemma nab_increase c : cok c -> nab (increase_assumptions c) (fun a => clause_ok a = true).
Proof.
  intros Hc. pose proof Hc as (Hs & _ & Hf). unfold increase_assumptions.
  pose proof (split_ext_ok (c_e c) (c_n c) (c_has c) (c_cur c)) as [E1 E2]. pose proof (split_range_ok c) as [R1 R2].
  destruct (c_fl c) as [| |forb].
  - destruct (split_in_extension _ _ _ _) as [i o]. cbn [fst snd] in *.
    eapply nab_bind; [apply nab_add, sel_clause_ok; assumption|]. intros _ _. apply nab_ret.
    rewrite clause_ok_app, E1, clause_ok_single, lit_ok_negate. exact Hs.
  - destruct (split_in_range c) as [i o]. cbn [fst snd] in *.
    eapply nab_bind; [apply nab_add, sel_clause_ok; assumption|]. intros _ _. apply nab_ret.
    rewrite clause_ok_app, R1, clause_ok_single, lit_ok_negate. exact Hs.
  - destruct (split_in_extension _ _ _ _) as [i o]. cbn [fst snd] in *.
    eapply nab_bind; [apply nab_add, sel_clause_ok; assumption|]. intros _ _. apply nab_ret.
    rewrite !clause_ok_app, E1, clause_ok_single, lit_ok_negate, Hs. exact Hf.
Qed.
Lemma nab_discard_maximal c : cok c -> nab (discard_maximal c) T.
Proof.
  intros Hc. unfold discard_maximal. destruct (c_fl c); [| |apply nab_panic]; apply nab_add, sel_clause_ok; auto.
  - apply split_ext_ok.
  - apply split_range_ok.
Qed.
Lemma nab_discard_current c : cok c -> nab (discard_current c) T.
Proof.
  intros Hc. unfold discard_current. destruct (c_fl c); try apply nab_panic. apply nab_add, sel_clause_ok; auto. apply split_ext_ok.
Qed.
Lemma nab_new_search c : cok c -> nab (new_search oracle c) cok.
Proof.
  intros Hc. unfold new_search. eapply nab_bind.
  - apply nab_solve_c; [exact Hc|]. rewrite clause_ok_single, lit_ok_negate. exact (proj1 Hc).
  - intros r _. apply nab_ret. destruct r as [[m e]|]; exact Hc.
Qed.
Lemma nab_compute_next c : cok c -> nab (compute_next oracle c) cok.
Proof.
  intros Hc. unfold compute_next. destruct (c_state c).
  - eapply nab_bind; [apply nab_discard_maximal; exact Hc|]. intros _ _. apply nab_new_search. exact Hc.
  - eapply nab_bind; [apply nab_increase; exact Hc|]. intros a Ha.
    eapply nab_bind; [apply nab_solve_c; assumption|]. intros r _. apply nab_ret. destruct r as [[m e]|]; exact Hc.
  - apply nab_new_search. exact Hc.
  - apply nab_panic.
  - apply nab_ret. exact Hc.
Qed.
Lemma nab_discard_current_search c : cok c -> nab (discard_current_search c) cok.
Proof.
  intros Hc. unfold discard_current_search. eapply nab_bind; [apply nab_discard_current; exact Hc|].
  intros _ _. apply nab_ret. exact Hc.
Qed.
Lemma nab_drop c : cok c -> nab (drop c) T.
Proof. intros Hc. unfold drop. apply nab_add. rewrite clause_ok_single. exact (proj1 Hc). Qed.
Lemma nab_compute_maximal fuel : forall c, cok c -> nab (compute_maximal oracle fuel c) T.
Proof.
  induction fuel as [|f IH]; intros c Hc; cbn [compute_maximal]; [apply nab_oof|].
  destruct (c_state c);
    try (eapply nab_bind; [apply nab_compute_next; exact Hc|intros c' Hc'; apply IH; exact Hc']).
  eapply nab_bind; [apply nab_drop; exact Hc|intros _ _; apply nab_ret; exact I].
Qed.

Lemma nab_opt {A} (o : option A) : nab (match o with Some l => ret l | None => panic end) (fun r => o = Some r).
Proof. destruct o; [apply nab_ret; reflexivity|apply nab_panic]. Qed.
Lemma nab_for_ccs {A} (l : list comp) (f : A -> comp -> Prog.M A) :
  (forall a c, In c l -> nab (f a c) T) -> forall acc, nab (for_ccs l acc f) T.
Proof.
  induction l as [|c r IH]; intros Hf acc; cbn [for_ccs]; [apply nab_ret; exact I|].
  eapply nab_bind; [apply Hf; left; reflexivity|]. intros a _. apply IH. intros a' c' Hc'. apply Hf. right; exact Hc'.
Qed.

Lemma nab_guarded e (lam : Prog.M (list nat)) close : nab lam T -> nab (guarded_disj oracle e lam close) T.
Proof.
  intros Hl. unfold guarded_disj. eapply nab_bind; [apply nab_nvars|]. intros nv _.
  assert (Hs : lit_ok (zlit (1 + nv)) = true) by (apply lit_ok_zlit; lia).
  eapply nab_bind; [exact Hl|]. intros la _.
  eapply nab_bind.
  { apply nab_add. rewrite clause_ok_app, clause_ok_single, lit_ok_negate, Hs, andb_true_r.
    apply clause_ok_map. intros; apply lit_ok_arg. }
  intros _ _. eapply nab_bind; [apply nab_solve; rewrite clause_ok_single; exact Hs|]. intros r _.
  eapply nab_bind; [|intros _ _; apply nab_ret; exact I].
  destruct close; [apply nab_add; rewrite clause_ok_single, lit_ok_negate; exact Hs|apply nab_ret; exact I].
Qed.

(* ---- components *)
Definition cgood (c : comp) : Prop := compact_af (c_af c) (length (c_ids c)).
Variable g : gview.
Definition allgood : Prop := forall l, all_ccs g = Some l -> forall c, In c l -> cgood c.
Definition mgood (al : list nat) : Prop :=
  forall s' c, merged_cc_of g (cc_new g) al = Some (s', c) ->
    cgood c /\ forall rest, remaining_ccs g s' = Some rest -> forall c', In c' rest -> cgood c'.

Lemma nab_ccs : allgood -> nab (ccs_m g) (fun l => forall c, In c l -> cgood c).
Proof. intros H. unfold ccs_m. eapply nab_weaken; [apply nab_opt|]. intros l E. exact (H l E). Qed.
Lemma nab_merged al : mgood al -> nab (merged_m g al)
  (fun sc => cgood (snd sc) /\ forall rest, remaining_ccs g (fst sc) = Some rest -> forall c', In c' rest -> cgood c').
Proof. intros H. unfold merged_m. eapply nab_weaken; [apply nab_opt|]. intros [s' c] E. exact (H s' c E). Qed.
Lemma nab_remaining s (P : comp -> Prop) :
  (forall rest, remaining_ccs g s = Some rest -> forall c', In c' rest -> P c') ->
  nab (remaining_m g s) (fun l => forall c, In c l -> P c).
Proof. intros H. unfold remaining_m. eapply nab_weaken; [apply nab_opt|]. intros l E. exact (H l E). Qed.
Lemma nab_locals c al : nab (locals_m c al) T.
Proof. unfold locals_m. eapply nab_weaken; [apply nab_opt|]. auto. Qed.

(* ---- CO *)
Lemma nab_co_dc e al : mgood al -> nab (co_dc oracle thr e g al) T.
Proof.
  intros Hm. unfold co_dc. eapply nab_bind; [apply nab_new|]. intros _ _.
  eapply nab_bind; [apply nab_merged; exact Hm|]. intros sc [Hc _]. cbv zeta.
  eapply nab_bind; [eapply nab_encode; exact Hc|]. intros _ _.
  eapply nab_bind; [apply nab_guarded, nab_locals|]. intros r _. apply nab_ret. exact I.
Qed.
Lemma nab_co_dc_cert e al : mgood al -> nab (co_dc_cert oracle thr e g al) T.
Proof.
  intros Hm. unfold co_dc_cert. eapply nab_bind; [apply nab_merged; exact Hm|]. intros sc [Hc Hrest]. cbv zeta.
  eapply nab_bind; [apply nab_new|]. intros _ _.
  eapply nab_bind; [eapply nab_encode; exact Hc|]. intros _ _.
  eapply nab_bind; [apply nab_guarded, nab_locals|]. intros r _.
  destruct r; [|apply nab_ret; exact I].
  eapply nab_bind; [apply (nab_remaining _ (fun _ => True)); auto|]. intros others _. apply nab_ret. exact I.
Qed.

(* ---- ST *)
Lemma nab_st_cc c in_cc pol : cgood c -> nab (st_cc oracle thr c in_cc pol) T.
Proof.
  intros Hc. unfold st_cc. eapply nab_bind; [apply nab_new|]. intros _ _.
  eapply nab_bind; [eapply nab_encode; exact Hc|]. intros _ _.
  assert (H0 : nab (m <- Prog.solve oracle [] ;; ret (option_map (fun m => (m, false)) m)) T).
  { eapply nab_bind; [apply nab_solve; reflexivity|]. intros m _. apply nab_ret. exact I. }
  destruct in_cc as [|x r]; [exact H0|]. destruct pol.
  - eapply nab_bind; [apply nab_guarded, nab_ret; exact I|]. intros m1 _.
    destruct m1; [apply nab_ret; exact I|exact H0].
  - eapply nab_bind; [|intros m _; apply nab_ret; exact I].
    apply nab_solve. apply clause_ok_map. intros a _. rewrite lit_ok_negate. apply lit_ok_arg.
Qed.
Lemma nab_st_se_loop : forall l merged, (forall c, In c l -> cgood c) -> nab (st_se_loop oracle thr l merged) T.
Proof.
  induction l as [|c r IH]; intros merged H; cbn [st_se_loop]; [apply nab_ret; exact I|].
  eapply nab_bind; [apply nab_st_cc, H; left; reflexivity|]. intros m _.
  destruct m as [[m b]|]; [|apply nab_ret; exact I]. apply IH. intros c' Hc'. apply H. right; exact Hc'.
Qed.
Lemma nab_st_se : allgood -> nab (st_se oracle thr g) T.
Proof. intros H. unfold st_se. eapply nab_bind; [apply nab_ccs; exact H|]. intros l Hl. apply nab_st_se_loop. exact Hl. Qed.
Lemma nab_st_accept_loop al pol su : forall l merged found, (forall c, In c l -> cgood c) ->
  nab (st_accept_loop oracle thr al pol su l merged found) T.
Proof.
  induction l as [|c r IH]; intros merged found H; cbn [st_accept_loop].
  - destruct found; apply nab_ret; exact I.
  - eapply nab_bind; [apply nab_st_cc, H; left; reflexivity|]. intros m _.
    destruct m as [[m b]|]; [|apply nab_ret; exact I]. apply IH. intros c' Hc'. apply H. right; exact Hc'.
Qed.
Lemma nab_st_accept al pol su : allgood -> nab (st_accept oracle thr g al pol su) T.
Proof. intros H. unfold st_accept. eapply nab_bind; [apply nab_ccs; exact H|]. intros l Hl. apply nab_st_accept_loop. exact Hl. Qed.

(* ---- PR *)
Lemma nab_pr_max_in_cc fuel e c : cgood c -> nab (pr_max_in_cc oracle thr fuel e c) T.
Proof.
  intros Hc. unfold pr_max_in_cc. eapply nab_bind; [apply nab_new|]. intros _ _.
  eapply nab_bind; [eapply nab_encode; exact Hc|]. intros _ _.
  eapply nab_bind; [apply nab_new_cc_computer; exact I|]. intros k Hk.
  eapply nab_bind; [apply nab_compute_maximal; exact Hk|]. intros l _. apply nab_ret. exact I.
Qed.
Lemma nab_max_loop {A} (l : list comp) (acc : A) (body : comp -> Prog.M (list nat)) (k : A -> comp -> list nat -> A) :
  (forall c, In c l -> nab (body c) T) ->
  nab (for_ccs l acc (fun merged c => x <- body c ;; ret (k merged c x))) T.
Proof.
  intros H. apply nab_for_ccs. intros a c Hc. eapply nab_bind; [apply H; exact Hc|]. intros x _. apply nab_ret. exact I.
Qed.
Lemma nab_pr_se fuel e : allgood -> nab (pr_se oracle thr fuel e g) T.
Proof.
  intros H. unfold pr_se. eapply nab_bind; [apply nab_ccs; exact H|]. intros l Hl.
  eapply nab_bind; [|intros r _; apply nab_ret; exact I].
  apply (nab_max_loop l [] (pr_max_in_cc oracle thr fuel e) (fun merged _ x => merged ++ x)).
  intros c Hc. apply nab_pr_max_in_cc, Hl, Hc.
Qed.
Lemma nab_pr_ds_loop fuel F la sc : forall k, cok k -> nab (pr_ds_loop oracle fuel F la sc k) T.
Proof.
  induction fuel as [|f IH]; intros k Hk; cbn [pr_ds_loop]; [apply nab_oof|].
  eapply nab_bind; [apply nab_compute_next; exact Hk|]. intros k' Hk'.
  assert (Hd : forall r, nab (drop k' ;;; ret r) (fun _ : bool * option (list nat) => True)).
  { intros r. eapply nab_bind; [apply nab_drop; exact Hk'|]. intros _ _. apply nab_ret. exact I. }
  destruct (c_state k').
  - destruct (negb _); [apply Hd|apply IH; exact Hk'].
  - destruct (meets la (c_cur k')).
    + eapply nab_bind; [apply nab_discard_current_search; exact Hk'|]. intros k'' Hk''. apply IH. exact Hk''.
    + destruct (sc && _); [apply Hd|apply IH; exact Hk'].
  - apply IH. exact Hk'.
  - apply Hd.
  - apply IH. exact Hk'.
Qed.
Lemma nab_pr_ds_in_cc fuel e c al sc : cgood c -> nab (pr_ds_in_cc oracle thr fuel e c al sc) T.
Proof.
  intros Hc. unfold pr_ds_in_cc. eapply nab_bind; [apply nab_locals|]. intros la _.
  eapply nab_bind; [apply nab_new|]. intros _ _.
  eapply nab_bind; [eapply nab_encode; exact Hc|]. intros _ _.
  eapply nab_bind; [apply nab_new_cc_computer; exact I|]. intros k Hk. apply nab_pr_ds_loop. exact Hk.
Qed.
Lemma nab_pr_ds fuel e al : mgood al -> nab (pr_ds oracle thr fuel e g al) T.
Proof.
  intros Hm. unfold pr_ds. eapply nab_bind; [apply nab_merged; exact Hm|]. intros sc [Hc _].
  eapply nab_bind; [apply nab_pr_ds_in_cc; exact Hc|]. intros r _. apply nab_ret. exact I.
Qed.
Lemma nab_pr_ds_cert fuel e al : mgood al -> nab (pr_ds_cert oracle thr fuel e g al) T.
Proof.
  intros Hm. unfold pr_ds_cert. eapply nab_bind; [apply nab_merged; exact Hm|]. intros sc [Hc Hrest].
  eapply nab_bind; [apply nab_pr_ds_in_cc; exact Hc|]. intros [b [ce|]] _; destruct b; try apply nab_panic; try (apply nab_ret; exact I).
  eapply nab_bind; [apply (nab_remaining _ cgood); exact Hrest|]. intros others Ho.
  eapply nab_bind; [|intros r _; apply nab_ret; exact I].
  apply (nab_max_loop others _ (pr_max_in_cc oracle thr fuel e) (fun merged _ x => merged ++ x)).
  intros c Hc'. apply nab_pr_max_in_cc, Ho, Hc'.
Qed.

(* ---- SST / STG *)
Lemma nab_rg_max_in_cc fuel e c : cgood c -> nab (rg_max_in_cc oracle thr fuel e c) T.
Proof.
  intros Hc. unfold rg_max_in_cc. eapply nab_bind; [apply nab_new|]. intros _ _.
  eapply nab_bind; [eapply nab_encode; exact Hc|]. intros _ _.
  eapply nab_bind; [apply nab_new_cc_computer; exact I|]. intros k Hk.
  eapply nab_bind; [apply nab_compute_maximal; exact Hk|]. intros l _. apply nab_ret. exact I.
Qed.
Lemma nab_rg_se fuel e : allgood -> nab (rg_se oracle thr fuel e g) T.
Proof.
  intros H. unfold rg_se. eapply nab_bind; [apply nab_ccs; exact H|]. intros l Hl.
  eapply nab_bind; [|intros r _; apply nab_ret; exact I].
  apply (nab_max_loop l [] (rg_max_in_cc oracle thr fuel e) (fun merged _ x => merged ++ x)).
  intros c Hc. apply nab_rg_max_in_cc, Hl, Hc.
Qed.
Lemma nab_rg_loop fuel e n la cred : forall k, cok k -> nab (rg_loop oracle fuel e n la cred k) T.
Proof.
  induction fuel as [|f IH]; intros k Hk; cbn [rg_loop]; [apply nab_oof|].
  eapply nab_bind; [apply nab_compute_next; exact Hk|]. intros k' Hk'.
  assert (Hd : forall r, nab (drop k' ;;; ret r) (fun _ : bool * option (list nat) => True)).
  { intros r. eapply nab_bind; [apply nab_drop; exact Hk'|]. intros _ _. apply nab_ret. exact I. }
  destruct (c_state k'); try (apply IH; exact Hk'); [|apply Hd].
  destruct (_ || _); [apply Hd|].
  pose proof (split_range_ok k') as [R1 R2]. destruct (split_in_range k') as [inrg notr]. cbn [fst snd] in R1, R2.
  assert (Hbase : clause_ok (inrg ++ map negate notr ++ [c_sel k']) = true).
  { rewrite !clause_ok_app, R1, clause_ok_single, (proj1 Hk'), andb_true_r. cbn [andb].
    apply clause_ok_map. intros x Hx. rewrite lit_ok_negate. unfold clause_ok in R2. rewrite forallb_forall in R2. auto. }
  destruct cred.
  - eapply nab_bind; [apply nab_nvars|]. intros nv _.
    assert (Hs : lit_ok (zlit (1 + nv)) = true) by (apply lit_ok_zlit; lia).
    eapply nab_bind.
    { apply nab_add. rewrite clause_ok_app, clause_ok_single, lit_ok_negate, Hs, andb_true_r.
      apply clause_ok_map. intros; apply lit_ok_arg. }
    intros _ _. eapply nab_bind; [apply nab_solve; rewrite clause_ok_app, Hbase, clause_ok_single; exact Hs|]. intros r _.
    eapply nab_bind; [apply nab_add; rewrite clause_ok_single, lit_ok_negate; exact Hs|]. intros _ _.
    destruct r; [apply Hd|apply IH; exact Hk'].
  - eapply nab_bind.
    { apply nab_solve. rewrite clause_ok_app, Hbase. apply clause_ok_map. intros a _. rewrite lit_ok_negate. apply lit_ok_arg. }
    intros r _. destruct r; [apply Hd|apply IH; exact Hk'].
Qed.
Lemma nab_rg_in_cc fuel e c al cred : cgood c -> nab (rg_in_cc oracle thr fuel e c al cred) T.
Proof.
  intros Hc. unfold rg_in_cc. eapply nab_bind; [apply nab_locals|]. intros la _.
  eapply nab_bind; [apply nab_new|]. intros _ _.
  eapply nab_bind; [eapply nab_encode; exact Hc|]. intros _ _.
  eapply nab_bind; [apply nab_new_cc_computer; exact I|]. intros k Hk. apply nab_rg_loop. exact Hk.
Qed.
Lemma nab_rg_accept fuel e al cred : mgood al -> nab (rg_accept oracle thr fuel e g al cred) T.
Proof.
  intros Hm. unfold rg_accept. eapply nab_bind; [apply nab_merged; exact Hm|]. intros sc [Hc _].
  eapply nab_bind; [apply nab_rg_in_cc; exact Hc|]. intros r _. apply nab_ret. exact I.
Qed.
Lemma nab_rg_accept_cert fuel e al cred : mgood al -> nab (rg_accept_cert oracle thr fuel e g al cred) T.
Proof.
  intros Hm. unfold rg_accept_cert. eapply nab_bind; [apply nab_merged; exact Hm|]. intros sc [Hc Hrest].
  eapply nab_bind; [apply nab_rg_in_cc; exact Hc|]. intros r _. destruct (snd r); [|apply nab_ret; exact I].
  eapply nab_bind; [apply (nab_remaining _ cgood); exact Hrest|]. intros others Ho.
  eapply nab_bind; [|intros x _; apply nab_ret; exact I].
  apply (nab_max_loop others _ (rg_max_in_cc oracle thr fuel e) (fun merged _ x => merged ++ x)).
  intros c Hc'. apply nab_rg_max_in_cc, Ho, Hc'.
Qed.

(* ---- ID *)
Lemma nab_id_enum_loop fuel n ngr : forall k ia nia np, cok k -> nab (id_enum_loop oracle fuel n ngr k ia nia np) T.
Proof.
  induction fuel as [|f IH]; intros k ia nia np Hk; cbn [id_enum_loop]; [apply nab_oof|].
  eapply nab_bind; [apply nab_compute_next; exact Hk|]. intros k' Hk'.
  assert (Hd : forall r, nab (drop k' ;;; ret r) (fun _ : list bool * nat * nat => True)).
  { intros r. eapply nab_bind; [apply nab_drop; exact Hk'|]. intros _ _. apply nab_ret. exact I. }
  destruct (c_state k'); try (apply IH; exact Hk'); [|apply Hd].
  cbv zeta. destruct (Nat.eqb _ _); [apply Hd|apply IH; exact Hk'].
Qed.
Lemma nab_id_in_all fuel e F n ngr : compact_af F n -> nab (id_in_all oracle thr fuel e F ngr) T.
Proof.
  intros HF. unfold id_in_all. cbv zeta. eapply nab_bind; [eapply nab_encode; exact HF|]. intros _ _.
  eapply nab_bind; [apply nab_new_cc_computer; exact I|]. intros k Hk. apply nab_id_enum_loop. exact Hk.
Qed.
Lemma id_forbidden_ok e ia : clause_ok (id_forbidden e ia) = true.
Proof. unfold id_forbidden. apply clause_ok_map. intros i _. rewrite lit_ok_negate. apply lit_ok_arg. Qed.
Lemma nab_id_maximal_allowed fuel e F ia : nab (id_maximal_allowed oracle fuel e F ia) T.
Proof.
  unfold id_maximal_allowed. eapply nab_bind; [apply nab_new_cc_computer; cbn [fl_ok]; apply id_forbidden_ok|].
  intros k Hk. apply nab_compute_maximal. exact Hk.
Qed.
Lemma nab_id_ext_for_cc fuel e F n : compact_af F n -> nab (id_ext_for_cc oracle thr fuel e F) T.
Proof.
  intros HF. unfold id_ext_for_cc. cbv zeta. eapply nab_bind; [apply nab_new|]. intros _ _.
  eapply nab_bind; [eapply nab_id_in_all; exact HF|]. intros [[ia nia] np] _.
  destruct (Nat.eqb _ _); [apply nab_ret; exact I|]. destruct (Nat.eqb _ _); [apply nab_ret; exact I|].
  apply nab_id_maximal_allowed.
Qed.
Lemma nab_id_se fuel e : allgood -> nab (id_se oracle thr fuel e g) T.
Proof.
  intros H. unfold id_se. eapply nab_bind; [apply nab_ccs; exact H|]. intros l Hl.
  eapply nab_bind; [|intros r _; apply nab_ret; exact I].
  apply nab_for_ccs. intros merged c Hc. pose proof (Hl c Hc) as Hg.
  eapply nab_bind; [apply nab_new|]. intros _ _.
  eapply nab_bind; [eapply nab_encode; exact Hg|]. intros _ _.
  eapply nab_bind; [eapply nab_id_ext_for_cc; exact Hg|]. intros x _. apply nab_ret. exact I.
Qed.
Lemma nab_id_cred_for_cc fuel e F n la : compact_af F n -> nab (id_cred_for_cc oracle thr fuel e F la) T.
Proof.
  intros HF. unfold id_cred_for_cc. cbv zeta. eapply nab_bind; [apply nab_new|]. intros _ _.
  eapply nab_bind; [eapply nab_id_in_all; exact HF|]. intros [[ia nia] np] _.
  destruct (forallb _ la); [apply nab_ret; exact I|].
  destruct (Nat.eqb _ _); [apply nab_ret; exact I|]. destruct (Nat.eqb _ _); [apply nab_ret; exact I|].
  eapply nab_bind; [apply nab_id_maximal_allowed|]. intros l _. apply nab_ret. exact I.
Qed.
Lemma nab_id_dc fuel e al : mgood al -> nab (id_dc oracle thr fuel e g al) T.
Proof.
  intros Hm. unfold id_dc. eapply nab_bind; [apply nab_merged; exact Hm|]. intros sc [Hc _].
  eapply nab_bind; [apply nab_locals|]. intros la _.
  eapply nab_bind; [eapply nab_id_cred_for_cc; exact Hc|]. intros r _. apply nab_ret. exact I.
Qed.
Lemma nab_id_dc_cert fuel e al : mgood al -> nab (id_dc_cert oracle thr fuel e g al) T.
Proof.
  intros Hm. unfold id_dc_cert. eapply nab_bind; [apply nab_merged; exact Hm|]. intros sc [Hc Hrest].
  eapply nab_bind; [apply nab_locals|]. intros la _.
  eapply nab_bind; [eapply nab_id_cred_for_cc; exact Hc|]. intros [b [ce|]] _; destruct b; try (apply nab_ret; exact I).
  eapply nab_bind; [apply (nab_remaining _ cgood); exact Hrest|]. intros others Ho.
  eapply nab_bind; [|intros x _; apply nab_ret; exact I].
  apply nab_for_ccs. intros merged c Hc'. eapply nab_bind; [eapply nab_id_ext_for_cc; exact (Ho c Hc')|].
  intros x _. apply nab_ret. exact I.
Qed.
Lemma nab_id_ds_cert fuel e al : allgood -> nab (id_ds_cert oracle thr fuel e g al) T.
Proof.
  intros H. unfold id_ds_cert. eapply nab_bind; [apply nab_id_se; exact H|]. intros [ext|] _; [|apply nab_panic].
  destruct (meets al ext); apply nab_ret; exact I.
Qed.

(* ---- every entry point *)
Definition uses_merged (s : sem) (q : query) (cert : bool) : bool :=
  match s, q with
  | CO, QDC | PR, QDS | SST, (QDC | QDS) | STG, (QDC | QDS) | ID, QDC => true
  | ID, QDS => negb cert
  | _, _ => false
  end.
Theorem nab_run_query fuel s q cert e al :
  allgood -> (uses_merged s q cert = true -> mgood al) ->
  nab (run_query oracle thr fuel s q cert e g al) T.
Proof.
  intros Ha Hm. unfold run_query. cbv zeta.
  assert (Wacc : forall m : Prog.M (bool * option (list nat)), nab m T -> nab (r <- m ;; ret (OAcc (fst r) (snd r))) T).
  { intros m H. eapply nab_bind; [exact H|]. intros r _. apply nab_ret. exact I. }
  assert (Wb : forall m : Prog.M bool, nab m T -> nab (r <- m ;; ret (OAcc r None)) T).
  { intros m H. eapply nab_bind; [exact H|]. intros r _. apply nab_ret. exact I. }
  assert (Wn : forall m : Prog.M (bool * option (list nat)), nab m T -> nab (r <- m ;; ret (OAcc (fst r) None)) T).
  { intros m H. eapply nab_bind; [exact H|]. intros r _. apply nab_ret. exact I. }
  assert (We : forall m : Prog.M (option (list nat)), nab m T -> nab (r <- m ;; ret (OExt r)) T).
  { intros m H. eapply nab_bind; [exact H|]. intros r _. apply nab_ret. exact I. }
  destruct s, q; cbn [uses_merged] in Hm; try apply nab_panic;
    try (apply nab_ret; exact I);
    try (destruct cert; first [apply Wacc|apply Wn|apply Wb]);
    try apply We;
    try (apply nab_ret; exact I);
    first [ apply nab_co_dc_cert | apply nab_co_dc | apply nab_st_se | apply nab_st_accept | apply nab_pr_se
          | apply nab_pr_ds_cert | apply nab_pr_ds | apply nab_rg_se | apply nab_rg_accept_cert | apply nab_rg_accept
          | apply nab_id_se | apply nab_id_dc_cert | apply nab_id_ds_cert | apply nab_id_dc ];
    first [exact Ha | apply Hm; reflexivity].
Qed.

End Walk.

(* ================================================================ Part D *)
From Crusta Require Import Proofs.TopMax Proofs.SolverTop.

(* ---- (a) the static solvers, every entry point: with the verified solver as backend a query on a
   good view with enough fuel RETURNS the right outcome *)
Lemma good_view_allgood g F : view_good g F -> allgood g.
Proof.
  intros Hv l El c Hc. destruct (vg_cc g F Hv) as (ccs & E & Hd). assert (l = ccs) by congruence. subst l.
  destruct (d_compact F ccs Hd c Hc) as [A B]. split; assumption.
Qed.
Lemma good_view_mgood g F al : view_good g F -> (forall a, In a al -> In a (args F)) -> mgood g al.
Proof.
  intros Hv Hal s' c E. destruct (vg_merged g F al Hv Hal) as (s1 & c1 & la & rest & E1 & _ & _ & _ & E2 & Hd).
  rewrite E1 in E. injection E as <- <-.
  split.
  - destruct (d_compact F _ Hd c1 (or_introl eq_refl)) as [A B]. split; assumption.
  - intros rest' E' c' Hc'. assert (rest' = rest) by congruence. subst rest'.
    destruct (d_compact F _ Hd c' (or_intror Hc')) as [A B]. split; assumption.
Qed.

Theorem static_unconditional thr g F fuel s q cert e al st0 :
  1 <= thr -> view_good g F -> supported s q -> enc_ok s e -> al_ok s q F al ->
  fuel_ok s e (query_comps s q cert g al) fuel ->
  cnf_ok (rclauses (sess st0)) = true ->
  exists o st', run_query dpll_oracle thr fuel s q cert e g al st0 = Done o st' /\
                outcome_spec s q cert F al o /\
                calls st' <= calls st0 + total_bound s e (query_comps s q cert g al).
Proof.
  intros Ht Hv Hs He Hal Hf H0.
  pose proof (run_query_correct dpll_oracle thr Ht dpll_oracle_valid F g Hv fuel s q cert e al st0 Hs He Hal) as Hr.
  assert (Hn : nab (run_query dpll_oracle thr fuel s q cert e g al) T).
  { apply nab_run_query; [exact Ht|exact (good_view_allgood g F Hv)|].
    intros Hu. apply (good_view_mgood g F al Hv).
    destruct s, q; cbn [uses_merged] in Hu; try discriminate Hu; exact Hal. }
  specialize (Hn st0 H0). unfold run_ok in Hr.
  destruct (run_query dpll_oracle thr fuel s q cert e g al st0) as [o st'|st'|st'|st'].
  - exists o, st'. split; [reflexivity|exact Hr].
  - destruct Hn.
  - destruct Hr.
  - destruct Hr as [_ Hr]. exfalso. exact (Hr Hf).
Qed.

(* from the initial state of a run ([Prog.run d]) *)
Corollary static_unconditional_run thr d g F fuel s q cert e al :
  1 <= thr -> view_good g F -> supported s q -> enc_ok s e -> al_ok s q F al ->
  fuel_ok s e (query_comps s q cert g al) fuel ->
  exists o st', Prog.run d (run_query dpll_oracle thr fuel s q cert e g al) = Done o st' /\
                outcome_spec s q cert F al o /\ calls st' <= total_bound s e (query_comps s q cert g al).
Proof.
  intros. unfold Prog.run. apply (static_unconditional thr g F fuel s q cert e al (init_st d)); auto.
Qed.

(* ---- (b) the command line *)
From Crusta Require Import Spec.IoSpec Model.Cli Proofs.ReadersProofs Proofs.CliProofs Proofs.CliE2E Proofs.CliE2EFiles.

Theorem cli_unconditional thr d fuel o inst i q s al F :
  1 <= thr -> view_good (i_g i) F -> (forall a, In a al -> In a (args F)) ->
  validate o inst = inr (i, q, s, al) ->
  fuel_ok (solver_for q s) (encoder_for (o_problem o) s (o_encoding o))
          (query_comps (solver_for q s) q (o_cert o) (i_g i) al) fuel ->
  exists out log, run_traced dpll_oracle thr d fuel o inst = (Exit0 out, log) /\
    (exists oc, out = render (writer_of (o_reader o)) (i_label i) oc /\ answer_ok q s (o_cert o) F al oc) /\
    (forall k a, ~ In (k, ESolve a Unknown) log).
Proof.
  intros Ht Hvg Hal V Hf.
  destruct (validate_inr o inst i q s al V) as (_ & _ & Hp & _).
  destruct (static_unconditional_run thr d (i_g i) F fuel (solver_for q s) q (o_cert o)
              (encoder_for (o_problem o) s (o_encoding o)) al Ht Hvg
              (dispatch_supported q s) (dispatch_enc_ok _ q s _ Hp) (dispatch_al_ok q s F al Hal) Hf)
    as (oc & st' & Hrun & _ & _).
  pose proof (all_problems_correct dpll_oracle thr d fuel o inst i q s al F dpll_oracle_valid Ht Hvg Hal V) as H.
  unfold run_traced in *. rewrite V in *. unfold query_prog in *. rewrite Hrun in *.
  eexists. eexists. split; [reflexivity|exact H].
Qed.

(* from the BYTES of a well-formed ICCMA'23 file *)
Theorem cli_iccma_file_unconditional thr d fuel o f eols fnl i q s al :
  1 <= thr -> iccma_file_ok f -> final_ok (iccma_file_lines f) fnl -> o_reader o = RIccma23 ->
  let bytes := render_lines (iccma_file_lines f) eols fnl in
  let F := compact (f_n f) (file_attacks f) in
  validate o (iccma_input bytes) = inr (i, q, s, al) ->
  fuel_ok (solver_for q s) (encoder_for (o_problem o) s (o_encoding o))
          (query_comps (solver_for q s) q (o_cert o) (i_g i) al) fuel ->
  exists out log, run_traced dpll_oracle thr d fuel o (iccma_input bytes) = (Exit0 out, log) /\
    (exists oc, out = render WIccma (i_label i) oc /\ answer_ok q s (o_cert o) F al oc) /\
    (forall k a, ~ In (k, ESolve a Unknown) log).
Proof.
  intros Ht Hok Hfin Hr bytes F V Hf.
  pose proof (file_attacks_bound f Hok) as Hb.
  pose proof (iccma_input_faithful f eols fnl Hok Hfin) as Hin. fold bytes in Hin.
  destruct (iccma_al_bound _ _ o _ i q s al Hb Hin V) as [Ei Hal].
  destruct (iccma_instance_facts (f_n f) (file_attacks f) Hb) as (Hvg & _ & _).
  assert (Hal' : forall a, In a al -> In a (args F)).
  { intros a Ha. unfold F, compact. cbn [args]. apply in_seq. specialize (Hal a Ha). lia. }
  rewrite <- Ei in Hvg.
  destruct (cli_unconditional thr d fuel o (iccma_input bytes) i q s al F Ht Hvg Hal' V Hf) as (out & log & E & H).
  exists out, log. split; [exact E|]. rewrite Hr in H. exact H.
Qed.

(* ---- (c) the dynamic solvers: the same walk over Model/Dynamic.v.  The only facts about the data are
   that table entries are positive (variables are allocated above n_vars >= 0, slots start at 1) and
   that stored assumption / selector literals are non-zero: [epos], [apos]. *)
From Crusta Require Import Model.Store Model.Dynamic Proofs.StoreBase Proofs.DynBase Proofs.DynAttTables Proofs.DynAttDefs.

Lemma tbl_set_none t i id v : tbl_var (set_nth i None t) id = Some v -> tbl_var t id = Some v.
Proof.
  unfold tbl_var. rewrite nth_error_set_nth_case. destruct (Nat.eqb i id && Nat.ltb i (length t)); [discriminate|auto].
Qed.
Lemma tbl_set_some t i w id v : tbl_var (set_nth i (Some w) t) id = Some v -> v = w \/ tbl_var t id = Some v.
Proof.
  unfold tbl_var. rewrite nth_error_set_nth_case. destruct (Nat.eqb i id && Nat.ltb i (length t)); [|auto].
  intros H. injection H as <-. left. reflexivity.
Qed.
Lemma tbl_snoc t o id v : tbl_var (t ++ [o]) id = Some v -> tbl_var t id = Some v \/ o = Some v.
Proof.
  destruct (Nat.lt_total id (length t)) as [H|[-> |H]].
  - rewrite tbl_var_snoc_old by exact H. auto.
  - rewrite tbl_var_snoc_new. auto.
  - rewrite tbl_var_snoc_beyond by exact H. discriminate.
Qed.
Lemma incl_set_nth {A} i (x : A) l : forall y, In y (set_nth i x l) -> y = x \/ In y l.
Proof.
  revert i. induction l as [|z r IH]; intros [|i] y H; cbn [set_nth In] in *; try tauto.
  - destruct H as [<-|H]; auto.
  - destruct H as [<-|H]; [auto|]. destruct (IH i y H); auto.
Qed.
Lemma incl_firstn {A} n (l : list A) : forall y, In y (firstn n l) -> In y l.
Proof. intros y H. rewrite <- (firstn_skipn n l). apply in_or_app. left; exact H. Qed.
Lemma incl_swap_remove {A} i (l : list A) : forall y, In y (swap_remove i l) -> In y l.
Proof.
  intros y. unfold swap_remove. destruct (rev l) as [|last r] eqn:E; [auto|].
  assert (Hl : In last l) by (apply in_rev; rewrite E; left; reflexivity).
  destruct (Nat.eqb i (length l - 1)); intros H; apply incl_firstn in H; [exact H|].
  destruct (incl_set_nth _ _ _ _ H) as [-> |H']; assumption.
Qed.
Lemma clause_ok_incl (a b : clause) : (forall y, In y a -> In y b) -> clause_ok b = true -> clause_ok a = true.
Proof. unfold clause_ok. rewrite !forallb_forall. auto. Qed.

Definition epos (e : denc) : Prop :=
  (forall id v, tbl_var (e_a2v e) id = Some v -> 0 < v) /\
  (forall id v, tbl_var (e_a2s e) id = Some v -> 0 < v) /\
  clause_ok (e_assum e) = true.
Definition apos (e : aenc) : Prop :=
  (forall id v, tbl_var (a_a2v e) id = Some v -> 0 < v) /\ (a_need e = false -> 0 < a_next e).
Definition xpos (x : xenc) : Prop := match x with XStd e => epos e | XAtt e => apos e end.

Lemma tbl_vars_pos t ids : (forall id v, tbl_var t id = Some v -> 0 < v) ->
  forall vs, tbl_vars t ids = Some vs -> forall v, In v vs -> 0 < v.
Proof.
  intros Hp. induction ids as [|i r IH]; intros vs H v Hv; cbn [tbl_vars] in H.
  - injection H as <-. destruct Hv.
  - destruct (tbl_var t i) as [w|] eqn:Ew; [|discriminate]. destruct (tbl_vars t r) as [l|]; [|discriminate].
    injection H as <-. destruct Hv as [<-|Hv]; [exact (Hp i w Ew)|exact (IH l eq_refl v Hv)].
Qed.

Lemma cnf_ok_forall f : (forall c l, In c f -> In l c -> lit_ok l = true) -> cnf_ok f = true.
Proof.
  intros H. unfold cnf_ok, clause_ok. apply forallb_forall. intros c Hc. apply forallb_forall. intros l Hl. eauto.
Qed.
Lemma lit_ok_znlit v : 0 < v -> lit_ok (znlit v) = true.
Proof. intros H. unfold lit_ok, znlit. lia. Qed.
Lemma st_clauses_ok sl tv avs : lit_ok sl = true -> 0 < tv -> (forall v, In v avs -> 0 < v) -> cnf_ok (st_clauses sl tv avs) = true.
Proof.
  intros Hs Ht Ha. apply cnf_ok_forall. intros c l Hc Hl. unfold st_clauses in Hc.
  apply in_app_or in Hc. destruct Hc as [Hc|[<-|[]]].
  - apply in_map_iff in Hc. destruct Hc as (b & <- & Hb). specialize (Ha b Hb).
    destruct Hl as [<-|[<-|[<-|[]]]]; [rewrite lit_ok_negate; exact Hs|apply lit_ok_znlit; exact Ht|apply lit_ok_znlit; exact Ha].
  - cbn [app] in Hl. destruct Hl as [<-|[<-|Hl]]; [rewrite lit_ok_negate; exact Hs|apply lit_ok_zlit; exact Ht|].
    apply in_map_iff in Hl. destruct Hl as (b & <- & Hb). apply lit_ok_zlit, Ha, Hb.
Qed.
Lemma co_clauses_ok sl tv avs : lit_ok sl = true -> 0 < tv -> (forall v, In v avs -> 0 < v) -> cnf_ok (co_clauses sl tv avs) = true.
Proof.
  intros Hs Ht Ha. assert (Hn : lit_ok (negate sl) = true) by (rewrite lit_ok_negate; exact Hs).
  apply cnf_ok_forall. intros c l Hc Hl. unfold co_clauses in Hc.
  apply in_app_or in Hc. destruct Hc as [Hc|Hc].
  { apply in_map_iff in Hc. destruct Hc as (b & <- & Hb).
    destruct Hl as [<-|[<-|[<-|[]]]]; [exact Hn|apply lit_ok_znlit; exact Ht|apply lit_ok_zlit; lia]. }
  apply in_app_or in Hc. destruct Hc as [[<-|[]]|Hc].
  { cbn [app] in Hl. destruct Hl as [<-|[<-|Hl]]; [exact Hn|apply lit_ok_zlit; exact Ht|].
    apply in_map_iff in Hl. destruct Hl as (b & <- & Hb). apply lit_ok_znlit. lia. }
  apply in_app_or in Hc. destruct Hc as [Hc|[<-|[]]].
  { apply in_map_iff in Hc. destruct Hc as (b & <- & Hb). specialize (Ha b Hb).
    destruct Hl as [<-|[<-|[<-|[]]]]; [exact Hn|apply lit_ok_zlit; lia|apply lit_ok_znlit; exact Ha]. }
  cbn [app] in Hl. destruct Hl as [<-|[<-|Hl]]; [exact Hn|apply lit_ok_znlit; lia|].
  apply in_map_iff in Hl. destruct Hl as (b & <- & Hb). apply lit_ok_zlit, Ha, Hb.
Qed.

Lemma nab_opt_m {A} (o : option A) : nab (opt_m o) (fun r => o = Some r).
Proof. destruct o; [apply nab_ret; reflexivity|apply nab_panic]. Qed.
Lemma nab_unwrap_ok {A} (r : A * result) : nab (unwrap_ok r) (fun a => r = (a, ROk)).
Proof. destruct r as [a [| |]]; [apply nab_ret; reflexivity|apply nab_panic|apply nab_panic]. Qed.
Lemma nab_fold_m {A B} (f : A -> B -> Prog.M A) (P : A -> Prop) (l : list B) :
  (forall a x, P a -> nab (f a x) P) -> forall a, P a -> nab (fold_m f l a) P.
Proof.
  intros Hf. induction l as [|x r IH]; intros a Ha; cbn [fold_m]; [apply nab_ret; exact Ha|].
  eapply nab_bind; [apply Hf; exact Ha|]. intros a' Ha'. apply IH. exact Ha'.
Qed.

Lemma nab_new_solver_var vars t : nab (new_solver_var vars t) (fun r => 0 < snd r).
Proof.
  unfold new_solver_var. eapply nab_bind; [apply nab_nvars|]. intros nv _. apply nab_ret.
  unfold alloc_var. cbn [snd]. rewrite app_length, repeat_length. lia.
Qed.
Lemma nab_alloc_arg_vars sm vars id : nab (alloc_arg_vars sm vars id) (fun r => 0 < snd r).
Proof.
  unfold alloc_arg_vars. eapply nab_bind; [apply nab_new_solver_var|]. intros r1 H1.
  destruct sm; try (apply nab_ret; exact H1);
    (eapply nab_bind; [apply nab_new_solver_var|]; intros r2 H2;
     eapply nab_bind; [apply nab_add; cbn [clause_ok forallb]; rewrite !lit_ok_znlit by assumption; reflexivity|];
     intros _ _; apply nab_ret; exact H1).
Qed.
Lemma nab_remove_selector e s : epos e -> 0 < s -> nab (remove_selector e s) epos.
Proof.
  intros (P1 & P2 & P3) Hs. unfold remove_selector. destruct (Nat.ltb _ _); [|apply nab_panic].
  eapply nab_bind; [apply nab_add; rewrite clause_ok_single; apply lit_ok_znlit; exact Hs|]. intros _ _.
  destruct (position _ _) as [p|]; [|apply nab_panic]. apply nab_ret.
  unfold epos, enc_with. cbn [e_a2v e_a2s e_assum]. split; [exact P1|]. split; [exact P2|].
  eapply clause_ok_incl; [apply incl_swap_remove|exact P3].
Qed.

Section DynWalk.
Variable L : Type.
Variable leqb : L -> L -> bool.
Notation fw := (fw L).
Notation oracle := dpll_oracle.

Lemma nab_update_attacks_to (af : fw) e id : epos e -> nab (update_attacks_to L af e id) epos.
Proof.
  intros He. unfold update_attacks_to. destruct (negb (e_upd e)); [apply nab_ret; exact He|].
  destruct (nth_error (e_a2s e) id) as [os|] eqn:En; [|apply nab_panic].
  eapply (nab_bind _ _ epos).
  - destruct os as [s|]; [|apply nab_ret; exact He].
    assert (Hs : 0 < s).
    { destruct He as (_ & P2 & _). apply (P2 id). unfold tbl_var. rewrite En. reflexivity. }
    eapply nab_bind; [apply nab_remove_selector; assumption|]. intros e' (Q1 & Q2 & Q3). apply nab_ret.
    unfold epos, enc_with. cbn [e_a2v e_a2s e_assum]. split; [exact Q1|]. split; [|exact Q3].
    intros i v H. apply tbl_set_none in H. exact (Q2 i v H).
  - intros e1 (Q1 & Q2 & Q3). eapply nab_bind; [apply nab_new_solver_var|]. intros [vars sv] Hsv. cbn [snd] in Hsv.
    cbv zeta. destruct (negb _); [apply nab_panic|]. cbn [enc_with e_a2v e_sem].
    destruct (tbl_var (e_a2v e1) id) as [tv|] eqn:Etv; [|apply nab_panic].
    destruct (tbl_vars (e_a2v e1) _) as [avs|] eqn:Eav; [|apply nab_panic].
    assert (Hsl : lit_ok (zlit sv) = true) by (apply lit_ok_zlit; exact Hsv).
    assert (Htv : 0 < tv) by (exact (Q1 id tv Etv)).
    assert (Hav : forall v, In v avs -> 0 < v) by (exact (tbl_vars_pos _ _ Q1 avs Eav)).
    eapply nab_bind.
    { apply nab_adds. destruct (e_sem e1); [apply co_clauses_ok|apply st_clauses_ok|apply co_clauses_ok]; assumption. }
    intros _ _. apply nab_ret. unfold epos. cbn [enc_with e_a2v e_a2s e_assum]. split; [exact Q1|]. split.
    + intros i v H. apply tbl_set_some in H. destruct H as [-> |H]; [exact Hsv|exact (Q2 i v H)].
    + rewrite clause_ok_app, Q3, clause_ok_single. exact Hsl.
Qed.
Lemma nab_fold_update_attacks_to (af : fw) ids : forall e, epos e -> nab (fold_m (update_attacks_to L af) ids e) epos.
Proof. apply nab_fold_m. intros a x Ha. apply nab_update_attacks_to. exact Ha. Qed.

Lemma nab_enc_new_argument (af : fw) e l : epos e -> nab (enc_new_argument L leqb af e l) (fun r => epos (snd r)).
Proof.
  intros He. unfold enc_new_argument. destruct (get_argument L leqb af l); [apply nab_ret; exact He|].
  destruct (max_argument_id L _) as [arg_id|]; [|apply nab_panic].
  eapply nab_bind; [apply nab_alloc_arg_vars|]. intros r Hr.
  eapply nab_bind; [|intros e4 H4; apply nab_ret; exact H4].
  apply nab_update_attacks_to. destruct He as (P1 & P2 & P3). unfold epos, enc_with. cbn [e_a2v e_a2s e_assum].
  split; [|split; [|exact P3]].
  - intros i v H. apply tbl_snoc in H. destruct H as [H|H]; [exact (P1 i v H)|]. injection H as <-. exact Hr.
  - intros i v H. apply tbl_snoc in H. destruct H as [H|H]; [exact (P2 i v H)|discriminate].
Qed.
Lemma nab_enc_remove_argument (af : fw) e l : epos e -> nab (enc_remove_argument L leqb af e l) (fun r => epos (snd (fst r))).
Proof.
  intros He. pose proof He as (P1 & P2 & P3). unfold enc_remove_argument.
  destruct (get_argument L leqb af l) as [arg_id|]; [|apply nab_ret; exact He].
  destruct (Store.remove_argument L leqb af l) as [af' [| |]]; try (apply nab_ret; exact He).
  destruct (tbl_var (e_a2v e) arg_id) as [v|] eqn:Ev; [|apply nab_panic].
  assert (He1 : epos (enc_with e (set_nth arg_id None (e_a2v e)) (e_a2s e) (e_vars e) (e_assum e))).
  { unfold epos, enc_with. cbn [e_a2v e_a2s e_assum]. split; [|split; assumption].
    intros i w H. apply tbl_set_none in H. exact (P1 i w H). }
  eapply (nab_bind _ _ epos).
  - cbn [enc_with e_a2s]. destruct (nth_error (e_a2s e) arg_id) as [[s|]|] eqn:En; [|apply nab_ret; exact He1|apply nab_panic].
    assert (Hs : 0 < s) by (apply (P2 arg_id); unfold tbl_var; rewrite En; reflexivity).
    eapply nab_bind; [apply nab_remove_selector; assumption|]. intros e' (Q1 & Q2 & Q3). apply nab_ret.
    unfold epos, enc_with. cbn [e_a2v e_a2s e_assum]. split; [exact Q1|]. split; [|exact Q3].
    intros i w H. apply tbl_set_none in H. exact (Q2 i w H).
  - intros e2 He2. destruct (Nat.ltb _ _); [|apply nab_panic].
    eapply nab_bind; [apply nab_add; rewrite clause_ok_single; apply lit_ok_zlit; exact (P1 _ _ Ev)|]. intros _ _.
    eapply nab_bind; [apply nab_fold_update_attacks_to; exact He2|]. intros e4 H4. apply nab_ret. exact H4.
Qed.
Lemma nab_enc_new_attack (af : fw) e a b : epos e -> nab (enc_new_attack L leqb af e a b) (fun r => epos (snd (fst r))).
Proof.
  intros He. unfold enc_new_attack. destruct (Store.new_attack L leqb af a b) as [af' [| |]]; [|apply nab_ret; exact He|apply nab_panic].
  destruct (get_argument L leqb af' b); [|apply nab_panic].
  eapply nab_bind; [apply nab_update_attacks_to; exact He|]. intros e' H'. apply nab_ret. exact H'.
Qed.
Lemma nab_enc_remove_attack (af : fw) e a b : epos e -> nab (enc_remove_attack L leqb af e a b) (fun r => epos (snd (fst r))).
Proof.
  intros He. unfold enc_remove_attack. destruct (Store.remove_attack L leqb af a b) as [af' [| |]]; [|apply nab_ret; exact He|apply nab_panic].
  destruct (get_argument L leqb af' b); [|apply nab_panic].
  eapply nab_bind; [apply nab_update_attacks_to; exact He|]. intros e' H'. apply nab_ret. exact H'.
Qed.
Definition st_pos (st : fw * denc * list nat) : Prop := epos (snd (fst st)).
Lemma nab_std_replay st ev : st_pos st -> nab (std_replay L leqb st ev) st_pos.
Proof.
  destruct st as [[af e] upd]. unfold st_pos. cbn [fst snd]. intros He. unfold std_replay.
  destruct ev as [l|l|x y|x y|x y z|x y z]; try (apply nab_ret; exact He).
  - eapply nab_bind; [apply nab_enc_new_argument; exact He|]. intros r Hr.
    eapply nab_bind; [apply nab_opt_m|]. intros id _. apply nab_ret. exact Hr.
  - eapply nab_bind; [apply nab_opt_m|]. intros id _. cbv zeta.
    eapply nab_bind; [apply nab_enc_remove_argument; exact He|]. intros r Hr.
    eapply nab_bind; [apply nab_unwrap_ok|]. intros p ->. apply nab_ret. exact Hr.
  - eapply nab_bind; [apply nab_enc_new_attack; exact He|]. intros r Hr.
    eapply nab_bind; [apply nab_unwrap_ok|]. intros p ->.
    eapply nab_bind; [apply nab_opt_m|]. intros id _. apply nab_ret. exact Hr.
  - eapply nab_bind; [apply nab_enc_remove_attack; exact He|]. intros r Hr.
    eapply nab_bind; [apply nab_unwrap_ok|]. intros p ->.
    eapply nab_bind; [apply nab_opt_m|]. intros id _. apply nab_ret. exact Hr.
Qed.

(* ---- the assumptions-on-attacks encoder *)
Lemma nab_att_new_argument (af : fw) e l : apos e -> nab (att_new_argument L leqb af e l) (fun r => apos (snd r)).
Proof.
  intros He. pose proof He as [P1 P2]. unfold att_new_argument. destruct (get_argument L leqb af l); [apply nab_ret; exact He|].
  destruct (a_need e || Nat.leb (a_n e) (a_next e)) eqn:En.
  { apply nab_ret. unfold apos. cbn [snd aenc_with a_a2v a_need a_next]. split; [exact P1|discriminate]. }
  apply orb_false_iff in En. destruct En as [En _]. specialize (P2 En).
  assert (G : forall vars', apos (aenc_with e (a_a2v e ++ [Some (a_next e)]) vars' (S (a_next e)) (a_n e) false)).
  { intros vars'. unfold apos. cbn [aenc_with a_a2v a_need a_next]. split; [|lia].
    intros i v H. apply tbl_snoc in H. destruct H as [H|H]; [exact (P1 i v H)|]. injection H as <-. exact P2. }
  destruct (max_argument_id L _); [|apply nab_panic]. destruct (Nat.ltb _ _); [|apply nab_panic].
  destruct (a_sem e); try (apply nab_ret; apply G). destruct (Nat.ltb _ _); [apply nab_ret; apply G|apply nab_panic].
Qed.
Lemma nab_att_remove_argument (af : fw) e l : apos e -> nab (att_remove_argument L leqb af e l) (fun r => apos (snd (fst r))).
Proof.
  intros He. pose proof He as [P1 P2]. unfold att_remove_argument.
  destruct (get_argument L leqb af l) as [id|]; [|apply nab_ret; exact He].
  destruct (Store.remove_argument L leqb af l) as [af' [| |]]; try (apply nab_ret; exact He).
  destruct (Nat.ltb id (length (a_a2v e))) eqn:Elt; [|apply nab_ret; exact He]. apply Nat.ltb_lt in Elt.
  destruct (nth id (a_a2v e) None) as [v|] eqn:Env; [|apply nab_ret; exact He].
  assert (Hv : tbl_var (a_a2v e) id = Some v) by (unfold tbl_var; rewrite (nth_error_nth' _ None Elt), Env; reflexivity).
  destruct (Nat.ltb _ _); [|apply nab_panic].
  eapply nab_bind; [apply nab_add; rewrite clause_ok_single; apply lit_ok_zlit; exact (P1 id v Hv)|]. intros _ _.
  apply nab_ret. unfold apos. cbn [fst snd aenc_with a_a2v a_need a_next]. split; [|exact P2].
  intros i w H. apply tbl_set_none in H. exact (P1 i w H).
Qed.
Lemma nab_att_replay st ev : apos (snd st) -> nab (att_replay L leqb st ev) (fun st' => apos (snd st')).
Proof.
  destruct st as [af e]. cbn [snd]. intros He. unfold att_replay.
  destruct ev as [l|l|x y|x y|x y z|x y z]; try (apply nab_ret; exact He).
  - apply nab_att_new_argument. exact He.
  - eapply nab_bind; [apply nab_att_remove_argument; exact He|]. intros r Hr.
    eapply nab_weaken; [apply nab_unwrap_ok|]. intros p ->. exact Hr.
  - eapply nab_bind; [apply nab_unwrap_ok|]. intros p _. apply nab_ret. exact He.
  - eapply nab_bind; [apply nab_unwrap_ok|]. intros p _. apply nab_ret. exact He.
Qed.

Lemma att_lit_ok n a b : 0 < b -> lit_ok (att_lit n a b) = true.
Proof. intros H. unfold att_lit. apply lit_ok_zlit. lia. Qed.
Lemma disj_of_ok n v : 0 < v -> lit_ok (disj_of n v) = true.
Proof. intros H. unfold disj_of. apply lit_ok_zlit. lia. Qed.
Ltac lits_ok :=
  cbn [clause_ok forallb];
  rewrite ?lit_ok_negate, ?att_lit_ok, ?disj_of_ok, ?lit_ok_zlit, ?lit_ok_znlit by lia; reflexivity.

Lemma nab_st_inner n a (Ha : 0 < a) bsl : (forall b, In b bsl -> 0 < b) ->
  forall cl, clause_ok cl = true -> nab (st_inner n a bsl cl) (fun c => clause_ok c = true).
Proof.
  induction bsl as [|b r IH]; intros Hb cl Hcl; cbn [st_inner]; [apply nab_ret; exact Hcl|].
  assert (H0 : 0 < b) by (apply Hb; left; reflexivity).
  eapply nab_bind; [apply nab_nvars|]. intros nv _. cbv zeta.
  eapply nab_bind; [apply nab_add; lits_ok|]. intros _ _.
  eapply nab_bind; [apply nab_add; lits_ok|]. intros _ _.
  eapply nab_bind; [apply nab_add; lits_ok|]. intros _ _.
  eapply nab_bind; [apply nab_add; lits_ok|]. intros _ _.
  apply IH; [intros x Hx; apply Hb; right; exact Hx|].
  rewrite clause_ok_app, Hcl, clause_ok_single. apply lit_ok_zlit. lia.
Qed.
Lemma nab_co_inner1 n a (Ha : 0 < a) bsl : (forall b, In b bsl -> 0 < b) ->
  forall cl, clause_ok cl = true -> nab (co_inner1 n a bsl cl) (fun c => clause_ok c = true).
Proof.
  induction bsl as [|b r IH]; intros Hb cl Hcl; cbn [co_inner1]; [apply nab_ret; exact Hcl|].
  assert (H0 : 0 < b) by (apply Hb; left; reflexivity).
  eapply nab_bind; [apply nab_nvars|]. intros nv _. cbv zeta.
  eapply nab_bind; [apply nab_add; lits_ok|]. intros _ _.
  eapply nab_bind; [apply nab_add; lits_ok|]. intros _ _.
  eapply nab_bind; [apply nab_add; lits_ok|]. intros _ _.
  eapply nab_bind; [apply nab_add; lits_ok|]. intros _ _.
  apply IH; [intros x Hx; apply Hb; right; exact Hx|].
  rewrite clause_ok_app, Hcl, clause_ok_single. apply lit_ok_zlit. lia.
Qed.
Lemma nab_co_inner2 n a (Ha : 0 < a) bsl : (forall b, In b bsl -> 0 < b) ->
  forall cl, clause_ok cl = true -> nab (co_inner2 n a bsl cl) (fun c => clause_ok c = true).
Proof.
  induction bsl as [|b r IH]; intros Hb cl Hcl; cbn [co_inner2]; [apply nab_ret; exact Hcl|].
  assert (H0 : 0 < b) by (apply Hb; left; reflexivity).
  eapply nab_bind; [apply nab_nvars|]. intros nv _. cbv zeta.
  eapply nab_bind; [apply nab_add; lits_ok|]. intros _ _.
  eapply nab_bind; [apply nab_add; lits_ok|]. intros _ _.
  eapply nab_bind; [apply nab_add; lits_ok|]. intros _ _.
  eapply nab_bind; [apply nab_add; lits_ok|]. intros _ _.
  apply IH; [intros x Hx; apply Hb; right; exact Hx|].
  rewrite clause_ok_app, Hcl, clause_ok_single. apply lit_ok_zlit. lia.
Qed.
Lemma seq1_pos n b : In b (seq 1 n) -> 0 < b.
Proof. intros H. apply in_seq in H. lia. Qed.
Lemma nab_fold_unit {B} (f : unit -> B -> Prog.M unit) (l : list B) :
  (forall x, In x l -> nab (f tt x) T) -> nab (fold_m f l tt) T.
Proof.
  induction l as [|x r IH]; intros H; cbn [fold_m]; [apply nab_ret; exact I|].
  eapply nab_bind; [apply H; left; reflexivity|]. intros [] _. apply IH. intros y Hy. apply H. right; exact Hy.
Qed.

Lemma fold_set_pos (l : list (nat * nat)) : forall t,
  (forall p, In p l -> 0 < snd p) -> (forall id v, tbl_var t id = Some v -> 0 < v) ->
  forall id v, tbl_var (fold_left (fun t p => set_nth (fst p) (Some (snd p)) t) l t) id = Some v -> 0 < v.
Proof.
  induction l as [|p r IH]; intros t Hl Ht id v H; cbn [fold_left] in H; [exact (Ht id v H)|].
  apply (IH (set_nth (fst p) (Some (snd p)) t)) in H; [exact H|intros q Hq; apply Hl; right; exact Hq|].
  intros i w Hw. apply tbl_set_some in Hw. destruct Hw as [-> |Hw]; [apply Hl; left; reflexivity|exact (Ht i w Hw)].
Qed.
Lemma fresh_a2v_pos (af : fw) id v : tbl_var (att_fresh_a2v L af) id = Some v -> 0 < v.
Proof.
  unfold att_fresh_a2v. apply fold_set_pos.
  - intros [i w] Hp. apply in_combine_r in Hp. cbn [snd]. apply in_seq in Hp. lia.
  - intros i w H. rewrite tbl_var_repeat_none in H. discriminate H.
Qed.

Lemma nab_att_update_encoding (af : fw) e : apos e -> nab (att_update_encoding L af e) apos.
Proof.
  intros He. unfold att_update_encoding. destruct (negb (a_need e)); [apply nab_ret; exact He|].
  set (n := n_arguments L af * a_num e / a_den e).
  assert (Hres : forall vars, apos (aenc_with e (att_fresh_a2v L af) vars (n_arguments L af + 1) n false)).
  { intros vars. unfold apos. cbn [aenc_with a_a2v a_need a_next]. split; [apply fresh_a2v_pos|lia]. }
  destruct (a_sem e); [| |apply nab_panic].
  - eapply nab_bind; [apply nab_new|]. intros _ _. eapply nab_bind; [apply nab_reserve|]. intros _ _.
    destruct (Nat.ltb _ _); [apply nab_panic|].
    eapply nab_bind.
    { apply nab_fold_unit. intros a Ha. apply seq1_pos in Ha.
      eapply nab_bind; [apply nab_add; lits_ok|]. intros _ _.
      eapply nab_bind; [apply (nab_co_inner1 n a Ha); [apply seq1_pos|rewrite clause_ok_single; apply lit_ok_zlit; exact Ha]|].
      intros cl Hcl. apply nab_add. exact Hcl. }
    intros _ _. eapply nab_bind; [|intros _ _; apply nab_ret; apply Hres].
    apply nab_fold_unit. intros a Ha. apply seq1_pos in Ha.
    eapply nab_bind; [apply (nab_co_inner2 n a Ha); [apply seq1_pos|rewrite clause_ok_single, lit_ok_negate; apply disj_of_ok; exact Ha]|].
    intros cl Hcl. apply nab_add. exact Hcl.
  - eapply nab_bind; [apply nab_new|]. intros _ _. eapply nab_bind; [apply nab_reserve|]. intros _ _.
    destruct (Nat.ltb _ _); [apply nab_panic|].
    eapply nab_bind; [|intros _ _; apply nab_ret; apply Hres].
    apply nab_fold_unit. intros a Ha. apply seq1_pos in Ha.
    eapply nab_bind; [apply (nab_st_inner n a Ha); [apply seq1_pos|rewrite clause_ok_single; apply lit_ok_zlit; exact Ha]|].
    intros cl Hcl. apply nab_add. exact Hcl.
Qed.

(* ---- update_encoding of either encoder, and the two queries *)
Lemma nab_update_encoding (af : fw) b : xpos (b_enc L b) -> nab (update_encoding L leqb af b) (fun r => xpos (b_enc L (snd r))).
Proof.
  intros Hx. unfold update_encoding. destruct (b_enc L b) as [e|e]; cbn [xpos] in Hx.
  - eapply nab_bind; [apply (nab_fold_m _ st_pos); [intros a x Ha; apply nab_std_replay; exact Ha|exact Hx]|].
    intros [[af' e'] upd] He'. unfold st_pos in He'. cbn [fst snd] in He'.
    eapply nab_bind; [apply nab_fold_update_attacks_to; exact He'|]. intros e'' He''. apply nab_ret. exact He''.
  - eapply nab_bind; [apply (nab_fold_m _ (fun st => apos (snd st))); [intros a x Ha; apply nab_att_replay; exact Ha|exact Hx]|].
    intros st Hst. eapply nab_bind; [apply nab_att_update_encoding; exact Hst|]. intros e' He'. apply nab_ret. exact He'.
Qed.
Lemma att_assumptions_ok (af : fw) e asm : att_assumptions L af e = Some asm -> clause_ok asm = true.
Proof.
  unfold att_assumptions. destruct (att_indices e _) as [idx|]; [|discriminate]. intros H. apply some_inj in H. subst asm.
  apply clause_ok_map. intros i _. destruct (memb i idx); [apply lit_ok_zlit|apply lit_ok_znlit]; lia.
Qed.
Lemma nab_x_assumptions (af : fw) x : xpos x -> nab (x_assumptions L af x) (fun a => clause_ok a = true).
Proof.
  intros Hx. destruct x as [e|e]; cbn [x_assumptions xpos] in *.
  - apply nab_ret. exact (proj2 (proj2 Hx)).
  - eapply nab_weaken; [apply nab_opt_m|]. intros a. apply att_assumptions_ok.
Qed.
Lemma nab_x_arg_var (af : fw) x l : xpos x -> nab (x_arg_var L leqb af x l) (fun v => 0 < v).
Proof.
  intros Hx. unfold x_arg_var. eapply nab_bind; [apply nab_opt_m|]. intros id _.
  eapply nab_weaken; [apply nab_opt_m|]. intros v Hv. destruct x as [e|e]; cbn [x_a2v xpos] in *; [exact (proj1 Hx _ _ Hv)|exact (proj1 Hx _ _ Hv)].
Qed.
Definition spos (s : dsolver L) : Prop := xpos (b_enc L (s_buf L s)).
Lemma nab_dc_query (s : dsolver L) l : spos s -> nab (dc_query oracle L leqb s l) (fun r => spos (fst r)).
Proof.
  intros Hs. unfold dc_query. destruct (is_cred L leqb (s_buf L s) l) as [[b|] [e|]]; try (apply nab_ret; exact Hs).
  all: eapply nab_bind; [apply nab_update_encoding; exact Hs|]; intros [af buf] Hb; cbn [snd] in Hb;
    eapply nab_bind; [apply nab_x_assumptions; exact Hb|]; intros asm Hasm;
    eapply nab_bind; [apply nab_x_arg_var; exact Hb|]; intros v Hv;
    (eapply nab_bind; [apply nab_solve; rewrite clause_ok_app, Hasm, clause_ok_single; apply lit_ok_zlit; exact Hv|]);
    intros [m|] _; [eapply nab_bind; [apply nab_opt_m|]; intros acc _|]; apply nab_ret; exact Hb.
Qed.
Lemma nab_st_ds_query (s : dsolver L) l : spos s -> nab (st_ds_query oracle L leqb s l) (fun r => spos (fst r)).
Proof.
  intros Hs. unfold st_ds_query. destruct (is_skep L leqb (s_buf L s) l) as [[b|] [e|]]; try (apply nab_ret; exact Hs).
  all: eapply nab_bind; [apply nab_update_encoding; exact Hs|]; intros [af buf] Hb; cbn [snd] in Hb;
    eapply nab_bind; [apply nab_x_assumptions; exact Hb|]; intros asm Hasm;
    eapply nab_bind; [apply nab_x_arg_var; exact Hb|]; intros v Hv;
    (eapply nab_bind; [apply nab_solve; rewrite clause_ok_app, Hasm, clause_ok_single; apply lit_ok_znlit; exact Hv|]);
    intros [m|] _;
    [eapply nab_bind; [apply nab_opt_m|]; intros acc _
    |eapply nab_bind; [apply nab_opt_m|]; intros id _; eapply nab_bind; [apply nab_opt_m|]; intros refused _];
    apply nab_ret; exact Hb.
Qed.

(* ---- the dynamic preferred solver *)
Definition kok (k : dcomp) : Prop := lit_ok (k_sel k) = true.
Lemma dyn_split_ok (af : fw) e cur sp : epos e -> dyn_split L af e cur = Some sp ->
  clause_ok (fst sp) = true /\ clause_ok (snd sp) = true.
Proof.
  intros (P1 & _) H. unfold dyn_split in H.
  destruct (tbl_vars (e_a2v e) (filter (fun i => memb i cur) _)) as [i|] eqn:Ei; [|discriminate].
  destruct (tbl_vars (e_a2v e) (filter (fun i => negb (memb i cur)) _)) as [o|] eqn:Eo; [|discriminate].
  apply some_inj in H. subst sp. cbn [fst snd].
  split; apply clause_ok_map; intros x Hx; apply lit_ok_zlit;
    [exact (tbl_vars_pos _ _ P1 i Ei x Hx)|exact (tbl_vars_pos _ _ P1 o Eo x Hx)].
Qed.
Lemma nab_k_solve e a : epos e -> clause_ok a = true -> nab (k_solve oracle e a) T.
Proof.
  intros (_ & _ & P3) Ha. unfold k_solve. eapply nab_bind; [apply nab_solve; rewrite clause_ok_app, Ha, P3; reflexivity|].
  intros r _. apply nab_ret. exact I.
Qed.
Lemma nab_k_new_search e k : epos e -> kok k -> nab (k_new_search oracle e k) kok.
Proof.
  intros He Hk. unfold k_new_search. eapply nab_bind; [apply nab_k_solve; [exact He|rewrite clause_ok_single, lit_ok_negate; exact Hk]|].
  intros r _. apply nab_ret. destruct r; exact Hk.
Qed.
Lemma nab_k_discard (af : fw) e k : epos e -> kok k -> nab (k_discard L af e k) T.
Proof.
  intros He Hk. unfold k_discard. eapply nab_bind; [apply nab_opt_m|]. intros sp Hsp.
  destruct (dyn_split_ok af e _ sp He Hsp) as [_ H2]. apply nab_add. rewrite clause_ok_app, H2, clause_ok_single. exact Hk.
Qed.
Lemma nab_k_compute_next (af : fw) e k : epos e -> kok k -> nab (k_compute_next oracle L af e k) kok.
Proof.
  intros He Hk. unfold k_compute_next. destruct (k_state k).
  - eapply nab_bind; [apply nab_k_discard; assumption|]. intros _ _. apply nab_k_new_search; assumption.
  - eapply nab_bind; [apply nab_opt_m|]. intros sp Hsp. destruct (dyn_split_ok af e _ sp He Hsp) as [H1 H2].
    eapply nab_bind; [apply nab_add; rewrite clause_ok_app, H2, clause_ok_single; exact Hk|]. intros _ _.
    eapply nab_bind; [apply nab_k_solve; [exact He|rewrite clause_ok_app, H1, clause_ok_single, lit_ok_negate; exact Hk]|].
    intros r _. apply nab_ret. destruct r; exact Hk.
  - apply nab_k_new_search; assumption.
  - apply nab_panic.
  - apply nab_ret. exact Hk.
Qed.
Lemma nab_pr_loop fuel (af : fw) e arg_id : epos e -> forall k fm ia ms, kok k ->
  nab (pr_loop oracle L fuel af e arg_id k fm ia ms) (fun res => kok (fst (fst (fst (fst res))))).
Proof.
  intros He. induction fuel as [|f IH]; intros k fm ia ms Hk; cbn [pr_loop]; [apply nab_oof|].
  eapply nab_bind; [apply nab_k_compute_next; assumption|]. intros k' Hk'. cbv zeta.
  destruct (k_state k').
  - destruct (negb _); [apply nab_ret; exact Hk'|apply IH; exact Hk'].
  - destruct (memb arg_id (k_cur k')); [|apply IH; exact Hk'].
    eapply nab_bind; [apply nab_k_discard; assumption|]. intros _ _. apply IH. exact Hk'.
  - apply IH. exact Hk'.
  - apply nab_ret. exact Hk'.
  - apply IH. exact Hk'.
Qed.
Lemma nab_pr_ds_query fuel (s : dsolver L) l : spos s -> nab (pr_ds_query oracle L leqb fuel s l) (fun r => spos (fst r)).
Proof.
  intros Hs. unfold pr_ds_query. destruct (is_skep L leqb (s_buf L s) l) as [[b|] [e|]]; try (apply nab_ret; exact Hs).
  all: eapply nab_bind; [apply nab_update_encoding; exact Hs|]; intros [af buf] Hb; cbn [snd] in Hb;
    destruct (b_enc L buf) as [e0|e0] eqn:Eb; [|apply nab_panic]; cbn [xpos] in Hb;
    eapply nab_bind; [apply nab_nvars|]; intros nv _;
    eapply nab_bind; [apply nab_opt_m|]; intros arg_id _;
    (eapply nab_bind; [apply nab_pr_loop; [exact Hb|unfold kok; cbn [k_sel]; apply lit_ok_zlit; lia]|]);
    intros [[[[k result] acc_b] ref_b] ext] Hk; cbn [fst] in Hk;
    eapply nab_bind; [apply nab_opt_m|]; intros acc _;
    eapply nab_bind; [apply nab_opt_m|]; intros refused _;
    (eapply nab_bind; [apply nab_add; rewrite clause_ok_single; exact Hk|]); intros _ _;
    apply nab_ret; unfold spos; cbn [fst s_buf buf_push buf_with b_enc]; rewrite Eb; exact Hb.
Qed.

(* ---- every kind *)
Theorem nab_dyn_query thr fuel (s : dsolver L) q cert l :
  spos s ->
  (forall sm, s_kind L s = KDummy sm ->
     1 <= thr /\ allgood (view_of_fw (s_af L s)) /\
     forall id, get_argument L leqb (s_af L s) l = Some id -> mgood (view_of_fw (s_af L s)) [id]) ->
  nab (dyn_query oracle L leqb thr fuel s q cert l) (fun r => spos (fst r)).
Proof.
  intros Hs Hd. unfold dyn_query.
  assert (Hstrip : forall m : Prog.M (dsolver L * answer_t), nab m (fun r => spos (fst r)) ->
            nab (r <- m ;; ret (fst r, if cert then snd r else (fst (snd r), None))) (fun r => spos (fst r))).
  { intros m Hm. eapply nab_bind; [exact Hm|]. intros r Hr. apply nab_ret. exact Hr. }
  destruct (s_kind L s) as [| | |num den|num den|sm] eqn:Ek; destruct q; try apply nab_panic;
    try (apply Hstrip; first [apply nab_dc_query|apply nab_st_ds_query|apply nab_pr_ds_query]; exact Hs).
  all: destruct (Hd sm eq_refl) as (Ht & Hall & Hm);
    (eapply nab_bind; [apply nab_opt_m|]); intros id Hid;
    (eapply nab_bind; [apply (nab_run_query thr Ht); [exact Hall|intros _; exact (Hm id Hid)]|]); intros o _;
    (eapply (nab_bind _ _ (fun _ => True)); [|intros a _; apply nab_ret; exact Hs]);
    unfold outcome_answer; destruct o; [apply nab_panic|apply nab_ret; exact I].
Qed.
End DynWalk.

(* ---- the end-to-end corollaries for the six kinds *)
From Crusta Require Import Proofs.DynDefs Proofs.DynProofs Proofs.DynFunDefs Proofs.DynInv Proofs.DynFun Proofs.DynTotal
  Proofs.DynPref Proofs.DynAttSafe Proofs.DynAttFun Proofs.DynCalls Proofs.DummyTop Proofs.GroundedProofs.

Section DynFinal.
Variable L : Type.
Variable leqb : L -> L -> bool.
Hypothesis leqb_spec : forall x y, leqb x y = true <-> x = y.

Notation fresh := (DynDefs.fresh_fw L leqb).
Notation run_ops := (Store.run_ops L leqb).
Notation spos := (spos L).

Lemma tbl_nil id : tbl_var [] id = None.
Proof. destruct id; reflexivity. Qed.
Lemma dyn_new_good k ps0 s ps : dyn_new L leqb k ps0 = Done s ps ->
  spos s /\ (DynProofs.not_dummy k -> Iok ps) /\ (Iok ps0 -> Iok ps).
Proof.
  assert (E0 : forall sm b, epos (enc_enable (enc_new sm) b)).
  { intros sm b. unfold epos, enc_enable, enc_new. cbn [e_a2v e_a2s e_assum].
    repeat split; try (intros id v H; rewrite tbl_nil in H; discriminate H). }
  assert (A0 : forall sm n d, apos (aenc_new sm n d)).
  { intros sm n d. unfold apos, aenc_new. cbn [a_a2v a_need]. split; [intros id v H; rewrite tbl_nil in H; discriminate H|discriminate]. }
  unfold dyn_new, bind, new_solver, ret. intros H.
  destruct k; injection H as <- <-; unfold OracleGlue.spos; cbn [s_buf b_enc xpos];
    (split; [first [apply E0|apply A0|exact (E0 DCO true)]|]); split; intros; try reflexivity; try contradiction; assumption.
Qed.
Lemma dyn_update_enc (s : dsolver L) o : b_enc L (s_buf L (fst (dyn_update L leqb s o))) = b_enc L (s_buf L s).
Proof.
  unfold dyn_update. pose proof (buf_update_spec L leqb (s_buf L s) o) as Hb. cbv zeta in Hb.
  destruct Hb as (_ & _ & _ & Hen & _).
  destruct (s_kind L s); try (destruct (buf_update L leqb (s_buf L s) o); cbn [fst snd s_buf] in *; exact Hen).
  destruct (step L leqb (s_af L s) o). reflexivity.
Qed.

Lemma vreach_good thr k s ps os : vreach L leqb dpll_oracle thr k s ps os -> DynProofs.not_dummy k -> spos s /\ Iok ps.
Proof.
  induction 1 as [ps0 s ps Hn|s ps os o Hr IH|s ps os fuel q cert l s' a ps' Hr IH Hq]; intros Hk.
  - destruct (dyn_new_good k ps0 s ps Hn) as (H1 & H2 & _). auto.
  - destruct (IH Hk) as [H1 H2]. split; [|exact H2]. unfold OracleGlue.spos. rewrite dyn_update_enc. exact H1.
  - destruct (IH Hk) as [H1 H2].
    pose proof (reach_frame_inv L leqb _ _ _ (vreach_reach L leqb _ _ _ _ _ _ Hr)) as [Hkind _ _ _].
    assert (Hn : nab (dyn_query dpll_oracle L leqb thr fuel s q cert l) (fun r => spos (fst r))).
    { apply nab_dyn_query; [exact H1|]. intros sm E. rewrite E in Hkind. subst k. exact (False_ind _ Hk). }
    specialize (Hn ps H2). rewrite Hq in Hn. cbn [fst] in Hn. tauto.
Qed.
Lemma areach_good k s ps os : areach L leqb dpll_oracle k s ps os -> att_kind k -> spos s /\ Iok ps.
Proof.
  induction 1 as [ps0 s ps Hn|s ps os o Hr IH|s ps os thr fuel q cert l s' a ps' Hr IH Hq]; intros Hk.
  - destruct (dyn_new_good k ps0 s ps Hn) as (H1 & H2 & _). split; [exact H1|]. apply H2. destruct k; try destruct Hk; exact I.
  - destruct (IH Hk) as [H1 H2]. split; [|exact H2]. unfold OracleGlue.spos. rewrite dyn_update_enc. exact H1.
  - destruct (IH Hk) as [H1 H2].
    pose proof (reach_frame_inv L leqb _ _ _ (areach_reach L leqb _ _ _ _ _ Hr)) as [Hkind _ _ _].
    assert (Hn : nab (dyn_query dpll_oracle L leqb thr fuel s q cert l) (fun r => spos (fst r))).
    { apply nab_dyn_query; [exact H1|]. intros sm E. rewrite E in Hkind. subst k. exact (False_ind _ Hk). }
    specialize (Hn ps H2). rewrite Hq in Hn. cbn [fst] in Hn. tauto.
Qed.

(* complete (DC) and stable (DC, DS) dynamic solvers, standard encoder: the query RETURNS the right answer *)
Theorem std_unconditional thr k s ps os fuel q cert l id :
  vreach L leqb dpll_oracle thr k s ps os ->
  (k = KCo /\ q = QDC) \/ (k = KSt /\ (q = QDC \/ q = QDS)) ->
  get_argument L leqb (run_ops fresh os) l = Some id ->
  exists s' b c ps', dyn_query dpll_oracle L leqb thr fuel s q cert l ps = Done (s', (b, c)) ps' /\
    DynFun.answer_ok (DynFun.sem_of k) (DynFun.qpol q) cert (CompProofs.af_of (run_ops fresh os)) id (b, c).
Proof.
  intros Hv Hkq Hl.
  pose proof (dyn_functional_run L leqb leqb_spec dpll_oracle thr k s ps os fuel q cert l id dpll_oracle_valid Hv Hkq Hl) as Hr.
  assert (Hnd : DynProofs.not_dummy k) by (destruct Hkq as [[-> _]|[-> _]]; exact I).
  destruct (vreach_good thr k s ps os Hv Hnd) as [H1 H2].
  pose proof (reach_frame_inv L leqb _ _ _ (vreach_reach L leqb _ _ _ _ _ _ Hv)) as [Hkind _ _ _].
  assert (Hn : nab (dyn_query dpll_oracle L leqb thr fuel s q cert l) (fun r => spos (fst r))).
  { apply nab_dyn_query; [exact H1|]. intros sm E. rewrite E in Hkind. subst k. exact (False_ind _ Hnd). }
  specialize (Hn ps H2).
  destruct (dyn_query dpll_oracle L leqb thr fuel s q cert l ps) as [[s' [b c]] ps'|ps'|ps'|ps']; try contradiction.
  exists s', b, c, ps'. auto.
Qed.

(* the dynamic preferred solver (DS), with fuel at least the bound of the search *)
Theorem pr_unconditional thr s ps os fuel cert l id :
  vreach L leqb dpll_oracle thr KPr s ps os ->
  get_argument L leqb (run_ops fresh os) l = Some id ->
  DynPref.pr_dyn_bound L (run_ops fresh os) <= fuel ->
  exists s' b c ps', dyn_query dpll_oracle L leqb thr fuel s QDS cert l ps = Done (s', (b, c)) ps' /\
    DynFun.answer_ok PR false cert (CompProofs.af_of (run_ops fresh os)) id (b, c).
Proof.
  intros Hv Hl Hf.
  pose proof (pr_functional_run L leqb leqb_spec dpll_oracle dpll_oracle_valid thr s ps os fuel cert l id Hv Hl) as Hr.
  destruct (vreach_good thr KPr s ps os Hv I) as [H1 H2].
  pose proof (reach_frame_inv L leqb _ _ _ (vreach_reach L leqb _ _ _ _ _ _ Hv)) as [Hkind _ _ _].
  assert (Hn : nab (dyn_query dpll_oracle L leqb thr fuel s QDS cert l) (fun r => spos (fst r))).
  { apply nab_dyn_query; [exact H1|]. intros sm E. rewrite Hkind in E. discriminate E. }
  specialize (Hn ps H2).
  destruct (dyn_query dpll_oracle L leqb thr fuel s QDS cert l ps) as [[s' [b c]] ps'|ps'|ps'|ps']; try contradiction.
  - exists s', b, c, ps'. auto.
  - exfalso. lia.
Qed.

(* the two solvers with assumptions on attacks *)
Theorem att_unconditional k s ps os thr fuel q cert l id :
  areach L leqb dpll_oracle k s ps os -> att_kind k -> factor_ok k -> att_supported k q ->
  get_argument L leqb (run_ops fresh os) l = Some id ->
  exists s' a ps', dyn_query dpll_oracle L leqb thr fuel s q cert l ps = Done (s', a) ps' /\
    acc_spec (kind_spec_sem k) (query_pol q) cert (GroundedProofs.af_of L (run_ops fresh os)) [id] a /\
    areach L leqb dpll_oracle k s' ps' os.
Proof.
  intros Hr Hk Hf Hs Hl.
  pose proof (att_query_total L leqb leqb_spec dpll_oracle k s ps os thr fuel q cert l id dpll_oracle_valid Hr Hk Hf Hs Hl) as Ht.
  destruct (areach_good k s ps os Hr Hk) as [H1 H2].
  pose proof (reach_frame_inv L leqb _ _ _ (areach_reach L leqb _ _ _ _ _ Hr)) as [Hkind _ _ _].
  assert (Hn : nab (dyn_query dpll_oracle L leqb thr fuel s q cert l) (fun r => spos (fst r))).
  { apply nab_dyn_query; [exact H1|]. intros sm E. rewrite E in Hkind. subst k. exact (False_ind _ Hk). }
  specialize (Hn ps H2).
  assert (Hc : one_call_kind (s_kind L s)) by (rewrite Hkind; destruct k; try destruct Hk; exact I).
  pose proof (dyn_query_calls L leqb dpll_oracle thr fuel s q cert l ps Hc) as Hof.
  destruct (dyn_query dpll_oracle L leqb thr fuel s q cert l ps) as [[s' a] ps'|ps'|ps'|ps']; try contradiction.
  exists s', a, ps'. tauto.
Qed.

(* the recompute wrapper: from any program state whose session holds well-formed clauses *)
Theorem dummy_unconditional sm s os thr fuel q cert l id ps :
  DynDefs.reach L leqb (KDummy sm) s os -> 1 <= thr ->
  q <> QSE -> supported sm q -> enc_ok sm AuxCo ->
  get_argument L leqb (run_ops fresh os) l = Some id ->
  fuel_ok sm AuxCo (query_comps sm q cert (view_of_fw (run_ops fresh os)) [id]) fuel ->
  cnf_ok (rclauses (sess ps)) = true ->
  exists a ps', dyn_query dpll_oracle L leqb thr fuel s q cert l ps = Done (s, a) ps' /\
    acc_spec sm (SolverTop.qpol q) cert (GroundedProofs.af_of L (run_ops fresh os)) [id] a /\
    calls ps' <= calls ps + total_bound sm AuxCo (query_comps sm q cert (view_of_fw (run_ops fresh os)) [id]) /\
    cnf_ok (rclauses (sess ps')) = true.
Proof.
  intros Hr Ht Hq Hs He Hl Hf H0.
  pose proof (dummy_query_correct L leqb leqb_spec sm s os Hr dpll_oracle thr fuel q cert l id ps
                dpll_oracle_valid Ht (conj Hq (conj Hs He)) Hl) as R. cbv zeta in R.
  pose proof (DynProofs.reach_frame_inv L leqb _ s os Hr) as [Hk _ _ _].
  pose proof (DynProofs.dummy_framework L leqb sm s os Hr) as Haf.
  pose proof (view_good_store L leqb leqb_spec (run_ops fresh os) (history_reachable L leqb os)) as Hvg.
  assert (Hsp : spos s \/ True) by (right; exact I).
  assert (Hn : nab (dyn_query dpll_oracle L leqb thr fuel s q cert l) (fun _ => True)).
  { unfold dyn_query. rewrite Hk.
    assert (G : nab (id0 <- opt_m (get_argument L leqb (s_af L s) l) ;;
                     o <- run_query dpll_oracle thr fuel sm q cert AuxCo (view_of_fw (s_af L s)) [id0] ;;
                     a <- outcome_answer o ;; ret (s, a)) (fun _ => True)).
    { eapply nab_bind; [apply nab_opt_m|]. intros id0 Hid0. rewrite Haf in *.
      eapply nab_bind.
      { apply (nab_run_query thr Ht); [exact (good_view_allgood _ _ Hvg)|]. intros _.
        apply (good_view_mgood _ _ [id0] Hvg). intros x [<-|[]]. exact (get_argument_arg L leqb leqb_spec os l id0 Hid0). }
      intros o _. eapply (nab_bind _ _ (fun _ => True)); [|intros a _; apply nab_ret; exact I].
      unfold outcome_answer. destruct o; [apply nab_panic|apply nab_ret; exact I]. }
    destruct q; [congruence|exact G|exact G]. }
  specialize (Hn ps H0). unfold run_ok in R.
  destruct (dyn_query dpll_oracle L leqb thr fuel s q cert l ps) as [[s' a] ps'|ps'|ps'|ps']; try contradiction.
  - destruct R as [[R1 R2] R3]. cbn [fst snd] in R1, R2. subst s'. exists a, ps'. tauto.
  - destruct R as [_ R]. exfalso. exact (R Hf).
Qed.

End DynFinal.
